/-
C05 — the bytes validators sign bind every value the remote bridge contract is handed;
message ids are unique across all queues and strictly increase.

Model: `Model/SignBytes.lean` on top of the ABI encoder model `Model/Abi.lean`; the only facts
used about the encoder are `Abi.encodeArgs_injective` / `Abi.calldata_injective` /
`Abi.tuple_head_length` (`Props/Abi.lean`).

Hashing.  keccak256 is an abstract `H : List UInt8 → Nat`; the 32-byte digest is
`digest H b = H b % 2^256`.  A digest is never injective (`digest_not_injective`, pigeonhole), so
neither `Function.Injective (digest H)` nor "… ∨ some collision exists somewhere" may appear in a
statement: the first is unsatisfiable, the second is always true.  Collision freedom is an
EXTERNAL ASSUMPTION that enters only pointwise, for exactly the two pre-images a statement is
about:
* as a hypothesis `NoColl H a b` (digests equal → byte strings equal), or
* as the local disjunct `CollAt H a b` (`a ≠ b` and their digests are equal) of a conclusion.
Both are about two named byte strings; `¬ NoColl H a b ↔ CollAt H a b`.

Layers.  ABI level (`…Fields`): per scheme "equal signing bytes ⇒ every field equal (modulo the
two documented defaults) ⇒ equal delivered argument list".  Go level (`GoItem`): one theorem over
all action types and batches on the real entry points `goSignBytes` / `goBatchCheckpoint`,
including their `panic` / `none` branches.  Ids: statements about the ids RETURNED along arbitrary
histories (`freshIds`, `idTrace`), with the state fields tied to the history; `jqStep` (ids and stored
messages together) ties the `id` field that is hashed to the id `Put` returned
(`queued_messages_never_share_signing_bytes`).

The estimate default.  `estimate = 0` is signed as 300000 and nothing stops validators from signing before an
estimate is elected, so "the signing bytes depend on the elected gas estimate" is FALSE for items that are
signable but not elected (`elected_estimate_clause_false_before_election`, a finding).  The delivered-call
theorems therefore carry the hypothesis `itemElected` (a statement about the item's `estimate` field), which
is DISCHARGED from the executable queue model for everything /repo offers to relayers
(`offered_message_is_elected`, `relayed_messages_digest_binds_delivered`; imports `Props/C14.lean`).

NOT MODELLED: the other implementers of `Keccak256WithSignedMessage` — `ValidatorBalancesAttestation`,
`ReferenceBlockAttestation` (string hashes of Paloma-internal attestation requests, enqueued with
`RequireSignatures: false`, nothing is delivered to a remote contract), consensus `Batch` (returns nil) and
the test-only `SimpleMessage`.
-/
import PalomaModel.Model.SignBytes
import PalomaModel.Props.Abi
import PalomaModel.Props.C14

namespace Paloma.SignBytes
open Paloma.Abi

/-- the two byte strings do not collide under the digest -/
def NoColl (H : Hash) (a b : Bytes) : Prop := digest H a = digest H b → a = b

/-- the two byte strings ARE a collision of the digest (local: about `a` and `b` only) -/
def CollAt (H : Hash) (a b : Bytes) : Prop := a ≠ b ∧ digest H a = digest H b

/-! ### normal forms: a message up to the two documented signing defaults

`estimate = 0` is signed as 300000 (`effEstimate`), `Fees = nil` as (100000, 100000, 100000)
(`feesOrDefault`).  `X.norm` replaces the field by what is signed and leaves every other field
alone; `X.norm f = X.norm g` says: ALL fields of the two records agree, the defaulted one up to
its default.  The `…_mustBind_eq_iff` theorems show that the hand-written `mustBind` lists say
exactly this — no field of a record is missing from its list. -/

def UV.norm (f : UVFields) : UVFields := { f with estimate := effEstimate f.estimate }
def SLC.norm (f : SLCFields) : SLCFields := { f with fees := some (feesOrDefault f.fees) }
def USC.norm (f : USCFields) : USCFields := { f with fees := some (feesOrDefault f.fees) }
def CH.norm (f : CHFields) : CHFields := { f with estimate := effEstimate f.estimate }
def Batch.norm (f : BatchFields) : BatchFields := { f with estimate := effEstimate f.estimate }

/-- `bytes.Repeat` with a negative count: the only way signing (and `VerifyAgainstTX`) panics -/
def senderTooLong (m : GoMsg) : Bool :=
  match m.action with
  | .submitLogicCall _ _ _ s _ => decide (s.length > 32)
  | .uploadUserSmartContract _ _ _ s _ => decide (s.length > 32)
  | _ => false

/-! ## helper lemmas -/
section Lemmas

theorem U64_lt_W256 : U64 < W256 := by decide
theorem U64_pos : 0 < U64 := by decide

theorem noColl_or_collAt (H : Hash) (a b : Bytes) : NoColl H a b ∨ CollAt H a b := by
  by_cases h : a = b
  · exact .inl fun _ => h
  · by_cases hd : digest H a = digest H b
    · exact .inr ⟨h, hd⟩
    · exact .inl fun e => absurd e hd

theorem not_noColl_iff_collAt (H : Hash) (a b : Bytes) : ¬ NoColl H a b ↔ CollAt H a b := by
  constructor
  · intro h
    rcases noColl_or_collAt H a b with h1 | h1
    · exact absurd h1 h
    · exact h1
  · rintro ⟨hne, hd⟩ h
    exact hne (h hd)

theorem digest_lt (H : Hash) (b : Bytes) : digest H b < W256 :=
  Nat.mod_lt _ (by decide)

/-! ### value shapes -/

theorem map_word_inj : ∀ {a b : List Nat}, a.map V.word = b.map V.word → a = b
  | [], [], _ => rfl
  | [], _ :: _, h => by simp at h
  | _ :: _, [], h => by simp at h
  | x :: a, y :: b, h => by
    simp only [List.map_cons, List.cons.injEq, V.word.injEq] at h
    rw [h.1, map_word_inj h.2]

theorem words_inj {a b : List Nat} (h : words a = words b) : a = b := by
  unfold words at h
  injection h with h
  exact map_word_inj h

theorem callV_inj {a b : Nat × Bytes} (h : callV a = callV b) : a = b := by
  unfold callV at h
  simp only [V.seq.injEq, List.cons.injEq, V.word.injEq, V.bytes.injEq, and_true] at h
  exact Prod.ext h.1 h.2

theorem map_callV_inj : ∀ {a b : List (Nat × Bytes)}, a.map callV = b.map callV → a = b
  | [], [], _ => rfl
  | [], _ :: _, h => by simp at h
  | _ :: _, [], h => by simp at h
  | x :: a, y :: b, h => by
    simp only [List.map_cons, List.cons.injEq] at h
    rw [callV_inj h.1, map_callV_inj h.2]

theorem all_hasType_address : ∀ (l : List Nat), l.all (fun a => decide (a < W160)) = true →
    (l.map V.word).all (hasType .address) = true
  | [], _ => rfl
  | x :: l, h => by
    simp only [List.all_cons, Bool.and_eq_true, decide_eq_true_eq] at h
    simp only [List.map_cons, List.all_cons, Bool.and_eq_true]
    exact ⟨by simp [hasType, h.1], all_hasType_address l h.2⟩

theorem all_hasType_uint : ∀ (l : List Nat), l.all (fun a => decide (a < W256)) = true →
    (l.map V.word).all (hasType .uint256) = true
  | [], _ => rfl
  | x :: l, h => by
    simp only [List.all_cons, Bool.and_eq_true, decide_eq_true_eq] at h
    simp only [List.map_cons, List.all_cons, Bool.and_eq_true]
    exact ⟨by simp [hasType, h.1], all_hasType_uint l h.2⟩

theorem hasType_addresses (l : List Nat) (h : l.all (fun a => decide (a < W160)) = true)
    (hl : l.length < W256) : hasType (.array .address) (words l) = true := by
  simp [words, hasType, hl, all_hasType_address l h]

theorem hasType_uints (l : List Nat) (h : l.all (fun a => decide (a < W256)) = true)
    (hl : l.length < W256) : hasType (.array .uint256) (words l) = true := by
  simp [words, hasType, hl, all_hasType_uint l h]

theorem all_hasType_calls : ∀ (l : List (Nat × Bytes)),
    l.all (fun c => decide (c.1 < W160) && decide (c.2.length < W256)) = true →
    (l.map callV).all (hasType callTy) = true
  | [], _ => rfl
  | x :: l, h => by
    simp only [List.all_cons, Bool.and_eq_true, decide_eq_true_eq] at h
    simp only [List.map_cons, List.all_cons, Bool.and_eq_true]
    exact ⟨by simp [callV, callTy, hasType, hasTypes, h.1.1, h.1.2], all_hasType_calls l h.2⟩

theorem hasType_calls (l : List (Nat × Bytes))
    (h : l.all (fun c => decide (c.1 < W160) && decide (c.2.length < W256)) = true)
    (hl : l.length < W256) : hasType (.array callTy) (.seq (l.map callV)) = true := by
  simp [hasType, hl, all_hasType_calls l h]

theorem fees_lt (o : Option Fees) (h : feesWf o = true) :
    (feesOrDefault o).relayer < W256 ∧ (feesOrDefault o).community < W256 ∧
    (feesOrDefault o).security < W256 := by
  cases o with
  | none => decide
  | some x =>
    simp only [feesWf, Bool.and_eq_true, decide_eq_true_eq] at h
    have := U64_lt_W256
    simp only [feesOrDefault]
    omega

theorem effEstimate_lt (e : Nat) (h : e < U64) : effEstimate e < W256 := by
  unfold effEstimate
  have := U64_lt_W256
  split
  · decide
  · omega

theorem hasTypeArgs_cons (t : Ty) (ts : List Ty) (v : V) (vs : List V) :
    hasTypeArgs (t :: ts) (v :: vs) = (hasType t v && hasTypeArgs ts vs) := by
  simp [hasTypeArgs, hasType, hasTypes]

theorem effEstimate_ne_zero (e : Nat) : effEstimate e ≠ 0 := by
  unfold effEstimate; split <;> omega

/-! ### well-typedness of the packed argument lists -/

theorem uv_cp_typed (f : UVFields) (h : UV.wf f = true) :
    hasTypeArgs UV.cpTys (UV.cpVals f) = true := by
  simp only [UV.wf, Bool.and_eq_true, decide_eq_true_eq] at h
  obtain ⟨⟨⟨⟨⟨⟨⟨h1, h2⟩, h3⟩, h4⟩, h5⟩, h6⟩, -⟩, -⟩ := h
  simp [hasTypeArgs, UV.cpTys, UV.cpVals, hasType, hasTypes, hasType_addresses _ h1 h2,
    hasType_uints _ h3 h4, h5, h6]

theorem uv_signed_typed (H : Hash) (f : UVFields) (h : UV.wf f = true) :
    hasTypeArgs UV.signedTys (UV.signedVals H f) = true := by
  simp only [UV.wf, Bool.and_eq_true, decide_eq_true_eq] at h
  simp [hasTypeArgs, UV.signedTys, UV.signedVals, hasType, hasTypes, digest_lt, h.1.2,
    effEstimate_lt _ h.2]

theorem slc_signed_typed (f : SLCFields) (h : SLC.wf f = true) :
    hasTypeArgs SLC.signedTys (SLC.signedVals f) = true := by
  simp only [SLC.wf, Bool.and_eq_true, decide_eq_true_eq] at h
  obtain ⟨⟨⟨⟨⟨⟨⟨h1, h2⟩, h3⟩, h4⟩, h5⟩, h6⟩, h7⟩, h8⟩ := h
  have hf := fees_lt _ h3
  simp [hasTypeArgs, SLC.signedTys, SLC.signedVals, callTy, feeTy, callV, feeV, hasType, hasTypes,
    h1, h2, h4, h5, h6, h7, h8, hf.1, hf.2.1, hf.2.2]

theorem usc_signed_typed (f : USCFields) (h : USC.wf f = true) :
    hasTypeArgs USC.signedTys (USC.signedVals f) = true := by
  simp only [USC.wf, Bool.and_eq_true, decide_eq_true_eq] at h
  obtain ⟨⟨⟨⟨⟨⟨⟨h1, h2⟩, h3⟩, h4⟩, h5⟩, h6⟩, h7⟩, h8⟩ := h
  have hf := fees_lt _ h3
  simp [hasTypeArgs, USC.signedTys, USC.signedVals, feeTy, feeV, hasType, hasTypes,
    h1, h2, h4, h5, h6, h7, h8, hf.1, hf.2.1, hf.2.2]

theorem ch_signed_typed (f : CHFields) (h : CH.wf f = true) :
    hasTypeArgs CH.signedTys (CH.signedVals f) = true := by
  simp only [CH.wf, Bool.and_eq_true, decide_eq_true_eq] at h
  obtain ⟨⟨⟨⟨h1, h2⟩, h3⟩, h4⟩, h5⟩ := h
  rw [CH.signedTys, CH.signedVals, hasTypeArgs_cons, hasType_calls _ h1 h2]
  simp [hasTypeArgs, hasType, hasTypes, h3, h4, effEstimate_lt _ h5]

theorem batch_signed_typed (f : BatchFields) (h : Batch.wf f = true) :
    hasTypeArgs Batch.signedTys (Batch.signedVals f) = true := by
  simp only [Batch.wf, Bool.and_eq_true, decide_eq_true_eq] at h
  obtain ⟨⟨⟨⟨⟨⟨⟨⟨⟨h1, h2⟩, h3⟩, h4⟩, h5⟩, h6⟩, h7⟩, h8⟩, h9⟩, h10⟩ := h
  simp [hasTypeArgs, Batch.signedTys, Batch.signedVals, hasType, hasTypes, h1,
    hasType_addresses _ h2 h3, hasType_uints _ h4 h5, h6, h7, h8, h9, effEstimate_lt _ h10]

/-! ### pre-images: selector ++ Pack(args) is injective in the args -/

theorem sel_append_ne {a b x y : Bytes} (hl : a.length = b.length) (hne : a ≠ b) :
    a ++ x ≠ b ++ y := fun h => hne (List.append_inj h hl).1

theorem be8_length (n : Nat) : (be8 n).length = 8 := beBytes_length 8 n

theorem be8_inj {a b : Nat} (ha : a < U64) (hb : b < U64) (h : be8 a = be8 b) : a = b := by
  have h1 := beNat_beBytes 8 a
  have h2 := beNat_beBytes 8 b
  unfold be8 at h
  rw [h] at h1
  have e : 256 ^ 8 = U64 := by decide
  rw [e] at h1 h2
  rw [Nat.mod_eq_of_lt ha] at h1
  rw [Nat.mod_eq_of_lt hb] at h2
  omega

/-! ### Go conversions: ranges and (non-)injectivity -/

theorem natOfBytes_aux (b : Bytes) : ∀ acc : Nat,
    b.foldl (fun a x => a * 256 + x.toNat) acc < (acc + 1) * 256 ^ b.length := by
  induction b with
  | nil => intro acc; simp
  | cons x b ih =>
    intro acc
    simp only [List.foldl_cons, List.length_cons]
    have hx : x.toNat < 256 := x.toNat_lt
    have h1 := ih (acc * 256 + x.toNat)
    have h2 : (acc * 256 + x.toNat + 1) * 256 ^ b.length ≤ ((acc + 1) * 256) * 256 ^ b.length :=
      Nat.mul_le_mul_right _ (by omega)
    calc _ < (acc * 256 + x.toNat + 1) * 256 ^ b.length := h1
      _ ≤ ((acc + 1) * 256) * 256 ^ b.length := h2
      _ = (acc + 1) * 256 ^ (b.length + 1) := by rw [Nat.pow_succ, Nat.mul_assoc, Nat.mul_comm 256]

theorem natOfBytes_lt (b : Bytes) : natOfBytes b < 256 ^ b.length := by
  have := natOfBytes_aux b 0
  simpa [natOfBytes] using this

theorem natOfBytes_lt_of_le {b : Bytes} {n : Nat} (h : b.length ≤ n) : natOfBytes b < 256 ^ n :=
  Nat.lt_of_lt_of_le (natOfBytes_lt b) (Nat.pow_le_pow_right (by decide) h)

theorem W256_eq : (256 : Nat) ^ 32 = W256 := by decide

theorem hexToAddress_lt (s : Bytes) : hexToAddress s < W160 := Nat.mod_lt _ (by decide)
theorem bytesToAddress_lt (s : Bytes) : bytesToAddress s < W160 := Nat.mod_lt _ (by decide)

theorem bytes32OfString_lt (s : Bytes) : bytes32OfString s < W256 := by
  unfold bytes32OfString
  rw [← W256_eq]
  apply natOfBytes_lt_of_le
  have := List.length_take_le 32 s
  simp only [List.length_append, List.length_replicate]
  omega

theorem padSender_lt {s : Bytes} {v : Nat} (h : padSender s = some v) : v < W256 := by
  unfold padSender at h
  split at h
  · cases h
  · injection h with h
    rw [← h, ← W256_eq]
    exact natOfBytes_lt_of_le (by omega)

theorem castI64_lt {n : Nat} (h : n < U64) : castI64 n < W256 := by
  unfold castI64
  have h1 : U64 = 18446744073709551616 := by decide
  have h2 : I63 = 9223372036854775808 := by decide
  have h3 : W256 = 115792089237316195423570985008687907853269984665640564039457584007913129639936 := by decide
  rw [h1] at h
  rw [h1, h2, h3]
  split <;> omega

/-- the `int64` cast loses nothing: different `uint64` values give different words -/
theorem castI64_inj {a b : Nat} (ha : a < U64) (hb : b < U64) (h : castI64 a = castI64 b) : a = b := by
  unfold castI64 at h
  have h1 : U64 = 18446744073709551616 := by decide
  have h2 : I63 = 9223372036854775808 := by decide
  have h3 : W256 = 115792089237316195423570985008687907853269984665640564039457584007913129639936 := by decide
  rw [h1] at ha hb
  rw [h1, h2, h3] at h
  split at h <;> split at h <;> omega

theorem wordOfInt_lt (i : Int) : wordOfInt i < W256 := by
  unfold wordOfInt
  have hpos : (0 : Int) < (W256 : Int) := by decide
  have h1 := Int.emod_lt_of_pos i hpos
  have h0 := Int.emod_nonneg i (Int.ne_of_gt hpos)
  omega

/-- signed 64-bit deadlines map to different words -/
theorem wordOfInt_inj {a b : Int} (ha : -(I63 : Int) ≤ a ∧ a < (I63 : Int))
    (hb : -(I63 : Int) ≤ b ∧ b < (I63 : Int)) (h : wordOfInt a = wordOfInt b) : a = b := by
  unfold wordOfInt at h
  have hpos : (0 : Int) < (W256 : Int) := by decide
  have e : (a % (W256 : Int)) = (b % (W256 : Int)) := by
    have h0a := Int.emod_nonneg a (Int.ne_of_gt hpos)
    have h0b := Int.emod_nonneg b (Int.ne_of_gt hpos)
    omega
  have h2 : (I63 : Int) = 9223372036854775808 := by decide
  have h3 : (W256 : Int) = 115792089237316195423570985008687907853269984665640564039457584007913129639936 := by decide
  rw [h2] at ha hb
  rw [h3] at e
  omega

/-! ### id counter -/

theorem hasMsg_iff (s : IdSt) (q id : Nat) : hasMsg s q id = true ↔ (q, id) ∈ s.live := by
  unfold hasMsg
  simp only [List.any_eq_true, Bool.and_eq_true, beq_iff_eq]
  constructor
  · rintro ⟨⟨a, b⟩, hm, h1, h2⟩
    simp only at h1 h2
    subst h1 h2
    exact hm
  · intro h
    exact ⟨(q, id), h, rfl, rfl⟩

/-- invariant of the id bookkeeping -/
structure IdInv (s : IdSt) : Prop where
  sorted : s.issued.Pairwise (· > ·)
  bounded : ∀ i ∈ s.issued, 1 ≤ i ∧ i ≤ s.counter
  liveIssued : ∀ p ∈ s.live, p.2 ∈ s.issued
  nodup : (s.live.map (·.2)).Nodup
  /-- the stored counter (`GetLastID`) is the newest id handed out, 0 before the first -/
  top : (s.issued = [] ∧ s.counter = 0) ∨ s.issued.head? = some s.counter

theorem idInv_init : IdInv {} :=
  ⟨List.Pairwise.nil, by simp, by simp, by simp, .inl ⟨rfl, rfl⟩⟩

theorem idStep_counter_le (s : IdSt) (op : IdOp) (h : s.counter + 1 < U64) :
    s.counter ≤ (idStep s op).1.counter ∧ (idStep s op).1.counter ≤ s.counter + 1 := by
  unfold idStep
  cases op with
  | put q r =>
    simp only
    split
    · split <;> simp
    · rw [Nat.mod_eq_of_lt h]
      simp
  | remove q id =>
    simp only
    split <;> simp

theorem idStep_inv (s : IdSt) (op : IdOp) (hi : IdInv s) (h : s.counter + 1 < U64) :
    IdInv (idStep s op).1 := by
  unfold idStep
  cases op with
  | put q r =>
    simp only
    split
    · split <;> exact hi
    · rw [Nat.mod_eq_of_lt h]
      simp only [Nat.succ_ne_zero, ↓reduceIte]
      refine ⟨?_, ?_, ?_, ?_, .inr rfl⟩
      · refine List.Pairwise.cons ?_ hi.sorted
        intro i him
        have := (hi.bounded i him).2
        show s.counter + 1 > i
        omega
      · intro i him
        show 1 ≤ i ∧ i ≤ s.counter + 1
        have him : i = s.counter + 1 ∨ i ∈ s.issued := by simpa using him
        rcases him with rfl | him
        · omega
        · have := hi.bounded i him
          omega
      · intro p hp
        simp only [List.mem_cons] at hp ⊢
        rcases hp with rfl | hp
        · exact .inl rfl
        · exact .inr (hi.liveIssued p hp)
      · simp only [List.map_cons, List.nodup_cons]
        refine ⟨?_, hi.nodup⟩
        intro hm
        rw [List.mem_map] at hm
        obtain ⟨p, hp, e⟩ := hm
        have := (hi.bounded _ (hi.liveIssued p hp)).2
        have e : p.2 = s.counter + 1 := e
        omega
  | remove q id =>
    simp only
    split
    · refine ⟨hi.sorted, hi.bounded, ?_, ?_, hi.top⟩
      · intro p hp
        exact hi.liveIssued p (List.mem_filter.1 hp).1
      · exact List.Nodup.sublist (List.Sublist.map _ List.filter_sublist) hi.nodup
    · exact hi

theorem idRun_inv : ∀ (ops : List IdOp) (s : IdSt), IdInv s → s.counter + ops.length < U64 →
    IdInv (idRun s ops) ∧ (idRun s ops).counter ≤ s.counter + ops.length
  | [], s, hi, _ => ⟨hi, by simp [idRun]⟩
  | op :: ops, s, hi, h => by
    simp only [List.length_cons] at h
    have h1 : s.counter + 1 < U64 := by omega
    have hc := idStep_counter_le s op h1
    have := idRun_inv ops (idStep s op).1 (idStep_inv s op hi h1) (by omega)
    simp only [idRun, List.length_cons]
    exact ⟨this.1, by omega⟩

/-! ### pigeonhole: a 32-byte digest is never injective -/

theorem pigeonhole : ∀ (n : Nat) (f : Nat → Nat), (∀ i, i ≤ n → f i < n) →
    ∃ i j, i < j ∧ j ≤ n ∧ f i = f j := by
  intro n
  induction n with
  | zero => intro f h; exact absurd (h 0 (Nat.le_refl _)) (Nat.not_lt_zero _)
  | succ n ih =>
    intro f h
    by_cases hex : ∃ i, i ≤ n ∧ f i = f (n + 1)
    · obtain ⟨i, hi, e⟩ := hex
      exact ⟨i, n + 1, by omega, Nat.le_refl _, e⟩
    · have hno : ∀ i, i ≤ n → f i ≠ f (n + 1) := fun i hi e => hex ⟨i, hi, e⟩
      let g : Nat → Nat := fun i => if f i = n then f (n + 1) else f i
      have hg : ∀ i, i ≤ n → g i < n := by
        intro i hi
        have h1 := h i (by omega)
        have h2 := h (n + 1) (Nat.le_refl _)
        have h3 := hno i hi
        show (if f i = n then f (n + 1) else f i) < n
        split <;> omega
      obtain ⟨i, j, hij, hj, e⟩ := ih g hg
      have e' : (if f i = n then f (n + 1) else f i) = (if f j = n then f (n + 1) else f j) := e
      have hi' : i ≤ n := by omega
      refine ⟨i, j, hij, by omega, ?_⟩
      by_cases a : f i = n <;> by_cases b : f j = n
      · omega
      · rw [if_pos a, if_neg b] at e'; exact absurd e'.symm (hno j hj)
      · rw [if_neg a, if_pos b] at e'; exact absurd e' (hno i hi')
      · rw [if_neg a, if_neg b] at e'; exact e'

/-! ### big-endian round trip, and what `bytecode ++ be64(id)` can be -/

theorem natOfBytes_eq_beNat (b : Bytes) : natOfBytes b = beNat b := rfl

theorem beBytes_beNat : ∀ (k : Nat) (l : Bytes), l.length = k → beBytes k (beNat l) = l := by
  intro k
  induction k with
  | zero =>
    intro l h
    cases l with
    | nil => rfl
    | cons _ _ => simp at h
  | succ k ih =>
    intro l h
    have hne : l ≠ [] := by
      intro e
      rw [e] at h
      simp at h
    have hl := (List.dropLast_concat_getLast hne).symm
    generalize l.dropLast = init at hl
    generalize l.getLast hne = x at hl
    subst hl
    have hlen : init.length = k := by simpa using h
    rw [beNat_append_singleton, beBytes]
    have hx : x.toNat < 256 := x.toNat_lt
    have h1 : (beNat init * 256 + x.toNat) / 256 = beNat init := by omega
    have h2 : (beNat init * 256 + x.toNat) % 256 = x.toNat := by omega
    rw [h1, h2, ih init hlen]
    simp

theorem be8_natOfBytes (t : Bytes) (h : t.length = 8) : be8 (natOfBytes t) = t :=
  beBytes_beNat 8 t h

theorem natOfBytes_lt_U64 (t : Bytes) (h : t.length = 8) : natOfBytes t < U64 := by
  have := natOfBytes_lt t
  rw [h] at this
  exact this

theorem encodeArgs_length_ge (ts : List Ty) (vs : List V) (h : hasTypeArgs ts vs = true) :
    headsSize ts ≤ (encodeArgs ts vs).length := by
  have := tuple_head_length ts vs (headsSize ts) h
  simp only [encodeArgs, encode, layout, List.length_append]
  omega

theorem sel_pre_length_ge (sel : Bytes) (ts : List Ty) (vs : List V) (hs : sel.length = 4)
    (hh : 4 ≤ headsSize ts) (h : hasTypeArgs ts vs = true) : 8 ≤ (sel ++ encodeArgs ts vs).length := by
  have := encodeArgs_length_ge ts vs h
  rw [List.length_append, hs]
  omega

/-! ### id counter: the log and the returned ids -/

theorem idRun_append (a : List IdOp) : ∀ (s : IdSt) (b : List IdOp),
    idRun s (a ++ b) = idRun (idRun s a) b := by
  induction a with
  | nil => intro s b; rfl
  | cons op a ih => intro s b; simp only [List.cons_append, idRun]; exact ih _ b

theorem freshIds_append (a : List IdOp) : ∀ (s : IdSt) (b : List IdOp),
    freshIds s (a ++ b) = freshIds s a ++ freshIds (idRun s a) b := by
  induction a with
  | nil => intro s b; rfl
  | cons op a ih =>
    intro s b
    simp only [List.cons_append, freshIds, idRun, List.append_assoc]
    rw [ih]

theorem idStep_issued (s : IdSt) (op : IdOp) :
    (idStep s op).1.issued = freshOf op (idStep s op).2 ++ s.issued := by
  unfold idStep freshOf
  cases op with
  | put q r =>
    simp only
    by_cases hr : r = 0
    · subst hr
      simp only [ne_eq, not_true_eq_false, ↓reduceIte]
      split <;> simp
    · simp only [ne_eq, hr, not_false_eq_true, ↓reduceIte]
      split <;> simp
  | remove q id =>
    simp only
    split <;> simp

theorem idRun_issued : ∀ (ops : List IdOp) (s : IdSt),
    (idRun s ops).issued = (freshIds s ops).reverse ++ s.issued
  | [], s => by simp [idRun, freshIds]
  | op :: ops, s => by
    simp only [idRun, freshIds]
    rw [idRun_issued ops, idStep_issued, List.reverse_append, List.append_assoc]
    congr 1
    -- `freshOf` has at most one element
    unfold freshOf
    cases op with
    | put q r =>
      simp only
      split
      · split <;> simp
      · simp
    | remove q id => simp

theorem idStep_live_sub (s : IdSt) (op : IdOp) (h : ∀ p ∈ s.live, p.2 ∈ s.issued) :
    ∀ p ∈ (idStep s op).1.live, p.2 ∈ (idStep s op).1.issued := by
  unfold idStep
  cases op with
  | put q r =>
    simp only
    split
    · split <;> exact h
    · split
      · exact h
      · intro p hp
        simp only [List.mem_cons] at hp ⊢
        rcases hp with rfl | hp
        · exact .inl rfl
        · exact .inr (h p hp)
  | remove q id =>
    simp only
    split
    · intro p hp
      exact h p (List.mem_filter.1 hp).1
    · exact h

theorem idRun_live_sub : ∀ (ops : List IdOp) (s : IdSt), (∀ p ∈ s.live, p.2 ∈ s.issued) →
    ∀ p ∈ (idRun s ops).live, p.2 ∈ (idRun s ops).issued
  | [], _, h => h
  | op :: ops, s, h => idRun_live_sub ops _ (idStep_live_sub s op h)

theorem idStep_live_mem (s : IdSt) (op : IdOp) (q id : Nat) (h : (q, id) ∈ (idStep s op).1.live) :
    (q, id) ∈ s.live ∨ (op = .put q 0 ∧ (idStep s op).2 = .ok id) := by
  unfold idStep at h ⊢
  cases op with
  | put q' r =>
    simp only at h ⊢
    by_cases hr : r = 0
    · subst hr
      simp only [ne_eq, not_true_eq_false, ↓reduceIte] at h ⊢
      split at h
      · exact .inl h
      · rename_i hn
        simp only [List.mem_cons, Prod.mk.injEq] at h
        rcases h with ⟨rfl, rfl⟩ | h
        · right
          simp [hn]
        · exact .inl h
    · simp only [ne_eq, hr, not_false_eq_true, ↓reduceIte] at h
      split at h <;> exact .inl h
  | remove q' id' =>
    simp only at h
    split at h
    · exact .inl (List.mem_filter.1 h).1
    · exact .inl h

theorem idRun_live_provenance : ∀ (ops : List IdOp) (s : IdSt) (q id : Nat),
    (q, id) ∈ (idRun s ops).live →
    (q, id) ∈ s.live ∨
      ∃ pre post, ops = pre ++ .put q 0 :: post ∧ (idStep (idRun s pre) (.put q 0)).2 = .ok id
  | [], _, _, _, h => .inl h
  | op :: ops, s, q, id, h => by
    simp only [idRun] at h
    rcases idRun_live_provenance ops _ q id h with h1 | ⟨pre, post, e, hres⟩
    · rcases idStep_live_mem s op q id h1 with h2 | ⟨rfl, hres⟩
      · exact .inl h2
      · exact .inr ⟨[], ops, rfl, hres⟩
    · exact .inr ⟨op :: pre, post, by rw [e]; rfl, hres⟩

/-! ### small helpers for the Go-level theorems -/

theorem fees_ext {a b : Fees} (h1 : a.relayer = b.relayer) (h2 : a.community = b.community)
    (h3 : a.security = b.security) : a = b := by
  cases a; cases b; simp_all

theorem goItemDigest_eq_some {H : Hash} {a : GoItem} {d : Nat} :
    goItemDigest H a = some d ↔ ∃ p, goItemPreimage H a = some p ∧ d = digest H p := by
  unfold goItemDigest
  cases goItemPreimage H a with
  | none => simp
  | some p => simp [eq_comm]

theorem kindSel_mem (k : Kind) (h : k ≠ .up) : kindSel k ∈ schemeSelectors := by
  cases k <;> first | exact absurd rfl h | decide

theorem kindSel_inj {k k' : Kind} (h : k ≠ .up) (h' : k' ≠ .up) (e : kindSel k = kindSel k') : k = k' := by
  cases k <;> cases k' <;>
    first | rfl | exact absurd rfl h | exact absurd rfl h' | (exfalso; revert e; decide)

theorem goCheckpointPre_some_kind (a : GoItem) (q : Bytes) (h : goCheckpointPre a = some q) :
    a.kind = .uv := by
  cases a with
  | batch ts b => simp [goCheckpointPre] at h
  | msg m ctor =>
    obtain ⟨ts, rel, id, est, act⟩ := m
    cases act <;> simp [goCheckpointPre] at h
    rfl

/-! ### ids and messages together (`jqStep`) -/

/-- the id part of `jqStep` IS `idStep` on the id part of the state, result included -/
theorem jqStep_ids (s : JqSt) (op : JqOp) :
    (jqStep s op).1.ids = (idStep s.ids op.toId).1 ∧ (jqStep s op).2 = (idStep s.ids op.toId).2 := by
  cases op with
  | put q m r =>
    simp only [jqStep, JqOp.toId]
    cases hres : (idStep s.ids (.put q r)).2 with
    | ok id => by_cases hr : r = 0 <;> simp [hr]
    | notFound => simp
    | zeroId => simp
  | remove q id =>
    simp only [jqStep, JqOp.toId]
    cases hres : (idStep s.ids (.remove q id)).2 with
    | ok id' =>
      simp only [true_and]
      simp only [idStep] at hres
      split at hres
      · simpa using hres
      · simp at hres
    | notFound => simp
    | zeroId => simp

theorem jqRun_ids : ∀ (ops : List JqOp) (s : JqSt), (jqRun s ops).ids = idRun s.ids (ops.map JqOp.toId)
  | [], _ => rfl
  | op :: ops, s => by
    simp only [jqRun, List.map_cons, idRun]
    rw [jqRun_ids ops, (jqStep_ids s op).1]

/-- the keys (queue, id) of the stored messages are exactly the live ids of the id counter model, in order -/
def JqKeys (s : JqSt) : Prop := s.msgs.map (fun p => (p.1, p.2.id)) = s.ids.live

theorem jqStep_keys (s : JqSt) (op : JqOp) (h : JqKeys s) : JqKeys (jqStep s op).1 := by
  unfold JqKeys at h ⊢
  cases op with
  | put q m r =>
    by_cases hr : r = 0
    · subst hr
      simp only [jqStep, idStep, ne_eq, not_true_eq_false, ↓reduceIte]
      by_cases hz : (s.ids.counter + 1) % U64 = 0
      · simp [hz, h]
      · simp [hz, h]
    · simp only [jqStep, idStep, ne_eq, hr, not_false_eq_true, ↓reduceIte]
      by_cases hm : hasMsg s.ids q r = true
      · simp only [hm, ↓reduceIte]
        rw [← h, List.map_map]
        apply List.map_congr_left
        intro p _
        by_cases hp : (p.1 == q && p.2.id == r) = true
        · simp only [Function.comp, hp, ↓reduceIte]
          simp only [Bool.and_eq_true, beq_iff_eq] at hp
          rw [hp.1, hp.2]
        · simp [Function.comp, hp]
      · simp [hm, h]
  | remove q id =>
    simp only [jqStep, idStep]
    by_cases hm : hasMsg s.ids q id = true
    · simp only [hm, ↓reduceIte]
      rw [← h, List.filter_map]
      rfl
    · simp [hm, h]

theorem jqRun_keys : ∀ (ops : List JqOp) (s : JqSt), JqKeys s → JqKeys (jqRun s ops)
  | [], _, h => h
  | op :: ops, s, h => jqRun_keys ops _ (jqStep_keys s op h)

theorem jqRun_append (a : List JqOp) : ∀ (s : JqSt) (b : List JqOp), jqRun s (a ++ b) = jqRun (jqRun s a) b := by
  induction a with
  | nil => intro s b; rfl
  | cons x a ih => intro s b; simp only [List.cons_append, jqRun]; exact ih _ b

theorem nodup_map_getElem?_inj {α β} (f : α → β) : ∀ (l : List α), (l.map f).Nodup →
    ∀ (i j : Nat) (a b : α), l[i]? = some a → l[j]? = some b → f a = f b → i = j
  | [], _, i, _, a, _, hi, _, _ => by simp at hi
  | x :: xs, hn, i, j, a, b, hi, hj, hab => by
    simp only [List.map_cons, List.nodup_cons] at hn
    cases i with
    | zero =>
      cases j with
      | zero => rfl
      | succ j =>
        exfalso
        simp only [List.getElem?_cons_zero, Option.some.injEq] at hi
        simp only [List.getElem?_cons_succ] at hj
        subst hi
        exact hn.1 (hab ▸ List.mem_map_of_mem (List.mem_of_getElem? hj))
    | succ i =>
      cases j with
      | zero =>
        exfalso
        simp only [List.getElem?_cons_zero, Option.some.injEq] at hj
        simp only [List.getElem?_cons_succ] at hi
        subst hj
        exact hn.1 (hab ▸ List.mem_map_of_mem (List.mem_of_getElem? hi))
      | succ j =>
        simp only [List.getElem?_cons_succ] at hi hj
        rw [nodup_map_getElem?_inj f xs hn.2 i j a b hi hj hab]

theorem find?_map_reissue (p : StoredBatch → Bool) (g : StoredBatch → StoredBatch)
    (hg : ∀ x, p x = true → p (g x) = true) :
    ∀ (l : List StoredBatch) (x : StoredBatch), l.find? p = some x →
      (l.map fun y => if p y then g y else y).find? p = some (g x) := by
  intro l
  induction l with
  | nil => intro x h; simp at h
  | cons a t ih =>
    intro x h
    cases hpa : p a with
    | true =>
      have : a = x := by simpa [List.find?, hpa] using h
      subst this
      simp [hpa, hg a hpa]
    | false =>
      have ht : t.find? p = some x := by simpa [List.find?, hpa] using h
      simp [hpa, ih x ht]

theorem batchKeyIs_reissued (tok nonce est d : Nat) (x : StoredBatch) (h : batchKeyIs tok nonce x = true) :
    batchKeyIs tok nonce (x.reissued est d) = true := by
  simpa [batchKeyIs, StoredBatch.reissued] using h

end Lemmas

/-! ## Property theorems (C05) -/

/-! ### UpdateValset -/

/-- **uv_mustBind_covered.** C05, "new validator set … relayer address … elected gas estimate …
bridge deployment id": if two update-valset messages have the same signing bytes then — unless
keccak collides on the two outer pre-images or on the two checkpoint pre-images — every
validator address, every power, the valset id, the turnstone id, the relayer and the gas
estimate the contract is handed coincide. -/
theorem uv_mustBind_covered (H : Hash) (f g : UVFields) (hf : UV.wf f = true) (hg : UV.wf g = true)
    (hout : NoColl H (UV.preimage H f) (UV.preimage H g))
    (hin : NoColl H (UV.checkpointPre f) (UV.checkpointPre g))
    (h : UV.signBytes H f = UV.signBytes H g) : UV.mustBind f = UV.mustBind g := by
  have hp := hout h
  have hv := calldata_injective _ _ _ _ (uv_signed_typed H f hf) (uv_signed_typed H g hg) hp
  simp only [UV.signedVals, List.cons.injEq, V.word.injEq, and_true] at hv
  obtain ⟨hd, hr, he⟩ := hv
  have hc := calldata_injective _ _ _ _ (uv_cp_typed f hf) (uv_cp_typed g hg) (hin hd)
  simp only [UV.cpVals, List.cons.injEq, V.word.injEq, and_true] at hc
  obtain ⟨h1, h2, h3, h4⟩ := hc
  simp only [UV.mustBind, h1, h2, h3, h4, hr, he]

/-- **uv_delivered_determined_by_signed.** C05 for update-valset at the level of argument lists:
equal signed tuples force equal delivered tuples (the valset is inside the checkpoint hash, hence
the collision hypothesis) provided both messages carry an elected estimate; see
`estimate_default_collision` / `uv_estimate_default_not_delivered` for why the proviso is needed
and `offered_message_is_elected` (queue model) for why every message offered to relayers satisfies it. -/
theorem uv_delivered_determined_by_signed (H : Hash) (f g : UVFields)
    (hf : UV.wf f = true) (hg : UV.wf g = true)
    (hin : NoColl H (UV.checkpointPre f) (UV.checkpointPre g))
    (hef : f.estimate ≠ 0) (heg : g.estimate ≠ 0)
    (h : UV.signedVals H f = UV.signedVals H g) : UV.deliveredVals f = UV.deliveredVals g := by
  simp only [UV.signedVals, List.cons.injEq, V.word.injEq, and_true] at h
  obtain ⟨hd, hr, he⟩ := h
  have hc := calldata_injective _ _ _ _ (uv_cp_typed f hf) (uv_cp_typed g hg) (hin hd)
  simp only [UV.cpVals, List.cons.injEq, V.word.injEq, and_true] at hc
  obtain ⟨h1, h2, h3, -⟩ := hc
  simp only [effEstimate, hef, heg, ↓reduceIte] at he
  simp only [UV.deliveredVals, UV.valsetV, h1, h2, h3, hr, he]

/-! ### SubmitLogicCall -/

/-- **slc_mustBind_covered.** C05, "target contract and payload, fees and fee payer, message id,
deadline, relayer address … bridge deployment id": equal signing bytes of two logic-call messages
force all ten values equal, unless keccak collides on the two pre-images. -/
theorem slc_mustBind_covered (H : Hash) (f g : SLCFields) (hf : SLC.wf f = true) (hg : SLC.wf g = true)
    (hout : NoColl H (SLC.preimage f) (SLC.preimage g))
    (h : SLC.signBytes H f = SLC.signBytes H g) : SLC.mustBind f = SLC.mustBind g := by
  have hv := calldata_injective _ _ _ _ (slc_signed_typed f hf) (slc_signed_typed g hg) (hout h)
  simp only [SLC.signedVals, callV, feeV, List.cons.injEq, V.word.injEq, V.seq.injEq, V.bytes.injEq,
    and_true] at hv
  obtain ⟨⟨h1, h2⟩, ⟨h3, h4, h5, h6⟩, h7, h8, h9, h10⟩ := hv
  simp only [SLC.mustBind, h1, h2, h3, h4, h5, h6, h7, h8, h9, h10]

/-- **slc_delivered_determined_by_signed.** Equal signed tuples force equal delivered tuples — no
proviso: both sides pack `feesOrDefault(m.Fees)` (since /repo commit cab3e325; before it the
delivery side had no tuple at all for `Fees == nil`, see `slc_prefix_nil_fees_undefined`). -/
theorem slc_delivered_determined_by_signed (f g : SLCFields)
    (h : SLC.signedVals f = SLC.signedVals g) : SLC.deliveredVals f = SLC.deliveredVals g := by
  simp only [SLC.signedVals, callV, feeV, List.cons.injEq, V.word.injEq,
    V.seq.injEq, V.bytes.injEq, and_true] at h
  obtain ⟨⟨h1, h2⟩, ⟨h3, h4, h5, h6⟩, h7, -, h9, h10⟩ := h
  simp only [SLC.deliveredVals, callV, feeV, h1, h2, h3, h4, h5, h6, h7, h9, h10]

/-- regression witness: the PRE-FIX delivery side was undefined (nil dereference) for a message
without fees, although such a message could be signed and receive evidence -/
theorem slc_prefix_nil_fees_undefined (f : SLCFields) :
    SLC.deliveredValsPreFix { f with fees := none } = none := rfl

/-- … and wherever the pre-fix code was defined it packed what the fixed code packs -/
theorem slc_prefix_agrees (f : SLCFields) (vals : List V) (h : SLC.deliveredValsPreFix f = some vals) :
    vals = SLC.deliveredVals f := by
  unfold SLC.deliveredValsPreFix at h
  split at h
  · cases h
  · rename_i fe hfe
    injection h with h
    simp [SLC.deliveredVals, hfe, feesOrDefault, ← h]

/-! ### UploadUserSmartContract -/

/-- **usc_mustBind_covered.** C05 for user contract deployment: deployer, bytecode, the three
fees, fee payer, message id, turnstone id, deadline and relayer are bound. -/
theorem usc_mustBind_covered (H : Hash) (f g : USCFields) (hf : USC.wf f = true) (hg : USC.wf g = true)
    (hout : NoColl H (USC.preimage f) (USC.preimage g))
    (h : USC.signBytes H f = USC.signBytes H g) : USC.mustBind f = USC.mustBind g := by
  have hv := calldata_injective _ _ _ _ (usc_signed_typed f hf) (usc_signed_typed g hg) (hout h)
  simp only [USC.signedVals, feeV, List.cons.injEq, V.word.injEq, V.seq.injEq, V.bytes.injEq,
    and_true] at hv
  obtain ⟨h1, h2, ⟨h3, h4, h5, h6⟩, h7, h8, h9, h10⟩ := hv
  simp only [USC.mustBind, h1, h2, h3, h4, h5, h6, h7, h8, h9, h10]

/-- **usc_delivered_determined_by_signed.** -/
theorem usc_delivered_determined_by_signed (f g : USCFields)
    (h : USC.signedVals f = USC.signedVals g) : USC.deliveredVals f = USC.deliveredVals g := by
  simp only [USC.signedVals, feeV, List.cons.injEq, V.word.injEq,
    V.seq.injEq, V.bytes.injEq, and_true] at h
  obtain ⟨h1, h2, ⟨h3, h4, h5, h6⟩, h7, -, h9, h10⟩ := h
  simp only [USC.deliveredVals, feeV, h1, h2, h3, h4, h5, h6, h7, h9, h10]

/-! ### CompassHandover -/

/-- **ch_mustBind_covered.** C05 for the compass handover batch: every forwarded (target, payload)
pair in order, the deadline, the relayer and the gas estimate are bound.  (The compass scheme
`compass_update_batch((address,bytes)[],uint256,address,uint256)` has no deployment id and no
message id: nothing to prove for those.) -/
theorem ch_mustBind_covered (H : Hash) (f g : CHFields) (hf : CH.wf f = true) (hg : CH.wf g = true)
    (hout : NoColl H (CH.preimage f) (CH.preimage g))
    (h : CH.signBytes H f = CH.signBytes H g) : CH.mustBind f = CH.mustBind g := by
  have hv := calldata_injective _ _ _ _ (ch_signed_typed f hf) (ch_signed_typed g hg) (hout h)
  simp only [CH.signedVals, List.cons.injEq, V.word.injEq, V.seq.injEq, and_true] at hv
  obtain ⟨h1, h2, h3, h4⟩ := hv
  simp only [CH.mustBind, h1, h2, h3, h4]

/-- the bound list of calls is the list of (address, payload) pairs itself -/
theorem ch_calls_bound (f g : CHFields) (h : CH.mustBind f = CH.mustBind g) : f.calls = g.calls := by
  simp only [CH.mustBind, List.cons.injEq, V.seq.injEq] at h
  exact map_callV_inj h.1

/-- **ch_delivered_determined_by_signed.** -/
theorem ch_delivered_determined_by_signed (f g : CHFields)
    (hef : f.estimate ≠ 0) (heg : g.estimate ≠ 0)
    (h : CH.signedVals f = CH.signedVals g) : CH.deliveredVals f = CH.deliveredVals g := by
  simp only [CH.signedVals, List.cons.injEq, V.word.injEq, V.seq.injEq, and_true] at h
  obtain ⟨h1, h2, h3, h4⟩ := h
  simp only [effEstimate, hef, heg, ↓reduceIte] at h4
  simp only [CH.deliveredVals, h1, h2, h3, h4]

/-! ### UploadSmartContract -/

/-- **up_binds_bytecode_and_id.** The compass-deployment signature covers exactly the bytecode and
the message id (`keccak256(bytecode ++ be64(id))`) — and nothing else that is delivered
(`up_delivered_not_bound`), with no domain separation (`up_preimage_covers`). -/
theorem up_binds_bytecode_and_id (H : Hash) (f g : UPFields) (hf : UP.wf f = true) (hg : UP.wf g = true)
    (hout : NoColl H (UP.preimage f) (UP.preimage g))
    (h : UP.signBytes H f = UP.signBytes H g) : f = g := by
  have hp := hout h
  simp only [UP.wf, decide_eq_true_eq] at hf hg
  unfold UP.preimage at hp
  have hl : (be8 f.id).length = (be8 g.id).length := by rw [be8_length, be8_length]
  have := List.append_inj' hp hl
  have hid := be8_inj hf hg this.2
  cases f; cases g
  simp_all

/-! ### skyway batch -/

/-- **batch_mustBind_covered.** C05, "batch token, recipients, amounts and nonce … deadline,
relayer address, elected gas estimate … bridge deployment id". -/
theorem batch_mustBind_covered (H : Hash) (f g : BatchFields)
    (hf : Batch.wf f = true) (hg : Batch.wf g = true)
    (hout : NoColl H (Batch.preimage f) (Batch.preimage g))
    (h : Batch.signBytes H f = Batch.signBytes H g) : Batch.mustBind f = Batch.mustBind g := by
  have hv := calldata_injective _ _ _ _ (batch_signed_typed f hf) (batch_signed_typed g hg) (hout h)
  simp only [Batch.signedVals, List.cons.injEq, V.word.injEq, V.seq.injEq, and_true] at hv
  obtain ⟨h1, ⟨h2, h3⟩, h4, h5, h6, h7, h8⟩ := hv
  simp only [Batch.mustBind, h1, h2, h3, h4, h5, h6, h7, h8]

/-- the bound recipients / amounts are the lists themselves (order and length included) -/
theorem batch_lists_bound (f g : BatchFields) (h : Batch.mustBind f = Batch.mustBind g) :
    f.receivers = g.receivers ∧ f.amounts = g.amounts := by
  simp only [Batch.mustBind, List.cons.injEq] at h
  exact ⟨words_inj h.2.1, words_inj h.2.2.1⟩

/-- the bound validator set is the pair of lists itself -/
theorem uv_lists_bound (f g : UVFields) (h : UV.mustBind f = UV.mustBind g) :
    f.validators = g.validators ∧ f.powers = g.powers := by
  simp only [UV.mustBind, List.cons.injEq] at h
  exact ⟨words_inj h.1, words_inj h.2.1⟩

/-- **batch_delivered_determined_by_signed.** Equal signed tuples of two batches force equal
`submit_batch` argument lists, provided both carry an elected estimate (see
`estimate_default_batch_collision`; the skyway `OutgoingTxBatches` query lists only batches with a non-zero
estimate: `relay_filters_need_elected_estimate`). -/
theorem batch_delivered_determined_by_signed (f g : BatchFields)
    (hef : f.estimate ≠ 0) (heg : g.estimate ≠ 0)
    (h : Batch.signedVals f = Batch.signedVals g) : Batch.deliveredVals f = Batch.deliveredVals g := by
  simp only [Batch.signedVals, List.cons.injEq, V.word.injEq, V.seq.injEq, and_true] at h
  obtain ⟨h1, ⟨h2, h3⟩, h4, -, h6, h7, h8⟩ := h
  simp only [effEstimate, hef, heg, ↓reduceIte] at h8
  simp only [Batch.deliveredVals, h1, h2, h3, h4, h6, h7, h8]

/-! ### the `mustBind` lists are complete: they determine every field of the record -/

/-- **uv_mustBind_eq_iff.** The hand-written list for `UpdateValset` is equal for two messages iff
ALL six fields of the records agree (the estimate up to its signing default). -/
theorem uv_mustBind_eq_iff (f g : UVFields) : UV.mustBind f = UV.mustBind g ↔ UV.norm f = UV.norm g := by
  simp only [UV.mustBind, UV.norm, List.cons.injEq, V.word.injEq, and_true, UVFields.mk.injEq]
  constructor
  · rintro ⟨h1, h2, h3, h4, h5, h6⟩
    exact ⟨words_inj h1, words_inj h2, h3, h4, h5, h6⟩
  · rintro ⟨h1, h2, h3, h4, h5, h6⟩
    exact ⟨by rw [h1], by rw [h2], h3, h4, h5, h6⟩

/-- **slc_mustBind_eq_iff.** -/
theorem slc_mustBind_eq_iff (f g : SLCFields) : SLC.mustBind f = SLC.mustBind g ↔ SLC.norm f = SLC.norm g := by
  simp only [SLC.mustBind, SLC.norm, List.cons.injEq, V.word.injEq, V.bytes.injEq, and_true,
    SLCFields.mk.injEq, Option.some.injEq]
  constructor
  · rintro ⟨h1, h2, h3, h4, h5, h6, h7, h8, h9, h10⟩
    exact ⟨h1, h2, fees_ext h3 h4 h5, h6, h7, h8, h9, h10⟩
  · rintro ⟨h1, h2, h3, h6, h7, h8, h9, h10⟩
    exact ⟨h1, h2, by rw [h3], by rw [h3], by rw [h3], h6, h7, h8, h9, h10⟩

/-- **usc_mustBind_eq_iff.** -/
theorem usc_mustBind_eq_iff (f g : USCFields) : USC.mustBind f = USC.mustBind g ↔ USC.norm f = USC.norm g := by
  simp only [USC.mustBind, USC.norm, List.cons.injEq, V.word.injEq, V.bytes.injEq, and_true,
    USCFields.mk.injEq, Option.some.injEq]
  constructor
  · rintro ⟨h1, h2, h3, h4, h5, h6, h7, h8, h9, h10⟩
    exact ⟨h1, h2, fees_ext h3 h4 h5, h6, h7, h8, h9, h10⟩
  · rintro ⟨h1, h2, h3, h6, h7, h8, h9, h10⟩
    exact ⟨h1, h2, by rw [h3], by rw [h3], by rw [h3], h6, h7, h8, h9, h10⟩

/-- **ch_mustBind_eq_iff.** -/
theorem ch_mustBind_eq_iff (f g : CHFields) : CH.mustBind f = CH.mustBind g ↔ CH.norm f = CH.norm g := by
  simp only [CH.mustBind, CH.norm, List.cons.injEq, V.word.injEq, V.seq.injEq, and_true, CHFields.mk.injEq]
  constructor
  · rintro ⟨h1, h2, h3, h4⟩
    exact ⟨map_callV_inj h1, h2, h3, h4⟩
  · rintro ⟨h1, h2, h3, h4⟩
    exact ⟨by rw [h1], h2, h3, h4⟩

/-- **batch_mustBind_eq_iff.** -/
theorem batch_mustBind_eq_iff (f g : BatchFields) :
    Batch.mustBind f = Batch.mustBind g ↔ Batch.norm f = Batch.norm g := by
  simp only [Batch.mustBind, Batch.norm, List.cons.injEq, V.word.injEq, and_true, BatchFields.mk.injEq]
  constructor
  · rintro ⟨h1, h2, h3, h4, h5, h6, h7, h8⟩
    exact ⟨h1, words_inj h2, words_inj h3, h4, h5, h6, h7, h8⟩
  · rintro ⟨h1, h2, h3, h4, h5, h6, h7, h8⟩
    exact ⟨h1, by rw [h2], by rw [h3], h4, h5, h6, h7, h8⟩

/-- `norm` only touches the defaulted field: with an elected estimate / explicit fees it is the
identity, so there the theorems below speak about the records themselves -/
theorem norm_id :
    (∀ f : UVFields, f.estimate ≠ 0 → UV.norm f = f) ∧
    (∀ f : SLCFields, f.fees ≠ none → SLC.norm f = f) ∧
    (∀ f : USCFields, f.fees ≠ none → USC.norm f = f) ∧
    (∀ f : CHFields, f.estimate ≠ 0 → CH.norm f = f) ∧
    (∀ f : BatchFields, f.estimate ≠ 0 → Batch.norm f = f) := by
  refine ⟨?_, ?_, ?_, ?_, ?_⟩
  · intro f h; cases f; simp_all [UV.norm, effEstimate]
  · intro f h
    cases f with
    | mk c p fe s i t d r =>
      cases fe with
      | none => exact absurd rfl h
      | some x => rfl
  · intro f h
    cases f with
    | mk c p fe s i t d r =>
      cases fe with
      | none => exact absurd rfl h
      | some x => rfl
  · intro f h; cases f; simp_all [CH.norm, effEstimate]
  · intro f h; cases f; simp_all [Batch.norm, effEstimate]

/-! ### hash layer ∘ argument layer: equal signing bytes ⇒ all fields ⇒ equal delivered arguments -/

/-- **signBytes_binds_all_fields.** For every ABI scheme: equal signing bytes, and no collision AT
the two pre-images involved, force ALL fields of the two records to agree (up to the signing
default of the estimate / the fees).  ASSUMPTION: the `NoColl` hypotheses (keccak). -/
theorem signBytes_binds_all_fields (H : Hash) :
    (∀ f g : UVFields, UV.wf f = true → UV.wf g = true →
        NoColl H (UV.preimage H f) (UV.preimage H g) → NoColl H (UV.checkpointPre f) (UV.checkpointPre g) →
        UV.signBytes H f = UV.signBytes H g → UV.norm f = UV.norm g) ∧
    (∀ f g : SLCFields, SLC.wf f = true → SLC.wf g = true → NoColl H (SLC.preimage f) (SLC.preimage g) →
        SLC.signBytes H f = SLC.signBytes H g → SLC.norm f = SLC.norm g) ∧
    (∀ f g : USCFields, USC.wf f = true → USC.wf g = true → NoColl H (USC.preimage f) (USC.preimage g) →
        USC.signBytes H f = USC.signBytes H g → USC.norm f = USC.norm g) ∧
    (∀ f g : CHFields, CH.wf f = true → CH.wf g = true → NoColl H (CH.preimage f) (CH.preimage g) →
        CH.signBytes H f = CH.signBytes H g → CH.norm f = CH.norm g) ∧
    (∀ f g : BatchFields, Batch.wf f = true → Batch.wf g = true →
        NoColl H (Batch.preimage f) (Batch.preimage g) →
        Batch.signBytes H f = Batch.signBytes H g → Batch.norm f = Batch.norm g) :=
  ⟨fun f g hf hg h1 h2 h => (uv_mustBind_eq_iff f g).1 (uv_mustBind_covered H f g hf hg h1 h2 h),
   fun f g hf hg h1 h => (slc_mustBind_eq_iff f g).1 (slc_mustBind_covered H f g hf hg h1 h),
   fun f g hf hg h1 h => (usc_mustBind_eq_iff f g).1 (usc_mustBind_covered H f g hf hg h1 h),
   fun f g hf hg h1 h => (ch_mustBind_eq_iff f g).1 (ch_mustBind_covered H f g hf hg h1 h),
   fun f g hf hg h1 h => (batch_mustBind_eq_iff f g).1 (batch_mustBind_covered H f g hf hg h1 h)⟩

/-- the delivered argument list is a function of the normal form, for messages whose estimate is
elected (fees: no proviso, both sides use `feesOrDefault`) -/
theorem delivered_of_norm :
    (∀ f g : UVFields, UV.norm f = UV.norm g → f.estimate ≠ 0 → g.estimate ≠ 0 →
        UV.deliveredVals f = UV.deliveredVals g) ∧
    (∀ f g : SLCFields, SLC.norm f = SLC.norm g → SLC.deliveredVals f = SLC.deliveredVals g) ∧
    (∀ f g : USCFields, USC.norm f = USC.norm g → USC.deliveredVals f = USC.deliveredVals g) ∧
    (∀ f g : CHFields, CH.norm f = CH.norm g → f.estimate ≠ 0 → g.estimate ≠ 0 →
        CH.deliveredVals f = CH.deliveredVals g) ∧
    (∀ f g : BatchFields, Batch.norm f = Batch.norm g → f.estimate ≠ 0 → g.estimate ≠ 0 →
        Batch.deliveredVals f = Batch.deliveredVals g) := by
  refine ⟨?_, ?_, ?_, ?_, ?_⟩
  · intro f g h hf hg
    simp only [UV.norm, UVFields.mk.injEq, effEstimate, hf, hg, ↓reduceIte] at h
    obtain ⟨h1, h2, h3, -, h5, h6⟩ := h
    simp only [UV.deliveredVals, UV.valsetV, h1, h2, h3, h5, h6]
  · intro f g h
    simp only [SLC.norm, SLCFields.mk.injEq, Option.some.injEq] at h
    obtain ⟨h1, h2, h3, h4, h5, -, h7, h8⟩ := h
    simp only [SLC.deliveredVals, h1, h2, h3, h4, h5, h7, h8]
  · intro f g h
    simp only [USC.norm, USCFields.mk.injEq, Option.some.injEq] at h
    obtain ⟨h1, h2, h3, h4, h5, -, h7, h8⟩ := h
    simp only [USC.deliveredVals, h1, h2, h3, h4, h5, h7, h8]
  · intro f g h hf hg
    simp only [CH.norm, CHFields.mk.injEq, effEstimate, hf, hg, ↓reduceIte] at h
    obtain ⟨h1, h2, h3, h4⟩ := h
    simp only [CH.deliveredVals, h1, h2, h3, h4]
  · intro f g h hf hg
    simp only [Batch.norm, BatchFields.mk.injEq, effEstimate, hf, hg, ↓reduceIte] at h
    obtain ⟨h1, h2, h3, h4, -, h6, h7, h8⟩ := h
    simp only [Batch.deliveredVals, h1, h2, h3, h4, h6, h7, h8]

/-- **signBytes_binds_delivered.** The composition the property asks for, per ABI scheme:
`signBytes f = signBytes g → deliveredVals f = deliveredVals g` — collected signatures authorise
exactly one delivered argument list.  ASSUMPTIONS: `NoColl` at the pre-images involved (keccak);
for the three schemes whose call carries a gas estimate, that it is elected on both sides
(`offered_message_is_elected`: relayers are offered nothing else; `estimate_default_collision`,
`uv_estimate_default_not_delivered` and `elected_estimate_clause_false_before_election` show the proviso
cannot be dropped — signatures exist before the election). -/
theorem signBytes_binds_delivered (H : Hash) :
    (∀ f g : UVFields, UV.wf f = true → UV.wf g = true →
        NoColl H (UV.preimage H f) (UV.preimage H g) → NoColl H (UV.checkpointPre f) (UV.checkpointPre g) →
        f.estimate ≠ 0 → g.estimate ≠ 0 →
        UV.signBytes H f = UV.signBytes H g → UV.deliveredVals f = UV.deliveredVals g) ∧
    (∀ f g : SLCFields, SLC.wf f = true → SLC.wf g = true → NoColl H (SLC.preimage f) (SLC.preimage g) →
        SLC.signBytes H f = SLC.signBytes H g → SLC.deliveredVals f = SLC.deliveredVals g) ∧
    (∀ f g : USCFields, USC.wf f = true → USC.wf g = true → NoColl H (USC.preimage f) (USC.preimage g) →
        USC.signBytes H f = USC.signBytes H g → USC.deliveredVals f = USC.deliveredVals g) ∧
    (∀ f g : CHFields, CH.wf f = true → CH.wf g = true → NoColl H (CH.preimage f) (CH.preimage g) →
        f.estimate ≠ 0 → g.estimate ≠ 0 →
        CH.signBytes H f = CH.signBytes H g → CH.deliveredVals f = CH.deliveredVals g) ∧
    (∀ f g : BatchFields, Batch.wf f = true → Batch.wf g = true →
        NoColl H (Batch.preimage f) (Batch.preimage g) → f.estimate ≠ 0 → g.estimate ≠ 0 →
        Batch.signBytes H f = Batch.signBytes H g → Batch.deliveredVals f = Batch.deliveredVals g) := by
  obtain ⟨a1, a2, a3, a4, a5⟩ := signBytes_binds_all_fields H
  obtain ⟨d1, d2, d3, d4, d5⟩ := delivered_of_norm
  exact ⟨fun f g hf hg h1 h2 e1 e2 h => d1 f g (a1 f g hf hg h1 h2 h) e1 e2,
    fun f g hf hg h1 h => d2 f g (a2 f g hf hg h1 h),
    fun f g hf hg h1 h => d3 f g (a3 f g hf hg h1 h),
    fun f g hf hg h1 e1 e2 h => d4 f g (a4 f g hf hg h1 h) e1 e2,
    fun f g hf hg h1 e1 e2 h => d5 f g (a5 f g hf hg h1 h) e1 e2⟩

/-! ### "changing any one of these changes the signing bytes", with the collision named -/

/-- **signBytes_sensitive.** For every scheme: two messages that differ in ANY bound value (one
field or several) have different signing bytes, or THESE TWO pre-images (for `UpdateValset` also:
these two checkpoint pre-images) are a keccak collision.  The disjunct is local — it names the
colliding byte strings — so for a hash without a collision at those strings the first disjunct
holds. -/
theorem signBytes_sensitive (H : Hash) :
    (∀ f g : UVFields, UV.wf f = true → UV.wf g = true → UV.mustBind f ≠ UV.mustBind g →
        UV.signBytes H f ≠ UV.signBytes H g ∨ CollAt H (UV.preimage H f) (UV.preimage H g) ∨
        CollAt H (UV.checkpointPre f) (UV.checkpointPre g)) ∧
    (∀ f g : SLCFields, SLC.wf f = true → SLC.wf g = true → SLC.mustBind f ≠ SLC.mustBind g →
        SLC.signBytes H f ≠ SLC.signBytes H g ∨ CollAt H (SLC.preimage f) (SLC.preimage g)) ∧
    (∀ f g : USCFields, USC.wf f = true → USC.wf g = true → USC.mustBind f ≠ USC.mustBind g →
        USC.signBytes H f ≠ USC.signBytes H g ∨ CollAt H (USC.preimage f) (USC.preimage g)) ∧
    (∀ f g : CHFields, CH.wf f = true → CH.wf g = true → CH.mustBind f ≠ CH.mustBind g →
        CH.signBytes H f ≠ CH.signBytes H g ∨ CollAt H (CH.preimage f) (CH.preimage g)) ∧
    (∀ f g : UPFields, UP.wf f = true → UP.wf g = true → f ≠ g →
        UP.signBytes H f ≠ UP.signBytes H g ∨ CollAt H (UP.preimage f) (UP.preimage g)) ∧
    (∀ f g : BatchFields, Batch.wf f = true → Batch.wf g = true → Batch.mustBind f ≠ Batch.mustBind g →
        Batch.signBytes H f ≠ Batch.signBytes H g ∨ CollAt H (Batch.preimage f) (Batch.preimage g)) := by
  refine ⟨?_, ?_, ?_, ?_, ?_, ?_⟩
  · intro f g hf hg hne
    rcases noColl_or_collAt H (UV.preimage H f) (UV.preimage H g) with h1 | h1
    · rcases noColl_or_collAt H (UV.checkpointPre f) (UV.checkpointPre g) with h2 | h2
      · exact .inl fun h => hne (uv_mustBind_covered H f g hf hg h1 h2 h)
      · exact .inr (.inr h2)
    · exact .inr (.inl h1)
  · intro f g hf hg hne
    rcases noColl_or_collAt H (SLC.preimage f) (SLC.preimage g) with h1 | h1
    · exact .inl fun h => hne (slc_mustBind_covered H f g hf hg h1 h)
    · exact .inr h1
  · intro f g hf hg hne
    rcases noColl_or_collAt H (USC.preimage f) (USC.preimage g) with h1 | h1
    · exact .inl fun h => hne (usc_mustBind_covered H f g hf hg h1 h)
    · exact .inr h1
  · intro f g hf hg hne
    rcases noColl_or_collAt H (CH.preimage f) (CH.preimage g) with h1 | h1
    · exact .inl fun h => hne (ch_mustBind_covered H f g hf hg h1 h)
    · exact .inr h1
  · intro f g hf hg hne
    rcases noColl_or_collAt H (UP.preimage f) (UP.preimage g) with h1 | h1
    · exact .inl fun h => hne (up_binds_bytecode_and_id H f g hf hg h1 h)
    · exact .inr h1
  · intro f g hf hg hne
    rcases noColl_or_collAt H (Batch.preimage f) (Batch.preimage g) with h1 | h1
    · exact .inl fun h => hne (batch_mustBind_covered H f g hf hg h1 h)
    · exact .inr h1

/-- **digest_not_injective.** Why collision freedom is only ever assumed pointwise: NO hash has an
injective 32-byte digest (pigeonhole on the 2^256 + 1 strings `0^i`).  Hence a hypothesis
`Function.Injective (digest H)` is contradictory and a disjunct "or a collision exists" is always
true; neither occurs in this file.  (Replaces the former `mustBind_covered_injective`, whose
hypothesis was unsatisfiable.) -/
theorem digest_not_injective (H : Hash) : ¬ Function.Injective (digest H) := by
  intro hinj
  obtain ⟨i, j, hij, _, e⟩ := pigeonhole W256 (fun i => digest H (List.replicate i 0))
    (fun i _ => digest_lt H _)
  have := congrArg List.length (hinj e)
  simp only [List.length_replicate] at this
  omega

/-! ### signatures cannot move between ABI schemes -/

/-- **cross_scheme_distinct.** "collected signatures can never authorise a different call": the
pre-images of the five ABI schemes (and the inner valset checkpoint) start with pairwise different
4-byte selectors, so a digest signed for one kind of call is never the digest of another kind
unless those two strings collide.  `UploadSmartContract` is NOT in this list: it has no selector,
see `up_overlaps_every_scheme` (clause false) and `up_distinct_under_side_condition`. -/
theorem cross_scheme_distinct (H : Hash) (u : UVFields) (s : SLCFields) (d : USCFields) (c : CHFields)
    (b : BatchFields) :
    UV.preimage H u ≠ SLC.preimage s ∧ UV.preimage H u ≠ USC.preimage d ∧
    UV.preimage H u ≠ CH.preimage c ∧ UV.preimage H u ≠ Batch.preimage b ∧
    SLC.preimage s ≠ USC.preimage d ∧ SLC.preimage s ≠ CH.preimage c ∧
    SLC.preimage s ≠ Batch.preimage b ∧ USC.preimage d ≠ CH.preimage c ∧
    USC.preimage d ≠ Batch.preimage b ∧ CH.preimage c ≠ Batch.preimage b ∧
    UV.checkpointPre u ≠ UV.preimage H u ∧ UV.checkpointPre u ≠ SLC.preimage s ∧
    UV.checkpointPre u ≠ USC.preimage d ∧ UV.checkpointPre u ≠ CH.preimage c ∧
    UV.checkpointPre u ≠ Batch.preimage b := by
  refine ⟨?_, ?_, ?_, ?_, ?_, ?_, ?_, ?_, ?_, ?_, ?_, ?_, ?_, ?_, ?_⟩ <;>
    exact sel_append_ne (by decide) (by decide)

/-! ### `UploadSmartContract` is NOT domain separated — the cross-action clause fails for it

FULL-STRENGTH CLAUSE ("collected signatures can never authorise a different call"), Go level:
```
∀ H a b d, goItemWf a → goItemWf b → goItemDigest H a = some d → goItemDigest H b = some d →
  (no collision at the two pre-images) → a.kind = b.kind
```
This is FALSE in the model and in /repo (`Message_UploadSmartContract.keccak256` hashes
`bytecode ++ be64(id)` with no method id): `cross_action_clause_false_for_up` below, with the
concrete witness `exUVItem` / `exUPForgery` in the non-vacuity section, replayed on the real
implementation by `TestC05` (stat `observed:up-preimage-equals-update_valset-preimage`).
The true statement needs the side condition `upSafe` (`go_digest_binds`). -/

/-- **up_preimage_covers.** The strings hashed for `UploadSmartContract` messages are ALL byte
strings of length ≥ 8: take the last 8 bytes as the message id and the rest as "bytecode". -/
theorem up_preimage_covers (b : Bytes) (h : 8 ≤ b.length) :
    ∃ u : UPFields, UP.wf u = true ∧ UP.preimage u = b := by
  refine ⟨{ bytecode := b.take (b.length - 8), id := natOfBytes (b.drop (b.length - 8)) }, ?_, ?_⟩
  · simp only [UP.wf, decide_eq_true_eq]
    exact natOfBytes_lt_U64 _ (by rw [List.length_drop]; omega)
  · simp only [UP.preimage]
    rw [be8_natOfBytes _ (by rw [List.length_drop]; omega)]
    exact List.take_append_drop _ _

/-- **up_overlaps_every_scheme.** Consequently for EVERY well-typed message of each ABI scheme
(and every batch) there is a well-formed `UploadSmartContract` message with literally the same
hashed string — the same signing bytes under every hash, no collision involved. -/
theorem up_overlaps_every_scheme (H : Hash) :
    (∀ f : UVFields, UV.wf f = true → ∃ u : UPFields, UP.wf u = true ∧ UP.preimage u = UV.preimage H f) ∧
    (∀ f : SLCFields, SLC.wf f = true → ∃ u : UPFields, UP.wf u = true ∧ UP.preimage u = SLC.preimage f) ∧
    (∀ f : USCFields, USC.wf f = true → ∃ u : UPFields, UP.wf u = true ∧ UP.preimage u = USC.preimage f) ∧
    (∀ f : CHFields, CH.wf f = true → ∃ u : UPFields, UP.wf u = true ∧ UP.preimage u = CH.preimage f) ∧
    (∀ f : BatchFields, Batch.wf f = true →
        ∃ u : UPFields, UP.wf u = true ∧ UP.preimage u = Batch.preimage f) :=
  ⟨fun f hf => up_preimage_covers _ (sel_pre_length_ge _ _ _ (by decide) (by decide) (uv_signed_typed H f hf)),
   fun f hf => up_preimage_covers _ (sel_pre_length_ge _ _ _ (by decide) (by decide) (slc_signed_typed f hf)),
   fun f hf => up_preimage_covers _ (sel_pre_length_ge _ _ _ (by decide) (by decide) (usc_signed_typed f hf)),
   fun f hf => up_preimage_covers _ (sel_pre_length_ge _ _ _ (by decide) (by decide) (ch_signed_typed f hf)),
   fun f hf => up_preimage_covers _ (sel_pre_length_ge _ _ _ (by decide) (by decide) (batch_signed_typed f hf))⟩

/-- **up_distinct_under_side_condition.** The best true statement for `UploadSmartContract`
against the ABI schemes: if the hashed string `bytecode ++ be64(id)` does not START with the
method id of a scheme, it is different from every pre-image of that scheme. -/
theorem up_distinct_under_side_condition (H : Hash) (u : UPFields)
    (hs : (UP.preimage u).take 4 ∉ schemeSelectors)
    (v : UVFields) (s : SLCFields) (d : USCFields) (c : CHFields) (b : BatchFields) :
    UP.preimage u ≠ UV.preimage H v ∧ UP.preimage u ≠ UV.checkpointPre v ∧
    UP.preimage u ≠ SLC.preimage s ∧ UP.preimage u ≠ USC.preimage d ∧
    UP.preimage u ≠ CH.preimage c ∧ UP.preimage u ≠ Batch.preimage b := by
  refine ⟨?_, ?_, ?_, ?_, ?_, ?_⟩ <;>
  · intro e
    rw [e] at hs
    exact hs (by simp [schemeSelectors, UV.preimage, UV.checkpointPre, SLC.preimage, USC.preimage,
      CH.preimage, Batch.preimage, selCheckpoint, selUpdateValset, selLogicCall, selCompassUpdateBatch,
      selDeployContract, selBatchCall])

/-! ### defaulting: the deliberate collisions, and what IS injective -/

/-- **fees_default_collision.** `feesOrDefault`: a message without fees and the same message with
the explicit triple (100000, 100000, 100000) have the same signed tuple — by construction. -/
theorem fees_default_collision (f : SLCFields) :
    SLC.signedVals { f with fees := none } = SLC.signedVals { f with fees := some defaultFees } := rfl

/-- … and these are the only fee collisions: the signed tuple determines `feesOrDefault fees`. -/
theorem fees_bound_up_to_default (f g : SLCFields) (h : SLC.signedVals f = SLC.signedVals g) :
    feesOrDefault f.fees = feesOrDefault g.fees := by
  simp only [SLC.signedVals, feeV, List.cons.injEq, V.word.injEq, V.seq.injEq, and_true] at h
  obtain ⟨-, ⟨h3, h4, h5, -⟩, -⟩ := h
  cases hx : feesOrDefault f.fees; cases hy : feesOrDefault g.fees
  simp_all

/-- **estimate_default_collision.** estimate 0 and estimate 300000 sign identically. -/
theorem estimate_default_collision (H : Hash) (f : UVFields) :
    UV.signedVals H { f with estimate := 0 } = UV.signedVals H { f with estimate := 300000 } := rfl

/-- **uv_estimate_default_not_delivered.** … but `VerifyAgainstTX` expects the RAW estimate in the
call data: for the two messages above the delivered tuples differ (0 vs 300000).  Hence
`uv_delivered_determined_by_signed` needs its `estimate ≠ 0` proviso, and a relayer that delivers
a not-yet-estimated update with the value that was signed (300000) cannot be attested. -/
theorem uv_estimate_default_not_delivered (f : UVFields) :
    UV.deliveredVals { f with estimate := 0 } ≠ UV.deliveredVals { f with estimate := 300000 } := by
  simp [UV.deliveredVals]

/-- **estimate_default_collisions_all.** The same deliberate collision in the other two schemes
that carry an estimate (`compass_update_batch`, `batch_call`): 0 and 300000 sign identically, and
the delivered argument lists differ.  Together with `signBytes_binds_all_fields` (everything is
bound up to `norm`) these are the ONLY identifications.  They are NOT harmless: validators sign before the
election (`elected_estimate_clause_false_before_election`); what /repo offers to relayers is elected
(`offered_message_is_elected`). -/
theorem estimate_default_collisions_all (c : CHFields) (b : BatchFields) :
    CH.signedVals { c with estimate := 0 } = CH.signedVals { c with estimate := 300000 } ∧
    CH.deliveredVals { c with estimate := 0 } ≠ CH.deliveredVals { c with estimate := 300000 } ∧
    Batch.signedVals { b with estimate := 0 } = Batch.signedVals { b with estimate := 300000 } ∧
    Batch.deliveredVals { b with estimate := 0 } ≠ Batch.deliveredVals { b with estimate := 300000 } := by
  refine ⟨rfl, ?_, rfl, ?_⟩
  · simp [CH.deliveredVals]
  · simp [Batch.deliveredVals]

/-- **fees_default_harmless.** The fee default, in both fee-carrying schemes: `nil` and the
explicit default triple sign identically AND are delivered identically (both sides go through
`feesOrDefault`), so this identification authorises nothing different. -/
theorem fees_default_harmless (s : SLCFields) (u : USCFields) :
    SLC.signedVals { s with fees := none } = SLC.signedVals { s with fees := some defaultFees } ∧
    SLC.deliveredVals { s with fees := none } = SLC.deliveredVals { s with fees := some defaultFees } ∧
    USC.signedVals { u with fees := none } = USC.signedVals { u with fees := some defaultFees } ∧
    USC.deliveredVals { u with fees := none } = USC.deliveredVals { u with fees := some defaultFees } :=
  ⟨rfl, rfl, rfl, rfl⟩

/-- `effEstimate` is injective away from the default: two elected (non-zero) estimates that sign
identically are equal. -/
theorem effEstimate_inj {a b : Nat} (ha : a ≠ 0) (hb : b ≠ 0) (h : effEstimate a = effEstimate b) : a = b := by
  simpa [effEstimate, ha, hb] using h

/-! ### Go values: every message lands inside the well-typedness domain of the theorems -/

/-- range facts the Go types guarantee (`uint64`, `int64`, slice lengths) -/
structure GoRange (m : GoMsg) : Prop where
  id : m.id < U64
  estimate : m.estimate < U64

theorem all_map_hexToAddress (l : List Bytes) :
    (l.map hexToAddress).all (fun a => decide (a < W160)) = true := by
  induction l with
  | nil => rfl
  | cons x l ih => simp [hexToAddress_lt, ih]

theorem all_map_castI64 (l : List Nat) (h : ∀ p ∈ l, p < U64) :
    (l.map castI64).all (fun a => decide (a < W256)) = true := by
  induction l with
  | nil => rfl
  | cons x l ih =>
    simp only [List.map_cons, List.all_cons, Bool.and_eq_true, decide_eq_true_eq]
    exact ⟨castI64_lt (h x (by simp)), ih fun p hp => h p (by simp [hp])⟩

/-- **go_uv_wf.** Every Go `UpdateValset` message converts to well-typed fields. -/
theorem go_uv_wf (m : GoMsg) (vs : GoValset) (hr : GoRange m)
    (hp : ∀ p ∈ vs.powers, p < U64) (hid : vs.valsetId < U64)
    (hl1 : vs.validators.length < W256) (hl2 : vs.powers.length < W256) :
    UV.wf (uvFields m vs) = true := by
  simp only [UV.wf, uvFields, Bool.and_eq_true, List.length_map]
  exact ⟨⟨⟨⟨⟨⟨⟨all_map_hexToAddress _, decide_eq_true hl1⟩, all_map_castI64 _ hp⟩, decide_eq_true hl2⟩,
    decide_eq_true (castI64_lt hid)⟩, decide_eq_true (bytes32OfString_lt _)⟩,
    decide_eq_true (hexToAddress_lt _)⟩, decide_eq_true hr.estimate⟩

/-- **go_slc_wf.** Every Go `SubmitLogicCall` message whose signing does not panic converts to
well-typed fields. -/
theorem go_slc_wf (m : GoMsg) (c p s : Bytes) (fe : Option Fees) (d : Int) (snd : Nat)
    (hr : GoRange m) (hfe : feesWf fe = true) (hs : padSender s = some snd) (hp : p.length < W256) :
    SLC.wf (slcFields m c p fe snd d) = true := by
  simp only [SLC.wf, slcFields, Bool.and_eq_true]
  exact ⟨⟨⟨⟨⟨⟨⟨decide_eq_true (hexToAddress_lt _), decide_eq_true hp⟩, hfe⟩, decide_eq_true (padSender_lt hs)⟩,
    decide_eq_true (castI64_lt hr.id)⟩, decide_eq_true (bytes32OfString_lt _)⟩,
    decide_eq_true (wordOfInt_lt _)⟩, decide_eq_true (hexToAddress_lt _)⟩

/-- **go_usc_wf.** -/
theorem go_usc_wf (m : GoMsg) (dep bc s : Bytes) (fe : Option Fees) (d : Int) (snd : Nat)
    (hr : GoRange m) (hfe : feesWf fe = true) (hs : padSender s = some snd) (hp : bc.length < W256) :
    USC.wf (uscFields m dep bc fe snd d) = true := by
  simp only [USC.wf, uscFields, Bool.and_eq_true]
  exact ⟨⟨⟨⟨⟨⟨⟨decide_eq_true (hexToAddress_lt _), decide_eq_true hp⟩, hfe⟩, decide_eq_true (padSender_lt hs)⟩,
    decide_eq_true (castI64_lt hr.id)⟩, decide_eq_true (bytes32OfString_lt _)⟩,
    decide_eq_true (wordOfInt_lt _)⟩, decide_eq_true (hexToAddress_lt _)⟩

/-- **go_ch_wf.** -/
theorem go_ch_wf (m : GoMsg) (cs : List (Bytes × Bytes)) (d : Int) (hr : GoRange m)
    (hl : cs.length < W256) (hp : ∀ c ∈ cs, c.2.length < W256) :
    CH.wf (chFields m cs d) = true := by
  simp only [CH.wf, chFields, Bool.and_eq_true, List.length_map]
  refine ⟨⟨⟨⟨?_, decide_eq_true hl⟩, decide_eq_true (wordOfInt_lt _)⟩, decide_eq_true (hexToAddress_lt _)⟩,
    decide_eq_true hr.estimate⟩
  rw [List.all_map]
  rw [List.all_eq_true]
  intro c hc
  simp [hexToAddress_lt, hp c hc]

theorem all_map_toNat (l : List Int) (h : ∀ a ∈ l, a < (W256 : Int)) :
    (l.map Int.toNat).all (fun a => decide (a < W256)) = true := by
  induction l with
  | nil => rfl
  | cons x l ih =>
    simp only [List.map_cons, List.all_cons, Bool.and_eq_true, decide_eq_true_eq]
    refine ⟨?_, ih fun a ha => h a (by simp [ha])⟩
    have := h x (by simp)
    have hp : (0 : Int) < (W256 : Int) := by decide
    omega

/-- **go_batch_wf.** Every skyway batch accepted by `ToInternal` converts to well-typed fields
(`sdkmath.Int` amounts are below 2^256 by construction of that type). -/
theorem go_batch_wf (ts : Bytes) (b : GoBatch) (hn : b.nonce < U64) (ht : b.timeout < U64)
    (he : b.estimate < U64) (ha : ∀ a ∈ b.amounts, a < (W256 : Int))
    (hl1 : b.dests.length < W256) (hl2 : b.amounts.length < W256) :
    Batch.wf (batchFields ts b) = true := by
  simp only [Batch.wf, batchFields, Bool.and_eq_true, List.length_map]
  exact ⟨⟨⟨⟨⟨⟨⟨⟨⟨decide_eq_true (hexToAddress_lt _), all_map_hexToAddress _⟩, decide_eq_true hl1⟩,
    all_map_toNat _ ha⟩, decide_eq_true hl2⟩, decide_eq_true (castI64_lt hn)⟩,
    decide_eq_true (bytes32OfString_lt _)⟩, decide_eq_true (castI64_lt ht)⟩,
    decide_eq_true (bytesToAddress_lt _)⟩, decide_eq_true he⟩

/-- **go_conversions_lossless_where_it_matters.** ids, powers, nonces (`int64(uint64)`) and
deadlines (`int64`) reach the ABI level injectively; `HexToAddress`, the `[32]byte` copy of the
turnstone id and the left-padding of the sender are many-to-one on Go values but the contract is
handed the converted value, which is what the signature binds. -/
theorem go_conversions_lossless_where_it_matters :
    (∀ a b : Nat, a < U64 → b < U64 → castI64 a = castI64 b → a = b) ∧
    (∀ a b : Int, -(I63 : Int) ≤ a ∧ a < (I63 : Int) → -(I63 : Int) ≤ b ∧ b < (I63 : Int) →
        wordOfInt a = wordOfInt b → a = b) :=
  ⟨fun _ _ ha hb h => castI64_inj ha hb h, fun _ _ ha hb h => wordOfInt_inj ha hb h⟩

/-! ### Go level: the entry points `goSignBytes` / `goBatchCheckpoint`, every branch -/

/-- **goSignBytes_eq_itemDigest.** `Keccak256WithSignedMessage` is the digest of `goPreimage` when
that exists, and panics exactly when it does not. -/
theorem goSignBytes_eq_itemDigest (H : Hash) (m : GoMsg) (ctor : Bytes) :
    (∀ d, goSignBytes H m = .hash d ↔ goItemDigest H (.msg m ctor) = some d) ∧
    (goSignBytes H m = .panic ↔ goItemDigest H (.msg m ctor) = none) := by
  obtain ⟨ts, rel, id, est, act⟩ := m
  cases act with
  | updateValset vs =>
    simp [goSignBytes, goItemDigest, goItemPreimage, goPreimage, UV.signBytes]
  | submitLogicCall c p fe s d =>
    cases hs : padSender s <;>
      simp [goSignBytes, goItemDigest, goItemPreimage, goPreimage, SLC.signBytes, hs]
  | uploadSmartContract bc =>
    simp [goSignBytes, goItemDigest, goItemPreimage, goPreimage, UP.signBytes]
  | uploadUserSmartContract dep bc fe s d =>
    cases hs : padSender s <;>
      simp [goSignBytes, goItemDigest, goItemPreimage, goPreimage, USC.signBytes, hs]
  | compassHandover cs d =>
    simp [goSignBytes, goItemDigest, goItemPreimage, goPreimage, CH.signBytes]

/-- **goSignBytes_panic_iff.** The `.panic` branch, characterised: signing panics iff the action is
a logic call / user contract upload whose `SenderAddress` is longer than 32 bytes — and then
`VerifyAgainstTX` has no argument list either (it panics on the same `bytes.Repeat`), so a message
that cannot be signed cannot be attested and vice versa. -/
theorem goSignBytes_panic_iff (H : Hash) (m : GoMsg) (ctor : Bytes) :
    (goSignBytes H m = .panic ↔ senderTooLong m = true) ∧
    (goItemDelivered (.msg m ctor) = none ↔ senderTooLong m = true) ∧
    (goItemBound (.msg m ctor) = none ↔ senderTooLong m = true) := by
  obtain ⟨ts, rel, id, est, act⟩ := m
  cases act with
  | updateValset vs => simp [goSignBytes, goItemDelivered, goItemBound, senderTooLong]
  | submitLogicCall c p fe s d =>
    by_cases hl : s.length > 32 <;>
      simp [goSignBytes, goItemDelivered, goItemBound, senderTooLong, padSender, hl]
  | uploadSmartContract bc => simp [goSignBytes, goItemDelivered, goItemBound, senderTooLong]
  | uploadUserSmartContract dep bc fe s d =>
    by_cases hl : s.length > 32 <;>
      simp [goSignBytes, goItemDelivered, goItemBound, senderTooLong, padSender, hl]
  | compassHandover cs d => simp [goSignBytes, goItemDelivered, goItemBound, senderTooLong]

/-- **goBatchCheckpoint_eq_itemDigest.** `GetCheckpoint` is the digest of the `batch_call`
pre-image when `ToInternal` accepts the batch, and returns an error (`none`) exactly when it does
not: a token / destination / per-transfer token that is not an Ethereum address, or a negative
amount.  Then nothing is bound and nothing can be delivered. -/
theorem goBatchCheckpoint_eq_itemDigest (H : Hash) (ts : Bytes) (b : GoBatch) :
    goBatchCheckpoint H ts b = goItemDigest H (.batch ts b) ∧
    (goBatchCheckpoint H ts b = none ↔ batchValid b = false) ∧
    (goItemDelivered (.batch ts b) = none ↔ batchValid b = false) ∧
    (goItemBound (.batch ts b) = none ↔ batchValid b = false) := by
  have hv : batchValid b = (validEthAddress b.token && b.dests.all validEthAddress &&
      b.tokenOfTx.all validEthAddress && !(b.amounts.any (fun a => decide (a < 0)))) := rfl
  unfold goBatchCheckpoint goItemDigest goItemPreimage goItemDelivered goItemBound
  cases h1 : validEthAddress b.token <;> cases h2 : b.dests.all validEthAddress <;>
    cases h3 : b.tokenOfTx.all validEthAddress <;> cases h4 : b.amounts.any (fun a => decide (a < 0)) <;>
    simp [hv, h1, h2, h3, h4, Batch.signBytes]

/-! #### views: every Go item of a kind is a well-typed record of that scheme -/

theorem goWf_msg {ts rel : Bytes} {id est : Nat} {act : GoAction} {ctor : Bytes}
    (hw : goItemWf (.msg ⟨ts, rel, id, est, act⟩ ctor) = true) :
    GoRange ⟨ts, rel, id, est, act⟩ := by
  simp only [goItemWf, Bool.and_eq_true, decide_eq_true_eq] at hw
  exact ⟨hw.1.1, hw.1.2⟩

/-- **view_uv.** -/
theorem view_uv (a : GoItem) (hk : a.kind = .uv) :
    ∃ f : UVFields, (goItemWf a = true → UV.wf f = true) ∧
      (∀ H, goItemPreimage H a = some (UV.preimage H f)) ∧
      goCheckpointPre a = some (UV.checkpointPre f) ∧
      goItemBound a = some (UV.mustBind f) ∧
      goItemDelivered a = some (.call .uv (UV.deliveredVals f)) ∧
      (itemElected a = true → f.estimate ≠ 0) := by
  cases a with
  | batch ts b => simp [GoItem.kind] at hk
  | msg m ctor =>
    obtain ⟨ts, rel, id, est, act⟩ := m
    cases act with
    | updateValset vs =>
      refine ⟨uvFields ⟨ts, rel, id, est, .updateValset vs⟩ vs, ?_, fun H => rfl, rfl, rfl, rfl, ?_⟩
      · intro hw
        have hr := goWf_msg hw
        simp only [goItemWf, Bool.and_eq_true, decide_eq_true_eq, List.all_eq_true] at hw
        exact go_uv_wf _ vs hr hw.2.1.1.1 hw.2.1.1.2 hw.2.1.2 hw.2.2
      · intro ho
        simp only [itemElected, decide_eq_true_eq] at ho
        simp only [uvFields]
        exact ho
    | _ => simp [GoItem.kind, GoAction.kind] at hk

/-- **view_slc.** -/
theorem view_slc (a : GoItem) (hk : a.kind = .slc) :
    ((∀ H, goItemPreimage H a = none) ∧ goItemBound a = none ∧ goItemDelivered a = none) ∨
    ∃ f : SLCFields, (goItemWf a = true → SLC.wf f = true) ∧
      (∀ H, goItemPreimage H a = some (SLC.preimage f)) ∧
      goItemBound a = some (SLC.mustBind f) ∧
      goItemDelivered a = some (.call .slc (SLC.deliveredVals f)) := by
  cases a with
  | batch ts b => simp [GoItem.kind] at hk
  | msg m ctor =>
    obtain ⟨ts, rel, id, est, act⟩ := m
    cases act with
    | submitLogicCall c p fe s d =>
      cases hs : padSender s with
      | none => exact .inl ⟨fun H => by simp [goItemPreimage, goPreimage, hs],
          by simp [goItemBound, hs], by simp [goItemDelivered, hs]⟩
      | some snd =>
        refine .inr ⟨slcFields ⟨ts, rel, id, est, .submitLogicCall c p fe s d⟩ c p fe snd d, ?_,
          fun H => by simp [goItemPreimage, goPreimage, hs], by simp [goItemBound, hs],
          by simp [goItemDelivered, hs]⟩
        intro hw
        have hr := goWf_msg hw
        simp only [goItemWf, Bool.and_eq_true, decide_eq_true_eq] at hw
        exact go_slc_wf _ c p s fe d snd hr hw.2.1.1 hs hw.2.1.2
    | _ => simp [GoItem.kind, GoAction.kind] at hk

/-- **view_usc.** -/
theorem view_usc (a : GoItem) (hk : a.kind = .usc) :
    ((∀ H, goItemPreimage H a = none) ∧ goItemBound a = none ∧ goItemDelivered a = none) ∨
    ∃ f : USCFields, (goItemWf a = true → USC.wf f = true) ∧
      (∀ H, goItemPreimage H a = some (USC.preimage f)) ∧
      goItemBound a = some (USC.mustBind f) ∧
      goItemDelivered a = some (.call .usc (USC.deliveredVals f)) := by
  cases a with
  | batch ts b => simp [GoItem.kind] at hk
  | msg m ctor =>
    obtain ⟨ts, rel, id, est, act⟩ := m
    cases act with
    | uploadUserSmartContract dep bc fe s d =>
      cases hs : padSender s with
      | none => exact .inl ⟨fun H => by simp [goItemPreimage, goPreimage, hs],
          by simp [goItemBound, hs], by simp [goItemDelivered, hs]⟩
      | some snd =>
        refine .inr ⟨uscFields ⟨ts, rel, id, est, .uploadUserSmartContract dep bc fe s d⟩ dep bc fe snd d, ?_,
          fun H => by simp [goItemPreimage, goPreimage, hs], by simp [goItemBound, hs],
          by simp [goItemDelivered, hs]⟩
        intro hw
        have hr := goWf_msg hw
        simp only [goItemWf, Bool.and_eq_true, decide_eq_true_eq] at hw
        exact go_usc_wf _ dep bc s fe d snd hr hw.2.1.1 hs hw.2.1.2
    | _ => simp [GoItem.kind, GoAction.kind] at hk

/-- **view_ch.** -/
theorem view_ch (a : GoItem) (hk : a.kind = .ch) :
    ∃ f : CHFields, (goItemWf a = true → CH.wf f = true) ∧
      (∀ H, goItemPreimage H a = some (CH.preimage f)) ∧
      goItemBound a = some (CH.mustBind f) ∧
      goItemDelivered a = some (.call .ch (CH.deliveredVals f)) ∧
      (itemElected a = true → f.estimate ≠ 0) := by
  cases a with
  | batch ts b => simp [GoItem.kind] at hk
  | msg m ctor =>
    obtain ⟨ts, rel, id, est, act⟩ := m
    cases act with
    | compassHandover cs d =>
      refine ⟨chFields ⟨ts, rel, id, est, .compassHandover cs d⟩ cs d, ?_, fun H => rfl, rfl, rfl, ?_⟩
      · intro hw
        have hr := goWf_msg hw
        simp only [goItemWf, Bool.and_eq_true, decide_eq_true_eq, List.all_eq_true] at hw
        exact go_ch_wf _ cs d hr hw.2.1.1 hw.2.1.2
      · intro ho
        simp only [itemElected, decide_eq_true_eq] at ho
        simp only [chFields]
        exact ho
    | _ => simp [GoItem.kind, GoAction.kind] at hk

/-- **view_up.** -/
theorem view_up (a : GoItem) (hk : a.kind = .up) :
    ∃ (u : UPFields) (ctor : Bytes), (goItemWf a = true → UP.wf u = true) ∧
      (∀ H, goItemPreimage H a = some (UP.preimage u)) ∧
      goItemBound a = some [.bytes u.bytecode, .word u.id] ∧
      goItemDelivered a = some (.create (UP.delivered u ctor)) ∧
      (upSafe a = true → (UP.preimage u).take 4 ∉ schemeSelectors) := by
  cases a with
  | batch ts b => simp [GoItem.kind] at hk
  | msg m ctor =>
    obtain ⟨ts, rel, id, est, act⟩ := m
    cases act with
    | uploadSmartContract bc =>
      refine ⟨{ bytecode := bc, id := id }, ctor, ?_, fun H => rfl, rfl, rfl, ?_⟩
      · intro hw
        have hr := goWf_msg hw
        simp only [UP.wf, decide_eq_true_eq]
        exact hr.id
      · intro hs
        simpa [upSafe, UP.preimage] using hs
    | _ => simp [GoItem.kind, GoAction.kind] at hk

/-- **view_batch.** -/
theorem view_batch (a : GoItem) (hk : a.kind = .batch) :
    ((∀ H, goItemPreimage H a = none) ∧ goItemBound a = none ∧ goItemDelivered a = none) ∨
    ∃ f : BatchFields, (goItemWf a = true → Batch.wf f = true) ∧
      (∀ H, goItemPreimage H a = some (Batch.preimage f)) ∧
      goItemBound a = some (Batch.mustBind f) ∧
      goItemDelivered a = some (.call .batch (Batch.deliveredVals f)) ∧
      (itemElected a = true → f.estimate ≠ 0) := by
  cases a with
  | msg m ctor =>
    obtain ⟨ts, rel, id, est, act⟩ := m
    cases act <;> simp [GoItem.kind, GoAction.kind] at hk
  | batch ts b =>
    cases hv : batchValid b with
    | false => exact .inl ⟨fun H => by simp [goItemPreimage, hv], by simp [goItemBound, hv],
        by simp [goItemDelivered, hv]⟩
    | true =>
      refine .inr ⟨batchFields ts b, ?_, fun H => by simp [goItemPreimage, hv], by simp [goItemBound, hv],
        by simp [goItemDelivered, hv], ?_⟩
      · intro hw
        simp only [goItemWf, Bool.and_eq_true, decide_eq_true_eq, List.all_eq_true] at hw
        exact go_batch_wf ts b hw.1.1.1.1.1 hw.1.1.1.1.2 hw.1.1.1.2 hw.1.1.2 hw.1.2 hw.2
      · intro ho
        simp only [itemElected, decide_eq_true_eq] at ho
        simp only [batchFields]
        exact ho

/-! #### kinds are told apart by the method id (given `upSafe`) -/

theorem goItemPreimage_take4 (H : Hash) (a : GoItem) (p : Bytes) (hp : goItemPreimage H a = some p)
    (hk : a.kind ≠ .up) : p.take 4 = kindSel a.kind := by
  cases hka : a.kind with
  | uv =>
    obtain ⟨f, -, hpf, -⟩ := view_uv a hka
    rw [hpf H] at hp
    injection hp with hp
    rw [← hp]; rfl
  | slc =>
    rcases view_slc a hka with ⟨hn, -⟩ | ⟨f, -, hpf, -⟩
    · rw [hn H] at hp; cases hp
    · rw [hpf H] at hp
      injection hp with hp
      rw [← hp]; rfl
  | up => exact absurd hka hk
  | usc =>
    rcases view_usc a hka with ⟨hn, -⟩ | ⟨f, -, hpf, -⟩
    · rw [hn H] at hp; cases hp
    · rw [hpf H] at hp
      injection hp with hp
      rw [← hp]; rfl
  | ch =>
    obtain ⟨f, -, hpf, -⟩ := view_ch a hka
    rw [hpf H] at hp
    injection hp with hp
    rw [← hp]; rfl
  | batch =>
    rcases view_batch a hka with ⟨hn, -⟩ | ⟨f, -, hpf, -⟩
    · rw [hn H] at hp; cases hp
    · rw [hpf H] at hp
      injection hp with hp
      rw [← hp]; rfl

theorem kind_eq_of_same_preimage (H : Hash) (a b : GoItem) (p : Bytes)
    (ha : goItemPreimage H a = some p) (hb : goItemPreimage H b = some p)
    (hsa : upSafe a = true) (hsb : upSafe b = true) : a.kind = b.kind := by
  by_cases h1 : a.kind = .up <;> by_cases h2 : b.kind = .up
  · rw [h1, h2]
  · exfalso
    obtain ⟨u, c, -, hpu, -, -, hs⟩ := view_up a h1
    have e : UP.preimage u = p := Option.some.inj ((hpu H).symm.trans ha)
    have := hs hsa
    rw [e, goItemPreimage_take4 H b p hb h2] at this
    exact this (kindSel_mem _ h2)
  · exfalso
    obtain ⟨u, c, -, hpu, -, -, hs⟩ := view_up b h2
    have e : UP.preimage u = p := Option.some.inj ((hpu H).symm.trans hb)
    have := hs hsb
    rw [e, goItemPreimage_take4 H a p ha h1] at this
    exact this (kindSel_mem _ h1)
  · exact kindSel_inj h1 h2
      ((goItemPreimage_take4 H a p ha h1).symm.trans (goItemPreimage_take4 H b p hb h2))

/-- **go_digest_binds.** C05 at the Go entry points, for all messages of every action type and all
batches at once.  If two items (`goSignBytes … = .hash d` / `goBatchCheckpoint … = some d`, i.e.
`goItemDigest … = some d` by the two theorems above) have the SAME signing bytes, then they are
items of the same kind — a signature never moves between `update_valset`, `logic_call`,
`deploy_contract`, `compass_update_batch`, `batch_call` and a compass deployment — and every value
of the property text coincides (`goItemBound`: the `mustBind` list of the converted fields, which
by `…_mustBind_eq_iff` is every field of the record).

Hypotheses.  `goItemWf`: ranges of the Go types (`uint64`, slice lengths).  ASSUMPTION (keccak):
no collision AT the two hashed strings, and at the two inner valset checkpoints.  SIDE CONDITION
`upSafe`: a compass-deployment item's hashed string does not start with a scheme's method id —
without it the statement is false (`cross_action_clause_false_for_up`).  The panic / rejected
branches are excluded by `goItemDigest … = some d`; they are characterised in
`goSignBytes_panic_iff` and `goBatchCheckpoint_eq_itemDigest`. -/
theorem go_digest_binds (H : Hash) (a b : GoItem) (d : Nat)
    (hwa : goItemWf a = true) (hwb : goItemWf b = true)
    (hsa : upSafe a = true) (hsb : upSafe b = true)
    (ha : goItemDigest H a = some d) (hb : goItemDigest H b = some d)
    (hout : ∀ p q, goItemPreimage H a = some p → goItemPreimage H b = some q → NoColl H p q)
    (hin : ∀ p q, goCheckpointPre a = some p → goCheckpointPre b = some q → NoColl H p q) :
    a.kind = b.kind ∧ goItemBound a = goItemBound b ∧ goItemBound a ≠ none := by
  obtain ⟨p, hp, rfl⟩ := goItemDigest_eq_some.1 ha
  obtain ⟨q, hq, hd⟩ := goItemDigest_eq_some.1 hb
  have hpq : p = q := hout p q hp hq hd
  subst hpq
  have hk := kind_eq_of_same_preimage H a b p hp hq hsa hsb
  refine ⟨hk, ?_⟩
  cases hka : a.kind with
  | uv =>
    obtain ⟨f, hwf, hpf, hcf, hbf, -, -⟩ := view_uv a hka
    obtain ⟨g, hwg, hpg, hcg, hbg, -, -⟩ := view_uv b (hk ▸ hka)
    have e1 : UV.preimage H f = p := Option.some.inj ((hpf H).symm.trans hp)
    have e2 : UV.preimage H g = p := Option.some.inj ((hpg H).symm.trans hq)
    have := uv_mustBind_covered H f g (hwf hwa) (hwg hwb) (fun _ => e1.trans e2.symm)
      (hin _ _ hcf hcg) (by simp only [UV.signBytes, e1, e2])
    rw [hbf, hbg, this]
    exact ⟨rfl, by simp⟩
  | slc =>
    rcases view_slc a hka with ⟨hn, -⟩ | ⟨f, hwf, hpf, hbf, -⟩
    · rw [hn H] at hp; cases hp
    rcases view_slc b (hk ▸ hka) with ⟨hn, -⟩ | ⟨g, hwg, hpg, hbg, -⟩
    · rw [hn H] at hq; cases hq
    have e1 : SLC.preimage f = p := Option.some.inj ((hpf H).symm.trans hp)
    have e2 : SLC.preimage g = p := Option.some.inj ((hpg H).symm.trans hq)
    have := slc_mustBind_covered H f g (hwf hwa) (hwg hwb) (fun _ => e1.trans e2.symm)
      (by simp only [SLC.signBytes, e1, e2])
    rw [hbf, hbg, this]
    exact ⟨rfl, by simp⟩
  | up =>
    obtain ⟨u, cu, hwu, hpu, hbu, -, -⟩ := view_up a hka
    obtain ⟨v, cv, hwv, hpv, hbv, -, -⟩ := view_up b (hk ▸ hka)
    have e1 : UP.preimage u = p := Option.some.inj ((hpu H).symm.trans hp)
    have e2 : UP.preimage v = p := Option.some.inj ((hpv H).symm.trans hq)
    have := up_binds_bytecode_and_id H u v (hwu hwa) (hwv hwb) (fun _ => e1.trans e2.symm)
      (by simp only [UP.signBytes, e1, e2])
    rw [hbu, hbv, this]
    exact ⟨rfl, by simp⟩
  | usc =>
    rcases view_usc a hka with ⟨hn, -⟩ | ⟨f, hwf, hpf, hbf, -⟩
    · rw [hn H] at hp; cases hp
    rcases view_usc b (hk ▸ hka) with ⟨hn, -⟩ | ⟨g, hwg, hpg, hbg, -⟩
    · rw [hn H] at hq; cases hq
    have e1 : USC.preimage f = p := Option.some.inj ((hpf H).symm.trans hp)
    have e2 : USC.preimage g = p := Option.some.inj ((hpg H).symm.trans hq)
    have := usc_mustBind_covered H f g (hwf hwa) (hwg hwb) (fun _ => e1.trans e2.symm)
      (by simp only [USC.signBytes, e1, e2])
    rw [hbf, hbg, this]
    exact ⟨rfl, by simp⟩
  | ch =>
    obtain ⟨f, hwf, hpf, hbf, -, -⟩ := view_ch a hka
    obtain ⟨g, hwg, hpg, hbg, -, -⟩ := view_ch b (hk ▸ hka)
    have e1 : CH.preimage f = p := Option.some.inj ((hpf H).symm.trans hp)
    have e2 : CH.preimage g = p := Option.some.inj ((hpg H).symm.trans hq)
    have := ch_mustBind_covered H f g (hwf hwa) (hwg hwb) (fun _ => e1.trans e2.symm)
      (by simp only [CH.signBytes, e1, e2])
    rw [hbf, hbg, this]
    exact ⟨rfl, by simp⟩
  | batch =>
    rcases view_batch a hka with ⟨hn, -⟩ | ⟨f, hwf, hpf, hbf, -, -⟩
    · rw [hn H] at hp; cases hp
    rcases view_batch b (hk ▸ hka) with ⟨hn, -⟩ | ⟨g, hwg, hpg, hbg, -, -⟩
    · rw [hn H] at hq; cases hq
    have e1 : Batch.preimage f = p := Option.some.inj ((hpf H).symm.trans hp)
    have e2 : Batch.preimage g = p := Option.some.inj ((hpg H).symm.trans hq)
    have := batch_mustBind_covered H f g (hwf hwa) (hwg hwb) (fun _ => e1.trans e2.symm)
      (by simp only [Batch.signBytes, e1, e2])
    rw [hbf, hbg, this]
    exact ⟨rfl, by simp⟩

/-- **go_bound_determines_delivered.** Hash-free half: two items of the same kind (not a compass
deployment) with the same bound values are handed to the remote contract with the same argument
list, provided each carries an elected estimate (`itemElected`: the estimate of an `UpdateValset`,
`CompassHandover` or batch is non-zero; see `offered_message_is_elected` for when that holds). -/
theorem go_bound_determines_delivered (a b : GoItem) (hk : a.kind = b.kind) (hup : a.kind ≠ .up)
    (hbd : goItemBound a = goItemBound b) (hs : goItemBound a ≠ none)
    (hoa : itemElected a = true) (hob : itemElected b = true) :
    goItemDelivered a = goItemDelivered b ∧ goItemDelivered a ≠ none := by
  obtain ⟨d1, d2, d3, d4, d5⟩ := delivered_of_norm
  cases hka : a.kind with
  | uv =>
    obtain ⟨f, -, -, -, hbf, hdf, hof⟩ := view_uv a hka
    obtain ⟨g, -, -, -, hbg, hdg, hog⟩ := view_uv b (hk ▸ hka)
    rw [hbf, hbg] at hbd
    rw [hdf, hdg, d1 f g ((uv_mustBind_eq_iff f g).1 (Option.some.inj hbd)) (hof hoa) (hog hob)]
    exact ⟨rfl, by simp⟩
  | slc =>
    rcases view_slc a hka with ⟨-, hn, -⟩ | ⟨f, -, -, hbf, hdf⟩
    · exact absurd hn hs
    rcases view_slc b (hk ▸ hka) with ⟨-, hn, -⟩ | ⟨g, -, -, hbg, hdg⟩
    · rw [hbf, hn] at hbd; cases hbd
    rw [hbf, hbg] at hbd
    rw [hdf, hdg, d2 f g ((slc_mustBind_eq_iff f g).1 (Option.some.inj hbd))]
    exact ⟨rfl, by simp⟩
  | up => exact absurd hka hup
  | usc =>
    rcases view_usc a hka with ⟨-, hn, -⟩ | ⟨f, -, -, hbf, hdf⟩
    · exact absurd hn hs
    rcases view_usc b (hk ▸ hka) with ⟨-, hn, -⟩ | ⟨g, -, -, hbg, hdg⟩
    · rw [hbf, hn] at hbd; cases hbd
    rw [hbf, hbg] at hbd
    rw [hdf, hdg, d3 f g ((usc_mustBind_eq_iff f g).1 (Option.some.inj hbd))]
    exact ⟨rfl, by simp⟩
  | ch =>
    obtain ⟨f, -, -, hbf, hdf, hof⟩ := view_ch a hka
    obtain ⟨g, -, -, hbg, hdg, hog⟩ := view_ch b (hk ▸ hka)
    rw [hbf, hbg] at hbd
    rw [hdf, hdg, d4 f g ((ch_mustBind_eq_iff f g).1 (Option.some.inj hbd)) (hof hoa) (hog hob)]
    exact ⟨rfl, by simp⟩
  | batch =>
    rcases view_batch a hka with ⟨-, hn, -⟩ | ⟨f, -, -, hbf, hdf, hof⟩
    · exact absurd hn hs
    rcases view_batch b (hk ▸ hka) with ⟨-, hn, -⟩ | ⟨g, -, -, hbg, hdg, hog⟩
    · rw [hbf, hn] at hbd; cases hbd
    rw [hbf, hbg] at hbd
    rw [hdf, hdg, d5 f g ((batch_mustBind_eq_iff f g).1 (Option.some.inj hbd)) (hof hoa) (hog hob)]
    exact ⟨rfl, by simp⟩

/-- **go_bound_determines_go_deadline.** The Go-level deadline itself (an `int64`, part of `goItemWf`) is bound,
not only its 256-bit word: two items of the same kind with the same bound values carry the same `int64`
deadline.  (Without the `int64` range `d` and `d + 2^256` would have the same word; the range is what the
protobuf type guarantees.) -/
theorem go_bound_determines_go_deadline (a b : GoItem) (hwa : goItemWf a = true) (hwb : goItemWf b = true)
    (hk : a.kind = b.kind) (hbd : goItemBound a = goItemBound b) (hs : goItemBound a ≠ none) :
    goDeadline a = goDeadline b := by
  have rng : ∀ d : Int, int64Ok d = true → -(I63 : Int) ≤ d ∧ d < (I63 : Int) := by
    intro d h
    simpa [int64Ok] using h
  cases a with
  | batch ts ba =>
    cases b with
    | batch _ _ => rfl
    | msg m c =>
      obtain ⟨ts', rel', id', est', act'⟩ := m
      cases act' <;> simp [GoItem.kind, GoAction.kind] at hk
  | msg m c =>
    cases b with
    | batch _ _ =>
      obtain ⟨ts, rel, id, est, act⟩ := m
      cases act <;> simp [GoItem.kind, GoAction.kind] at hk
    | msg m' c' =>
      obtain ⟨ts, rel, id, est, act⟩ := m
      obtain ⟨ts', rel', id', est', act'⟩ := m'
      cases act <;> cases act' <;> simp [GoItem.kind, GoAction.kind] at hk
      · rfl
      · rename_i c1 p1 fe1 s1 d1 c2 p2 fe2 s2 d2
        simp only [goItemWf, Bool.and_eq_true] at hwa hwb
        simp only [goItemBound] at hbd hs
        cases h1 : padSender s1 <;> cases h2 : padSender s2 <;> simp only [h1, h2] at hbd hs
        · exact absurd rfl hs
        · exact absurd rfl hs
        · cases hbd
        · simp only [SLC.mustBind, slcFields, Option.some.injEq, List.cons.injEq, V.word.injEq] at hbd
          simp only [goDeadline, Option.some.injEq]
          exact wordOfInt_inj (rng _ hwa.2.2) (rng _ hwb.2.2) hbd.2.2.2.2.2.2.2.2.1
      · rfl
      · rename_i c1 p1 fe1 s1 d1 c2 p2 fe2 s2 d2
        simp only [goItemWf, Bool.and_eq_true] at hwa hwb
        simp only [goItemBound] at hbd hs
        cases h1 : padSender s1 <;> cases h2 : padSender s2 <;> simp only [h1, h2] at hbd hs
        · exact absurd rfl hs
        · exact absurd rfl hs
        · cases hbd
        · simp only [USC.mustBind, uscFields, Option.some.injEq, List.cons.injEq, V.word.injEq] at hbd
          simp only [goDeadline, Option.some.injEq]
          exact wordOfInt_inj (rng _ hwa.2.2) (rng _ hwb.2.2) hbd.2.2.2.2.2.2.2.2.1
      · rename_i cs1 d1 cs2 d2
        simp only [goItemWf, Bool.and_eq_true] at hwa hwb
        simp only [goItemBound, CH.mustBind, chFields, Option.some.injEq, List.cons.injEq, V.word.injEq] at hbd
        simp only [goDeadline, Option.some.injEq]
        exact wordOfInt_inj (rng _ hwa.2.2) (rng _ hwb.2.2) hbd.2.1

/-- **go_digest_binds_delivered_partial.** The property's main clause at the Go entry points:
collected signatures (one digest `d`) authorise exactly ONE delivered call — same compass method,
same argument list — for every kind except a compass deployment.  `_partial` because
(1) the side condition `upSafe` is needed (`cross_action_clause_false_for_up`),
(2) for `UploadSmartContract` the delivered creation data is NOT determined
(`up_delivered_not_bound`); what is determined there is stated in `up_digest_binds_bytecode`, and
(3) both items must carry an ELECTED estimate (`itemElected`: `estimate ≠ 0` for `UpdateValset` /
`CompassHandover` / batch) — without it the clause is false
(`elected_estimate_clause_false_before_election`).  (3) is discharged from the queue model for everything the
producers of /repo get offered to relayers: `offered_message_is_elected`,
`relayed_messages_digest_binds_delivered`. -/
theorem go_digest_binds_delivered_partial (H : Hash) (a b : GoItem) (d : Nat)
    (hwa : goItemWf a = true) (hwb : goItemWf b = true)
    (hsa : upSafe a = true) (hsb : upSafe b = true)
    (ha : goItemDigest H a = some d) (hb : goItemDigest H b = some d)
    (hout : ∀ p q, goItemPreimage H a = some p → goItemPreimage H b = some q → NoColl H p q)
    (hin : ∀ p q, goCheckpointPre a = some p → goCheckpointPre b = some q → NoColl H p q)
    (hoa : itemElected a = true) (hob : itemElected b = true) (hup : a.kind ≠ .up) :
    goItemDelivered a = goItemDelivered b ∧ goItemDelivered a ≠ none := by
  obtain ⟨hk, hbd, hs⟩ := go_digest_binds H a b d hwa hwb hsa hsb ha hb hout hin
  exact go_bound_determines_delivered a b hk hup hbd hs hoa hob

/-- **goSignBytes_binds.** The same, spelled out on `Message.Keccak256WithSignedMessage` itself:
two turnstone messages for which it returns the same hash `d` (neither panics) have the same
action type, the same bound values, and — unless they are compass deployments — the same
delivered call once both carry an elected estimate (`itemElected`). -/
theorem goSignBytes_binds (H : Hash) (m m' : GoMsg) (c c' : Bytes) (d : Nat)
    (hwa : goItemWf (.msg m c) = true) (hwb : goItemWf (.msg m' c') = true)
    (hsa : upSafe (.msg m c) = true) (hsb : upSafe (.msg m' c') = true)
    (ha : goSignBytes H m = .hash d) (hb : goSignBytes H m' = .hash d)
    (hout : ∀ p q, goPreimage H m = some p → goPreimage H m' = some q → NoColl H p q)
    (hin : ∀ p q, goCheckpointPre (.msg m c) = some p → goCheckpointPre (.msg m' c') = some q →
      NoColl H p q) :
    m.action.kind = m'.action.kind ∧ goItemBound (.msg m c) = goItemBound (.msg m' c') ∧
    (m.action.kind ≠ .up → itemElected (.msg m c) = true → itemElected (.msg m' c') = true →
      goItemDelivered (.msg m c) = goItemDelivered (.msg m' c') ∧ goItemDelivered (.msg m c) ≠ none) := by
  have ha' := ((goSignBytes_eq_itemDigest H m c).1 d).1 ha
  have hb' := ((goSignBytes_eq_itemDigest H m' c').1 d).1 hb
  obtain ⟨hk, hbd, hs⟩ := go_digest_binds H _ _ d hwa hwb hsa hsb ha' hb' hout hin
  exact ⟨hk, hbd, fun hup hoa hob => go_bound_determines_delivered _ _ hk hup hbd hs hoa hob⟩

/-- **message_signature_never_authorises_batch.** Turnstone messages and skyway batches: a digest
returned by `Keccak256WithSignedMessage` is never the checkpoint `GetCheckpoint` returns for a
batch (no collision at the two hashed strings; `upSafe` for a compass deployment). -/
theorem message_signature_never_authorises_batch (H : Hash) (m : GoMsg) (c ts : Bytes) (b : GoBatch)
    (d : Nat) (hwa : goItemWf (.msg m c) = true) (hwb : goItemWf (.batch ts b) = true)
    (hsa : upSafe (.msg m c) = true)
    (ha : goSignBytes H m = .hash d) (hb : goBatchCheckpoint H ts b = some d)
    (hout : ∀ p q, goPreimage H m = some p → goItemPreimage H (.batch ts b) = some q → NoColl H p q) :
    False := by
  have ha' := ((goSignBytes_eq_itemDigest H m c).1 d).1 ha
  have hb' : goItemDigest H (.batch ts b) = some d := by
    rw [← (goBatchCheckpoint_eq_itemDigest H ts b).1]
    exact hb
  obtain ⟨hk, -, -⟩ := go_digest_binds H _ _ d hwa hwb hsa rfl ha' hb' hout
    (fun p q _ hq => by simp [goCheckpointPre] at hq)
  obtain ⟨t, rel, id, est, act⟩ := m
  cases act <;> simp [GoItem.kind, GoAction.kind] at hk

/-- **up_digest_binds_bytecode.** For two compass deployments with the same signing bytes the
delivered creation data start with the same bytecode (and the message ids agree); the
constructor inputs that follow are unconstrained. -/
theorem up_digest_binds_bytecode (H : Hash) (a b : GoItem) (d : Nat)
    (hwa : goItemWf a = true) (hwb : goItemWf b = true) (hka : a.kind = .up) (hkb : b.kind = .up)
    (ha : goItemDigest H a = some d) (hb : goItemDigest H b = some d)
    (hout : ∀ p q, goItemPreimage H a = some p → goItemPreimage H b = some q → NoColl H p q) :
    ∃ bc ca cb, goItemDelivered a = some (.create (bc ++ ca)) ∧
      goItemDelivered b = some (.create (bc ++ cb)) := by
  obtain ⟨p, hp, rfl⟩ := goItemDigest_eq_some.1 ha
  obtain ⟨q, hq, hd⟩ := goItemDigest_eq_some.1 hb
  have hpq : p = q := hout p q hp hq hd
  subst hpq
  obtain ⟨u, cu, hwu, hpu, -, hdu, -⟩ := view_up a hka
  obtain ⟨v, cv, hwv, hpv, -, hdv, -⟩ := view_up b hkb
  have e1 : UP.preimage u = p := Option.some.inj ((hpu H).symm.trans hp)
  have e2 : UP.preimage v = p := Option.some.inj ((hpv H).symm.trans hq)
  have := up_binds_bytecode_and_id H u v (hwu hwa) (hwv hwb) (fun _ => e1.trans e2.symm)
    (by simp only [UP.signBytes, e1, e2])
  subst this
  exact ⟨u.bytecode, cu, cv, hdu, hdv⟩

/-! #### what is false, with witnesses -/

/-- **up_delivered_not_bound.** FULL-STRENGTH CLAUSE "the signing bytes depend on every value that
is delivered" is FALSE for `UploadSmartContract`, in the model and in /repo
(`Message_UploadSmartContract.keccak256` reads `Bytecode` and the queue id only): two messages
that differ in the constructor input — which carries the new compass (deployment) id, the valset
and the fee manager — and in relayer, turnstone id and estimate have the same signing bytes under
every hash, yet different creation data is delivered.  Observed on the real code by `TestC05`
(stat `observed:up-ignores-ctor-relayer-turnstone`, every `up` case). -/
theorem up_delivered_not_bound (H : Hash) (m : GoMsg) (bc ctor ctor' rel' ts' : Bytes) (est' : Nat)
    (hm : m.action = .uploadSmartContract bc) (hc : ctor ≠ ctor') :
    goItemDigest H (.msg { m with relayer := rel', turnstoneId := ts', estimate := est' } ctor') =
      goItemDigest H (.msg m ctor) ∧
    goSignBytes H { m with relayer := rel', turnstoneId := ts', estimate := est' } = goSignBytes H m ∧
    goItemDelivered (.msg { m with relayer := rel', turnstoneId := ts', estimate := est' } ctor') ≠
      goItemDelivered (.msg m ctor) := by
  obtain ⟨ts, rel, id, est, act⟩ := m
  simp only at hm
  subst hm
  refine ⟨rfl, rfl, ?_⟩
  simp only [goItemDelivered, UP.delivered, ne_eq, Option.some.injEq, Delivered.create.injEq,
    List.append_cancel_left_eq]
  exact fun e => hc e.symm

/-- **up_forgery_exists.** For every non-deployment item that can be signed there is a well-formed
`UploadSmartContract` item with literally the same hashed string — hence the same signing bytes
under EVERY hash. -/
theorem up_forgery_exists (H : Hash) (a : GoItem) (hw : goItemWf a = true) (hk : a.kind ≠ .up)
    (p : Bytes) (hp : goItemPreimage H a = some p) :
    ∃ b : GoItem, b.kind = .up ∧ goItemWf b = true ∧ goItemPreimage H b = some p := by
  have hlen : 8 ≤ p.length := by
    cases hka : a.kind with
    | uv =>
      obtain ⟨f, hwf, hpf, -⟩ := view_uv a hka
      rw [← Option.some.inj ((hpf H).symm.trans hp)]
      exact sel_pre_length_ge _ _ _ (by decide) (by decide) (uv_signed_typed H f (hwf hw))
    | slc =>
      rcases view_slc a hka with ⟨hn, -⟩ | ⟨f, hwf, hpf, -⟩
      · rw [hn H] at hp; cases hp
      rw [← Option.some.inj ((hpf H).symm.trans hp)]
      exact sel_pre_length_ge _ _ _ (by decide) (by decide) (slc_signed_typed f (hwf hw))
    | up => exact absurd hka hk
    | usc =>
      rcases view_usc a hka with ⟨hn, -⟩ | ⟨f, hwf, hpf, -⟩
      · rw [hn H] at hp; cases hp
      rw [← Option.some.inj ((hpf H).symm.trans hp)]
      exact sel_pre_length_ge _ _ _ (by decide) (by decide) (usc_signed_typed f (hwf hw))
    | ch =>
      obtain ⟨f, hwf, hpf, -⟩ := view_ch a hka
      rw [← Option.some.inj ((hpf H).symm.trans hp)]
      exact sel_pre_length_ge _ _ _ (by decide) (by decide) (ch_signed_typed f (hwf hw))
    | batch =>
      rcases view_batch a hka with ⟨hn, -⟩ | ⟨f, hwf, hpf, -⟩
      · rw [hn H] at hp; cases hp
      rw [← Option.some.inj ((hpf H).symm.trans hp)]
      exact sel_pre_length_ge _ _ _ (by decide) (by decide) (batch_signed_typed f (hwf hw))
  obtain ⟨u, hwu, hpu⟩ := up_preimage_covers p hlen
  refine ⟨.msg ⟨[], [], u.id, 0, .uploadSmartContract u.bytecode⟩ [], rfl, ?_, ?_⟩
  · simp only [UP.wf, decide_eq_true_eq] at hwu
    simp only [goItemWf, Bool.and_eq_true, decide_eq_true_eq, and_true]
    exact ⟨hwu, U64_pos⟩
  · simp only [goItemPreimage, goPreimage]
    exact congrArg some hpu

/-- witness for the failing cross-action clause: an `UpdateValset` of validator `0x2` (power 5,
valset id 3) for compass "compass", relayer `0x1`, elected estimate 41 -/
def exUVItem : GoItem :=
  .msg ⟨[99, 111, 109, 112, 97, 115, 115], [49], 7, 41, .updateValset ⟨[[50]], [5], 3⟩⟩ []

/-- **cross_action_clause_false_for_up.** The full-strength cross-action clause (no side condition
on compass-deployment items) is FALSE: for the well-formed `UpdateValset` item `exUVItem` — and by
`up_forgery_exists` for every signable item — there is a well-formed `UploadSmartContract` item
hashing the very same byte string, so the two kinds share their signing bytes under every hash
although no collision is involved (the `NoColl` hypotheses hold trivially: the strings are equal).
A signature set collected for such a deployment message is a valid authorisation of
`update_valset` on the remote compass.  Reproduced on the real implementation by `TestC05`
(`observed:up-preimage-equals-update_valset-preimage`).  The "bytecode" of the forged message is
92 bytes `9af2b8d2 ‖ checkpoint ‖ relayer ‖ 0^24` and must come from a governance proposal; nothing
in /repo rejects it. -/
theorem cross_action_clause_false_for_up :
    ¬ (∀ (H : Hash) (a b : GoItem) (d : Nat), goItemWf a = true → goItemWf b = true →
        goItemDigest H a = some d → goItemDigest H b = some d →
        (∀ p q, goItemPreimage H a = some p → goItemPreimage H b = some q → NoColl H p q) →
        (∀ p q, goCheckpointPre a = some p → goCheckpointPre b = some q → NoColl H p q) →
        a.kind = b.kind) := by
  intro hall
  have hw : goItemWf exUVItem = true := by decide
  obtain ⟨f, -, hpf, -⟩ := view_uv exUVItem rfl
  obtain ⟨b, hkb, hwb, hpb⟩ := up_forgery_exists (fun _ => 0) exUVItem hw (by decide) _ (hpf _)
  have hk := hall (fun _ => 0) exUVItem b _ hw hwb
    (goItemDigest_eq_some.2 ⟨_, hpf _, rfl⟩) (goItemDigest_eq_some.2 ⟨_, hpb, rfl⟩)
    (fun p q hp hq _ => by
      rw [hpf] at hp
      rw [hpb] at hq
      exact (Option.some.inj hp).symm.trans (Option.some.inj hq))
    (fun p q _ hq => by
      have := goCheckpointPre_some_kind b q hq
      rw [hkb] at this
      cases this)
  rw [hkb] at hk
  exact absurd hk (by decide)

/-- **go_digest_binds_message_id.** For the three kinds whose scheme contains the message id
(`logic_call`, `deploy_contract`, compass deployment) equal signing bytes force equal `id` fields of the two
`GoMsg`s (ASSUMPTION: `NoColl` at the pre-images).  The `id` field is `QueuedSignedMessage.Id`; that it is the
value `Put` returned, and hence that two different queued messages of these kinds never share their signing
bytes, is `stored_message_id_is_a_returned_id` / `queued_messages_never_share_signing_bytes` on the joint
model of `Put` (ids and stored messages together). -/
theorem go_digest_binds_message_id (H : Hash) (m m' : GoMsg) (c c' : Bytes) (d : Nat)
    (hwa : goItemWf (.msg m c) = true) (hwb : goItemWf (.msg m' c') = true)
    (hsa : upSafe (.msg m c) = true) (hsb : upSafe (.msg m' c') = true)
    (ha : goItemDigest H (.msg m c) = some d) (hb : goItemDigest H (.msg m' c') = some d)
    (hout : ∀ p q, goItemPreimage H (.msg m c) = some p → goItemPreimage H (.msg m' c') = some q →
      NoColl H p q)
    (hkind : m.action.kind = .slc ∨ m.action.kind = .usc ∨ m.action.kind = .up) : m.id = m'.id := by
  obtain ⟨hk, hbd, hs⟩ := go_digest_binds H _ _ d hwa hwb hsa hsb ha hb hout (fun p q hp _ => by
    have := goCheckpointPre_some_kind _ p hp
    simp only [GoItem.kind] at this
    rw [this] at hkind
    simp at hkind)
  obtain ⟨ts, rel, id, est, act⟩ := m
  obtain ⟨ts', rel', id', est', act'⟩ := m'
  have hia : id < U64 := (goWf_msg hwa).id
  have hib : id' < U64 := (goWf_msg hwb).id
  simp only
  cases act <;> cases act' <;> simp [GoItem.kind, GoAction.kind] at hk hkind
  · rename_i c1 p1 fe1 s1 d1 c2 p2 fe2 s2 d2
    simp only [goItemBound] at hbd hs
    cases h1 : padSender s1 <;> cases h2 : padSender s2 <;> simp only [h1, h2] at hbd hs
    · exact absurd rfl hs
    · exact absurd rfl hs
    · cases hbd
    · simp only [SLC.mustBind, slcFields, Option.some.injEq, List.cons.injEq, V.word.injEq] at hbd
      exact castI64_inj hia hib hbd.2.2.2.2.2.2.1
  · simp only [goItemBound, Option.some.injEq, List.cons.injEq, V.word.injEq, and_true] at hbd
    exact hbd.2
  · rename_i c1 p1 fe1 s1 d1 c2 p2 fe2 s2 d2
    simp only [goItemBound] at hbd hs
    cases h1 : padSender s1 <;> cases h2 : padSender s2 <;> simp only [h1, h2] at hbd hs
    · exact absurd rfl hs
    · exact absurd rfl hs
    · cases hbd
    · simp only [USC.mustBind, uscFields, Option.some.injEq, List.cons.injEq, V.word.injEq] at hbd
      exact castI64_inj hia hib hbd.2.2.2.2.2.2.1

/-- **relay_filters_need_elected_estimate.** The two relay-side filters, exactly: `filters.HasGasEstimate` (a
conjunct of `GetMessagesForRelaying`) lets a message through iff estimation is NOT required for it or its
estimate is non-zero; the skyway `OutgoingTxBatches` query lists a batch iff its estimate is non-zero; and for
a non-zero estimate the signed value IS the stored value.  Whether estimation is required is the flag the
message was enqueued with — not decided here, see `offered_message_is_elected`. -/
theorem relay_filters_need_elected_estimate :
    (∀ req est, hasGasEstimate req est = true ↔ (req = false ∨ est ≠ 0)) ∧
    (∀ est, batchOffered est = true ↔ est ≠ 0) ∧
    (∀ est, est ≠ 0 → effEstimate est = est) := by
  refine ⟨?_, ?_, ?_⟩
  · intro req est
    cases req
    · simp [hasGasEstimate]
    · simp only [hasGasEstimate, Bool.not_true, Bool.false_eq_true, ↓reduceIte, decide_eq_true_eq, false_or,
        reduceCtorEq]
      omega
  · intro est
    simp only [batchOffered, Bool.not_eq_eq_eq_not, Bool.not_true, decide_eq_false_iff_not]
    omega
  · intro est h
    simp [effEstimate, h]

/-! ### the estimate default: what is signed BEFORE an estimate is elected (FINDING)

`Keccak256WithSignedMessage` / `GetCheckpoint` substitute 300000 for an estimate of 0, and nothing stops
validators from signing an item whose estimate is not elected yet (`GetMessagesForSigning` has no
`HasGasEstimate` filter, `AddMessageSignature` / `ConfirmBatch` no such check; queue model:
`Queue.unelected_message_is_signable`, `Queue.signatures_before_election_sign_the_defaults`).  Hence the
property's clause "the signing bytes depend on … the elected gas estimate; changing it changes the signing
bytes; collected signatures can never authorise a different … fee" is FALSE for items that are signable but
not yet elected: their signatures are valid, under every hash, for the same call with `gas_estimate = 300000`,
a value nobody elected. -/

/-- **estimate_default_go_collision.** At the Go entry point, for EVERY `UpdateValset` / `CompassHandover`
message: with estimate 0 (nothing elected) and with estimate 300000 `Keccak256WithSignedMessage` hashes
literally the same byte string — equal signing bytes under every hash, no collision involved — while the
calls handed to the remote contract differ (`gas_estimate` 0 vs 300000). -/
theorem estimate_default_go_collision (H : Hash) (m : GoMsg) (c : Bytes)
    (hk : m.action.kind = .uv ∨ m.action.kind = .ch) :
    goSignBytes H { m with estimate := 0 } = goSignBytes H { m with estimate := 300000 } ∧
    goItemPreimage H (.msg { m with estimate := 0 } c) = goItemPreimage H (.msg { m with estimate := 300000 } c) ∧
    goItemDelivered (.msg { m with estimate := 0 } c) ≠ goItemDelivered (.msg { m with estimate := 300000 } c) := by
  obtain ⟨ts, rel, id, est, act⟩ := m
  cases act with
  | updateValset vs =>
    refine ⟨rfl, rfl, ?_⟩
    simp [goItemDelivered, UV.deliveredVals, uvFields]
  | compassHandover cs d =>
    refine ⟨rfl, rfl, ?_⟩
    simp [goItemDelivered, CH.deliveredVals, chFields]
  | submitLogicCall _ _ _ _ _ => simp [GoAction.kind] at hk
  | uploadSmartContract _ => simp [GoAction.kind] at hk
  | uploadUserSmartContract _ _ _ _ _ => simp [GoAction.kind] at hk

/-- the same for skyway batches: `GetCheckpoint` of a batch without estimate is the checkpoint of the batch
with estimate 300000; for a batch `ToInternal` accepts the delivered `submit_batch` arguments differ -/
theorem estimate_default_batch_collision (H : Hash) (ts : Bytes) (b : GoBatch) :
    goBatchCheckpoint H ts { b with estimate := 0 } = goBatchCheckpoint H ts { b with estimate := 300000 } ∧
    (batchValid b = true →
      goItemDelivered (.batch ts { b with estimate := 0 }) ≠ goItemDelivered (.batch ts { b with estimate := 300000 })) := by
  refine ⟨rfl, ?_⟩
  intro hv
  have h0 : batchValid { b with estimate := 0 } = true := hv
  have h3 : batchValid { b with estimate := 300000 } = true := hv
  simp [goItemDelivered, h0, h3, Batch.deliveredVals, batchFields]

/-- `exUVItem` before its estimate is elected, and the same message with the default as "elected" value -/
def exUVUnelected : GoItem :=
  .msg ⟨[99, 111, 109, 112, 97, 115, 115], [49], 7, 0, .updateValset ⟨[[50]], [5], 3⟩⟩ []
def exUVDefault : GoItem :=
  .msg ⟨[99, 111, 109, 112, 97, 115, 115], [49], 7, 300000, .updateValset ⟨[[50]], [5], 3⟩⟩ []

/-- **elected_estimate_clause_false_before_election.**  FULL-STRENGTH CLAUSE (no "estimate is elected"
proviso) — "items with the same signing bytes are handed to the remote contract with the same arguments" — is
FALSE, in the model and in /repo: the well-formed, signable `UpdateValset` item `exUVUnelected` (estimate 0)
and `exUVDefault` (estimate 300000) hash the very same byte string, so every `NoColl` hypothesis holds
trivially, yet `update_valset` is delivered with `gas_estimate` 0 resp. 300000.  Reproduced on the real
implementation by `TestC05` (the golden pair `u.est = 0` / `u.est = 300_000`: equal digests from the real
`Keccak256WithSignedMessage`).  The true statement is `go_digest_binds_delivered_partial` (hypothesis
`itemElected`), discharged for everything /repo offers to relayers by `offered_message_is_elected`. -/
theorem elected_estimate_clause_false_before_election :
    ¬ (∀ (H : Hash) (a b : GoItem) (d : Nat), goItemWf a = true → goItemWf b = true →
        upSafe a = true → upSafe b = true → a.kind ≠ .up →
        goItemDigest H a = some d → goItemDigest H b = some d →
        (∀ p q, goItemPreimage H a = some p → goItemPreimage H b = some q → NoColl H p q) →
        (∀ p q, goCheckpointPre a = some p → goCheckpointPre b = some q → NoColl H p q) →
        goItemDelivered a = goItemDelivered b) := by
  intro hall
  have hpre : ∀ H, goItemPreimage H exUVUnelected = goItemPreimage H exUVDefault := fun _ => rfl
  have hcp : goCheckpointPre exUVUnelected = goCheckpointPre exUVDefault := rfl
  obtain ⟨f, -, hpf, -⟩ := view_uv exUVUnelected rfl
  have hpf' : goItemPreimage (fun _ => 0) exUVDefault = some (UV.preimage (fun _ => 0) f) := by
    rw [← hpre]; exact hpf _
  have := hall (fun _ => 0) exUVUnelected exUVDefault _ (by decide) (by decide) (by decide) (by decide) (by decide)
    (goItemDigest_eq_some.2 ⟨_, hpf _, rfl⟩) (goItemDigest_eq_some.2 ⟨_, hpf', rfl⟩)
    (fun p q hp hq _ => by
      rw [hpre] at hp
      exact Option.some.inj (hp.symm.trans hq))
    (fun p q hp hq _ => by
      rw [hcp] at hp
      exact Option.some.inj (hp.symm.trans hq))
  simp [goItemDelivered, exUVUnelected, exUVDefault, UV.deliveredVals, uvFields] at this

/-! ### what /repo offers to relayers carries an elected estimate (link to the queue model, C14)

`Model/Queue.lean` is the executable model of the consensus queue (enqueue through the relayer pick, estimate
submission, end-block election, `GetMessagesForRelaying` with all its filters); `Props/C14.lean` proves over
all histories that a message offered for relay requires estimation and has a non-zero elected estimate
whenever every message entered through a producer of /repo (relayer pick + `RequireGasEstimation: true`).
`Represents` says which Go-level item a queue-model item stands for. -/

/-- action kinds of the queue model vs. the schemes here (`other` of the queue model is `CompassHandover`;
compass deployments, `UploadSmartContract`, are not in the queue model) -/
def kindAgrees : Paloma.Queue.Kind → Kind → Prop
  | .valset, .uv => True
  | .slc, .slc => True
  | .uusc, .usc => True
  | .other, .ch => True
  | _, _ => False

/-- the Go-level message `g` is what the queue-model item `it` stands for: same queue id, the wrapper's
`GasEstimate` (which `Keccak256WithSignedMessage` reads) is the model's `elected`, kinds correspond -/
def Represents (it : Paloma.Queue.Item) (g : GoItem) : Prop :=
  ∃ m c, g = .msg m c ∧ m.id = it.id ∧ m.estimate = it.elected ∧ kindAgrees it.kind m.action.kind

/-- **offered_message_is_elected** (discharges `itemElected` from the queue model instead of assuming it).
After ANY history of the consensus queue in which every message entered through a request-level `enqueue`
(what every producer of /repo does), a message contained in ANY answer of the relay query requires
estimation and has a non-zero elected estimate — so the real filter `hasGasEstimate` lets it through for the
right reason — and every Go-level item it stands for satisfies `itemElected` and is not a compass deployment. -/
theorem offered_message_is_elected (ops : List Paloma.Queue.Op)
    (hnoput : ∀ o ∈ ops, ∀ k c sd a r q, o ≠ Paloma.Queue.Op.put k c sd a r q)
    (v : Nat) (it : Paloma.Queue.Item) (hit : it ∈ (Paloma.Queue.run ops).queue)
    (hoff : it.id ∈ Paloma.Queue.offeredPage (Paloma.Queue.run ops).queue v)
    (g : GoItem) (hr : Represents it g) :
    it.reqEst = true ∧ it.elected ≠ 0 ∧ hasGasEstimate it.reqEst it.elected = true ∧
      itemElected g = true ∧ g.kind ≠ .up := by
  have hoff' := (Paloma.Queue.relay_answer_sound _ v).1 _ hoff
  obtain ⟨hreq, hel⟩ := Paloma.Queue.offered_requires_elected_no_put ops hnoput v it hit hoff'
  obtain ⟨m, c, rfl, _, hest, hkind⟩ := hr
  refine ⟨hreq, hel, ?_, ?_, ?_⟩
  · rw [hreq]
    simp only [hasGasEstimate, Bool.not_true, Bool.false_eq_true, ↓reduceIte, decide_eq_true_eq]
    omega
  · obtain ⟨ts, rel, id, est, act⟩ := m
    simp only at hest
    cases act <;> simp [itemElected, hest, hel]
  · obtain ⟨ts, rel, id, est, act⟩ := m
    cases hk : it.kind <;> cases act <;> simp [hk, kindAgrees, GoAction.kind, GoItem.kind] at hkind ⊢

/-- **relayed_messages_digest_binds_delivered** (the property's main clause for what is actually relayed, no
`itemElected` hypothesis left).  Take two messages offered for relay after any two queue histories (the
queues of two chains, or one queue at two times) built from request-level `enqueue`s, and Go-level items `a`,
`b` they stand for.  If `a` and `b` have the same signing bytes, they are delivered as the same compass call
with the same arguments.  Remaining hypotheses: Go ranges (`goItemWf`), keccak (`NoColl` AT the hashed
strings), and nothing else — `upSafe` holds because neither is a compass deployment. -/
theorem relayed_messages_digest_binds_delivered (H : Hash)
    (ops1 ops2 : List Paloma.Queue.Op)
    (hnp1 : ∀ o ∈ ops1, ∀ k c sd a r q, o ≠ Paloma.Queue.Op.put k c sd a r q)
    (hnp2 : ∀ o ∈ ops2, ∀ k c sd a r q, o ≠ Paloma.Queue.Op.put k c sd a r q)
    (v1 v2 : Nat) (it1 it2 : Paloma.Queue.Item)
    (hit1 : it1 ∈ (Paloma.Queue.run ops1).queue) (hit2 : it2 ∈ (Paloma.Queue.run ops2).queue)
    (hoff1 : it1.id ∈ Paloma.Queue.offeredPage (Paloma.Queue.run ops1).queue v1)
    (hoff2 : it2.id ∈ Paloma.Queue.offeredPage (Paloma.Queue.run ops2).queue v2)
    (a b : GoItem) (hra : Represents it1 a) (hrb : Represents it2 b) (d : Nat)
    (hwa : goItemWf a = true) (hwb : goItemWf b = true)
    (ha : goItemDigest H a = some d) (hb : goItemDigest H b = some d)
    (hout : ∀ p q, goItemPreimage H a = some p → goItemPreimage H b = some q → NoColl H p q)
    (hin : ∀ p q, goCheckpointPre a = some p → goCheckpointPre b = some q → NoColl H p q) :
    goItemDelivered a = goItemDelivered b ∧ goItemDelivered a ≠ none := by
  obtain ⟨_, _, _, hea, hka⟩ := offered_message_is_elected ops1 hnp1 v1 it1 hit1 hoff1 a hra
  obtain ⟨_, _, _, heb, hkb⟩ := offered_message_is_elected ops2 hnp2 v2 it2 hit2 hoff2 b hrb
  have upSafe_of : ∀ g : GoItem, g.kind ≠ .up → upSafe g = true := by
    intro g hg
    cases g with
    | batch _ _ => rfl
    | msg m c =>
      obtain ⟨ts, rel, id, est, act⟩ := m
      cases act <;> simp [upSafe, GoItem.kind, GoAction.kind] at hg ⊢
  exact go_digest_binds_delivered_partial H a b d hwa hwb (upSafe_of a hka) (upSafe_of b hkb) ha hb hout hin hea heb hka

/-- **put_path_offers_unelected_valset** (SCOPE of the two theorems above: they need the request-level entry
point).  The keeper-level `PutMessageInQueue` with `RequireGasEstimation: false` stores a validator-set update
that is offered to its assignee at once with `elected = 0`: a Go item standing for it is NOT `itemElected`, its
signatures are over 300000 and `VerifyAgainstTX` expects 0.  No producer in /repo enqueues an update that way
(`PublishValsetToChain` passes `RequireGasEstimation: true`). -/
theorem put_path_offers_unelected_valset :
    Paloma.Queue.offeredPage (Paloma.Queue.run [.put .valset 3 0 2 8 false]).queue 2 = [1] ∧
    ((Paloma.Queue.run [.put .valset 3 0 2 8 false]).queue.map fun it => (it.id, it.reqEst, it.elected, (Paloma.Queue.bytesOf it).gas)) =
      [(1, false, 0, 300000)] ∧
    itemElected exUVUnelected = false := by decide

/-! ### message ids -/

/-- **ids_strictly_increase.** Over every sequence of put / replace / remove operations on any
number of queues (fewer than 2^64 of them: the counter is a `uint64`), the fresh ids handed out
are strictly increasing in the order of issue (`issued` is newest first), start at 1 and never
exceed the counter.  (`issued` is the list of RETURNED fresh ids: `issued_is_returned_fresh_ids`;
the statement on the returned ids themselves is `returned_fresh_ids_strictly_increase`.) -/
theorem ids_strictly_increase (ops : List IdOp) (h : ops.length < U64) :
    (idRun {} ops).issued.Pairwise (· > ·) ∧
    ∀ i ∈ (idRun {} ops).issued, 1 ≤ i ∧ i ≤ (idRun {} ops).counter := by
  have := (idRun_inv ops {} idInv_init (by simpa using h)).1
  exact ⟨this.sorted, this.bounded⟩

/-- **fresh_id_is_new.** A fresh `Put` in ANY state reachable from genesis returns an id that is
larger than every id issued before (so an id is never reused, not even after its message was
removed), logs it, and stores the message under it. -/
theorem fresh_id_is_new (ops : List IdOp) (q : Nat) (h : ops.length + 1 < U64) :
    ∃ id, idStep (idRun {} ops) (.put q 0) =
        ({ counter := id, live := (q, id) :: (idRun {} ops).live, issued := id :: (idRun {} ops).issued },
          .ok id) ∧
      (∀ j ∈ (idRun {} ops).issued, j < id) ∧ id ∉ (idRun {} ops).issued ∧
      ∀ p ∈ (idRun {} ops).live, p.2 ≠ id := by
  have hi := idRun_inv ops {} idInv_init (by
    show 0 + ops.length < U64
    omega)
  generalize idRun {} ops = s at hi ⊢
  have hc : s.counter + 1 < U64 := by
    have h2 : s.counter ≤ 0 + ops.length := hi.2
    omega
  refine ⟨s.counter + 1, ?_, ?_, ?_, ?_⟩
  · simp [idStep, Nat.mod_eq_of_lt hc]
  · intro j hj
    have := (hi.1.bounded j hj).2
    omega
  · intro hm
    have := (hi.1.bounded _ hm).2
    omega
  · intro p hp e
    have := (hi.1.bounded _ (hi.1.liveIssued p hp)).2
    omega

/-- **replace_keeps_id.** `Put` with `MsgIDToReplace = r ≠ 0` never touches the counter: it
answers `r` when (and only when) a message with id `r` is stored in THAT queue, and changes
neither the set of stored ids nor the log. -/
theorem replace_keeps_id (s : IdSt) (q r : Nat) (hr : r ≠ 0) :
    (idStep s (.put q r)).1 = s ∧
    ((idStep s (.put q r)).2 = .ok r ↔ (q, r) ∈ s.live) ∧
    ((idStep s (.put q r)).2 = .notFound ↔ (q, r) ∉ s.live) := by
  simp only [idStep, ne_eq, hr, not_false_eq_true, ↓reduceIte]
  by_cases hm : hasMsg s q r = true
  · have := (hasMsg_iff s q r).1 hm
    simp [hm, this]
  · have hn : (q, r) ∉ s.live := fun h => hm ((hasMsg_iff s q r).2 h)
    simp [hm, hn]

/-- **ids_unique_across_queues.** After any sequence of operations no id is stored twice: not in
two queues (of one or of several chains) and not twice in one queue. -/
theorem ids_unique_across_queues (ops : List IdOp) (h : ops.length < U64) :
    ((idRun {} ops).live.map (·.2)).Nodup ∧
    ∀ q1 q2 id, (q1, id) ∈ (idRun {} ops).live → (q2, id) ∈ (idRun {} ops).live → q1 = q2 := by
  have hi := (idRun_inv ops {} idInv_init (by simpa using h)).1
  refine ⟨hi.nodup, ?_⟩
  intro q1 q2 id h1 h2
  have hn := hi.nodup
  clear hi
  generalize (idRun {} ops).live = l at hn h1 h2
  induction l with
  | nil => cases h1
  | cons p l ih =>
    simp only [List.map_cons, List.nodup_cons] at hn
    simp only [List.mem_cons] at h1 h2
    rcases h1 with rfl | h1 <;> rcases h2 with h2 | h2
    · injection h2 with e1 _
      exact e1.symm
    · exact absurd (List.mem_map.2 ⟨(q2, id), h2, rfl⟩) hn.1
    · subst h2
      exact absurd (List.mem_map.2 ⟨(q1, id), h1, rfl⟩) hn.1
    · exact ih hn.2 h1 h2

/-! ### ids: statements about what `Put` RETURNS along a history

`freshIds {} ops` is the list of ids returned by the fresh `Put`s of the history `ops`, in order —
a function of the observable results (`idStep … .2`) only.  The state fields `issued` (a log),
`counter` (the stored `GetLastID`) and `live` (the stored messages) are tied to it. -/

/-- **issued_is_returned_fresh_ids.** The log `issued` is exactly the returned fresh ids (newest
first): it is a function of the history, not a free ghost. -/
theorem issued_is_returned_fresh_ids (ops : List IdOp) :
    (idRun {} ops).issued = (freshIds {} ops).reverse := by
  have := idRun_issued ops {}
  simpa using this

/-- **returned_fresh_ids_strictly_increase.** C05 "message ids … strictly increase for the lifetime
of the chain": over every history of put / replace / remove operations on any queues (fewer than
2^64 operations — ASSUMPTION, the counter is a `uint64`, see `id_counter_wrap_needed`), the ids
returned by fresh `Put`s are strictly increasing in the order they were returned. -/
theorem returned_fresh_ids_strictly_increase (ops : List IdOp) (h : ops.length < U64) :
    (freshIds {} ops).Pairwise (· < ·) := by
  have := (ids_strictly_increase ops h).1
  rw [issued_is_returned_fresh_ids, List.pairwise_reverse] at this
  exact this

/-- **later_fresh_id_larger.** The same, split at an arbitrary point of the history: every id
returned after the prefix `pre` is larger than every id returned during `pre` — whatever was
replaced or removed in between.  In particular an id is never returned twice. -/
theorem later_fresh_id_larger (pre post : List IdOp) (h : (pre ++ post).length < U64) (i j : Nat)
    (hi : i ∈ freshIds {} pre) (hj : j ∈ freshIds (idRun {} pre) post) : i < j := by
  have := returned_fresh_ids_strictly_increase (pre ++ post) h
  rw [freshIds_append, List.pairwise_append] at this
  exact this.2.2 i hi j hj

/-- **counter_is_last_returned_id.** The stored counter (`GetLastID`) is the last id a fresh `Put`
returned (0 before the first). -/
theorem counter_is_last_returned_id (ops : List IdOp) (h : ops.length < U64) :
    (freshIds {} ops = [] ∧ (idRun {} ops).counter = 0) ∨
    (freshIds {} ops).getLast? = some (idRun {} ops).counter := by
  have ht := (idRun_inv ops {} idInv_init (by simpa using h)).1.top
  rw [issued_is_returned_fresh_ids] at ht
  rcases ht with ⟨h1, h2⟩ | h1
  · exact .inl ⟨by simpa using h1, h2⟩
  · exact .inr (by simpa using h1)

/-- **every_returned_id_was_issued.** EVERY `ok id` any operation returns — a fresh `Put`, a `Put`
with `MsgIDToReplace`, a `Remove` — is an id some fresh `Put` of the history (this one included)
returned: replace and remove never introduce an id. -/
theorem every_returned_id_was_issued (pre : List IdOp) (op : IdOp) (id : Nat)
    (h : (idStep (idRun {} pre) op).2 = .ok id) : id ∈ freshIds {} (pre ++ [op]) := by
  rw [freshIds_append]
  simp only [freshIds, List.append_nil, List.mem_append]
  have hsub := idRun_live_sub pre {} (by simp)
  have hiss := issued_is_returned_fresh_ids pre
  generalize idRun {} pre = s at h hsub hiss ⊢
  cases op with
  | put q r =>
    by_cases hr : r = 0
    · right
      subst hr
      simp [freshOf, h]
    · left
      simp only [idStep, ne_eq, hr, not_false_eq_true, ↓reduceIte] at h
      split at h
      · rename_i hm
        simp only [IdRes.ok.injEq] at h
        subst h
        have := hsub _ ((hasMsg_iff s q r).1 hm)
        rw [hiss] at this
        simpa using this
      · simp at h
  | remove q r =>
    left
    simp only [idStep] at h
    split at h
    · rename_i hm
      simp only [IdRes.ok.injEq] at h
      subst h
      have := hsub _ ((hasMsg_iff s q r).1 hm)
      rw [hiss] at this
      simpa using this
    · simp at h

/-- **stored_id_provenance.** Every message stored in a queue after any history carries the id a
fresh `Put` ON THAT QUEUE returned at some point of the history. -/
theorem stored_id_provenance (ops : List IdOp) (q id : Nat) (h : (q, id) ∈ (idRun {} ops).live) :
    ∃ pre post, ops = pre ++ .put q 0 :: post ∧ (idStep (idRun {} pre) (.put q 0)).2 = .ok id := by
  rcases idRun_live_provenance ops {} q id h with h1 | h1
  · simp at h1
  · exact h1

/-! ### ids and signing bytes together: the message that is hashed carries the id `Put` returned

`jqStep` (Model/SignBytes.lean) is `idStep` plus what `Queue.Put` / `Remove` do to the stored message: a fresh
`Put` stores the message with `Id :=` the id it returns and no estimate, a `Put` with `MsgIDToReplace` swaps the
message under the same id (estimate kept), `Remove` deletes it.  The `id` field of a stored `GoMsg` is therefore
a function of the history — not a free field. -/

/-- **joint_model_is_the_id_model.** The id part of the joint model is the id model run on the same history
(so every id theorem above applies to it), and the keys (queue, `msg.id`) of the stored messages are exactly
the live ids, in the same order. -/
theorem joint_model_is_the_id_model (ops : List JqOp) :
    (jqRun {} ops).ids = idRun {} (ops.map JqOp.toId) ∧
    (jqRun {} ops).msgs.map (fun p => (p.1, p.2.id)) = (idRun {} (ops.map JqOp.toId)).live := by
  have h1 := jqRun_ids ops {}
  have h2 : JqKeys (jqRun {} ops) := jqRun_keys ops {} rfl
  unfold JqKeys at h2
  exact ⟨h1, by rw [h2, h1]⟩

/-- every result the joint model returns is the result of the id model (`ok id`, `notFound`, `zeroId`) -/
theorem joint_model_returns_id_model_results (pre : List JqOp) (op : JqOp) :
    (jqStep (jqRun {} pre) op).2 = (idStep (idRun {} (pre.map JqOp.toId)) op.toId).2 := by
  rw [(jqStep_ids _ op).2, (joint_model_is_the_id_model pre).1]

/-- **stored_message_id_is_a_returned_id.** The `id` field of every stored message — the value
`Keccak256WithSignedMessage` reads through `q.GetId()` — is the id a fresh `Put` ON THAT QUEUE returned at
some point of the history. -/
theorem stored_message_id_is_a_returned_id (ops : List JqOp) (q : Nat) (m : GoMsg)
    (h : (q, m) ∈ (jqRun {} ops).msgs) :
    ∃ pre post m0, ops = pre ++ JqOp.put q m0 0 :: post ∧ (jqStep (jqRun {} pre) (.put q m0 0)).2 = .ok m.id := by
  have hl : (q, m.id) ∈ (idRun {} (ops.map JqOp.toId)).live := by
    rw [← (joint_model_is_the_id_model ops).2]
    exact List.mem_map.2 ⟨(q, m), h, rfl⟩
  obtain ⟨pre, post, he, hok⟩ := stored_id_provenance _ q m.id hl
  obtain ⟨pre', rest, hops, hpre, hrest⟩ := List.map_eq_append_iff.1 he
  obtain ⟨op, post', hrest', hop, _⟩ := List.map_eq_cons_iff.1 hrest
  subst hops hrest'
  cases op with
  | remove _ _ => simp [JqOp.toId] at hop
  | put q' m0 r =>
    simp only [JqOp.toId, IdOp.put.injEq] at hop
    obtain ⟨rfl, rfl⟩ := hop
    refine ⟨pre', post', m0, rfl, ?_⟩
    rw [joint_model_returns_id_model_results, hpre]
    exact hok

/-- **queued_messages_have_distinct_ids.** After any history (fewer than 2^64 operations), the messages
stored in all queues of all chains carry pairwise different ids. -/
theorem queued_messages_have_distinct_ids (ops : List JqOp) (h : ops.length < U64) :
    ((jqRun {} ops).msgs.map (·.2.id)).Nodup := by
  have hn := (ids_unique_across_queues (ops.map JqOp.toId) (by simpa using h)).1
  rw [← (joint_model_is_the_id_model ops).2, List.map_map] at hn
  exact hn

/-- **queued_messages_never_share_signing_bytes** (C05: "message ids are unique", tied to the bytes).  After any
history of `Put` / replace / `Remove` over any queues of any chains (fewer than 2^64 operations), two
DIFFERENT stored messages (different positions of the store) of the kinds whose scheme contains the message id
— `logic_call`, `deploy_contract`, compass deployment — never have the same signing bytes.
Hypotheses: Go ranges, `upSafe`, and keccak collision-freeness AT the two hashed strings (external ASSUMPTION).
For `UpdateValset` / `CompassHandover` the statement is false: their schemes contain no message id
(`Queue` example "two queued updates … share signing bytes", harness stat `observed:uv-scheme-has-no-id`). -/
theorem queued_messages_never_share_signing_bytes (H : Hash) (ops : List JqOp) (h : ops.length < U64)
    (i j : Nat) (hij : i ≠ j) (p1 p2 : Nat × GoMsg)
    (h1 : (jqRun {} ops).msgs[i]? = some p1) (h2 : (jqRun {} ops).msgs[j]? = some p2) (c1 c2 : Bytes)
    (hw1 : goItemWf (.msg p1.2 c1) = true) (hw2 : goItemWf (.msg p2.2 c2) = true)
    (hs1 : upSafe (.msg p1.2 c1) = true) (hs2 : upSafe (.msg p2.2 c2) = true)
    (hkind : p1.2.action.kind = .slc ∨ p1.2.action.kind = .usc ∨ p1.2.action.kind = .up)
    (hout : ∀ p q, goItemPreimage H (.msg p1.2 c1) = some p → goItemPreimage H (.msg p2.2 c2) = some q → NoColl H p q)
    (d : Nat) (hd1 : goSignBytes H p1.2 = .hash d) : goSignBytes H p2.2 ≠ .hash d := by
  intro hd2
  have ha := ((goSignBytes_eq_itemDigest H p1.2 c1).1 d).1 hd1
  have hb := ((goSignBytes_eq_itemDigest H p2.2 c2).1 d).1 hd2
  have hid := go_digest_binds_message_id H p1.2 p2.2 c1 c2 d hw1 hw2 hs1 hs2 ha hb hout hkind
  exact hij (nodup_map_getElem?_inj (fun p : Nat × GoMsg => p.2.id) _ (queued_messages_have_distinct_ids ops h)
    i j p1 p2 h1 h2 hid)

/-- **remove_spec.** `Remove`, both branches: `ok id` iff the message is stored in THAT queue, and
then exactly that entry disappears; otherwise `notFound` and nothing changes.  The counter and the
log are never touched: a removed id is not handed out again (`later_fresh_id_larger`). -/
theorem remove_spec (s : IdSt) (q id : Nat) :
    ((idStep s (.remove q id)).2 = .ok id ↔ (q, id) ∈ s.live) ∧
    ((idStep s (.remove q id)).2 = .notFound ↔ (q, id) ∉ s.live) ∧
    ((q, id) ∉ s.live → (idStep s (.remove q id)).1 = s) ∧
    (∀ p, p ∈ (idStep s (.remove q id)).1.live ↔ p ∈ s.live ∧ p ≠ (q, id)) ∧
    (idStep s (.remove q id)).1.issued = s.issued ∧ (idStep s (.remove q id)).1.counter = s.counter := by
  by_cases hm : hasMsg s q id = true
  · have hin := (hasMsg_iff s q id).1 hm
    simp only [idStep, hm, ↓reduceIte, hin, not_true_eq_false, false_implies, and_true,
      true_and, reduceCtorEq]
    intro p
    simp only [List.mem_filter, Bool.not_eq_eq_eq_not, Bool.not_true, Bool.and_eq_false_imp,
      beq_iff_eq, beq_eq_false_iff_ne, ne_eq, and_congr_right_iff]
    intro _
    constructor
    · intro h e
      rw [e] at h
      exact h rfl rfl
    · intro h h1 h2
      exact h (Prod.ext h1 h2)
  · have hn : (q, id) ∉ s.live := fun h => hm ((hasMsg_iff s q id).2 h)
    simp only [idStep, hm, Bool.false_eq_true, ↓reduceIte, hn, reduceCtorEq,
      not_false_eq_true, implies_true, and_true, true_and]
    intro p
    constructor
    · intro h
      exact ⟨h, fun e => hn (e ▸ h)⟩
    · exact fun h => h.1

/-- **id_counter_wrap_needed.** The `< 2^64` bound cannot be dropped: the model (like the Go
`uint64` counter) wraps, after which `Put` fails with `ErrUnableToSaveMessageWithoutID` and the
next id issued is 1 again. -/
theorem id_counter_wrap_needed :
    (idStep { counter := U64 - 1 } (.put 1 0)).2 = .zeroId ∧
    (idStep (idStep { counter := U64 - 1 } (.put 1 0)).1 (.put 1 0)).2 = .ok 1 := by decide

/-! ### which bridge deployment id the keeper binds (`depStep`)

The clause: "… and on the bridge deployment id wherever the contract's scheme includes it … so
collected signatures can never authorise a different … deployment".  The theorems above are about
`GetCheckpoint(turnstoneID)` with the id as a free argument; these are about the keeper that
supplies it when `BytesToSign` of a bridge batch are issued (`build`) and re-issued (`elect`). -/

/-- **build_binds_active_deployment.**  In EVERY state (hence after every history): when
`BuildOutgoingTXBatch` issues `BytesToSign` for a batch on chain `c`, the chain has a chain info and
the bytes are `GetCheckpoint` of the stored batch under THAT chain info's `SmartContractUniqueID` —
the state of the skyway record (`compassRec`) and of every other chain is irrelevant. -/
theorem build_binds_active_deployment (H : Hash) (s : DepSt) (c : Nat) (b : GoBatch) (d : Nat)
    (h : (depStep H s (.build c b)).2 = .bytes d) :
    ∃ ci, s.chains c = some ci ∧
      goBatchCheckpoint H ci.uniqueId { b with estimate := 0 } = some d ∧
      findBatch (depStep H s (.build c b)).1 (hexToAddress b.token) b.nonce =
        some { chain := c, b := { b with estimate := 0 }, bytes := d } := by
  unfold depStep at h ⊢
  cases hc : s.chains c with
  | none => simp [hc] at h
  | some ci =>
    simp only [hc] at h ⊢
    cases hf : (findBatch s (hexToAddress b.token) b.nonce).isSome with
    | true => simp [hf] at h
    | false =>
      simp only [hf, Bool.false_eq_true, ↓reduceIte] at h ⊢
      cases hd : goBatchCheckpoint H ci.uniqueId { b with estimate := 0 } with
      | none => simp [hd] at h
      | some d' =>
        simp only [hd, DepOut.bytes.injEq] at h ⊢
        subst h
        exact ⟨ci, rfl, hd, by simp [findBatch, List.find?, batchKeyIs]⟩

/-- **reissue_binds_active_deployment.**  In EVERY state: when `UpdateBatchGasEstimate` succeeds, the
batch was stored without an estimate, its chain has a chain info, and the RE-ISSUED `BytesToSign`
are `GetCheckpoint` of the stored batch with the elected estimate under the `SmartContractUniqueID`
of the chain info AS IT IS NOW (a compass upgrade between build and election is picked up; a late
activation of an older compass, which only moves the skyway record, is not); the stored batch
carries exactly these bytes afterwards. -/
theorem reissue_binds_active_deployment (H : Hash) (s : DepSt) (tok : Bytes) (nonce est d : Nat)
    (h : (depStep H s (.elect tok nonce est)).2 = .bytes d) :
    ∃ sb ci, findBatch s (hexToAddress tok) nonce = some sb ∧ sb.b.estimate = 0 ∧
      s.chains sb.chain = some ci ∧
      goBatchCheckpoint H ci.uniqueId { sb.b with estimate := est } = some d ∧
      findBatch (depStep H s (.elect tok nonce est)).1 (hexToAddress tok) nonce = some (sb.reissued est d) := by
  unfold depStep at h ⊢
  cases hf : findBatch s (hexToAddress tok) nonce with
  | none => simp [hf] at h
  | some sb =>
    simp only [hf] at h ⊢
    by_cases he : sb.b.estimate > 0
    · simp [he] at h
    · simp only [he, ↓reduceIte] at h ⊢
      cases hc : s.chains sb.chain with
      | none => simp [hc] at h
      | some ci =>
        simp only [hc] at h ⊢
        cases hd : goBatchCheckpoint H ci.uniqueId { sb.b with estimate := est } with
        | none => simp [hd] at h
        | some d' =>
          simp only [hd, DepOut.bytes.injEq] at h ⊢
          subst h
          refine ⟨sb, ci, rfl, by omega, hc, hd, ?_⟩
          exact find?_map_reissue (batchKeyIs (hexToAddress tok) nonce) (fun x => x.reissued est d')
            (fun x hx => batchKeyIs_reissued _ _ _ _ x hx) s.batches sb hf

/-- two states that agree on everything signing reads: the chain infos and the stored batches (the
skyway records are free) -/
def DepSt.sameSigning (s t : DepSt) : Prop := s.chains = t.chains ∧ s.batches = t.batches

/-- **signing_independent_of_compass_record (step).**  No op other than the direct query of the
record has an output that depends on the skyway record, and no op lets the record flow into the
chain infos or the stored batches. -/
theorem depStep_sameSigning (H : Hash) (s t : DepSt) (op : DepOp) (h : s.sameSigning t) :
    (depStep H s op).1.sameSigning (depStep H t op).1 ∧
    (op.readsRecord = false → (depStep H s op).2 = (depStep H t op).2) := by
  obtain ⟨sc, sr, sb⟩ := s
  obtain ⟨tc, tr, tb⟩ := t
  obtain ⟨hc, hb⟩ := h
  simp only at hc hb
  subst hc; subst hb
  cases op with
  | setChain c a uid r => exact ⟨⟨rfl, rfl⟩, fun _ => rfl⟩
  | activate c scId uid =>
    simp only [depStep]
    cases hci : sc c with
    | none => exact ⟨⟨rfl, rfl⟩, fun _ => rfl⟩
    | some ci =>
      by_cases hge : ci.activeId ≥ scId <;> simp [hge, DepSt.sameSigning]
  | build c b =>
    simp only [depStep, findBatch]
    cases hci : sc c with
    | none => exact ⟨⟨rfl, rfl⟩, fun _ => rfl⟩
    | some ci =>
      by_cases hf : (List.find? (batchKeyIs (hexToAddress b.token) b.nonce) sb).isSome = true
      · simp [hf, DepSt.sameSigning]
      · cases hd : goBatchCheckpoint H ci.uniqueId { b with estimate := 0 } <;> simp [hf, hd, DepSt.sameSigning]
  | elect tok nonce est =>
    simp only [depStep, findBatch]
    cases hf : List.find? (batchKeyIs (hexToAddress tok) nonce) sb with
    | none => exact ⟨⟨rfl, rfl⟩, fun _ => rfl⟩
    | some x =>
      by_cases he : x.b.estimate > 0
      · simp [he, DepSt.sameSigning]
      · cases hci : sc x.chain with
        | none => simp [he, hci, DepSt.sameSigning]
        | some ci =>
          cases hd : goBatchCheckpoint H ci.uniqueId { x.b with estimate := est } <;> simp [he, hci, hd, DepSt.sameSigning]
  | reimport => exact ⟨⟨rfl, rfl⟩, fun _ => rfl⟩
  | getRec c => exact ⟨⟨rfl, rfl⟩, fun h => by simp [DepOp.readsRecord] at h⟩

/-- **signing_independent_of_compass_record.**  Over ALL histories of activations (applied or ignored),
builds, elections and genesis round trips, from any two states that differ in the skyway records
only: every output — every `BytesToSign` issued or re-issued, every chain info — is the same.  In
particular a late activation of an older compass or a genesis round trip (which only move the
record) never change what validators are asked to sign. -/
theorem signing_independent_of_compass_record (H : Hash) :
    ∀ (ops : List DepOp) (s t : DepSt), s.sameSigning t → (∀ op ∈ ops, op.readsRecord = false) →
      depTrace H s ops = depTrace H t ops ∧ (depRun H s ops).sameSigning (depRun H t ops)
  | [], _, _, h, _ => ⟨rfl, h⟩
  | op :: ops, s, t, h, hr => by
    have h1 := depStep_sameSigning H s t op h
    have h2 := signing_independent_of_compass_record H ops _ _ h1.1 (fun o ho => hr o (List.mem_cons_of_mem _ ho))
    simp only [depTrace, depRun]
    rw [h1.2 (hr op List.mem_cons_self), h2.1]
    exact ⟨rfl, h2.2⟩

/-- **queued_message_binds_active_deployment.**  The same for the turnstone messages the evm keeper queues
itself (`UpdateValset` after a snapshot): the bytes are those of the message with the chain info's
`SmartContractUniqueID` as deployment id, they do not depend on the skyway record, and — for an
`UpdateValset`, whose scheme includes the id — two chain infos the contract can tell apart give
different bytes (pointwise `NoColl` on the two hashed strings and the two inner checkpoints). -/
theorem queued_message_binds_active_deployment (H : Hash) (s t : DepSt) (c : Nat) (m : GoMsg) :
    (∀ ci, s.chains c = some ci → depMsgBytes H s c m = some (goSignBytes H { m with turnstoneId := ci.uniqueId })) ∧
    (s.sameSigning t → depMsgBytes H s c m = depMsgBytes H t c m) ∧
    (∀ ci ci' vs d d', s.chains c = some ci → t.chains c = some ci' → m.action = .updateValset vs →
      goItemWf (.msg m []) = true →
      bytes32OfString ci.uniqueId ≠ bytes32OfString ci'.uniqueId →
      depMsgBytes H s c m = some (.hash d) → depMsgBytes H t c m = some (.hash d') →
      (∀ p q, goItemPreimage H (.msg { m with turnstoneId := ci.uniqueId } []) = some p →
        goItemPreimage H (.msg { m with turnstoneId := ci'.uniqueId } []) = some q → NoColl H p q) →
      (∀ p q, goCheckpointPre (.msg { m with turnstoneId := ci.uniqueId } []) = some p →
        goCheckpointPre (.msg { m with turnstoneId := ci'.uniqueId } []) = some q → NoColl H p q) →
      d ≠ d') := by
  refine ⟨fun ci hc => by simp [depMsgBytes, hc], fun h => by simp [depMsgBytes, h.1], ?_⟩
  intro ci ci' vs d d' hc hc' hact hw hne hd hd' hout hin hdd
  subst hdd
  simp only [depMsgBytes, hc, hc', Option.some.injEq] at hd hd'
  have ha := ((goSignBytes_eq_itemDigest H { m with turnstoneId := ci.uniqueId } []).1 d).1 hd
  have hb := ((goSignBytes_eq_itemDigest H { m with turnstoneId := ci'.uniqueId } []).1 d).1 hd'
  have hs : ∀ ts : Bytes, upSafe (.msg { m with turnstoneId := ts } []) = true := fun ts => by
    simp [upSafe, hact]
  have := (go_digest_binds H (.msg { m with turnstoneId := ci.uniqueId } []) (.msg { m with turnstoneId := ci'.uniqueId } [])
    d hw hw (hs _) (hs _) ha hb hout hin).2.1
  simp only [goItemBound, hact, Option.some.injEq, UV.mustBind, uvFields, List.cons.injEq, V.word.injEq] at this
  exact hne this.2.2.2.1

/-- **reimport_moves_only_the_record**, **ignored_activation_moves_only_the_record.**  The two ways
the record and the chain info come apart: the genesis round trip and the activation of a compass
that is not newer than the active one leave the chain infos and the batches alone. -/
theorem reimport_moves_only_the_record (H : Hash) (s : DepSt) :
    s.sameSigning (depStep H s .reimport).1 := ⟨rfl, rfl⟩

theorem ignored_activation_moves_only_the_record (H : Hash) (s : DepSt) (c scId : Nat) (uid : Bytes)
    (ci : ChainRec) (hc : s.chains c = some ci) (hold : scId ≤ ci.activeId) :
    s.sameSigning (depStep H s (.activate c scId uid)).1 ∧
    (depStep H s (.activate c scId uid)).1.compassRec c = uid ∧
    (depStep H s (.activate c scId uid)).2 = .chain ci.activeId ci.uniqueId uid := by
  have : ci.activeId ≥ scId := hold
  simp [depStep, hc, this, DepSt.sameSigning, setAt]

/-- **checkpoint_distinguishes_deployments.**  The same batch under two deployment ids the contract can
tell apart (different `bytes32`) has different signing bytes — ASSUMPTION (keccak): no collision at
exactly these two pre-images. -/
theorem checkpoint_distinguishes_deployments (H : Hash) (ts ts' : Bytes) (b : GoBatch) (d d' : Nat)
    (hw : goItemWf (.batch ts b) = true)
    (h : goBatchCheckpoint H ts b = some d) (h' : goBatchCheckpoint H ts' b = some d')
    (hne : bytes32OfString ts ≠ bytes32OfString ts')
    (hnc : NoColl H (Batch.preimage (batchFields ts b)) (Batch.preimage (batchFields ts' b))) : d ≠ d' := by
  intro hdd
  subst hdd
  have hv : batchValid b = true := by
    cases hv : batchValid b with
    | true => rfl
    | false => rw [((goBatchCheckpoint_eq_itemDigest H ts b).2.1).2 hv] at h; simp at h
  have ha : goItemDigest H (.batch ts b) = some d := (goBatchCheckpoint_eq_itemDigest H ts b).1 ▸ h
  have hb : goItemDigest H (.batch ts' b) = some d := (goBatchCheckpoint_eq_itemDigest H ts' b).1 ▸ h'
  have hw' : goItemWf (.batch ts' b) = true := hw
  have := (go_digest_binds H (.batch ts b) (.batch ts' b) d hw hw' rfl rfl ha hb
    (fun p q hp hq => by
      simp only [goItemPreimage, hv, ↓reduceIte, Option.some.injEq] at hp hq
      subst hp; subst hq; exact hnc)
    (fun p q hp _ => by simp [goCheckpointPre] at hp)).2.1
  simp only [goItemBound, hv, ↓reduceIte, Option.some.injEq, Batch.mustBind, batchFields, List.cons.injEq,
    V.word.injEq] at this
  exact hne this.2.2.2.2.1

/-- **reissue_distinguishes_deployments.**  The clause itself, at the keeper: two states with the same
stored batches whose chain infos give the batch's chain deployment ids the contract can tell apart —
all else equal — re-issue DIFFERENT `BytesToSign` for the same batch and the same elected estimate
(pointwise `NoColl` at the two pre-images that are hashed). -/
theorem reissue_distinguishes_deployments (H : Hash) (s t : DepSt) (tok : Bytes) (nonce est d d' : Nat)
    (hb : s.batches = t.batches)
    (h : (depStep H s (.elect tok nonce est)).2 = .bytes d)
    (h' : (depStep H t (.elect tok nonce est)).2 = .bytes d')
    (hw : ∀ sb, findBatch s (hexToAddress tok) nonce = some sb → goItemWf (.batch [] { sb.b with estimate := est }) = true)
    (hne : ∀ sb ci ci', findBatch s (hexToAddress tok) nonce = some sb → s.chains sb.chain = some ci →
      t.chains sb.chain = some ci' → bytes32OfString ci.uniqueId ≠ bytes32OfString ci'.uniqueId)
    (hnc : ∀ sb ci ci', findBatch s (hexToAddress tok) nonce = some sb → s.chains sb.chain = some ci →
      t.chains sb.chain = some ci' →
      NoColl H (Batch.preimage (batchFields ci.uniqueId { sb.b with estimate := est }))
        (Batch.preimage (batchFields ci'.uniqueId { sb.b with estimate := est }))) : d ≠ d' := by
  obtain ⟨sb, ci, hf, -, hc, hd, -⟩ := reissue_binds_active_deployment H s tok nonce est d h
  obtain ⟨sb', ci', hf', -, hc', hd', -⟩ := reissue_binds_active_deployment H t tok nonce est d' h'
  have : sb' = sb := by
    have : findBatch t (hexToAddress tok) nonce = some sb := by simpa [findBatch, ← hb] using hf
    exact Option.some.inj (hf'.symm.trans this)
  subst this
  exact checkpoint_distinguishes_deployments H ci.uniqueId ci'.uniqueId _ d d' (hw _ hf) hd hd'
    (hne _ _ _ hf hc hc') (hnc _ _ _ hf hc hc')

/-! ## non-vacuity -/

/-- "compass" zero-padded to 32 bytes -/
def exTurnstone : Nat := bytes32OfString [99, 111, 109, 112, 97, 115, 115]

def exUV : UVFields :=
  { validators := [0xaa, 0xbb], powers := [castI64 (2 ^ 63), 5], valsetId := 7,
    turnstone := exTurnstone, relayer := 0xcc, estimate := 0 }

def exSLC : SLCFields :=
  { contract := 0x11, payload := [1, 2, 3], fees := none, sender := 0x22, id := castI64 (2 ^ 64 - 1),
    turnstone := 5, deadline := wordOfInt (-1), relayer := 0x33 }

def exBatch : BatchFields :=
  { token := 0x44, receivers := [1, 2], amounts := [W256 - 1, 0], nonce := 9, turnstone := 1,
    timeout := castI64 (2 ^ 63 + 1), relayer := 0x55, estimate := 21000 }

example : UV.wf exUV = true := by decide
example : SLC.wf exSLC = true := by decide
example : Batch.wf exBatch = true := by decide
example : UV.mustBind exUV ≠ UV.mustBind { exUV with relayer := 0xcd } := by
  simp [UV.mustBind, exUV]
example : SLC.mustBind exSLC ≠ SLC.mustBind { exSLC with fees := some { defaultFees with security := 1 } } := by
  simp [SLC.mustBind, exSLC, feesOrDefault, defaultFees]
-- lossy Go conversions: different strings, same delivered value ("0x01" vs "1"; "0x0g55" decodes
-- to nothing; "ab" vs "ab\0")
example : hexToAddress [48, 120, 48, 49] = hexToAddress [49] := by decide
example : hexToAddress [48, 120, 48, 103, 53, 53] = 0 := by decide
example : bytes32OfString [97, 98] = bytes32OfString [97, 98, 0] := by decide
example : castI64 (2 ^ 63) = W256 - 2 ^ 63 := by decide
example : wordOfInt (-1) = W256 - 1 := by decide
-- a concrete id history over three queues: replace keeps the id, removal does not free it
example : (idRun {} [.put 1 0, .put 2 0, .put 1 1, .remove 1 1, .put 3 0, .put 2 1]).live = [(3, 3), (2, 2)] ∧
    (idRun {} [.put 1 0, .put 2 0, .put 1 1, .remove 1 1, .put 3 0, .put 2 1]).issued = [3, 2, 1] := by decide

/-! ### non-vacuity, Go level (through the entry points) -/

set_option maxRecDepth 100000

/-- a toy hash for closed examples (any function is a `Hash`; the theorems hold for all) -/
def exH : Hash := fun b => b.length

/-- two DIFFERENT Go logic-call messages (contract written "0x01" resp. "1", relayer "0xCC" resp.
"cc") for queue id 2^64 − 1, no fees yet, 20-byte sender, deadline −1 -/
def exSLCItemA : GoItem :=
  .msg ⟨[99, 111, 109, 112, 97, 115, 115], [48, 120, 67, 67], 2 ^ 64 - 1, 0,
    .submitLogicCall [48, 120, 48, 49] [1, 2, 3] none (List.replicate 20 7) (-1)⟩ []
def exSLCItemB : GoItem :=
  .msg ⟨[99, 111, 109, 112, 97, 115, 115], [99, 99], 2 ^ 64 - 1, 0,
    .submitLogicCall [49] [1, 2, 3] (some defaultFees) (List.replicate 20 7) (-1)⟩ []

-- every hypothesis of `go_digest_binds_delivered_partial` holds for this pair (the strings hashed
-- are equal, so the `NoColl` hypotheses hold for every hash), and the conclusion is not trivial:
-- the Go values differ, the delivered calls coincide
example : goItemWf exSLCItemA = true ∧ goItemWf exSLCItemB = true ∧
    upSafe exSLCItemA = true ∧ upSafe exSLCItemB = true ∧
    itemElected exSLCItemA = true ∧ itemElected exSLCItemB = true ∧
    exSLCItemA.kind = .slc ∧
    goItemPreimage exH exSLCItemA = goItemPreimage exH exSLCItemB ∧
    (goItemPreimage exH exSLCItemA).isSome = true := by decide

/-- a batch of two transfers with an elected estimate -/
def exBatchItem : GoItem :=
  .batch [99] ⟨List.replicate 40 48, [List.replicate 40 49, List.replicate 40 50],
    [List.replicate 40 48, List.replicate 40 48], [5, 0], 9, 2 ^ 63 + 1, [0x55], 21000⟩
example : goItemWf exBatchItem = true ∧ itemElected exBatchItem = true ∧ upSafe exBatchItem = true ∧
    (goItemDigest exH exBatchItem).isSome = true ∧ (goItemDelivered exBatchItem).isSome = true := by decide
-- the error branch: one negative amount
example : goBatchCheckpoint exH [99] ⟨List.replicate 40 48, [List.replicate 40 49], [List.replicate 40 48],
    [-1], 9, 1, [0x55], 21000⟩ = none := by decide
-- the panic branch: a 33-byte sender
example : goSignBytes exH ⟨[], [], 1, 0, .submitLogicCall [] [] none (List.replicate 33 1) 0⟩ = .panic := by
  decide
-- an `UpdateValset` without elected estimate is signable (`goItemDigest` is `some`) but not `itemElected`
example : itemElected (.msg ⟨[], [], 1, 0, .updateValset ⟨[], [], 1⟩⟩ []) = false ∧
    itemElected exUVItem = true := by decide

/-- THE FORGERY (witness of `cross_action_clause_false_for_up`): the `UploadSmartContract` message
whose "bytecode" is the first 92 bytes of the `update_valset` pre-image of `exUVItem` and whose
queue id is that message's gas estimate, 41 -/
def exUPForgery : GoItem :=
  .msg ⟨[], [], 41, 0, .uploadSmartContract
    (match goItemPreimage exH exUVItem with
     | some p => p.take 92
     | none => [])⟩ []

example : goItemWf exUVItem = true ∧ goItemWf exUPForgery = true ∧
    exUVItem.kind = .uv ∧ exUPForgery.kind = .up ∧
    goItemPreimage exH exUPForgery = goItemPreimage exH exUVItem ∧
    goItemDigest exH exUPForgery = goItemDigest exH exUVItem ∧
    (goItemDigest exH exUVItem).isSome = true ∧
    upSafe exUPForgery = false ∧ upSafe exUVItem = true := by decide

-- a real-looking deployment (EVM init code starts with PUSH1 0x80 PUSH1 0x40 MSTORE) is `upSafe`
example : upSafe (.msg ⟨[], [], 7, 0, .uploadSmartContract [0x60, 0x80, 0x60, 0x40, 0x52]⟩ []) = true := by
  decide

/-! ### non-vacuity, ids (through `idRun` / `idStep` from the initial state) -/

def exOps : List IdOp :=
  [.put 1 0, .put 2 0, .put 1 1, .remove 1 1, .put 3 0, .put 2 1, .remove 3 9, .put 1 0]

-- the RETURNED results: replace keeps the id, a wrong-queue replace and a wrong remove are
-- refused, a removed id is not handed out again
example : idTrace {} exOps =
    [.ok 1, .ok 2, .ok 1, .ok 1, .ok 3, .notFound, .notFound, .ok 4] := by decide
example : freshIds {} exOps = [1, 2, 3, 4] ∧ (idRun {} exOps).issued = [4, 3, 2, 1] ∧
    (idRun {} exOps).counter = 4 ∧ (idRun {} exOps).live = [(1, 4), (3, 3), (2, 2)] := by decide

/-! ### non-vacuity: ids and messages together, and the link to the queue model -/

def exMsg (payload : Bytes) : GoMsg :=
  ⟨[99, 111, 109, 112, 97, 115, 115], [49], 999, 77, .submitLogicCall [49] payload none (List.replicate 20 7) 5⟩

/-- three queues: put, put, replace message 1 in place, remove 2, put — through `jqRun` from the initial state -/
def exJq : List JqOp :=
  [.put 1 (exMsg [1]) 0, .put 2 (exMsg [2]) 0, .put 1 (exMsg [3]) 1, .remove 2 2, .put 3 (exMsg [4]) 0, .put 2 (exMsg [5]) 1]

def exPayload (m : GoMsg) : Bytes :=
  match m.action with
  | .submitLogicCall _ p _ _ _ => p
  | _ => []

-- the caller's id / estimate (999 / 77) are ignored: the stored message carries the RETURNED id and no estimate;
-- the replace keeps id 1 and swaps the payload; the wrong-queue replace of id 1 is refused; id 2 is not reused
example : ((jqRun {} exJq).msgs.map fun p => (p.1, p.2.id, p.2.estimate, exPayload p.2)) = [(3, 3, 0, [4]), (1, 1, 0, [3])] ∧
    (jqRun {} exJq).ids.live = [(3, 3), (1, 1)] ∧
    (jqStep (jqRun {} (exJq.take 5)) (.put 2 (exMsg [5]) 1)).2 = .notFound := by decide

-- the two stored messages are well-formed `upSafe` logic calls; the byte strings hashed for them differ
example : ((jqRun {} exJq).msgs.map fun p => (goItemWf (.msg p.2 []), upSafe (.msg p.2 []), p.2.action.kind)) =
      [(true, true, .slc), (true, true, .slc)] ∧
    ((jqRun {} exJq).msgs.map fun p => (goPreimage exH p.2).isSome) = [true, true] ∧
    (jqGet (jqRun {} exJq) 3 3).bind (goPreimage exH) ≠ (jqGet (jqRun {} exJq) 1 1).bind (goPreimage exH) := by decide

-- `offered_message_is_elected` is not vacuous: after `Queue.demoValsetHist` (enqueue-only) the validator-set update 1 is
-- in the relay answer of its assignee with elected estimate 50000, and the Go item below stands for it
example : (1 : Nat) ∈ Paloma.Queue.offeredPage (Paloma.Queue.run Paloma.Queue.demoValsetHist).queue 1 ∧
    ((Paloma.Queue.run Paloma.Queue.demoValsetHist).queue.map fun it => (it.id, it.kind, it.reqEst, it.elected)) =
      [(1, .valset, true, 50000), (2, .other, true, 0)] := by decide
example (it : Paloma.Queue.Item) (h1 : it.id = 1) (h2 : it.elected = 50000) (h3 : it.kind = .valset) :
    Represents it (.msg ⟨[99, 111, 109, 112, 97, 115, 115], [49], 1, 50000, .updateValset ⟨[[50]], [5], 3⟩⟩ []) :=
  ⟨_, _, rfl, h1.symm, h2.symm, by rw [h3]; trivial⟩

-- the refuted clause's witness pair: both well-formed and `upSafe`, not a compass deployment, one not elected
example : goItemWf exUVUnelected = true ∧ goItemWf exUVDefault = true ∧ upSafe exUVUnelected = true ∧
    exUVUnelected.kind = .uv ∧ itemElected exUVUnelected = false ∧ itemElected exUVDefault = true ∧
    goItemPreimage exH exUVUnelected = goItemPreimage exH exUVDefault ∧
    (goItemPreimage exH exUVUnelected).isSome = true := by decide

/-! ### deployment ids: the late activation of an older compass, and the genesis round trip

Chain 1 runs compass #2 with deployment id "B"; the activation of compass #1 ("A") arrives late and is
ignored by the evm module, but the skyway record now says "A".  A batch is built, the skyway module
goes through a genesis round trip (record gone), the estimate 21000 is elected. -/
def exDepBatch : GoBatch :=
  ⟨List.replicate 40 48, [List.replicate 40 49], [List.replicate 40 48], [5], 9, 77, [0x55], 0⟩
def exDepOps : List DepOp :=
  [.setChain 1 2 [66] [66], .activate 1 1 [65], .getRec 1, .build 1 exDepBatch, .reimport, .getRec 1,
   .elect (List.replicate 40 48) 9 21000, .elect (List.replicate 40 48) 9 5, .elect (List.replicate 40 48) 8 5,
   .activate 2 1 [65]]
example : depTrace exH {} exDepOps =
    [.ok, .chain 2 [66] [65], .record [65],
     .bytes ((goBatchCheckpoint exH [66] exDepBatch).getD 0), .ok, .record [],
     .bytes ((goBatchCheckpoint exH [66] { exDepBatch with estimate := 21000 }).getD 0),
     .already, .notFound, .noChain] ∧
    (goBatchCheckpoint exH [66] exDepBatch).isSome = true ∧
    ((depRun exH {} exDepOps).chains 1).map (·.uniqueId) = some [66] ∧
    goItemWf (.batch [] { exDepBatch with estimate := 21000 }) = true ∧
    bytes32OfString [65] ≠ bytes32OfString [66] := by decide
-- the upgrade between build and election IS picked up: the re-issued bytes are those under "C"
example : depTrace exH {} [.setChain 1 2 [66] [66], .build 1 exDepBatch, .activate 1 3 [67],
      .elect (List.replicate 40 48) 9 21000] =
    [.ok, .bytes ((goBatchCheckpoint exH [66] exDepBatch).getD 0), .chain 3 [67] [67],
     .bytes ((goBatchCheckpoint exH [67] { exDepBatch with estimate := 21000 }).getD 0)] := by decide

-- an `UpdateValset` message queued by the keeper after that history signs deployment id "B" (the chain
-- info), not "A" (the last id the skyway record saw) — whatever id the caller's message carried
def exDepUV : GoMsg := ⟨[65], [49], 7, 0, .updateValset ⟨[[50]], [5], 3⟩⟩
example : depMsgBytes exH (depRun exH {} exDepOps) 1 exDepUV = some (goSignBytes exH { exDepUV with turnstoneId := [66] }) ∧
    depMsgBytes exH (depRun exH {} exDepOps) 3 exDepUV = none ∧
    goItemWf (.msg exDepUV []) = true := by decide

end Paloma.SignBytes
