/-
C05 — the bytes validators sign bind every value the remote bridge contract is handed;
message ids are unique across all queues and strictly increase.

Model: `Model/SignBytes.lean` on top of the ABI encoder model `Model/Abi.lean`; the only facts
used about the encoder are `Abi.encodeArgs_injective` / `Abi.calldata_injective`
(`Props/Abi.lean`).

Hashing.  keccak256 is an abstract `H : List UInt8 → Nat`; the 32-byte digest is
`digest H b = H b % 2^256`.  A digest cannot be injective (pigeonhole), therefore collision
freedom is never a global hypothesis.  It appears in two equivalent, non-vacuous forms:
* pointwise: `NoColl H a b` for exactly the pre-images the statement talks about;
* as a disjunct of the conclusion: `… ∨ Collision H` ("or we exhibit two different byte
  strings with the same digest").
The literal `Function.Injective (digest H)` forms are given as corollaries for completeness.
-/
import PalomaModel.Model.SignBytes
import PalomaModel.Props.Abi

namespace Paloma.SignBytes
open Paloma.Abi

/-- the two byte strings do not collide under the digest -/
def NoColl (H : Hash) (a b : Bytes) : Prop := digest H a = digest H b → a = b

/-- a collision of the 32-byte digest exists -/
def Collision (H : Hash) : Prop := ∃ a b : Bytes, a ≠ b ∧ digest H a = digest H b

/-! ## helper lemmas -/
section Lemmas

theorem U64_lt_W256 : U64 < W256 := by decide
theorem U64_pos : 0 < U64 := by decide

theorem noColl_or_collision (H : Hash) (a b : Bytes) : NoColl H a b ∨ Collision H := by
  by_cases h : a = b
  · exact .inl fun _ => h
  · by_cases hd : digest H a = digest H b
    · exact .inr ⟨a, b, h, hd⟩
    · exact .inl fun e => absurd e hd

theorem noColl_of_injective (H : Hash) (hinj : Function.Injective (digest H)) (a b : Bytes) :
    NoColl H a b := fun h => hinj h

theorem digest_lt (H : Hash) (b : Bytes) : digest H b < W256 :=
  Nat.mod_lt _ (by decide)

/-! ### value shapes -/

theorem map_word_inj : ∀ {a b : List Nat}, a.map V.word = b.map V.word → a = b
  | [], [], _ => rfl
  | [], _ :: _, h => by simp at h
  | _ :: _, [], h => by simp at h
  | x :: a, y :: b, h => by
    simp only [List.map_cons, List.cons.injEq, V.word.injEq] at h
    rw [h.1, map_word_inj h.2]

theorem words_inj {a b : List Nat} (h : words a = words b) : a = b := by
  unfold words at h
  injection h with h
  exact map_word_inj h

theorem callV_inj {a b : Nat × Bytes} (h : callV a = callV b) : a = b := by
  unfold callV at h
  simp only [V.seq.injEq, List.cons.injEq, V.word.injEq, V.bytes.injEq, and_true] at h
  exact Prod.ext h.1 h.2

theorem map_callV_inj : ∀ {a b : List (Nat × Bytes)}, a.map callV = b.map callV → a = b
  | [], [], _ => rfl
  | [], _ :: _, h => by simp at h
  | _ :: _, [], h => by simp at h
  | x :: a, y :: b, h => by
    simp only [List.map_cons, List.cons.injEq] at h
    rw [callV_inj h.1, map_callV_inj h.2]

theorem all_hasType_address : ∀ (l : List Nat), l.all (fun a => decide (a < W160)) = true →
    (l.map V.word).all (hasType .address) = true
  | [], _ => rfl
  | x :: l, h => by
    simp only [List.all_cons, Bool.and_eq_true, decide_eq_true_eq] at h
    simp only [List.map_cons, List.all_cons, Bool.and_eq_true]
    exact ⟨by simp [hasType, h.1], all_hasType_address l h.2⟩

theorem all_hasType_uint : ∀ (l : List Nat), l.all (fun a => decide (a < W256)) = true →
    (l.map V.word).all (hasType .uint256) = true
  | [], _ => rfl
  | x :: l, h => by
    simp only [List.all_cons, Bool.and_eq_true, decide_eq_true_eq] at h
    simp only [List.map_cons, List.all_cons, Bool.and_eq_true]
    exact ⟨by simp [hasType, h.1], all_hasType_uint l h.2⟩

theorem hasType_addresses (l : List Nat) (h : l.all (fun a => decide (a < W160)) = true)
    (hl : l.length < W256) : hasType (.array .address) (words l) = true := by
  simp [words, hasType, hl, all_hasType_address l h]

theorem hasType_uints (l : List Nat) (h : l.all (fun a => decide (a < W256)) = true)
    (hl : l.length < W256) : hasType (.array .uint256) (words l) = true := by
  simp [words, hasType, hl, all_hasType_uint l h]

theorem all_hasType_calls : ∀ (l : List (Nat × Bytes)),
    l.all (fun c => decide (c.1 < W160) && decide (c.2.length < W256)) = true →
    (l.map callV).all (hasType callTy) = true
  | [], _ => rfl
  | x :: l, h => by
    simp only [List.all_cons, Bool.and_eq_true, decide_eq_true_eq] at h
    simp only [List.map_cons, List.all_cons, Bool.and_eq_true]
    exact ⟨by simp [callV, callTy, hasType, hasTypes, h.1.1, h.1.2], all_hasType_calls l h.2⟩

theorem hasType_calls (l : List (Nat × Bytes))
    (h : l.all (fun c => decide (c.1 < W160) && decide (c.2.length < W256)) = true)
    (hl : l.length < W256) : hasType (.array callTy) (.seq (l.map callV)) = true := by
  simp [hasType, hl, all_hasType_calls l h]

theorem fees_lt (o : Option Fees) (h : feesWf o = true) :
    (feesOrDefault o).relayer < W256 ∧ (feesOrDefault o).community < W256 ∧
    (feesOrDefault o).security < W256 := by
  cases o with
  | none => decide
  | some x =>
    simp only [feesWf, Bool.and_eq_true, decide_eq_true_eq] at h
    have := U64_lt_W256
    simp only [feesOrDefault]
    omega

theorem effEstimate_lt (e : Nat) (h : e < U64) : effEstimate e < W256 := by
  unfold effEstimate
  have := U64_lt_W256
  split
  · decide
  · omega

theorem hasTypeArgs_cons (t : Ty) (ts : List Ty) (v : V) (vs : List V) :
    hasTypeArgs (t :: ts) (v :: vs) = (hasType t v && hasTypeArgs ts vs) := by
  simp [hasTypeArgs, hasType, hasTypes]

theorem effEstimate_ne_zero (e : Nat) : effEstimate e ≠ 0 := by
  unfold effEstimate; split <;> omega

/-! ### well-typedness of the packed argument lists -/

theorem uv_cp_typed (f : UVFields) (h : UV.wf f = true) :
    hasTypeArgs UV.cpTys (UV.cpVals f) = true := by
  simp only [UV.wf, Bool.and_eq_true, decide_eq_true_eq] at h
  obtain ⟨⟨⟨⟨⟨⟨⟨h1, h2⟩, h3⟩, h4⟩, h5⟩, h6⟩, -⟩, -⟩ := h
  simp [hasTypeArgs, UV.cpTys, UV.cpVals, hasType, hasTypes, hasType_addresses _ h1 h2,
    hasType_uints _ h3 h4, h5, h6]

theorem uv_signed_typed (H : Hash) (f : UVFields) (h : UV.wf f = true) :
    hasTypeArgs UV.signedTys (UV.signedVals H f) = true := by
  simp only [UV.wf, Bool.and_eq_true, decide_eq_true_eq] at h
  simp [hasTypeArgs, UV.signedTys, UV.signedVals, hasType, hasTypes, digest_lt, h.1.2,
    effEstimate_lt _ h.2]

theorem slc_signed_typed (f : SLCFields) (h : SLC.wf f = true) :
    hasTypeArgs SLC.signedTys (SLC.signedVals f) = true := by
  simp only [SLC.wf, Bool.and_eq_true, decide_eq_true_eq] at h
  obtain ⟨⟨⟨⟨⟨⟨⟨h1, h2⟩, h3⟩, h4⟩, h5⟩, h6⟩, h7⟩, h8⟩ := h
  have hf := fees_lt _ h3
  simp [hasTypeArgs, SLC.signedTys, SLC.signedVals, callTy, feeTy, callV, feeV, hasType, hasTypes,
    h1, h2, h4, h5, h6, h7, h8, hf.1, hf.2.1, hf.2.2]

theorem usc_signed_typed (f : USCFields) (h : USC.wf f = true) :
    hasTypeArgs USC.signedTys (USC.signedVals f) = true := by
  simp only [USC.wf, Bool.and_eq_true, decide_eq_true_eq] at h
  obtain ⟨⟨⟨⟨⟨⟨⟨h1, h2⟩, h3⟩, h4⟩, h5⟩, h6⟩, h7⟩, h8⟩ := h
  have hf := fees_lt _ h3
  simp [hasTypeArgs, USC.signedTys, USC.signedVals, feeTy, feeV, hasType, hasTypes,
    h1, h2, h4, h5, h6, h7, h8, hf.1, hf.2.1, hf.2.2]

theorem ch_signed_typed (f : CHFields) (h : CH.wf f = true) :
    hasTypeArgs CH.signedTys (CH.signedVals f) = true := by
  simp only [CH.wf, Bool.and_eq_true, decide_eq_true_eq] at h
  obtain ⟨⟨⟨⟨h1, h2⟩, h3⟩, h4⟩, h5⟩ := h
  rw [CH.signedTys, CH.signedVals, hasTypeArgs_cons, hasType_calls _ h1 h2]
  simp [hasTypeArgs, hasType, hasTypes, h3, h4, effEstimate_lt _ h5]

theorem batch_signed_typed (f : BatchFields) (h : Batch.wf f = true) :
    hasTypeArgs Batch.signedTys (Batch.signedVals f) = true := by
  simp only [Batch.wf, Bool.and_eq_true, decide_eq_true_eq] at h
  obtain ⟨⟨⟨⟨⟨⟨⟨⟨⟨h1, h2⟩, h3⟩, h4⟩, h5⟩, h6⟩, h7⟩, h8⟩, h9⟩, h10⟩ := h
  simp [hasTypeArgs, Batch.signedTys, Batch.signedVals, hasType, hasTypes, h1,
    hasType_addresses _ h2 h3, hasType_uints _ h4 h5, h6, h7, h8, h9, effEstimate_lt _ h10]

/-! ### pre-images: selector ++ Pack(args) is injective in the args -/

theorem sel_append_ne {a b x y : Bytes} (hl : a.length = b.length) (hne : a ≠ b) :
    a ++ x ≠ b ++ y := fun h => hne (List.append_inj h hl).1

theorem be8_length (n : Nat) : (be8 n).length = 8 := beBytes_length 8 n

theorem be8_inj {a b : Nat} (ha : a < U64) (hb : b < U64) (h : be8 a = be8 b) : a = b := by
  have h1 := beNat_beBytes 8 a
  have h2 := beNat_beBytes 8 b
  unfold be8 at h
  rw [h] at h1
  have e : 256 ^ 8 = U64 := by decide
  rw [e] at h1 h2
  rw [Nat.mod_eq_of_lt ha] at h1
  rw [Nat.mod_eq_of_lt hb] at h2
  omega

/-! ### Go conversions: ranges and (non-)injectivity -/

theorem natOfBytes_aux (b : Bytes) : ∀ acc : Nat,
    b.foldl (fun a x => a * 256 + x.toNat) acc < (acc + 1) * 256 ^ b.length := by
  induction b with
  | nil => intro acc; simp
  | cons x b ih =>
    intro acc
    simp only [List.foldl_cons, List.length_cons]
    have hx : x.toNat < 256 := x.toNat_lt
    have h1 := ih (acc * 256 + x.toNat)
    have h2 : (acc * 256 + x.toNat + 1) * 256 ^ b.length ≤ ((acc + 1) * 256) * 256 ^ b.length :=
      Nat.mul_le_mul_right _ (by omega)
    calc _ < (acc * 256 + x.toNat + 1) * 256 ^ b.length := h1
      _ ≤ ((acc + 1) * 256) * 256 ^ b.length := h2
      _ = (acc + 1) * 256 ^ (b.length + 1) := by rw [Nat.pow_succ, Nat.mul_assoc, Nat.mul_comm 256]

theorem natOfBytes_lt (b : Bytes) : natOfBytes b < 256 ^ b.length := by
  have := natOfBytes_aux b 0
  simpa [natOfBytes] using this

theorem natOfBytes_lt_of_le {b : Bytes} {n : Nat} (h : b.length ≤ n) : natOfBytes b < 256 ^ n :=
  Nat.lt_of_lt_of_le (natOfBytes_lt b) (Nat.pow_le_pow_right (by decide) h)

theorem W256_eq : (256 : Nat) ^ 32 = W256 := by decide

theorem hexToAddress_lt (s : Bytes) : hexToAddress s < W160 := Nat.mod_lt _ (by decide)
theorem bytesToAddress_lt (s : Bytes) : bytesToAddress s < W160 := Nat.mod_lt _ (by decide)

theorem bytes32OfString_lt (s : Bytes) : bytes32OfString s < W256 := by
  unfold bytes32OfString
  rw [← W256_eq]
  apply natOfBytes_lt_of_le
  have := List.length_take_le 32 s
  simp only [List.length_append, List.length_replicate]
  omega

theorem padSender_lt {s : Bytes} {v : Nat} (h : padSender s = some v) : v < W256 := by
  unfold padSender at h
  split at h
  · cases h
  · injection h with h
    rw [← h, ← W256_eq]
    exact natOfBytes_lt_of_le (by omega)

theorem castI64_lt {n : Nat} (h : n < U64) : castI64 n < W256 := by
  unfold castI64
  have h1 : U64 = 18446744073709551616 := by decide
  have h2 : I63 = 9223372036854775808 := by decide
  have h3 : W256 = 115792089237316195423570985008687907853269984665640564039457584007913129639936 := by decide
  rw [h1] at h
  rw [h1, h2, h3]
  split <;> omega

/-- the `int64` cast loses nothing: different `uint64` values give different words -/
theorem castI64_inj {a b : Nat} (ha : a < U64) (hb : b < U64) (h : castI64 a = castI64 b) : a = b := by
  unfold castI64 at h
  have h1 : U64 = 18446744073709551616 := by decide
  have h2 : I63 = 9223372036854775808 := by decide
  have h3 : W256 = 115792089237316195423570985008687907853269984665640564039457584007913129639936 := by decide
  rw [h1] at ha hb
  rw [h1, h2, h3] at h
  split at h <;> split at h <;> omega

theorem wordOfInt_lt (i : Int) : wordOfInt i < W256 := by
  unfold wordOfInt
  have hpos : (0 : Int) < (W256 : Int) := by decide
  have h1 := Int.emod_lt_of_pos i hpos
  have h0 := Int.emod_nonneg i (Int.ne_of_gt hpos)
  omega

/-- signed 64-bit deadlines map to different words -/
theorem wordOfInt_inj {a b : Int} (ha : -(I63 : Int) ≤ a ∧ a < (I63 : Int))
    (hb : -(I63 : Int) ≤ b ∧ b < (I63 : Int)) (h : wordOfInt a = wordOfInt b) : a = b := by
  unfold wordOfInt at h
  have hpos : (0 : Int) < (W256 : Int) := by decide
  have e : (a % (W256 : Int)) = (b % (W256 : Int)) := by
    have h0a := Int.emod_nonneg a (Int.ne_of_gt hpos)
    have h0b := Int.emod_nonneg b (Int.ne_of_gt hpos)
    omega
  have h2 : (I63 : Int) = 9223372036854775808 := by decide
  have h3 : (W256 : Int) = 115792089237316195423570985008687907853269984665640564039457584007913129639936 := by decide
  rw [h2] at ha hb
  rw [h3] at e
  omega

/-! ### id counter -/

theorem hasMsg_iff (s : IdSt) (q id : Nat) : hasMsg s q id = true ↔ (q, id) ∈ s.live := by
  unfold hasMsg
  simp only [List.any_eq_true, Bool.and_eq_true, beq_iff_eq]
  constructor
  · rintro ⟨⟨a, b⟩, hm, h1, h2⟩
    simp only at h1 h2
    subst h1 h2
    exact hm
  · intro h
    exact ⟨(q, id), h, rfl, rfl⟩

/-- invariant of the id bookkeeping -/
structure IdInv (s : IdSt) : Prop where
  sorted : s.issued.Pairwise (· > ·)
  bounded : ∀ i ∈ s.issued, 1 ≤ i ∧ i ≤ s.counter
  liveIssued : ∀ p ∈ s.live, p.2 ∈ s.issued
  nodup : (s.live.map (·.2)).Nodup

theorem idInv_init : IdInv {} :=
  ⟨List.Pairwise.nil, by simp, by simp, by simp⟩

theorem idStep_counter_le (s : IdSt) (op : IdOp) (h : s.counter + 1 < U64) :
    s.counter ≤ (idStep s op).1.counter ∧ (idStep s op).1.counter ≤ s.counter + 1 := by
  unfold idStep
  cases op with
  | put q r =>
    simp only
    split
    · split <;> simp
    · rw [Nat.mod_eq_of_lt h]
      simp
  | remove q id =>
    simp only
    split <;> simp

theorem idStep_inv (s : IdSt) (op : IdOp) (hi : IdInv s) (h : s.counter + 1 < U64) :
    IdInv (idStep s op).1 := by
  unfold idStep
  cases op with
  | put q r =>
    simp only
    split
    · split <;> exact hi
    · rw [Nat.mod_eq_of_lt h]
      simp only [Nat.succ_ne_zero, ↓reduceIte]
      refine ⟨?_, ?_, ?_, ?_⟩
      · refine List.Pairwise.cons ?_ hi.sorted
        intro i him
        have := (hi.bounded i him).2
        show s.counter + 1 > i
        omega
      · intro i him
        show 1 ≤ i ∧ i ≤ s.counter + 1
        have him : i = s.counter + 1 ∨ i ∈ s.issued := by simpa using him
        rcases him with rfl | him
        · omega
        · have := hi.bounded i him
          omega
      · intro p hp
        simp only [List.mem_cons] at hp ⊢
        rcases hp with rfl | hp
        · exact .inl rfl
        · exact .inr (hi.liveIssued p hp)
      · simp only [List.map_cons, List.nodup_cons]
        refine ⟨?_, hi.nodup⟩
        intro hm
        rw [List.mem_map] at hm
        obtain ⟨p, hp, e⟩ := hm
        have := (hi.bounded _ (hi.liveIssued p hp)).2
        have e : p.2 = s.counter + 1 := e
        omega
  | remove q id =>
    simp only
    split
    · refine ⟨hi.sorted, hi.bounded, ?_, ?_⟩
      · intro p hp
        exact hi.liveIssued p (List.mem_filter.1 hp).1
      · exact List.Nodup.sublist (List.Sublist.map _ List.filter_sublist) hi.nodup
    · exact hi

theorem idRun_inv : ∀ (ops : List IdOp) (s : IdSt), IdInv s → s.counter + ops.length < U64 →
    IdInv (idRun s ops) ∧ (idRun s ops).counter ≤ s.counter + ops.length
  | [], s, hi, _ => ⟨hi, by simp [idRun]⟩
  | op :: ops, s, hi, h => by
    simp only [List.length_cons] at h
    have h1 : s.counter + 1 < U64 := by omega
    have hc := idStep_counter_le s op h1
    have := idRun_inv ops (idStep s op).1 (idStep_inv s op hi h1) (by omega)
    simp only [idRun, List.length_cons]
    exact ⟨this.1, by omega⟩

end Lemmas

/-! ## Property theorems (C05) -/

/-! ### UpdateValset -/

/-- **uv_mustBind_covered.** C05, "new validator set … relayer address … elected gas estimate …
bridge deployment id": if two update-valset messages have the same signing bytes then — unless
keccak collides on the two outer pre-images or on the two checkpoint pre-images — every
validator address, every power, the valset id, the turnstone id, the relayer and the gas
estimate the contract is handed coincide. -/
theorem uv_mustBind_covered (H : Hash) (f g : UVFields) (hf : UV.wf f = true) (hg : UV.wf g = true)
    (hout : NoColl H (UV.preimage H f) (UV.preimage H g))
    (hin : NoColl H (UV.checkpointPre f) (UV.checkpointPre g))
    (h : UV.signBytes H f = UV.signBytes H g) : UV.mustBind f = UV.mustBind g := by
  have hp := hout h
  have hv := calldata_injective _ _ _ _ (uv_signed_typed H f hf) (uv_signed_typed H g hg) hp
  simp only [UV.signedVals, List.cons.injEq, V.word.injEq, and_true] at hv
  obtain ⟨hd, hr, he⟩ := hv
  have hc := calldata_injective _ _ _ _ (uv_cp_typed f hf) (uv_cp_typed g hg) (hin hd)
  simp only [UV.cpVals, List.cons.injEq, V.word.injEq, and_true] at hc
  obtain ⟨h1, h2, h3, h4⟩ := hc
  simp only [UV.mustBind, h1, h2, h3, h4, hr, he]

/-- **uv_delivered_determined_by_signed.** C05 for update-valset at the level of argument lists:
equal signed tuples force equal delivered tuples (the valset is inside the checkpoint hash, hence
the collision hypothesis) provided both messages carry an elected estimate; see
`uv_estimate_default_collision` for why the proviso is needed. -/
theorem uv_delivered_determined_by_signed (H : Hash) (f g : UVFields)
    (hf : UV.wf f = true) (hg : UV.wf g = true)
    (hin : NoColl H (UV.checkpointPre f) (UV.checkpointPre g))
    (hef : f.estimate ≠ 0) (heg : g.estimate ≠ 0)
    (h : UV.signedVals H f = UV.signedVals H g) : UV.deliveredVals f = UV.deliveredVals g := by
  simp only [UV.signedVals, List.cons.injEq, V.word.injEq, and_true] at h
  obtain ⟨hd, hr, he⟩ := h
  have hc := calldata_injective _ _ _ _ (uv_cp_typed f hf) (uv_cp_typed g hg) (hin hd)
  simp only [UV.cpVals, List.cons.injEq, V.word.injEq, and_true] at hc
  obtain ⟨h1, h2, h3, -⟩ := hc
  simp only [effEstimate, hef, heg, ↓reduceIte] at he
  simp only [UV.deliveredVals, UV.valsetV, h1, h2, h3, hr, he]

/-! ### SubmitLogicCall -/

/-- **slc_mustBind_covered.** C05, "target contract and payload, fees and fee payer, message id,
deadline, relayer address … bridge deployment id": equal signing bytes of two logic-call messages
force all ten values equal, unless keccak collides on the two pre-images. -/
theorem slc_mustBind_covered (H : Hash) (f g : SLCFields) (hf : SLC.wf f = true) (hg : SLC.wf g = true)
    (hout : NoColl H (SLC.preimage f) (SLC.preimage g))
    (h : SLC.signBytes H f = SLC.signBytes H g) : SLC.mustBind f = SLC.mustBind g := by
  have hv := calldata_injective _ _ _ _ (slc_signed_typed f hf) (slc_signed_typed g hg) (hout h)
  simp only [SLC.signedVals, callV, feeV, List.cons.injEq, V.word.injEq, V.seq.injEq, V.bytes.injEq,
    and_true] at hv
  obtain ⟨⟨h1, h2⟩, ⟨h3, h4, h5, h6⟩, h7, h8, h9, h10⟩ := hv
  simp only [SLC.mustBind, h1, h2, h3, h4, h5, h6, h7, h8, h9, h10]

/-- **slc_delivered_determined_by_signed.** Equal signed tuples force equal delivered tuples — no
proviso: both sides pack `feesOrDefault(m.Fees)` (since /repo commit cab3e325; before it the
delivery side had no tuple at all for `Fees == nil`, see `slc_prefix_nil_fees_undefined`). -/
theorem slc_delivered_determined_by_signed (f g : SLCFields)
    (h : SLC.signedVals f = SLC.signedVals g) : SLC.deliveredVals f = SLC.deliveredVals g := by
  simp only [SLC.signedVals, callV, feeV, List.cons.injEq, V.word.injEq,
    V.seq.injEq, V.bytes.injEq, and_true] at h
  obtain ⟨⟨h1, h2⟩, ⟨h3, h4, h5, h6⟩, h7, -, h9, h10⟩ := h
  simp only [SLC.deliveredVals, callV, feeV, h1, h2, h3, h4, h5, h6, h7, h9, h10]

/-- regression witness: the PRE-FIX delivery side was undefined (nil dereference) for a message
without fees, although such a message could be signed and receive evidence -/
theorem slc_prefix_nil_fees_undefined (f : SLCFields) :
    SLC.deliveredValsPreFix { f with fees := none } = none := rfl

/-- … and wherever the pre-fix code was defined it packed what the fixed code packs -/
theorem slc_prefix_agrees (f : SLCFields) (vals : List V) (h : SLC.deliveredValsPreFix f = some vals) :
    vals = SLC.deliveredVals f := by
  unfold SLC.deliveredValsPreFix at h
  split at h
  · cases h
  · rename_i fe hfe
    injection h with h
    simp [SLC.deliveredVals, hfe, feesOrDefault, ← h]

/-! ### UploadUserSmartContract -/

/-- **usc_mustBind_covered.** C05 for user contract deployment: deployer, bytecode, the three
fees, fee payer, message id, turnstone id, deadline and relayer are bound. -/
theorem usc_mustBind_covered (H : Hash) (f g : USCFields) (hf : USC.wf f = true) (hg : USC.wf g = true)
    (hout : NoColl H (USC.preimage f) (USC.preimage g))
    (h : USC.signBytes H f = USC.signBytes H g) : USC.mustBind f = USC.mustBind g := by
  have hv := calldata_injective _ _ _ _ (usc_signed_typed f hf) (usc_signed_typed g hg) (hout h)
  simp only [USC.signedVals, feeV, List.cons.injEq, V.word.injEq, V.seq.injEq, V.bytes.injEq,
    and_true] at hv
  obtain ⟨h1, h2, ⟨h3, h4, h5, h6⟩, h7, h8, h9, h10⟩ := hv
  simp only [USC.mustBind, h1, h2, h3, h4, h5, h6, h7, h8, h9, h10]

/-- **usc_delivered_determined_by_signed.** -/
theorem usc_delivered_determined_by_signed (f g : USCFields)
    (h : USC.signedVals f = USC.signedVals g) : USC.deliveredVals f = USC.deliveredVals g := by
  simp only [USC.signedVals, feeV, List.cons.injEq, V.word.injEq,
    V.seq.injEq, V.bytes.injEq, and_true] at h
  obtain ⟨h1, h2, ⟨h3, h4, h5, h6⟩, h7, -, h9, h10⟩ := h
  simp only [USC.deliveredVals, feeV, h1, h2, h3, h4, h5, h6, h7, h9, h10]

/-! ### CompassHandover -/

/-- **ch_mustBind_covered.** C05 for the compass handover batch: every forwarded (target, payload)
pair in order, the deadline, the relayer and the gas estimate are bound.  (The compass scheme
`compass_update_batch((address,bytes)[],uint256,address,uint256)` has no deployment id and no
message id: nothing to prove for those.) -/
theorem ch_mustBind_covered (H : Hash) (f g : CHFields) (hf : CH.wf f = true) (hg : CH.wf g = true)
    (hout : NoColl H (CH.preimage f) (CH.preimage g))
    (h : CH.signBytes H f = CH.signBytes H g) : CH.mustBind f = CH.mustBind g := by
  have hv := calldata_injective _ _ _ _ (ch_signed_typed f hf) (ch_signed_typed g hg) (hout h)
  simp only [CH.signedVals, List.cons.injEq, V.word.injEq, V.seq.injEq, and_true] at hv
  obtain ⟨h1, h2, h3, h4⟩ := hv
  simp only [CH.mustBind, h1, h2, h3, h4]

/-- the bound list of calls is the list of (address, payload) pairs itself -/
theorem ch_calls_bound (f g : CHFields) (h : CH.mustBind f = CH.mustBind g) : f.calls = g.calls := by
  simp only [CH.mustBind, List.cons.injEq, V.seq.injEq] at h
  exact map_callV_inj h.1

/-- **ch_delivered_determined_by_signed.** -/
theorem ch_delivered_determined_by_signed (f g : CHFields)
    (hef : f.estimate ≠ 0) (heg : g.estimate ≠ 0)
    (h : CH.signedVals f = CH.signedVals g) : CH.deliveredVals f = CH.deliveredVals g := by
  simp only [CH.signedVals, List.cons.injEq, V.word.injEq, V.seq.injEq, and_true] at h
  obtain ⟨h1, h2, h3, h4⟩ := h
  simp only [effEstimate, hef, heg, ↓reduceIte] at h4
  simp only [CH.deliveredVals, h1, h2, h3, h4]

/-! ### UploadSmartContract -/

/-- **up_binds_bytecode_and_id.** The compass-deployment signature covers exactly the bytecode and
the message id (`keccak256(bytecode ++ be64(id))`). -/
theorem up_binds_bytecode_and_id (H : Hash) (f g : UPFields) (hf : UP.wf f = true) (hg : UP.wf g = true)
    (hout : NoColl H (UP.preimage f) (UP.preimage g))
    (h : UP.signBytes H f = UP.signBytes H g) : f = g := by
  have hp := hout h
  simp only [UP.wf, decide_eq_true_eq] at hf hg
  unfold UP.preimage at hp
  have hl : (be8 f.id).length = (be8 g.id).length := by rw [be8_length, be8_length]
  have := List.append_inj' hp hl
  have hid := be8_inj hf hg this.2
  cases f; cases g
  simp_all

/-! ### skyway batch -/

/-- **batch_mustBind_covered.** C05, "batch token, recipients, amounts and nonce … deadline,
relayer address, elected gas estimate … bridge deployment id". -/
theorem batch_mustBind_covered (H : Hash) (f g : BatchFields)
    (hf : Batch.wf f = true) (hg : Batch.wf g = true)
    (hout : NoColl H (Batch.preimage f) (Batch.preimage g))
    (h : Batch.signBytes H f = Batch.signBytes H g) : Batch.mustBind f = Batch.mustBind g := by
  have hv := calldata_injective _ _ _ _ (batch_signed_typed f hf) (batch_signed_typed g hg) (hout h)
  simp only [Batch.signedVals, List.cons.injEq, V.word.injEq, V.seq.injEq, and_true] at hv
  obtain ⟨h1, ⟨h2, h3⟩, h4, h5, h6, h7, h8⟩ := hv
  simp only [Batch.mustBind, h1, h2, h3, h4, h5, h6, h7, h8]

/-- the bound recipients / amounts are the lists themselves (order and length included) -/
theorem batch_lists_bound (f g : BatchFields) (h : Batch.mustBind f = Batch.mustBind g) :
    f.receivers = g.receivers ∧ f.amounts = g.amounts := by
  simp only [Batch.mustBind, List.cons.injEq] at h
  exact ⟨words_inj h.2.1, words_inj h.2.2.1⟩

/-- the bound validator set is the pair of lists itself -/
theorem uv_lists_bound (f g : UVFields) (h : UV.mustBind f = UV.mustBind g) :
    f.validators = g.validators ∧ f.powers = g.powers := by
  simp only [UV.mustBind, List.cons.injEq] at h
  exact ⟨words_inj h.1, words_inj h.2.1⟩

/-! ### "changing any one of these changes the signing bytes", collision-explicit form -/

/-- **signBytes_sensitive.** For every scheme: two messages that differ in ANY bound value (one
field or several) have different signing bytes, or a keccak collision exists. -/
theorem signBytes_sensitive (H : Hash) :
    (∀ f g : UVFields, UV.wf f = true → UV.wf g = true → UV.mustBind f ≠ UV.mustBind g →
        UV.signBytes H f ≠ UV.signBytes H g ∨ Collision H) ∧
    (∀ f g : SLCFields, SLC.wf f = true → SLC.wf g = true → SLC.mustBind f ≠ SLC.mustBind g →
        SLC.signBytes H f ≠ SLC.signBytes H g ∨ Collision H) ∧
    (∀ f g : USCFields, USC.wf f = true → USC.wf g = true → USC.mustBind f ≠ USC.mustBind g →
        USC.signBytes H f ≠ USC.signBytes H g ∨ Collision H) ∧
    (∀ f g : CHFields, CH.wf f = true → CH.wf g = true → CH.mustBind f ≠ CH.mustBind g →
        CH.signBytes H f ≠ CH.signBytes H g ∨ Collision H) ∧
    (∀ f g : UPFields, UP.wf f = true → UP.wf g = true → f ≠ g →
        UP.signBytes H f ≠ UP.signBytes H g ∨ Collision H) ∧
    (∀ f g : BatchFields, Batch.wf f = true → Batch.wf g = true → Batch.mustBind f ≠ Batch.mustBind g →
        Batch.signBytes H f ≠ Batch.signBytes H g ∨ Collision H) := by
  refine ⟨?_, ?_, ?_, ?_, ?_, ?_⟩
  · intro f g hf hg hne
    rcases noColl_or_collision H (UV.preimage H f) (UV.preimage H g) with h1 | h1
    · rcases noColl_or_collision H (UV.checkpointPre f) (UV.checkpointPre g) with h2 | h2
      · exact .inl fun h => hne (uv_mustBind_covered H f g hf hg h1 h2 h)
      · exact .inr h2
    · exact .inr h1
  · intro f g hf hg hne
    rcases noColl_or_collision H (SLC.preimage f) (SLC.preimage g) with h1 | h1
    · exact .inl fun h => hne (slc_mustBind_covered H f g hf hg h1 h)
    · exact .inr h1
  · intro f g hf hg hne
    rcases noColl_or_collision H (USC.preimage f) (USC.preimage g) with h1 | h1
    · exact .inl fun h => hne (usc_mustBind_covered H f g hf hg h1 h)
    · exact .inr h1
  · intro f g hf hg hne
    rcases noColl_or_collision H (CH.preimage f) (CH.preimage g) with h1 | h1
    · exact .inl fun h => hne (ch_mustBind_covered H f g hf hg h1 h)
    · exact .inr h1
  · intro f g hf hg hne
    rcases noColl_or_collision H (UP.preimage f) (UP.preimage g) with h1 | h1
    · exact .inl fun h => hne (up_binds_bytecode_and_id H f g hf hg h1 h)
    · exact .inr h1
  · intro f g hf hg hne
    rcases noColl_or_collision H (Batch.preimage f) (Batch.preimage g) with h1 | h1
    · exact .inl fun h => hne (batch_mustBind_covered H f g hf hg h1 h)
    · exact .inr h1

/-- **mustBind_covered_injective.** The literal "under `Injective H`" form asked for by the
property plan, for all six schemes at once.  (For a real 32-byte digest the hypothesis is
unsatisfiable; the statements above are the ones that carry weight.) -/
theorem mustBind_covered_injective (H : Hash) (hinj : Function.Injective (digest H)) :
    (∀ f g : UVFields, UV.wf f = true → UV.wf g = true →
        UV.signBytes H f = UV.signBytes H g → UV.mustBind f = UV.mustBind g) ∧
    (∀ f g : SLCFields, SLC.wf f = true → SLC.wf g = true →
        SLC.signBytes H f = SLC.signBytes H g → SLC.mustBind f = SLC.mustBind g) ∧
    (∀ f g : USCFields, USC.wf f = true → USC.wf g = true →
        USC.signBytes H f = USC.signBytes H g → USC.mustBind f = USC.mustBind g) ∧
    (∀ f g : CHFields, CH.wf f = true → CH.wf g = true →
        CH.signBytes H f = CH.signBytes H g → CH.mustBind f = CH.mustBind g) ∧
    (∀ f g : UPFields, UP.wf f = true → UP.wf g = true →
        UP.signBytes H f = UP.signBytes H g → f = g) ∧
    (∀ f g : BatchFields, Batch.wf f = true → Batch.wf g = true →
        Batch.signBytes H f = Batch.signBytes H g → Batch.mustBind f = Batch.mustBind g) :=
  ⟨fun f g hf hg => uv_mustBind_covered H f g hf hg (noColl_of_injective H hinj _ _) (noColl_of_injective H hinj _ _),
   fun f g hf hg => slc_mustBind_covered H f g hf hg (noColl_of_injective H hinj _ _),
   fun f g hf hg => usc_mustBind_covered H f g hf hg (noColl_of_injective H hinj _ _),
   fun f g hf hg => ch_mustBind_covered H f g hf hg (noColl_of_injective H hinj _ _),
   fun f g hf hg => up_binds_bytecode_and_id H f g hf hg (noColl_of_injective H hinj _ _),
   fun f g hf hg => batch_mustBind_covered H f g hf hg (noColl_of_injective H hinj _ _)⟩

/-! ### signatures cannot move between ABI schemes -/

/-- **cross_scheme_distinct.** "collected signatures can never authorise a different call": the
pre-images of the five ABI schemes start with pairwise different 4-byte selectors, so a digest
signed for one kind of call is never the digest of another kind (up to collisions). -/
theorem cross_scheme_distinct (H : Hash) (u : UVFields) (s : SLCFields) (d : USCFields) (c : CHFields)
    (b : BatchFields) :
    UV.preimage H u ≠ SLC.preimage s ∧ UV.preimage H u ≠ USC.preimage d ∧
    UV.preimage H u ≠ CH.preimage c ∧ UV.preimage H u ≠ Batch.preimage b ∧
    SLC.preimage s ≠ USC.preimage d ∧ SLC.preimage s ≠ CH.preimage c ∧
    SLC.preimage s ≠ Batch.preimage b ∧ USC.preimage d ≠ CH.preimage c ∧
    USC.preimage d ≠ Batch.preimage b ∧ CH.preimage c ≠ Batch.preimage b ∧
    UV.checkpointPre u ≠ UV.preimage H u := by
  refine ⟨?_, ?_, ?_, ?_, ?_, ?_, ?_, ?_, ?_, ?_, ?_⟩ <;>
    exact sel_append_ne (by decide) (by decide)

/-! ### defaulting: the deliberate collisions, and what IS injective -/

/-- **fees_default_collision.** `feesOrDefault`: a message without fees and the same message with
the explicit triple (100000, 100000, 100000) have the same signed tuple — by construction. -/
theorem fees_default_collision (f : SLCFields) :
    SLC.signedVals { f with fees := none } = SLC.signedVals { f with fees := some defaultFees } := rfl

/-- … and these are the only fee collisions: the signed tuple determines `feesOrDefault fees`. -/
theorem fees_bound_up_to_default (f g : SLCFields) (h : SLC.signedVals f = SLC.signedVals g) :
    feesOrDefault f.fees = feesOrDefault g.fees := by
  simp only [SLC.signedVals, feeV, List.cons.injEq, V.word.injEq, V.seq.injEq, and_true] at h
  obtain ⟨-, ⟨h3, h4, h5, -⟩, -⟩ := h
  cases hx : feesOrDefault f.fees; cases hy : feesOrDefault g.fees
  simp_all

/-- **estimate_default_collision.** estimate 0 and estimate 300000 sign identically. -/
theorem estimate_default_collision (H : Hash) (f : UVFields) :
    UV.signedVals H { f with estimate := 0 } = UV.signedVals H { f with estimate := 300000 } := rfl

/-- **uv_estimate_default_not_delivered.** … but `VerifyAgainstTX` expects the RAW estimate in the
call data: for the two messages above the delivered tuples differ (0 vs 300000).  Hence
`uv_delivered_determined_by_signed` needs its `estimate ≠ 0` proviso, and a relayer that delivers
a not-yet-estimated update with the value that was signed (300000) cannot be attested. -/
theorem uv_estimate_default_not_delivered (f : UVFields) :
    UV.deliveredVals { f with estimate := 0 } ≠ UV.deliveredVals { f with estimate := 300000 } := by
  simp [UV.deliveredVals]

/-- `effEstimate` is injective away from the default: two elected (non-zero) estimates that sign
identically are equal. -/
theorem effEstimate_inj {a b : Nat} (ha : a ≠ 0) (hb : b ≠ 0) (h : effEstimate a = effEstimate b) : a = b := by
  simpa [effEstimate, ha, hb] using h

/-! ### Go values: every message lands inside the well-typedness domain of the theorems -/

/-- range facts the Go types guarantee (`uint64`, `int64`, slice lengths) -/
structure GoRange (m : GoMsg) : Prop where
  id : m.id < U64
  estimate : m.estimate < U64

theorem all_map_hexToAddress (l : List Bytes) :
    (l.map hexToAddress).all (fun a => decide (a < W160)) = true := by
  induction l with
  | nil => rfl
  | cons x l ih => simp [hexToAddress_lt, ih]

theorem all_map_castI64 (l : List Nat) (h : ∀ p ∈ l, p < U64) :
    (l.map castI64).all (fun a => decide (a < W256)) = true := by
  induction l with
  | nil => rfl
  | cons x l ih =>
    simp only [List.map_cons, List.all_cons, Bool.and_eq_true, decide_eq_true_eq]
    exact ⟨castI64_lt (h x (by simp)), ih fun p hp => h p (by simp [hp])⟩

/-- **go_uv_wf.** Every Go `UpdateValset` message converts to well-typed fields. -/
theorem go_uv_wf (m : GoMsg) (vs : GoValset) (hr : GoRange m)
    (hp : ∀ p ∈ vs.powers, p < U64) (hid : vs.valsetId < U64)
    (hl1 : vs.validators.length < W256) (hl2 : vs.powers.length < W256) :
    UV.wf (uvFields m vs) = true := by
  simp only [UV.wf, uvFields, Bool.and_eq_true, List.length_map]
  exact ⟨⟨⟨⟨⟨⟨⟨all_map_hexToAddress _, decide_eq_true hl1⟩, all_map_castI64 _ hp⟩, decide_eq_true hl2⟩,
    decide_eq_true (castI64_lt hid)⟩, decide_eq_true (bytes32OfString_lt _)⟩,
    decide_eq_true (hexToAddress_lt _)⟩, decide_eq_true hr.estimate⟩

/-- **go_slc_wf.** Every Go `SubmitLogicCall` message whose signing does not panic converts to
well-typed fields. -/
theorem go_slc_wf (m : GoMsg) (c p s : Bytes) (fe : Option Fees) (d : Int) (snd : Nat)
    (hr : GoRange m) (hfe : feesWf fe = true) (hs : padSender s = some snd) (hp : p.length < W256) :
    SLC.wf (slcFields m c p fe snd d) = true := by
  simp only [SLC.wf, slcFields, Bool.and_eq_true]
  exact ⟨⟨⟨⟨⟨⟨⟨decide_eq_true (hexToAddress_lt _), decide_eq_true hp⟩, hfe⟩, decide_eq_true (padSender_lt hs)⟩,
    decide_eq_true (castI64_lt hr.id)⟩, decide_eq_true (bytes32OfString_lt _)⟩,
    decide_eq_true (wordOfInt_lt _)⟩, decide_eq_true (hexToAddress_lt _)⟩

/-- **go_usc_wf.** -/
theorem go_usc_wf (m : GoMsg) (dep bc s : Bytes) (fe : Option Fees) (d : Int) (snd : Nat)
    (hr : GoRange m) (hfe : feesWf fe = true) (hs : padSender s = some snd) (hp : bc.length < W256) :
    USC.wf (uscFields m dep bc fe snd d) = true := by
  simp only [USC.wf, uscFields, Bool.and_eq_true]
  exact ⟨⟨⟨⟨⟨⟨⟨decide_eq_true (hexToAddress_lt _), decide_eq_true hp⟩, hfe⟩, decide_eq_true (padSender_lt hs)⟩,
    decide_eq_true (castI64_lt hr.id)⟩, decide_eq_true (bytes32OfString_lt _)⟩,
    decide_eq_true (wordOfInt_lt _)⟩, decide_eq_true (hexToAddress_lt _)⟩

/-- **go_ch_wf.** -/
theorem go_ch_wf (m : GoMsg) (cs : List (Bytes × Bytes)) (d : Int) (hr : GoRange m)
    (hl : cs.length < W256) (hp : ∀ c ∈ cs, c.2.length < W256) :
    CH.wf (chFields m cs d) = true := by
  simp only [CH.wf, chFields, Bool.and_eq_true, List.length_map]
  refine ⟨⟨⟨⟨?_, decide_eq_true hl⟩, decide_eq_true (wordOfInt_lt _)⟩, decide_eq_true (hexToAddress_lt _)⟩,
    decide_eq_true hr.estimate⟩
  rw [List.all_map]
  rw [List.all_eq_true]
  intro c hc
  simp [hexToAddress_lt, hp c hc]

theorem all_map_toNat (l : List Int) (h : ∀ a ∈ l, a < (W256 : Int)) :
    (l.map Int.toNat).all (fun a => decide (a < W256)) = true := by
  induction l with
  | nil => rfl
  | cons x l ih =>
    simp only [List.map_cons, List.all_cons, Bool.and_eq_true, decide_eq_true_eq]
    refine ⟨?_, ih fun a ha => h a (by simp [ha])⟩
    have := h x (by simp)
    have hp : (0 : Int) < (W256 : Int) := by decide
    omega

/-- **go_batch_wf.** Every skyway batch accepted by `ToInternal` converts to well-typed fields
(`sdkmath.Int` amounts are below 2^256 by construction of that type). -/
theorem go_batch_wf (ts : Bytes) (b : GoBatch) (hn : b.nonce < U64) (ht : b.timeout < U64)
    (he : b.estimate < U64) (ha : ∀ a ∈ b.amounts, a < (W256 : Int))
    (hl1 : b.dests.length < W256) (hl2 : b.amounts.length < W256) :
    Batch.wf (batchFields ts b) = true := by
  simp only [Batch.wf, batchFields, Bool.and_eq_true, List.length_map]
  exact ⟨⟨⟨⟨⟨⟨⟨⟨⟨decide_eq_true (hexToAddress_lt _), all_map_hexToAddress _⟩, decide_eq_true hl1⟩,
    all_map_toNat _ ha⟩, decide_eq_true hl2⟩, decide_eq_true (castI64_lt hn)⟩,
    decide_eq_true (bytes32OfString_lt _)⟩, decide_eq_true (castI64_lt ht)⟩,
    decide_eq_true (bytesToAddress_lt _)⟩, decide_eq_true he⟩

/-- **go_conversions_lossless_where_it_matters.** ids, powers, nonces (`int64(uint64)`) and
deadlines (`int64`) reach the ABI level injectively; `HexToAddress`, the `[32]byte` copy of the
turnstone id and the left-padding of the sender are many-to-one on Go values but the contract is
handed the converted value, which is what the signature binds. -/
theorem go_conversions_lossless_where_it_matters :
    (∀ a b : Nat, a < U64 → b < U64 → castI64 a = castI64 b → a = b) ∧
    (∀ a b : Int, -(I63 : Int) ≤ a ∧ a < (I63 : Int) → -(I63 : Int) ≤ b ∧ b < (I63 : Int) →
        wordOfInt a = wordOfInt b → a = b) :=
  ⟨fun _ _ ha hb h => castI64_inj ha hb h, fun _ _ ha hb h => wordOfInt_inj ha hb h⟩

/-! ### message ids -/

/-- **ids_strictly_increase.** Over every sequence of put / replace / remove operations on any
number of queues (fewer than 2^64 of them: the counter is a `uint64`), the fresh ids handed out
are strictly increasing in the order of issue (`issued` is newest first), start at 1 and never
exceed the counter. -/
theorem ids_strictly_increase (ops : List IdOp) (h : ops.length < U64) :
    (idRun {} ops).issued.Pairwise (· > ·) ∧
    ∀ i ∈ (idRun {} ops).issued, 1 ≤ i ∧ i ≤ (idRun {} ops).counter := by
  have := (idRun_inv ops {} idInv_init (by simpa using h)).1
  exact ⟨this.sorted, this.bounded⟩

/-- **fresh_id_is_new.** A fresh `Put` in ANY state reachable from genesis returns an id that is
larger than every id issued before (so an id is never reused, not even after its message was
removed), logs it, and stores the message under it. -/
theorem fresh_id_is_new (ops : List IdOp) (q : Nat) (h : ops.length + 1 < U64) :
    ∃ id, idStep (idRun {} ops) (.put q 0) =
        ({ counter := id, live := (q, id) :: (idRun {} ops).live, issued := id :: (idRun {} ops).issued },
          .ok id) ∧
      (∀ j ∈ (idRun {} ops).issued, j < id) ∧ id ∉ (idRun {} ops).issued ∧
      ∀ p ∈ (idRun {} ops).live, p.2 ≠ id := by
  have hi := idRun_inv ops {} idInv_init (by
    show 0 + ops.length < U64
    omega)
  generalize idRun {} ops = s at hi ⊢
  have hc : s.counter + 1 < U64 := by
    have h2 : s.counter ≤ 0 + ops.length := hi.2
    omega
  refine ⟨s.counter + 1, ?_, ?_, ?_, ?_⟩
  · simp [idStep, Nat.mod_eq_of_lt hc]
  · intro j hj
    have := (hi.1.bounded j hj).2
    omega
  · intro hm
    have := (hi.1.bounded _ hm).2
    omega
  · intro p hp e
    have := (hi.1.bounded _ (hi.1.liveIssued p hp)).2
    omega

/-- **replace_keeps_id.** `Put` with `MsgIDToReplace = r ≠ 0` never touches the counter: it
answers `r` when (and only when) a message with id `r` is stored in THAT queue, and changes
neither the set of stored ids nor the log. -/
theorem replace_keeps_id (s : IdSt) (q r : Nat) (hr : r ≠ 0) :
    (idStep s (.put q r)).1 = s ∧
    ((idStep s (.put q r)).2 = .ok r ↔ (q, r) ∈ s.live) ∧
    ((idStep s (.put q r)).2 = .notFound ↔ (q, r) ∉ s.live) := by
  simp only [idStep, ne_eq, hr, not_false_eq_true, ↓reduceIte]
  by_cases hm : hasMsg s q r = true
  · have := (hasMsg_iff s q r).1 hm
    simp [hm, this]
  · have hn : (q, r) ∉ s.live := fun h => hm ((hasMsg_iff s q r).2 h)
    simp [hm, hn]

/-- **ids_unique_across_queues.** After any sequence of operations no id is stored twice: not in
two queues (of one or of several chains) and not twice in one queue. -/
theorem ids_unique_across_queues (ops : List IdOp) (h : ops.length < U64) :
    ((idRun {} ops).live.map (·.2)).Nodup ∧
    ∀ q1 q2 id, (q1, id) ∈ (idRun {} ops).live → (q2, id) ∈ (idRun {} ops).live → q1 = q2 := by
  have hi := (idRun_inv ops {} idInv_init (by simpa using h)).1
  refine ⟨hi.nodup, ?_⟩
  intro q1 q2 id h1 h2
  have hn := hi.nodup
  clear hi
  generalize (idRun {} ops).live = l at hn h1 h2
  induction l with
  | nil => cases h1
  | cons p l ih =>
    simp only [List.map_cons, List.nodup_cons] at hn
    simp only [List.mem_cons] at h1 h2
    rcases h1 with rfl | h1 <;> rcases h2 with h2 | h2
    · injection h2 with e1 _
      exact e1.symm
    · exact absurd (List.mem_map.2 ⟨(q2, id), h2, rfl⟩) hn.1
    · subst h2
      exact absurd (List.mem_map.2 ⟨(q1, id), h1, rfl⟩) hn.1
    · exact ih hn.2 h1 h2

/-- **id_counter_wrap_needed.** The `< 2^64` bound cannot be dropped: the model (like the Go
`uint64` counter) wraps, after which `Put` fails with `ErrUnableToSaveMessageWithoutID` and the
next id issued is 1 again. -/
theorem id_counter_wrap_needed :
    (idStep { counter := U64 - 1 } (.put 1 0)).2 = .zeroId ∧
    (idStep (idStep { counter := U64 - 1 } (.put 1 0)).1 (.put 1 0)).2 = .ok 1 := by decide

/-! ## non-vacuity -/

/-- "compass" zero-padded to 32 bytes -/
def exTurnstone : Nat := bytes32OfString [99, 111, 109, 112, 97, 115, 115]

def exUV : UVFields :=
  { validators := [0xaa, 0xbb], powers := [castI64 (2 ^ 63), 5], valsetId := 7,
    turnstone := exTurnstone, relayer := 0xcc, estimate := 0 }

def exSLC : SLCFields :=
  { contract := 0x11, payload := [1, 2, 3], fees := none, sender := 0x22, id := castI64 (2 ^ 64 - 1),
    turnstone := 5, deadline := wordOfInt (-1), relayer := 0x33 }

def exBatch : BatchFields :=
  { token := 0x44, receivers := [1, 2], amounts := [W256 - 1, 0], nonce := 9, turnstone := 1,
    timeout := castI64 (2 ^ 63 + 1), relayer := 0x55, estimate := 21000 }

example : UV.wf exUV = true := by decide
example : SLC.wf exSLC = true := by decide
example : Batch.wf exBatch = true := by decide
example : UV.mustBind exUV ≠ UV.mustBind { exUV with relayer := 0xcd } := by
  simp [UV.mustBind, exUV]
example : SLC.mustBind exSLC ≠ SLC.mustBind { exSLC with fees := some { defaultFees with security := 1 } } := by
  simp [SLC.mustBind, exSLC, feesOrDefault, defaultFees]
-- lossy Go conversions: different strings, same delivered value ("0x01" vs "1"; "0x0g55" decodes
-- to nothing; "ab" vs "ab\0")
example : hexToAddress [48, 120, 48, 49] = hexToAddress [49] := by decide
example : hexToAddress [48, 120, 48, 103, 53, 53] = 0 := by decide
example : bytes32OfString [97, 98] = bytes32OfString [97, 98, 0] := by decide
example : castI64 (2 ^ 63) = W256 - 2 ^ 63 := by decide
example : wordOfInt (-1) = W256 - 1 := by decide
-- a concrete id history over three queues: replace keeps the id, removal does not free it
example : (idRun {} [.put 1 0, .put 2 0, .put 1 1, .remove 1 1, .put 3 0, .put 2 1]).live = [(3, 3), (2, 2)] ∧
    (idRun {} [.put 1 0, .put 2 0, .put 1 1, .remove 1 1, .put 3 0, .put 2 1]).issued = [3, 2, 1] := by decide

end Paloma.SignBytes
