/-
C12 — keep-alive liveness and inactivity jailing (model: `Model/KeepAlive.lean`).

"A bonded or unbonding, unjailed validator whose relayer has not sent an accepted keep-alive for
longer than the keep-alive lifetime is jailed at the next periodic liveness check, unless it became
unjailed within the grace period or jailing it is forbidden by the network-protection rules (it
holds more than 25% of bonded power or is the last active validator). A validator with an unexpired
keep-alive is never jailed for inactivity, keep-alives from relayers older than the minimum required
version are refused, that minimum never decreases, and repeated jailings lengthen the sentence along
the fixed schedule."

Two layers of theorems:
* step level — about one operation in an ARBITRARY state (hence inside every history);
* history level — about `run St.init ops` for every WELL-FORMED BLOCK HISTORY `ops` (`wf`: heights
  carried by the operations are the running block height, one `endBlock` per height; everything
  else — which transactions, in which order, stake changes, jail / unjail events, block times — is
  free). All hypotheses of the history theorems are functions of the history (`acceptedKA`,
  `endBlocks`, `jailTimes`, characterised by `mem_acceptedKA_iff`, `mem_endBlocks_iff`,
  `mem_jailTimes_iff`), not of the stores; the stores are tied to the history by the provenance
  theorems `alive_provenance`, `prev_provenance`, `grace_provenance`, `jailLog_eq_history`.

The liveness clause AS WRITTEN is false (`liveness_as_written_false`, known finding
`C12-last-validator-global`): the true statement has a fourth disjunct (`inactive_jailed_history`),
which is reachable from `St.init` (`fourth_disjunct_reachable`).
Nothing is bounded: arbitrary address byte strings, stake distributions, operation lists.
See C12.md for what is modelled.
-/
import PalomaModel.Model.KeepAlive

namespace Paloma.KeepAlive
open List


/-! ## helper lemmas -/
section Lemmas

/-! ### codec -/

theorem unhex_hexDigit : ∀ n, n < 16 → unhex (hexDigit n) = some n := by decide

theorem hexDigit_ne_comma : ∀ n, n < 16 → hexDigit n ≠ comma := by decide

theorem hexDec_hexEnc (a : List UInt8) : hexDec (hexEnc a) = some a := by
  induction a with
  | nil => rfl
  | cons b bs ih =>
    have hb : b.toNat < 256 := by have := UInt8.toNat_lt b; omega
    have h1 : b.toNat / 16 < 16 := by omega
    have h2 : b.toNat % 16 < 16 := by omega
    simp only [hexEnc, hexDec, unhex_hexDigit _ h1, unhex_hexDigit _ h2, ih]
    have : 16 * (b.toNat / 16) + b.toNat % 16 = b.toNat := Nat.div_add_mod _ _
    rw [this, UInt8.ofNat_toNat]

theorem hexEnc_injective (a b : List UInt8) (h : hexEnc a = hexEnc b) : a = b := by
  have := congrArg hexDec h
  simpa [hexDec_hexEnc] using this

theorem comma_not_mem_hexEnc (a : List UInt8) : comma ∉ hexEnc a := by
  induction a with
  | nil => simp [hexEnc]
  | cons b bs ih =>
    have hb : b.toNat < 256 := by have := UInt8.toNat_lt b; omega
    have h1 : b.toNat / 16 < 16 := by omega
    have h2 : b.toNat % 16 < 16 := by omega
    simp only [hexEnc, List.mem_cons, not_or]
    exact ⟨fun h => hexDigit_ne_comma _ h1 h.symm, fun h => hexDigit_ne_comma _ h2 h.symm, ih⟩

theorem splitBy_noSep (sep : UInt8) (x : List UInt8) (hx : sep ∉ x) : splitBy sep x = [x] := by
  induction x with
  | nil => rfl
  | cons c cs ih =>
    simp only [List.mem_cons, not_or] at hx
    have hc : c ≠ sep := fun h => hx.1 h.symm
    simp [splitBy, hc, ih hx.2]

theorem splitBy_append_sep (sep : UInt8) (x rest : List UInt8) (hx : sep ∉ x) :
    splitBy sep (x ++ sep :: rest) = x :: splitBy sep rest := by
  induction x with
  | nil => simp [splitBy]
  | cons c cs ih =>
    simp only [List.mem_cons, not_or] at hx
    have hc : c ≠ sep := fun h => hx.1 h.symm
    simp [splitBy, hc, ih hx.2]

theorem splitBy_joinBy (sep : UInt8) (segs : List (List UInt8)) (hne : segs ≠ [])
    (h : ∀ x ∈ segs, sep ∉ x) : splitBy sep (joinBy sep segs) = segs := by
  induction segs with
  | nil => exact absurd rfl hne
  | cons x rest ih =>
    cases rest with
    | nil => simpa [joinBy] using splitBy_noSep sep x (h x (by simp))
    | cons y ys =>
      have hx : sep ∉ x := h x (by simp)
      have := ih (by simp) (fun z hz => h z (by simp [hz]))
      simp only [joinBy]
      rw [splitBy_append_sep sep x _ hx, this]

theorem cutPrefix_hexPrefix_append (x : List UInt8) : cutPrefix hexPrefix (hexPrefix ++ x) = some x := by
  simp [cutPrefix, hexPrefix, List.isPrefixOf]

theorem filterMap_hexDec_map_hexEnc (l : List (List UInt8)) : (l.map hexEnc).filterMap hexDec = l := by
  induction l with
  | nil => rfl
  | cons a as ih => simp [hexDec_hexEnc, ih]

/-! ### version order -/

theorem lexLt_irrefl (a : List Nat) : lexLt a a = false := by
  induction a with
  | nil => rfl
  | cons x xs ih => simp [lexLt, ih]

theorem lexLt_trans : ∀ (a b c : List Nat), lexLt a b = true → lexLt b c = true → lexLt a c = true
  | _, [], _, h, _ => by cases ‹List Nat› <;> simp [lexLt] at h
  | _, _ :: _, [], _, h => by simp [lexLt] at h
  | [], _ :: _, _ :: _, _, _ => by simp [lexLt]
  | x :: xs, y :: ys, z :: zs, h1, h2 => by
    simp only [lexLt] at h1 h2 ⊢
    by_cases hxy : x < y
    · by_cases hyz : y < z
      · have : x < z := by omega
        simp [this]
      · by_cases hzy : z < y
        · simp [hyz, hzy] at h2
        · have : y = z := by omega
          subst this; simp [hxy]
    · by_cases hyx : y < x
      · simp [hxy, hyx] at h1
      · have hxy' : x = y := by omega
        subst hxy'
        simp only [hxy, if_false] at h1
        by_cases hyz : x < z
        · simp [hyz]
        · by_cases hzy : z < x
          · simp [hyz, hzy] at h2
          · simp only [hyz, hzy, if_false] at h2 ⊢
            exact lexLt_trans xs ys zs h1 h2

theorem lexLt_trichotomy : ∀ (a b : List Nat), lexLt a b = true ∨ a = b ∨ lexLt b a = true
  | [], [] => by simp
  | [], _ :: _ => by simp [lexLt]
  | _ :: _, [] => by simp [lexLt]
  | x :: xs, y :: ys => by
    simp only [lexLt]
    by_cases hxy : x < y
    · simp [hxy]
    · by_cases hyx : y < x
      · simp [hyx]
      · have : x = y := by omega
        subst this
        simp only [hxy, if_false, List.cons.injEq, true_and]
        exact lexLt_trichotomy xs ys

theorem lexLt_asymm (a b : List Nat) (h : lexLt a b = true) : lexLt b a = false := by
  cases hba : lexLt b a with
  | false => rfl
  | true => have := lexLt_trans a b a h hba; simp [lexLt_irrefl] at this

/-- `semver.Compare(a, b) ≤ 0` -/
def vle (a b : Ver) : Prop := vlt b a = false

theorem vle_refl (a : Ver) : vle a a := lexLt_irrefl _

theorem vle_trans (a b c : Ver) (h1 : vle a b) (h2 : vle b c) : vle a c := by
  unfold vle vlt at *
  cases hca : lexLt (vkey c) (vkey a) with
  | false => rfl
  | true =>
    rcases lexLt_trichotomy (vkey a) (vkey b) with h | h | h
    · have := lexLt_trans _ _ _ hca h; simp [h2] at this
    · rw [h] at hca; simp [h2] at hca
    · simp [h1] at h

theorem vle_total (a b : Ver) : vle a b ∨ vle b a := by
  unfold vle vlt
  cases h : lexLt (vkey b) (vkey a) with
  | false => exact Or.inl rfl
  | true => exact Or.inr (lexLt_asymm _ _ h)

theorem vlt_of_invalid_valid (a b : Ver) (ha : vvalid a = false) (hb : vvalid b = true) : vlt a b = true := by
  unfold vvalid at ha hb
  unfold vlt
  have ha' : vkey a = [] := by simpa using ha
  rw [ha']
  cases hk : vkey b with
  | nil => simp [hk] at hb
  | cons x xs => simp [lexLt]

/-! ### maps -/

theorem Map.get_filter_ne {α : Type} (m : Map α) (a b : Addr) (h : b ≠ a) :
    Map.get (m.filter (fun p => p.1 != a)) b = Map.get m b := by
  induction m with
  | nil => rfl
  | cons p rest ih =>
    obtain ⟨k, x⟩ := p
    by_cases hk : k = a
    · subst hk
      have : k ≠ b := fun e => h e.symm
      simp [Map.get, this, ih]
    · by_cases hkb : k = b
      · subst hkb
        simp [hk, Map.get]
      · simp [hk, Map.get, hkb, ih]

theorem Map.get_set {α : Type} (m : Map α) (a b : Addr) (x : α) :
    (m.set a x).get b = if b = a then some x else m.get b := by
  unfold Map.set
  by_cases h : b = a
  · subst h; simp [Map.get]
  · have h' : a ≠ b := fun e => h e.symm
    simp only [Map.get, h', h, if_false]
    exact Map.get_filter_ne m a b h

/-! ### the staking view -/

theorem findVal_updVal (l : List Val) (a b : Addr) (f : Val → Val) (hf : ∀ v, (f v).addr = v.addr) :
    findVal (updVal l a f) b = (findVal l b).map (fun v => if v.addr = a then f v else v) := by
  unfold findVal updVal
  rw [List.find?_map]
  have : ((fun v : Val => v.addr == b) ∘ fun v => if v.addr = a then f v else v) = (fun v : Val => v.addr == b) := by
    funext v
    simp only [Function.comp]
    split <;> simp [hf]
  rw [this]

theorem findVal_setJailed (l : List Val) (a b : Addr) (j : Bool) :
    findVal (setJailed l a j) b
      = (findVal l b).map (fun v => if v.addr = a then { v with jailed := j } else v) :=
  findVal_updVal l a b _ (fun _ => rfl)

theorem findVal_addr (l : List Val) (a : Addr) (v : Val) (h : findVal l a = some v) : v.addr = a := by
  unfold findVal at h
  have := List.find?_some h
  simpa using this

theorem findVal_mem (l : List Val) (a : Addr) (v : Val) (h : findVal l a = some v) : v ∈ l :=
  List.mem_of_find?_eq_some h

def contrib (v : Val) : Nat := if isActive v then v.power else 0

theorem activeTotal_eq (l : List Val) : activeTotal l = (l.map contrib).sum := by
  induction l with
  | nil => rfl
  | cons w ws ih =>
    unfold activeTotal at *
    by_cases h : isActive w = true
    · simp [h, contrib, ih]
    · simp [h, contrib, ih]

theorem sum_map_le (l : List Val) (g : Val → Val) (c : Val → Nat) (h : ∀ v, c (g v) ≤ c v) :
    ((l.map g).map c).sum ≤ (l.map c).sum := by
  induction l with
  | nil => simp
  | cons w ws ih =>
    simp only [List.map_cons, List.sum_cons]
    have := h w
    omega

theorem activeTotal_setJailed_le (l : List Val) (a : Addr) :
    activeTotal (setJailed l a true) ≤ activeTotal l := by
  rw [activeTotal_eq, activeTotal_eq]
  unfold setJailed updVal
  apply sum_map_le
  intro v
  by_cases hv : v.addr = a
  · simp [hv, contrib, isActive]
  · simp [hv]

theorem isJailed_of_findVal (s : St) (a : Addr) (v : Val) (h : findVal s.vals a = some v) :
    isJailed s a = v.jailed := by simp [isJailed, h]

/-! ### `Jail` -/

theorem protectedIn_iff (l : List Val) (p : Nat) :
    protectedIn l p = true ↔ activeCount l = 1 ∨ 4 * p > activeTotal l := by
  simp [protectedIn, protectionDenominator]

/-- the state `Jail` produces when it goes through -/
def jailed (s : St) (t : Int) (b : Addr) : St :=
  { s with vals := setJailed s.vals b true,
           jailLog := s.jailLog.set b { duration := nextSentence (s.jailLog.get b) t, jailedAt := t },
           jailedUntil := s.jailedUntil.set b (t + nextSentence (s.jailLog.get b) t) }

theorem jail_unjailed (s : St) (t : Int) (b : Addr) (vb : Val) (hf : findVal s.vals b = some vb)
    (hj : vb.jailed = false) :
    (protectedIn s.vals (consPower vb) = true ∧ jail s t b = (s, .rejected)) ∨
    (protectedIn s.vals (consPower vb) = false ∧ jail s t b = (jailed s t b, .ok)) := by
  unfold jail jailed
  simp only [hf, hj, Bool.false_eq_true, if_false]
  by_cases hc : activeCount s.vals = 1
  · left
    exact ⟨(protectedIn_iff _ _).2 (Or.inl hc), by simp [hc]⟩
  · by_cases hp : protectionDenominator * consPower vb > activeTotal s.vals
    · left
      refine ⟨(protectedIn_iff _ _).2 (Or.inr (by simpa [protectionDenominator] using hp)), ?_⟩
      simp [hc, hp]
    · right
      refine ⟨?_, by simp [hc, hp]⟩
      cases hpr : protectedIn s.vals (consPower vb) with
      | false => rfl
      | true =>
        rcases (protectedIn_iff _ _).1 hpr with h | h
        · exact absurd h hc
        · exact absurd (by simpa [protectionDenominator] using h) hp

theorem jail_cases (s : St) (t : Int) (b : Addr) :
    jail s t b = (s, .rejected) ∨
    (∃ vb, findVal s.vals b = some vb ∧ vb.jailed = false ∧
      protectedIn s.vals (consPower vb) = false ∧ jail s t b = (jailed s t b, .ok)) := by
  cases hf : findVal s.vals b with
  | none => left; simp [jail, hf]
  | some vb =>
    cases hj : vb.jailed with
    | true => left; simp [jail, hf, hj]
    | false =>
      rcases jail_unjailed s t b vb hf hj with h | h
      · exact Or.inl h.2
      · exact Or.inr ⟨vb, rfl, hj, h.1, h.2⟩

theorem isJailed_jailed (s : St) (t : Int) (a b : Addr) :
    isJailed (jailed s t b) a = (isJailed s a || (decide (a = b) && (findVal s.vals a).isSome)) := by
  unfold isJailed jailed
  simp only [findVal_setJailed]
  cases hf : findVal s.vals a with
  | none => simp
  | some v =>
    have hv := findVal_addr _ _ _ hf
    by_cases hab : a = b
    · subst hab; simp [hv]
    · have : v.addr ≠ b := by rw [hv]; exact hab
      simp [this, hab]

theorem findVal_jailed_other (s : St) (t : Int) (a b : Addr) (h : a ≠ b) :
    findVal (jailed s t b).vals a = findVal s.vals a := by
  unfold jailed
  simp only [findVal_setJailed]
  cases hf : findVal s.vals a with
  | none => rfl
  | some v =>
    have hv := findVal_addr _ _ _ hf
    have : v.addr ≠ b := by rw [hv]; exact h
    simp [this]

theorem activeTotal_jailed_le (s : St) (t : Int) (b : Addr) :
    activeTotal (jailed s t b).vals ≤ activeTotal s.vals := activeTotal_setJailed_le _ _

/-! ### the sweep -/

theorem sweepStep_eq (h t : Int) (s : St) (w : Val) :
    sweepStep h t s w = s ∨ sweepStep h t s w = (jail s t w.addr).1 := by
  unfold sweepStep
  split
  · exact Or.inl rfl
  · split
    · exact Or.inl rfl
    · split
      · exact Or.inl rfl
      · split
        · exact Or.inl rfl
        · exact Or.inr rfl

/-- what a sweep iteration can do: nothing, or a successful `Jail` of that entry's address -/
theorem sweepStep_cases (h t : Int) (s : St) (w : Val) :
    sweepStep h t s w = s ∨
    (∃ vb, findVal s.vals w.addr = some vb ∧ vb.jailed = false ∧
      protectedIn s.vals (consPower vb) = false ∧ sweepStep h t s w = jailed s t w.addr) := by
  rcases sweepStep_eq h t s w with h1 | h1
  · exact Or.inl h1
  · rcases jail_cases s t w.addr with h2 | ⟨vb, hf, hj, hp, h2⟩
    · left; rw [h1, h2]
    · right; exact ⟨vb, hf, hj, hp, by rw [h1, h2]⟩

theorem isAlive_congr (s s' : St) (h : s'.alive = s.alive) (a : Addr) (ht : Int) :
    isAlive s' a ht = isAlive s a ht := by unfold isAlive; rw [h]

theorem inGrace_congr (s s' : St) (h : s'.grace = s.grace) (a : Addr) (ht : Int) :
    inGrace s' a ht = inGrace s a ht := by unfold inGrace; rw [h]

/-- the fields a sweep never touches -/
def sameStores (s s' : St) : Prop :=
  s'.alive = s.alive ∧ s'.grace = s.grace ∧ s'.prev = s.prev ∧ s'.minVersion = s.minVersion ∧
  s'.scheduled = s.scheduled

theorem sameStores_refl (s : St) : sameStores s s := ⟨rfl, rfl, rfl, rfl, rfl⟩

theorem sameStores_trans {a b c : St} (h1 : sameStores a b) (h2 : sameStores b c) : sameStores a c := by
  obtain ⟨x1, x2, x3, x4, x5⟩ := h1
  obtain ⟨y1, y2, y3, y4, y5⟩ := h2
  exact ⟨y1.trans x1, y2.trans x2, y3.trans x3, y4.trans x4, y5.trans x5⟩

theorem sameStores_jailed (s : St) (t : Int) (b : Addr) : sameStores s (jailed s t b) :=
  ⟨rfl, rfl, rfl, rfl, rfl⟩

theorem sameStores_sweepStep (h t : Int) (s : St) (w : Val) : sameStores s (sweepStep h t s w) := by
  rcases sweepStep_cases h t s w with h1 | ⟨_, _, _, _, h1⟩
  · rw [h1]; exact sameStores_refl s
  · rw [h1]; exact sameStores_jailed s t _

theorem sameStores_foldl (h t : Int) (l : List Val) (s : St) :
    sameStores s (l.foldl (sweepStep h t) s) := by
  induction l generalizing s with
  | nil => exact sameStores_refl s
  | cons w ws ih => exact sameStores_trans (sameStores_sweepStep h t s w) (ih _)

/-- an iteration never changes the jailed flag of a validator that is alive or in its grace period -/
theorem sweepStep_isJailed_skip (h t : Int) (s : St) (w : Val) (a : Addr)
    (hskip : isAlive s a h = true ∨ inGrace s a h = true) :
    isJailed (sweepStep h t s w) a = isJailed s a := by
  by_cases hw : w.addr = a
  · have : sweepStep h t s w = s := by
      unfold sweepStep
      rw [hw]
      rcases hskip with h1 | h1
      · split
        · rfl
        · simp
      · split
        · rfl
        · split
          · rfl
          · simp
    rw [this]
  · rcases sweepStep_cases h t s w with h1 | ⟨vb, _, _, _, h1⟩
    · rw [h1]
    · rw [h1, isJailed_jailed]
      have : a ≠ w.addr := fun e => hw e.symm
      simp [this]

theorem foldl_isJailed_skip (h t : Int) (l : List Val) (s : St) (a : Addr)
    (hskip : isAlive s a h = true ∨ inGrace s a h = true) :
    isJailed (l.foldl (sweepStep h t) s) a = isJailed s a := by
  induction l generalizing s with
  | nil => rfl
  | cons w ws ih =>
    simp only [List.foldl_cons]
    have hs := sameStores_sweepStep h t s w
    have hskip' : isAlive (sweepStep h t s w) a h = true ∨ inGrace (sweepStep h t s w) a h = true := by
      rw [isAlive_congr _ _ hs.1, inGrace_congr _ _ hs.2.1]; exact hskip
    rw [ih _ hskip', sweepStep_isJailed_skip h t s w a hskip]

/-- "jailed, or `Jail` refuses in this state". NOTE: `protectedIn` is the test as `Jail` CODES it: the
25 % rule for the target OR exactly one active validator — WHOEVER the target is. This is wider than
the exception of the property text ("is the last active validator"); the history-level theorems
(`inactive_jailed_history`) split it into its parts and `liveness_as_written_false` /
`fourth_disjunct_reachable` show that the extra part is real. -/
def jailedOrProtected (s : St) (a : Addr) : Prop :=
  isJailed s a = true ∨ ∃ v, findVal s.vals a = some v ∧ protectedIn s.vals (consPower v) = true

theorem jailedOrProtected_jailed (s : St) (t : Int) (a b : Addr) (vb : Val)
    (hf : findVal s.vals b = some vb) (hp : protectedIn s.vals (consPower vb) = false)
    (h : jailedOrProtected s a) : jailedOrProtected (jailed s t b) a := by
  rcases h with h | ⟨v, hv, hpv⟩
  · left; rw [isJailed_jailed, h]; rfl
  · by_cases hab : a = b
    · subst hab
      rw [hf] at hv
      cases hv
      rw [hp] at hpv
      cases hpv
    · right
      refine ⟨v, by rw [findVal_jailed_other s t a b hab]; exact hv, ?_⟩
      rcases (protectedIn_iff _ _).1 hpv with h1 | h1
      · -- with one active validator nothing can be jailed at all
        have : protectedIn s.vals (consPower vb) = true := (protectedIn_iff _ _).2 (Or.inl h1)
        rw [hp] at this
        cases this
      · have := activeTotal_jailed_le s t b
        exact (protectedIn_iff _ _).2 (Or.inr (by omega))

theorem jailedOrProtected_sweepStep (h t : Int) (s : St) (w : Val) (a : Addr)
    (hr : jailedOrProtected s a) : jailedOrProtected (sweepStep h t s w) a := by
  rcases sweepStep_cases h t s w with h1 | ⟨vb, hf, _, hp, h1⟩
  · rw [h1]; exact hr
  · rw [h1]; exact jailedOrProtected_jailed s t a w.addr vb hf hp hr

theorem jailedOrProtected_foldl (h t : Int) (l : List Val) (s : St) (a : Addr)
    (hr : jailedOrProtected s a) : jailedOrProtected (l.foldl (sweepStep h t) s) a := by
  induction l generalizing s with
  | nil => exact hr
  | cons w ws ih => exact ih _ (jailedOrProtected_sweepStep h t s w a hr)

/-- the iteration on the entry of an unjailed, due validator -/
theorem sweepStep_due (h t : Int) (s : St) (v vs : Val)
    (hst : v.status = .bonded ∨ v.status = .unbonding)
    (hal : isAlive s v.addr h = false) (hgr : inGrace s v.addr h = false)
    (hf : findVal s.vals v.addr = some vs) (hj : vs.jailed = false) :
    jailedOrProtected (sweepStep h t s v) v.addr := by
  have hstep : sweepStep h t s v = (jail s t v.addr).1 := by
    unfold sweepStep
    have h1 : (v.status == Status.bonded || v.status == Status.unbonding) = true := by
      rcases hst with e | e <;> simp [e]
    have h2 : isJailed s v.addr = false := by rw [isJailed_of_findVal s _ _ hf]; exact hj
    simp [h1, hal, hgr, h2]
  rw [hstep]
  rcases jail_unjailed s t v.addr vs hf hj with ⟨hp, he⟩ | ⟨_, he⟩
  · rw [he]; right; exact ⟨vs, hf, hp⟩
  · rw [he]; left
    rw [isJailed_jailed]
    simp [hf]

/-- state of the target before its own iteration has run -/
def pending (s1 s : St) (a : Addr) : Prop :=
  isJailed s a = false ∧ sameStores s1 s ∧ ∃ v, findVal s.vals a = some v

theorem sweep_reaches (h t : Int) (s1 : St) (v : Val)
    (hst : v.status = .bonded ∨ v.status = .unbonding)
    (hal : isAlive s1 v.addr h = false) (hgr : inGrace s1 v.addr h = false) :
    ∀ (l : List Val) (s : St),
      (jailedOrProtected s v.addr ∨ (v ∈ l ∧ pending s1 s v.addr)) →
      jailedOrProtected (l.foldl (sweepStep h t) s) v.addr := by
  intro l
  induction l with
  | nil =>
    intro s hs
    rcases hs with hs | ⟨hm, _⟩
    · exact hs
    · cases hm
  | cons w ws ih =>
    intro s hs
    simp only [List.foldl_cons]
    apply ih
    rcases hs with hs | ⟨hm, hj, hsame, vs, hvs⟩
    · exact Or.inl (jailedOrProtected_sweepStep h t s w _ hs)
    · by_cases hwv : w = v
      · subst hwv
        left
        have hal' : isAlive s w.addr h = false := by rw [isAlive_congr _ _ hsame.1]; exact hal
        have hgr' : inGrace s w.addr h = false := by rw [inGrace_congr _ _ hsame.2.1]; exact hgr
        have hjv : vs.jailed = false := by rw [← isJailed_of_findVal s _ _ hvs]; exact hj
        exact sweepStep_due h t s w vs hst hal' hgr' hvs hjv
      · have hm' : v ∈ ws := by
          rcases List.mem_cons.1 hm with e | e
          · exact absurd e.symm hwv
          · exact e
        rcases sweepStep_cases h t s w with h1 | ⟨vb, hf, hjb, hp, h1⟩
        · rw [h1]; exact Or.inr ⟨hm', hj, hsame, vs, hvs⟩
        · rw [h1]
          by_cases hwa : w.addr = v.addr
          · left; left
            rw [isJailed_jailed, ← hwa]
            simp [hf]
          · right
            have hne : v.addr ≠ w.addr := fun e => hwa e.symm
            refine ⟨hm', ?_, sameStores_trans hsame (sameStores_jailed s t _), vs, ?_⟩
            · rw [isJailed_jailed, hj]; simp [hne]
            · rw [findVal_jailed_other s t _ _ hne]; exact hvs

/-! ### grace periods -/

theorem graceFold_get (lookup : List Addr) (h : Int) (l : List Addr) (g : Map Int) (a : Addr) :
    (graceFold lookup h g l).get a
      = if a ∈ l ∧ lookup.contains a = false then some h else g.get a := by
  induction l generalizing g with
  | nil => simp [graceFold]
  | cons b bs ih =>
    simp only [graceFold, ih, List.mem_cons]
    cases hb : lookup.contains b <;> by_cases hab : a = b <;> by_cases hm : a ∈ bs <;>
      simp_all [Map.get_set]

theorem updateGrace_grace (s : St) (h : Int) (a : Addr) :
    (updateGrace s h).grace.get a
      = if a ∈ unjailedAddrs s ∧ (decodeSet (s.prev.getD [])).contains a = false then some h
        else s.grace.get a := by
  unfold updateGrace
  exact graceFold_get _ _ _ _ _

theorem endBlock_sameStores (s : St) (h t : Int) : sameStores (updateGrace s h) (endBlock s h t) := by
  unfold endBlock
  split
  · exact sameStores_foldl h t _ _
  · exact sameStores_refl _

theorem endBlock_grace (s : St) (h t : Int) : (endBlock s h t).grace = (updateGrace s h).grace :=
  (endBlock_sameStores s h t).2.1

theorem endBlock_alive (s : St) (h t : Int) : (endBlock s h t).alive = s.alive :=
  (endBlock_sameStores s h t).1

/-- the snapshot written by an end block is the encoding of the validators unjailed at that moment -/
theorem endBlock_prev (s : St) (h t : Int) :
    (endBlock s h t).prev = some (encodeSet (unjailedAddrs s)) :=
  (endBlock_sameStores s h t).2.2.1

theorem mem_unjailedAddrs_of_findVal (s : St) (v : Val) (hf : findVal s.vals v.addr = some v)
    (hj : v.jailed = false) : v.addr ∈ unjailedAddrs s := by
  unfold unjailedAddrs unjailedVals
  exact List.mem_map.2 ⟨v, List.mem_filter.2 ⟨findVal_mem _ _ _ hf, by simp [hj]⟩, rfl⟩

/-! ### sentences -/

theorem deriveSentence_mem (d : Int) : deriveSentence d ∈ jailSentences := by
  unfold deriveSentence jailSentences
  split
  · simp
  · split
    · simp
    · split
      · simp
      · split <;> simp

theorem nextSentence_mem (r : Option JailRec) (t : Int) : nextSentence r t ∈ jailSentences := by
  unfold nextSentence
  split <;> exact deriveSentence_mem _

/-! ### pigeon requirements -/

theorem setMinVersion_min (s : St) (v : Ver) :
    (setMinVersion s v).1.minVersion = s.minVersion ∨
    (vlt v s.minVersion = false ∧ (setMinVersion s v).1.minVersion = v) := by
  unfold setMinVersion
  cases h : vlt v s.minVersion with
  | true => left; simp
  | false => right; simp

theorem scheduleMinVersion_min (s : St) (v : Ver) (n : Nat) :
    (scheduleMinVersion s v n).1.minVersion = s.minVersion := by
  unfold scheduleMinVersion
  split <;> rfl

theorem jail_sameStores (s : St) (t : Int) (a : Addr) : sameStores s (jail s t a).1 := by
  rcases jail_cases s t a with h | ⟨_, _, _, _, h⟩
  · rw [h]; exact sameStores_refl s
  · rw [h]; exact sameStores_jailed s t a

theorem unjail_sameStores (s : St) (t : Int) (a : Addr) : sameStores s (unjail s t a).1 := by
  unfold unjail
  split
  · exact sameStores_refl s
  · split
    · exact sameStores_refl s
    · split
      · exact sameStores_refl s
      · exact ⟨rfl, rfl, rfl, rfl, rfl⟩

/-- every operation leaves the minimum version alone or replaces it by one that is not lower -/
theorem apply_minVersion (s : St) (op : Op) :
    (apply s op).minVersion = s.minVersion ∨
    (vlt (apply s op).minVersion s.minVersion = false) := by
  cases op with
  | addVal v => left; simp only [apply, addVal]; split <;> rfl
  | setStatus a st => left; simp only [apply, setStatus]; split <;> rfl
  | setPower a p => left; simp only [apply, setPower]; split <;> rfl
  | extJail a => left; simp only [apply, extJail]; split <;> rfl
  | extUnjail a => left; simp only [apply, extUnjail]; split <;> rfl
  | unjail t a => left; exact (unjail_sameStores s t a).2.2.2.1
  | jail t a => left; exact (jail_sameStores s t a).2.2.2.1
  | keepAlive h a ver =>
    left; simp only [apply, keepAlive]
    split
    · rfl
    · split <;> rfl
  | setMinVersion v =>
    simp only [apply]
    rcases setMinVersion_min s v with h | ⟨h1, h2⟩
    · exact Or.inl h
    · right; rw [h2]; exact h1
  | scheduleMinVersion v n => left; exact scheduleMinVersion_min s v n
  | proposal h v n =>
    simp only [apply, proposal]
    split
    · rcases setMinVersion_min s v with h | ⟨h1, h2⟩
      · exact Or.inl h
      · right; rw [h2]; exact h1
    · left; exact scheduleMinVersion_min s v n
  | beginBlock h =>
    simp only [apply, beginBlock]
    split
    · left; rfl
    · rename_i v n _
      split
      · rcases setMinVersion_min s v with h | ⟨h1, h2⟩
        · exact Or.inl h
        · right; rw [h2]; exact h1
      · left; rfl
  | endBlock h t =>
    left
    simp only [apply]
    exact (endBlock_sameStores s h t).2.2.2.1

/-! ### runs of blocks without transactions -/

/-- one block without transactions: `BeginBlock`, then `EndBlock` -/
def emptyBlock (s : St) (h t : Int) : St := endBlock (beginBlock s h) h t

/-- `n` consecutive blocks without transactions at heights `h, h+1, …, h+n-1`; block `k` has time `τ k` -/
def emptyBlocks (s : St) (h : Int) (τ : Int → Int) : Nat → St
  | 0 => s
  | n + 1 => emptyBlock (emptyBlocks s h τ n) (h + n) (τ (h + n))

theorem beginBlock_stores (s : St) (h : Int) :
    (beginBlock s h).vals = s.vals ∧ (beginBlock s h).alive = s.alive ∧
    (beginBlock s h).grace = s.grace ∧ (beginBlock s h).prev = s.prev := by
  unfold beginBlock
  split
  · exact ⟨rfl, rfl, rfl, rfl⟩
  · split
    · unfold setMinVersion
      split <;> exact ⟨rfl, rfl, rfl, rfl⟩
    · exact ⟨rfl, rfl, rfl, rfl⟩

theorem isJailed_congr_vals (s s' : St) (h : s'.vals = s.vals) (a : Addr) : isJailed s' a = isJailed s a := by
  unfold isJailed; rw [h]

/-- an end block never unjails, and leaves the staking entry of a validator it does not jail alone -/
theorem endBlock_entry (s : St) (h t : Int) (a : Addr) (v : Val) (hf : findVal s.vals a = some v) :
    (isJailed s a = true → isJailed (endBlock s h t) a = true) ∧
    (isJailed (endBlock s h t) a = true ∨ findVal (endBlock s h t).vals a = some v) := by
  have inv : ∀ (l : List Val) (s' : St),
      ((isJailed s a = true → isJailed s' a = true) ∧ (isJailed s' a = true ∨ findVal s'.vals a = some v)) →
      ((isJailed s a = true → isJailed (l.foldl (sweepStep h t) s') a = true) ∧
        (isJailed (l.foldl (sweepStep h t) s') a = true ∨ findVal (l.foldl (sweepStep h t) s').vals a = some v)) := by
    intro l
    induction l with
    | nil => intro s' hs; exact hs
    | cons w ws ih =>
      intro s' ⟨h1, h2⟩
      apply ih
      rcases sweepStep_cases h t s' w with e | ⟨vb, hfb, _, _, e⟩
      · rw [e]; exact ⟨h1, h2⟩
      · rw [e]
        refine ⟨fun hj => by rw [isJailed_jailed, h1 hj]; rfl, ?_⟩
        rcases h2 with h2 | h2
        · left; rw [isJailed_jailed, h2]; rfl
        · by_cases hab : a = w.addr
          · left; rw [isJailed_jailed, hab]; simp [hfb]
          · right; rw [findVal_jailed_other s' t a w.addr hab]; exact h2
  unfold endBlock
  split
  · exact inv _ (updateGrace s h) ⟨fun hj => hj, Or.inr hf⟩
  · exact ⟨fun hj => hj, Or.inr hf⟩


/-! ### codec round trip and the grace rule (restated as property theorems below) -/

/-- **codec_roundtrip.** Decoding the stored snapshot gives back exactly the list of addresses
that was encoded, for ALL byte strings (0x2c inside, all-0x2c, empty, prefixes of one another).
The only artefact: the empty list decodes to the set containing the empty address, as in Go
(`strings.Split("", ",")` is `[""]`); no validator has the empty address. -/
theorem codec_roundtrip_lem (l : List Addr) :
    decodeSet (encodeSet l) = if l = [] then [[]] else l := by
  unfold decodeSet encodeSet
  rw [cutPrefix_hexPrefix_append]
  simp only
  by_cases hl : l = []
  · subst hl; simp [joinBy, splitBy, hexDec]
  · simp only [hl, if_false]
    rw [splitBy_joinBy comma (l.map hexEnc) (by simpa using hl)]
    · exact filterMap_hexDec_map_hexEnc l
    · intro x hx
      obtain ⟨a, _, rfl⟩ := List.mem_map.1 hx
      exact comma_not_mem_hexEnc a

/-- **codec_roundtrip (membership form).** An address is found in the stored snapshot iff it was
stored — the lemma the raw `bytes.Join(…, ",")` format of the pinned tree fails. -/
theorem codec_mem_lem (l : List Addr) (a : Addr) :
    a ∈ decodeSet (encodeSet l) ↔ a ∈ l ∨ (l = [] ∧ a = []) := by
  rw [codec_roundtrip_lem]
  by_cases hl : l = []
  · subst hl; simp
  · simp [hl]

/-- **grace_only_when_new.** A validator listed in the snapshot of the previous block (i.e. unjailed
at the previous end block) does not get a new grace period, whatever bytes its address contains. -/
theorem grace_only_when_new_lem (s : St) (h t : Int) (l : List Addr) (a : Addr)
    (hprev : s.prev = some (encodeSet l)) (ha : a ∈ l) :
    (endBlock s h t).grace.get a = s.grace.get a := by
  rw [endBlock_grace, updateGrace_grace, hprev]
  have hl : l ≠ [] := fun e => by subst e; cases ha
  have : (decodeSet ((some (encodeSet l)).getD [])).contains a = true := by
    simp only [Option.getD_some]
    rw [codec_roundtrip_lem]; simp [hl, ha]
  rw [this]
  simp

/-! ### well-formed block histories -/

/-- the operation is the end of a block -/
def isEB : Op → Bool
  | .endBlock _ _ => true
  | _ => false

/-- operations that read the block height carry the height of the block they are in -/
def opHeightOK (cur : Int) : Op → Bool
  | .keepAlive h _ _ => h == cur
  | .proposal h _ _ => h == cur
  | .beginBlock h => h == cur
  | .endBlock h _ => h == cur
  | _ => true

def nextH (cur : Int) (op : Op) : Int := if isEB op then cur + 1 else cur

/-- `wf cur ops`: `ops` is a block history starting inside the block of height `cur`: every
height-reading operation carries the current height and every `endBlock` moves on to the next
height. Everything else (which transactions, how many, in which order, block times) is free. -/
def wf (cur : Int) : List Op → Bool
  | [] => true
  | op :: rest => opHeightOK cur op && wf (nextH cur op) rest

/-- the height of the block that is open after `ops` -/
def heightAfter (cur : Int) : List Op → Int
  | [] => cur
  | op :: rest => heightAfter (nextH cur op) rest

theorem heightAfter_append (cur : Int) (a b : List Op) :
    heightAfter cur (a ++ b) = heightAfter (heightAfter cur a) b := by
  induction a generalizing cur with
  | nil => rfl
  | cons op rest ih => simp only [List.cons_append, heightAfter, ih]

theorem wf_append (cur : Int) (a b : List Op) :
    wf cur (a ++ b) = (wf cur a && wf (heightAfter cur a) b) := by
  induction a generalizing cur with
  | nil => simp [wf, heightAfter]
  | cons op rest ih => simp only [List.cons_append, wf, heightAfter, ih, Bool.and_assoc]

theorem heightAfter_ge (cur : Int) (a : List Op) : cur ≤ heightAfter cur a := by
  induction a generalizing cur with
  | nil => exact Int.le_refl _
  | cons op rest ih =>
    have := ih (nextH cur op)
    have h2 : cur ≤ nextH cur op := by unfold nextH; split <;> omega
    simp only [heightAfter]
    omega

theorem wf_snoc (cur : Int) (ops : List Op) (op : Op) :
    wf cur (ops ++ [op]) = (wf cur ops && opHeightOK (heightAfter cur ops) op) := by
  rw [wf_append]; simp [wf]

theorem heightAfter_snoc (cur : Int) (ops : List Op) (op : Op) :
    heightAfter cur (ops ++ [op]) = nextH (heightAfter cur ops) op := by
  rw [heightAfter_append]; rfl

theorem run_snoc (s : St) (ops : List Op) (op : Op) : run s (ops ++ [op]) = apply (run s ops) op := by
  unfold run; rw [List.foldl_append]; rfl

theorem run_append (s : St) (a b : List Op) : run s (a ++ b) = run (run s a) b := by
  unfold run; rw [List.foldl_append]

/-! ### facts collected along a history -/

/-- `collect f s ops`: run `ops` from `s` and concatenate what `f` reports for every operation,
given the state in which that operation is executed (oldest first) -/
def collect {α : Type} (f : St → Op → List α) (s : St) : List Op → List α
  | [] => []
  | op :: rest => f s op ++ collect f (apply s op) rest

theorem collect_append {α : Type} (f : St → Op → List α) (s : St) (a b : List Op) :
    collect f s (a ++ b) = collect f s a ++ collect f (run s a) b := by
  induction a generalizing s with
  | nil => rfl
  | cons op rest ih =>
    simp only [List.cons_append, collect, ih, List.append_assoc]
    rfl

theorem collect_snoc {α : Type} (f : St → Op → List α) (s : St) (ops : List Op) (op : Op) :
    collect f s (ops ++ [op]) = collect f s ops ++ f (run s ops) op := by
  rw [collect_append]; simp [collect]

/-- what `collect` means without any auxiliary function: `x` was reported for an operation of the
history, in the state reached by the operations before it -/
theorem mem_collect_iff {α : Type} (f : St → Op → List α) (s : St) (ops : List Op) (x : α) :
    x ∈ collect f s ops ↔ ∃ pre op post, ops = pre ++ op :: post ∧ x ∈ f (run s pre) op := by
  induction ops generalizing s with
  | nil => simp [collect]
  | cons o rest ih =>
    simp only [collect, List.mem_append, ih]
    constructor
    · rintro (h | ⟨pre, op, post, e, hx⟩)
      · exact ⟨[], o, rest, rfl, h⟩
      · exact ⟨o :: pre, op, post, by rw [e]; rfl, hx⟩
    · rintro ⟨pre, op, post, e, hx⟩
      cases pre with
      | nil =>
        simp only [List.nil_append, List.cons.injEq] at e
        obtain ⟨rfl, rfl⟩ := e
        exact Or.inl hx
      | cons p pre' =>
        simp only [List.cons_append, List.cons.injEq] at e
        obtain ⟨rfl, rfl⟩ := e
        exact Or.inr ⟨pre', op, post, rfl, hx⟩

/-- heights of the ACCEPTED keep-alives for `a` -/
def kaOf (a : Addr) (s : St) : Op → List Int
  | .keepAlive h b ver => if b = a ∧ (keepAlive s h b ver).2 = .ok then [h] else []
  | _ => []

/-- the end blocks: height, block time and the state in which the end block ran -/
def ebOf (s : St) : Op → List (Int × Int × St)
  | .endBlock h t => [(h, t, s)]
  | _ => []

/-- block times at which the valset `Jail` went through for `a`: called directly (`Op.jail`, other
modules) or from the sweep of an end block (the jailed flag of `a` turns from false to true) -/
def jailOf (a : Addr) (s : St) : Op → List Int
  | .jail t b => if b = a ∧ (jail s t b).2 = .ok then [t] else []
  | .endBlock h t => if isJailed s a = false ∧ isJailed (endBlock s h t) a = true then [t] else []
  | _ => []

/-- heights of the accepted keep-alives for `a` in the history `ops` (from the initial state) -/
def acceptedKA (a : Addr) (ops : List Op) : List Int := collect (kaOf a) St.init ops
/-- the end blocks of the history `ops` (from the initial state) -/
def endBlocks (ops : List Op) : List (Int × Int × St) := collect ebOf St.init ops
/-- the times of the successful valset jailings of `a` in `ops` run from `s` -/
def jailTimes (a : Addr) (s : St) (ops : List Op) : List Int := collect (jailOf a) s ops


/-! ### frame lemmas -/

theorem apply_alive_of_not_ka (s : St) (op : Op) (hne : ∀ h b v, op ≠ .keepAlive h b v) :
    (apply s op).alive = s.alive := by
  cases op with
  | addVal v => simp only [apply, addVal]; split <;> rfl
  | setStatus a st => simp only [apply, setStatus]; split <;> rfl
  | setPower a p => simp only [apply, setPower]; split <;> rfl
  | extJail a => simp only [apply, extJail]; split <;> rfl
  | extUnjail a => simp only [apply, extUnjail]; split <;> rfl
  | unjail t a => exact (unjail_sameStores s t a).1
  | jail t a => exact (jail_sameStores s t a).1
  | keepAlive h a ver => exact absurd rfl (hne h a ver)
  | setMinVersion v => simp only [apply, setMinVersion]; split <;> rfl
  | scheduleMinVersion v n => simp only [apply, scheduleMinVersion]; split <;> rfl
  | proposal h v n =>
    simp only [apply, proposal, setMinVersion, scheduleMinVersion]
    split <;> split <;> rfl
  | beginBlock h => exact (beginBlock_stores s h).2.1
  | endBlock h t => exact endBlock_alive s h t

theorem kaOf_of_not_ka (a : Addr) (s : St) (op : Op) (hne : ∀ h b v, op ≠ .keepAlive h b v) :
    kaOf a s op = [] := by
  cases op <;> first | rfl | exact absurd rfl (hne _ _ _)

theorem apply_of_not_eb (s : St) (op : Op) (hne : isEB op = false) :
    (apply s op).grace = s.grace ∧ (apply s op).prev = s.prev := by
  cases op with
  | addVal v => simp only [apply, addVal]; split <;> exact ⟨rfl, rfl⟩
  | setStatus a st => simp only [apply, setStatus]; split <;> exact ⟨rfl, rfl⟩
  | setPower a p => simp only [apply, setPower]; split <;> exact ⟨rfl, rfl⟩
  | extJail a => simp only [apply, extJail]; split <;> exact ⟨rfl, rfl⟩
  | extUnjail a => simp only [apply, extUnjail]; split <;> exact ⟨rfl, rfl⟩
  | unjail t a => exact ⟨(unjail_sameStores s t a).2.1, (unjail_sameStores s t a).2.2.1⟩
  | jail t a => exact ⟨(jail_sameStores s t a).2.1, (jail_sameStores s t a).2.2.1⟩
  | keepAlive h a ver =>
    simp only [apply, keepAlive]
    split
    · exact ⟨rfl, rfl⟩
    · split <;> exact ⟨rfl, rfl⟩
  | setMinVersion v => simp only [apply, setMinVersion]; split <;> exact ⟨rfl, rfl⟩
  | scheduleMinVersion v n => simp only [apply, scheduleMinVersion]; split <;> exact ⟨rfl, rfl⟩
  | proposal h v n =>
    simp only [apply, proposal, setMinVersion, scheduleMinVersion]
    split <;> split <;> exact ⟨rfl, rfl⟩
  | beginBlock h => exact ⟨(beginBlock_stores s h).2.2.1, (beginBlock_stores s h).2.2.2⟩
  | endBlock x y => simp [isEB] at hne

theorem ebOf_of_not_eb (s : St) (op : Op) (hne : isEB op = false) : ebOf s op = [] := by
  cases op <;> first | rfl | simp [isEB] at hne

theorem nextH_of_not_eb (cur : Int) (op : Op) (hne : isEB op = false) : nextH cur op = cur := by
  simp [nextH, hne]

theorem nextH_ge (cur : Int) (op : Op) : cur ≤ nextH cur op := by
  unfold nextH; split <;> omega

/-- induction over a history from its end -/
theorem snoc_induction {P : List Op → Prop} (h0 : P [])
    (hs : ∀ ops op, P ops → P (ops ++ [op])) : ∀ ops, P ops := by
  have : ∀ r : List Op, P r.reverse := by
    intro r
    induction r with
    | nil => exact h0
    | cons op r ih => rw [List.reverse_cons]; exact hs _ _ ih
  intro ops
  have := this ops.reverse
  rwa [List.reverse_reverse] at this

/-! ### provenance of the keep-alive store -/

/-- the keep-alive record of `a` after a well-formed history, in terms of the history alone -/
structure AliveInv (h0 : Int) (a : Addr) (ops : List Op) : Prop where
  ka_le : ∀ hk ∈ acceptedKA a ops, hk ≤ heightAfter h0 ops
  prov : ∀ u, (run St.init ops).alive.get a = some u → ∃ hk ∈ acceptedKA a ops, u = hk + keepAliveTTL
  latest : ∀ hk ∈ acceptedKA a ops, ∃ u, (run St.init ops).alive.get a = some u ∧ hk + keepAliveTTL ≤ u

theorem aliveInv (h0 : Int) (a : Addr) : ∀ ops, wf h0 ops = true → AliveInv h0 a ops := by
  apply snoc_induction
  · intro _
    exact ⟨(by intro hk h; cases h), (by intro u h; cases h), (by intro hk h; cases h)⟩
  · intro ops op ih hw
    rw [wf_snoc, Bool.and_eq_true] at hw
    obtain ⟨hw1, hok⟩ := hw
    obtain ⟨i1, i2, i3⟩ := ih hw1
    have hcur := nextH_ge (heightAfter h0 ops) op
    by_cases hka : ∃ h b v, op = .keepAlive h b v
    · obtain ⟨h, b, v, rfl⟩ := hka
      have hh : h = heightAfter h0 ops := by simpa [opHeightOK] using hok
      by_cases hacc : b = a ∧ (keepAlive (run St.init ops) h b v).2 = .ok
      · obtain ⟨rfl, hacc⟩ := hacc
        have hal : (run St.init (ops ++ [.keepAlive h b v])).alive.get b = some (h + keepAliveTTL) := by
          rw [run_snoc]
          simp only [apply]
          unfold keepAlive at hacc ⊢
          split
          · rename_i h1; simp [h1] at hacc
          · split
            · rename_i h1 h2; simp [h1, h2] at hacc
            · simp [Map.get_set]
        have hk' : acceptedKA b (ops ++ [.keepAlive h b v]) = acceptedKA b ops ++ [h] := by
          unfold acceptedKA; rw [collect_snoc]; simp [kaOf, hacc]
        refine ⟨?_, ?_, ?_⟩
        · intro hk hm
          rw [hk'] at hm
          rw [heightAfter_snoc]
          rcases List.mem_append.1 hm with hm | hm
          · have := i1 hk hm; omega
          · simp at hm; omega
        · intro u hu
          rw [hal] at hu
          exact ⟨h, by rw [hk']; simp, by cases hu; rfl⟩
        · intro hk hm
          rw [hk'] at hm
          refine ⟨_, hal, ?_⟩
          rcases List.mem_append.1 hm with hm | hm
          · have := i1 hk hm; omega
          · simp at hm; omega
      · have hal : (run St.init (ops ++ [.keepAlive h b v])).alive.get a = (run St.init ops).alive.get a := by
          rw [run_snoc]
          simp only [apply]
          unfold keepAlive
          split
          · rfl
          · split
            · rfl
            · rename_i h1 h2
              have hba : ¬ b = a := by
                intro e
                apply hacc
                refine ⟨e, ?_⟩
                unfold keepAlive
                simp [h1, h2]
              have : a ≠ b := fun e => hba e.symm
              simp [Map.get_set, this]
        have hk' : acceptedKA a (ops ++ [.keepAlive h b v]) = acceptedKA a ops := by
          unfold acceptedKA; rw [collect_snoc]; simp [kaOf, hacc]
        refine ⟨?_, ?_, ?_⟩
        · intro hk hm
          rw [hk'] at hm
          rw [heightAfter_snoc]
          have := i1 hk hm; omega
        · intro u hu
          rw [hal] at hu; rw [hk']; exact i2 u hu
        · intro hk hm
          rw [hk'] at hm; rw [hal]; exact i3 hk hm
    · have hne : ∀ h b v, op ≠ .keepAlive h b v := fun h b v e => hka ⟨h, b, v, e⟩
      have hal : (run St.init (ops ++ [op])).alive = (run St.init ops).alive := by
        rw [run_snoc]; exact apply_alive_of_not_ka _ _ hne
      have hk' : acceptedKA a (ops ++ [op]) = acceptedKA a ops := by
        unfold acceptedKA; rw [collect_snoc, kaOf_of_not_ka a _ op hne]; simp
      refine ⟨?_, ?_, ?_⟩
      · intro hk hm
        rw [hk'] at hm
        rw [heightAfter_snoc]
        have := i1 hk hm; omega
      · intro u hu
        rw [hal] at hu; rw [hk']; exact i2 u hu
      · intro hk hm
        rw [hk'] at hm; rw [hal]; exact i3 hk hm

/-! ### provenance of the snapshot and grace stores -/

structure GraceInv (h0 : Int) (a : Addr) (ops : List Op) : Prop where
  eb_range : ∀ e ∈ endBlocks ops, h0 ≤ e.1 ∧ e.1 < heightAfter h0 ops
  eb_exists : ∀ g, h0 ≤ g → g < heightAfter h0 ops → ∃ e ∈ endBlocks ops, e.1 = g
  prev_none : heightAfter h0 ops = h0 → (run St.init ops).prev = none
  prev_prov : ∀ e ∈ endBlocks ops, e.1 + 1 = heightAfter h0 ops →
    (run St.init ops).prev = some (encodeSet (unjailedAddrs e.2.2))
  grace_prov : ∀ g, (run St.init ops).grace.get a = some g →
    (∃ e ∈ endBlocks ops, e.1 = g ∧ a ∈ unjailedAddrs e.2.2) ∧
    (∀ e ∈ endBlocks ops, e.1 + 1 = g → a ∉ unjailedAddrs e.2.2)
  grace_lb : a ≠ [] → ∀ e ∈ endBlocks ops, a ∈ unjailedAddrs e.2.2 →
    (∀ e' ∈ endBlocks ops, e'.1 + 1 = e.1 → a ∉ unjailedAddrs e'.2.2) →
    ∃ g, e.1 ≤ g ∧ (run St.init ops).grace.get a = some g

theorem decodeSet_nil : decodeSet [] = [[]] := by decide

theorem graceInv (h0 : Int) (a : Addr) : ∀ ops, wf h0 ops = true → GraceInv h0 a ops := by
  apply snoc_induction
  · intro _
    refine ⟨(by intro e h; cases h), ?_, fun _ => rfl, (by intro e h; cases h), (by intro g h; cases h),
      (by intro _ e h; cases h)⟩
    intro g h1 h2
    simp only [heightAfter] at h2
    omega
  · intro ops op ih hw
    rw [wf_snoc, Bool.and_eq_true] at hw
    obtain ⟨hw1, hok⟩ := hw
    obtain ⟨i1, i2, i3, i4, i5, i6⟩ := ih hw1
    cases heb : isEB op with
    | false =>
      obtain ⟨hg, hp⟩ := apply_of_not_eb (run St.init ops) op heb
      have he : endBlocks (ops ++ [op]) = endBlocks ops := by
        unfold endBlocks; rw [collect_snoc, ebOf_of_not_eb _ op heb]; simp
      have hh : heightAfter h0 (ops ++ [op]) = heightAfter h0 ops := by
        rw [heightAfter_snoc, nextH_of_not_eb _ op heb]
      have hrun := run_snoc St.init ops op
      refine ⟨?_, ?_, ?_, ?_, ?_, ?_⟩
      · rw [he, hh]; exact i1
      · rw [he, hh]; exact i2
      · rw [hh, hrun, hp]; exact i3
      · rw [he, hh, hrun, hp]; exact i4
      · rw [he, hrun, hg]; exact i5
      · rw [he, hrun, hg]; exact i6
    | true =>
      cases op with
      | endBlock h t =>
        have hh : h = heightAfter h0 ops := by simpa [opHeightOK] using hok
        subst hh
        have he : endBlocks (ops ++ [.endBlock (heightAfter h0 ops) t])
            = endBlocks ops ++ [(heightAfter h0 ops, t, run St.init ops)] := by
          unfold endBlocks; rw [collect_snoc]; rfl
        have hcur : heightAfter h0 (ops ++ [.endBlock (heightAfter h0 ops) t]) = heightAfter h0 ops + 1 := by
          rw [heightAfter_snoc]; simp [nextH, isEB]
        have hge := heightAfter_ge h0 ops
        have hrun : run St.init (ops ++ [.endBlock (heightAfter h0 ops) t])
            = endBlock (run St.init ops) (heightAfter h0 ops) t := by rw [run_snoc]; rfl
        refine ⟨?_, ?_, ?_, ?_, ?_, ?_⟩
        · intro e hm
          rw [he] at hm
          rw [hcur]
          rcases List.mem_append.1 hm with hm | hm
          · have := i1 e hm; omega
          · simp at hm; subst hm; simp; omega
        · intro g hg1 hg2
          rw [hcur] at hg2
          rw [he]
          by_cases hg : g < heightAfter h0 ops
          · obtain ⟨e, hm, hx⟩ := i2 g hg1 hg
            exact ⟨e, List.mem_append.2 (Or.inl hm), hx⟩
          · exact ⟨_, List.mem_append.2 (Or.inr (List.mem_singleton.2 rfl)), by simp; omega⟩
        · intro hx; rw [hcur] at hx; omega
        · intro e hm hx
          rw [he] at hm
          rw [hcur] at hx
          rw [hrun, endBlock_prev]
          rcases List.mem_append.1 hm with hm | hm
          · have := i1 e hm; omega
          · simp at hm; subst hm; rfl
        · intro g hg
          rw [hrun, endBlock_grace, updateGrace_grace] at hg
          rw [he]
          split at hg
          · rename_i hnew
            cases hg
            refine ⟨⟨_, List.mem_append.2 (Or.inr (List.mem_singleton.2 rfl)), rfl, hnew.1⟩, ?_⟩
            intro e hm hx
            rcases List.mem_append.1 hm with hm | hm
            · have hp := i4 e hm hx
              rw [hp] at hnew
              intro hin
              have : a ∈ decodeSet (encodeSet (unjailedAddrs e.2.2)) := (codec_mem_lem _ _).2 (Or.inl hin)
              have hc := hnew.2
              simp only [Option.getD_some] at hc
              rw [List.contains_eq_mem] at hc
              simp [this] at hc
            · simp at hm; subst hm; simp at hx; omega
          · obtain ⟨⟨e, hm, hx, hin⟩, hno⟩ := i5 g hg
            refine ⟨⟨e, List.mem_append.2 (Or.inl hm), hx, hin⟩, ?_⟩
            intro e' hm' hx'
            rcases List.mem_append.1 hm' with hm' | hm'
            · exact hno e' hm' hx'
            · simp at hm'; subst hm'
              have := i1 e hm
              simp at hx'; omega
        · intro hne e hm hin hno
          rw [hrun, endBlock_grace, updateGrace_grace]
          rw [he] at hm hno
          rcases List.mem_append.1 hm with hm | hm
          · obtain ⟨g, hg1, hg2⟩ := i6 hne e hm hin
              (fun e' hm' hx' => hno e' (List.mem_append.2 (Or.inl hm')) hx')
            have := i1 e hm
            split
            · exact ⟨_, by omega, rfl⟩
            · exact ⟨g, hg1, hg2⟩
          · simp at hm; subst hm
            simp only at hin hno ⊢
            have hnew : (decodeSet ((run St.init ops).prev.getD [])).contains a = false := by
              by_cases hfirst : heightAfter h0 ops = h0
              · rw [i3 hfirst]
                simp only [Option.getD_none, decodeSet_nil]
                simp [hne]
              · obtain ⟨e', hm', hx'⟩ := i2 (heightAfter h0 ops - 1) (by omega) (by omega)
                rw [i4 e' hm' (by omega)]
                simp only [Option.getD_some]
                have hn := hno e' (List.mem_append.2 (Or.inl hm')) (by omega)
                cases hc : (decodeSet (encodeSet (unjailedAddrs e'.2.2))).contains a with
                | false => rfl
                | true =>
                  rw [List.contains_eq_mem] at hc
                  have := (codec_mem_lem _ _).1 (of_decide_eq_true hc)
                  rcases this with h1 | ⟨_, h1⟩
                  · exact absurd h1 hn
                  · exact absurd h1 hne
            rw [if_pos ⟨hin, hnew⟩]
            exact ⟨_, Int.le_refl _, rfl⟩
      | _ => simp [isEB] at heb


/-! ### one staking entry per address -/

def addrsOf (l : List Val) : List Addr := l.map (·.addr)

theorem addrsOf_updVal (l : List Val) (a : Addr) (f : Val → Val) (hf : ∀ v, (f v).addr = v.addr) :
    addrsOf (updVal l a f) = addrsOf l := by
  unfold addrsOf updVal
  rw [List.map_map]
  apply List.map_congr_left
  intro v _
  simp only [Function.comp]
  split <;> simp [hf]

theorem addrsOf_setJailed (l : List Val) (a : Addr) (j : Bool) : addrsOf (setJailed l a j) = addrsOf l :=
  addrsOf_updVal l a _ (fun _ => rfl)

theorem findVal_none_iff (l : List Val) (a : Addr) : findVal l a = none ↔ a ∉ addrsOf l := by
  unfold findVal addrsOf
  rw [List.find?_eq_none]
  simp only [List.mem_map, not_exists, not_and, beq_iff_eq]

theorem mem_insertVal (v w : Val) (l : List Val) : w ∈ insertVal v l ↔ w = v ∨ w ∈ l := by
  induction l with
  | nil => simp [insertVal]
  | cons x xs ih =>
    unfold insertVal
    split
    · simp
    · simp only [List.mem_cons, ih]
      constructor
      · rintro (h | h | h)
        · exact Or.inr (Or.inl h)
        · exact Or.inl h
        · exact Or.inr (Or.inr h)
      · rintro (h | h | h)
        · exact Or.inr (Or.inl h)
        · exact Or.inl h
        · exact Or.inr (Or.inr h)

theorem nodup_insertVal (v : Val) (l : List Val) (hn : v.addr ∉ addrsOf l) (hd : (addrsOf l).Nodup) :
    (addrsOf (insertVal v l)).Nodup := by
  induction l with
  | nil => simp [insertVal, addrsOf]
  | cons x xs ih =>
    unfold addrsOf at *
    simp only [List.map_cons, List.mem_cons, not_or, List.nodup_cons] at hn hd
    unfold insertVal
    split
    · simp only [List.map_cons, List.nodup_cons, List.mem_cons, not_or]
      exact ⟨⟨hn.1, hn.2⟩, hd.1, hd.2⟩
    · simp only [List.map_cons, List.nodup_cons]
      refine ⟨?_, ih hn.2 hd.2⟩
      intro hm
      obtain ⟨w, hw, he⟩ := List.mem_map.1 hm
      rcases (mem_insertVal v w xs).1 hw with h | h
      · subst h; exact hn.1 he
      · exact hd.1 (he ▸ List.mem_map.2 ⟨w, h, rfl⟩)

theorem addrsOf_jailed (s : St) (t : Int) (b : Addr) : addrsOf (jailed s t b).vals = addrsOf s.vals :=
  addrsOf_setJailed _ _ _

theorem addrsOf_jail (s : St) (t : Int) (b : Addr) : addrsOf (jail s t b).1.vals = addrsOf s.vals := by
  rcases jail_cases s t b with h | ⟨_, _, _, _, h⟩
  · rw [h]
  · rw [h]; exact addrsOf_jailed s t b

theorem addrsOf_sweepStep (h t : Int) (s : St) (w : Val) :
    addrsOf (sweepStep h t s w).vals = addrsOf s.vals := by
  rcases sweepStep_cases h t s w with h1 | ⟨_, _, _, _, h1⟩
  · rw [h1]
  · rw [h1]; exact addrsOf_jailed s t _

theorem addrsOf_foldl (h t : Int) (l : List Val) (s : St) :
    addrsOf (l.foldl (sweepStep h t) s).vals = addrsOf s.vals := by
  induction l generalizing s with
  | nil => rfl
  | cons w ws ih => simp only [List.foldl_cons]; rw [ih, addrsOf_sweepStep]

theorem addrsOf_endBlock (s : St) (h t : Int) : addrsOf (endBlock s h t).vals = addrsOf s.vals := by
  unfold endBlock
  split
  · unfold sweep; rw [addrsOf_foldl]; rfl
  · rfl

theorem apply_nodup (s : St) (op : Op) (hd : (addrsOf s.vals).Nodup) : (addrsOf (apply s op).vals).Nodup := by
  cases op with
  | addVal v =>
    simp only [apply, addVal]
    split
    · exact hd
    · rename_i hf
      have : findVal s.vals v.addr = none := by simpa using hf
      exact nodup_insertVal v s.vals ((findVal_none_iff _ _).1 this) hd
  | setStatus a st =>
    simp only [apply, setStatus]; split
    · exact hd
    · show (addrsOf (updVal s.vals a (fun v => { v with status := st }))).Nodup
      rw [addrsOf_updVal s.vals a (fun v => { v with status := st }) (fun _ => rfl)]; exact hd
  | setPower a p =>
    simp only [apply, setPower]; split
    · exact hd
    · show (addrsOf (updVal s.vals a (fun v => { v with power := p }))).Nodup
      rw [addrsOf_updVal s.vals a (fun v => { v with power := p }) (fun _ => rfl)]; exact hd
  | extJail a =>
    simp only [apply, extJail]; split
    · exact hd
    · show (addrsOf (setJailed _ _ _)).Nodup; rw [addrsOf_setJailed]; exact hd
  | extUnjail a =>
    simp only [apply, extUnjail]; split
    · exact hd
    · show (addrsOf (setJailed _ _ _)).Nodup; rw [addrsOf_setJailed]; exact hd
  | unjail t a =>
    simp only [apply, unjail]
    split
    · exact hd
    · split
      · exact hd
      · split
        · exact hd
        · show (addrsOf (setJailed _ _ _)).Nodup; rw [addrsOf_setJailed]; exact hd
  | jail t a => simp only [apply]; rw [addrsOf_jail]; exact hd
  | keepAlive h a ver =>
    simp only [apply, keepAlive]
    split
    · exact hd
    · split <;> exact hd
  | setMinVersion v => simp only [apply, setMinVersion]; split <;> exact hd
  | scheduleMinVersion v n => simp only [apply, scheduleMinVersion]; split <;> exact hd
  | proposal h v n =>
    simp only [apply, proposal, setMinVersion, scheduleMinVersion]
    split <;> split <;> exact hd
  | beginBlock h => simp only [apply]; rw [(beginBlock_stores s h).1]; exact hd
  | endBlock h t => simp only [apply]; rw [addrsOf_endBlock]; exact hd

theorem run_nodup (s : St) (ops : List Op) (hd : (addrsOf s.vals).Nodup) :
    (addrsOf (run s ops).vals).Nodup := by
  induction ops generalizing s with
  | nil => exact hd
  | cons op rest ih => exact ih (apply s op) (apply_nodup s op hd)

theorem findVal_of_mem_nodup (l : List Val) (v : Val) (hd : (addrsOf l).Nodup) (hm : v ∈ l) :
    findVal l v.addr = some v := by
  induction l with
  | nil => cases hm
  | cons x xs ih =>
    unfold addrsOf at hd ih
    simp only [List.map_cons, List.nodup_cons] at hd
    unfold findVal
    rcases List.mem_cons.1 hm with e | e
    · subst e; simp
    · have hne : x.addr ≠ v.addr := fun he => hd.1 (he ▸ List.mem_map.2 ⟨v, e, rfl⟩)
      have hb : (x.addr == v.addr) = false := by simp [hne]
      simp only [List.find?_cons, hb]
      have := ih hd.2 e
      unfold findVal at this
      exact this

/-! ### the sweep, entry by entry -/

/-- the state in which the sweep of the end block of height `h` reaches the entry that follows the
entries `l1` of the list of unjailed validators -/
def sweepAt (s : St) (h t : Int) (l1 : List Val) : St := l1.foldl (sweepStep h t) (updateGrace s h)

theorem sweepStep_other (h t : Int) (s : St) (w : Val) (a : Addr) (hne : w.addr ≠ a) :
    isJailed (sweepStep h t s w) a = isJailed s a ∧
    findVal (sweepStep h t s w).vals a = findVal s.vals a := by
  rcases sweepStep_cases h t s w with h1 | ⟨_, _, _, _, h1⟩
  · rw [h1]; exact ⟨rfl, rfl⟩
  · rw [h1]
    have hne' : a ≠ w.addr := fun e => hne e.symm
    refine ⟨?_, findVal_jailed_other s t a w.addr hne'⟩
    rw [isJailed_jailed]; simp [hne']

theorem foldl_other (h t : Int) (l : List Val) (s : St) (a : Addr) (hne : ∀ w ∈ l, w.addr ≠ a) :
    isJailed (l.foldl (sweepStep h t) s) a = isJailed s a ∧
    findVal (l.foldl (sweepStep h t) s).vals a = findVal s.vals a := by
  induction l generalizing s with
  | nil => exact ⟨rfl, rfl⟩
  | cons w ws ih =>
    simp only [List.foldl_cons]
    obtain ⟨h1, h2⟩ := ih (sweepStep h t s w) (fun x hx => hne x (List.mem_cons_of_mem _ hx))
    obtain ⟨h3, h4⟩ := sweepStep_other h t s w a (hne w (by simp))
    exact ⟨h1.trans h3, h2.trans h4⟩

/-- the iteration on a due entry: `Jail` is called, and it goes through iff the validator is not
shielded in the state reached so far -/
theorem sweepStep_due_exact (h t : Int) (s : St) (v : Val)
    (hst : v.status = .bonded ∨ v.status = .unbonding)
    (hal : isAlive s v.addr h = false) (hgr : inGrace s v.addr h = false)
    (hf : findVal s.vals v.addr = some v) (hj : v.jailed = false) :
    isJailed (sweepStep h t s v) v.addr = !protectedIn s.vals (consPower v) := by
  have hstep : sweepStep h t s v = (jail s t v.addr).1 := by
    unfold sweepStep
    have h1 : (v.status == Status.bonded || v.status == Status.unbonding) = true := by
      rcases hst with e | e <;> simp [e]
    have h2 : isJailed s v.addr = false := by rw [isJailed_of_findVal s _ _ hf]; exact hj
    simp [h1, hal, hgr, h2]
  rw [hstep]
  rcases jail_unjailed s t v.addr v hf hj with ⟨hp, he⟩ | ⟨hp, he⟩
  · rw [he, hp, isJailed_of_findVal s _ _ hf, hj]; rfl
  · rw [he, hp, isJailed_jailed]; simp [hf]

theorem isJailed_foldl_mono (h t : Int) (l : List Val) (s : St) (a : Addr) (hj : isJailed s a = true) :
    isJailed (l.foldl (sweepStep h t) s) a = true := by
  induction l generalizing s with
  | nil => exact hj
  | cons w ws ih =>
    simp only [List.foldl_cons]
    apply ih
    rcases sweepStep_cases h t s w with h1 | ⟨_, _, _, _, h1⟩
    · rw [h1]; exact hj
    · rw [h1, isJailed_jailed, hj]; rfl

/-- **exact outcome of a sweep for a due validator.** With one staking entry per address: the
sweep jails a due validator iff, in the state the sweep has reached when it is that validator's
turn (after the jailings of the entries before it), it is not shielded by `Jail`'s rules. -/
theorem sweep_exact (s : St) (h t : Int) (l1 l2 : List Val) (v : Val)
    (hd : (addrsOf s.vals).Nodup) (hsplit : unjailedVals s = l1 ++ v :: l2)
    (hst : v.status = .bonded ∨ v.status = .unbonding)
    (hal : isAlive s v.addr h = false) (hgr : inGrace (updateGrace s h) v.addr h = false) :
    findVal (sweepAt s h t l1).vals v.addr = some v ∧
    isJailed (sweep (updateGrace s h) h t) v.addr = !protectedIn (sweepAt s h t l1).vals (consPower v) := by
  have hmem : v ∈ unjailedVals s := by rw [hsplit]; simp
  have hv : v ∈ s.vals ∧ v.jailed = false := by
    unfold unjailedVals at hmem
    have := List.mem_filter.1 hmem
    exact ⟨this.1, by simpa using this.2⟩
  have hfv : findVal s.vals v.addr = some v := findVal_of_mem_nodup _ _ hd hv.1
  have hdu : (addrsOf (unjailedVals s)).Nodup :=
    List.Nodup.sublist (List.Sublist.map _ List.filter_sublist) hd
  rw [hsplit] at hdu
  unfold addrsOf at hdu
  simp only [List.map_append, List.map_cons] at hdu
  obtain ⟨_, hd2, hd3⟩ := List.nodup_append.1 hdu
  have hne1 : ∀ w ∈ l1, w.addr ≠ v.addr := fun w hw =>
    hd3 _ (List.mem_map.2 ⟨w, hw, rfl⟩) _ (by simp)
  have hne2 : ∀ w ∈ l2, w.addr ≠ v.addr := fun w hw e =>
    (List.nodup_cons.1 hd2).1 (e ▸ List.mem_map.2 ⟨w, hw, rfl⟩)
  obtain ⟨m1, m2⟩ := foldl_other h t l1 (updateGrace s h) v.addr hne1
  have hfm : findVal (sweepAt s h t l1).vals v.addr = some v := by
    unfold sweepAt; rw [m2]; exact hfv
  refine ⟨hfm, ?_⟩
  have hsame := sameStores_foldl h t l1 (updateGrace s h)
  have hal' : isAlive (sweepAt s h t l1) v.addr h = false := by
    unfold sweepAt; rw [isAlive_congr _ _ hsame.1]; exact hal
  have hgr' : inGrace (sweepAt s h t l1) v.addr h = false := by
    unfold sweepAt; rw [inGrace_congr _ _ hsame.2.1]; exact hgr
  have hstep := sweepStep_due_exact h t (sweepAt s h t l1) v hst hal' hgr' hfm hv.2
  have hsweep : sweep (updateGrace s h) h t
      = l2.foldl (sweepStep h t) (sweepStep h t (sweepAt s h t l1) v) := by
    unfold sweep sweepAt
    have : unjailedVals (updateGrace s h) = l1 ++ v :: l2 := hsplit
    rw [this, List.foldl_append, List.foldl_cons]
  rw [hsweep, (foldl_other h t l2 _ v.addr hne2).1, hstep]

/-- protection only grows along a sweep: the active power never increases, and once a single active
validator is left nothing more is jailed -/
theorem protected_mono_foldl (h t : Int) (l : List Val) (s : St) (p : Nat)
    (hp : protectedIn s.vals p = true) : protectedIn (l.foldl (sweepStep h t) s).vals p = true := by
  induction l generalizing s with
  | nil => exact hp
  | cons w ws ih =>
    simp only [List.foldl_cons]
    apply ih
    rcases sweepStep_cases h t s w with h1 | ⟨vb, _, _, hpb, h1⟩
    · rw [h1]; exact hp
    · rw [h1]
      rcases (protectedIn_iff _ _).1 hp with h2 | h2
      · have : protectedIn s.vals (consPower vb) = true := (protectedIn_iff _ _).2 (Or.inl h2)
        rw [hpb] at this; cases this
      · have := activeTotal_jailed_le s t w.addr
        exact (protectedIn_iff _ _).2 (Or.inr (by omega))

/-! ### what an end block does to the jail record of one validator -/

theorem endBlock_jail_effect (s : St) (h t : Int) (a : Addr) :
    (isJailed (endBlock s h t) a = isJailed s a ∧ (endBlock s h t).jailLog.get a = s.jailLog.get a ∧
      (endBlock s h t).jailedUntil.get a = s.jailedUntil.get a) ∨
    (isJailed s a = false ∧ isJailed (endBlock s h t) a = true ∧
      (endBlock s h t).jailLog.get a
        = some { duration := nextSentence (s.jailLog.get a) t, jailedAt := t } ∧
      (endBlock s h t).jailedUntil.get a = some (t + nextSentence (s.jailLog.get a) t)) := by
  have inv : ∀ (l : List Val) (s' : St),
      ((isJailed s' a = isJailed s a ∧ s'.jailLog.get a = s.jailLog.get a ∧
          s'.jailedUntil.get a = s.jailedUntil.get a) ∨
        (isJailed s a = false ∧ isJailed s' a = true ∧
          s'.jailLog.get a = some { duration := nextSentence (s.jailLog.get a) t, jailedAt := t } ∧
          s'.jailedUntil.get a = some (t + nextSentence (s.jailLog.get a) t))) →
      ((isJailed (l.foldl (sweepStep h t) s') a = isJailed s a ∧
          (l.foldl (sweepStep h t) s').jailLog.get a = s.jailLog.get a ∧
          (l.foldl (sweepStep h t) s').jailedUntil.get a = s.jailedUntil.get a) ∨
        (isJailed s a = false ∧ isJailed (l.foldl (sweepStep h t) s') a = true ∧
          (l.foldl (sweepStep h t) s').jailLog.get a
            = some { duration := nextSentence (s.jailLog.get a) t, jailedAt := t } ∧
          (l.foldl (sweepStep h t) s').jailedUntil.get a = some (t + nextSentence (s.jailLog.get a) t))) := by
    intro l
    induction l with
    | nil => intro s' hs; exact hs
    | cons w ws ih =>
      intro s' hs
      simp only [List.foldl_cons]
      apply ih
      rcases sweepStep_cases h t s' w with h1 | ⟨vb, hfb, hjb, _, h1⟩
      · rw [h1]; exact hs
      · rw [h1]
        by_cases hwa : a = w.addr
        · subst hwa
          have hnj : isJailed s' w.addr = false := by rw [isJailed_of_findVal s' _ _ hfb]; exact hjb
          rcases hs with ⟨e1, e2, e3⟩ | ⟨_, e2, _⟩
          · right
            refine ⟨by rw [← e1]; exact hnj, by rw [isJailed_jailed]; simp [hfb], ?_, ?_⟩
            · simp [jailed, Map.get_set, e2]
            · simp [jailed, Map.get_set, e2]
          · rw [hnj] at e2; cases e2
        · have hj' : isJailed (jailed s' t w.addr) a = isJailed s' a := by
            rw [isJailed_jailed]; simp [hwa]
          have hl' : (jailed s' t w.addr).jailLog.get a = s'.jailLog.get a := by
            simp [jailed, Map.get_set, hwa]
          have hu' : (jailed s' t w.addr).jailedUntil.get a = s'.jailedUntil.get a := by
            simp [jailed, Map.get_set, hwa]
          rw [hj', hl', hu']; exact hs
  unfold endBlock
  split
  · exact inv _ (updateGrace s h) (Or.inl ⟨rfl, rfl, rfl⟩)
  · exact Or.inl ⟨rfl, rfl, rfl⟩

/-- the jail record a history of jailings at the given times leads to -/
def recAfter (r : Option JailRec) (ts : List Int) : Option JailRec :=
  ts.foldl (fun r t => some { duration := nextSentence r t, jailedAt := t }) r

theorem recAfter_append (r : Option JailRec) (a b : List Int) :
    recAfter r (a ++ b) = recAfter (recAfter r a) b := by
  unfold recAfter; rw [List.foldl_append]

theorem apply_jailLog (s : St) (op : Op) (a : Addr) :
    (apply s op).jailLog.get a = recAfter (s.jailLog.get a) (jailOf a s op) := by
  cases op with
  | addVal v => simp only [apply, addVal]; split <;> rfl
  | setStatus b st => simp only [apply, setStatus]; split <;> rfl
  | setPower b p => simp only [apply, setPower]; split <;> rfl
  | extJail b => simp only [apply, extJail]; split <;> rfl
  | extUnjail b => simp only [apply, extUnjail]; split <;> rfl
  | unjail t b =>
    simp only [apply, unjail]
    split
    · rfl
    · split
      · rfl
      · split <;> rfl
  | jail t b =>
    simp only [apply, jailOf]
    rcases jail_cases s t b with h | ⟨_, _, _, _, h⟩
    · rw [h]; simp [recAfter]
    · rw [h]
      by_cases hba : b = a
      · subst hba; simp [recAfter, jailed, Map.get_set]
      · have : a ≠ b := fun e => hba e.symm
        simp [recAfter, jailed, Map.get_set, hba, this]
  | keepAlive h b ver =>
    simp only [apply, keepAlive]
    split
    · rfl
    · split <;> rfl
  | setMinVersion v => simp only [apply, setMinVersion]; split <;> rfl
  | scheduleMinVersion v n => simp only [apply, scheduleMinVersion]; split <;> rfl
  | proposal h v n =>
    simp only [apply, proposal, setMinVersion, scheduleMinVersion]
    split <;> split <;> rfl
  | beginBlock h =>
    simp only [apply, beginBlock, setMinVersion]
    split
    · rfl
    · split
      · split <;> rfl
      · rfl
  | endBlock h t =>
    simp only [apply, jailOf]
    rcases endBlock_jail_effect s h t a with ⟨e1, e2, _⟩ | ⟨e1, e2, e3, _⟩
    · have : ¬ (isJailed s a = false ∧ isJailed (endBlock s h t) a = true) := by
        rw [e1]; intro ⟨x, y⟩; rw [x] at y; cases y
      simp only [this, if_false, recAfter, List.foldl_nil]; exact e2
    · simp only [e1, e2, and_self, if_true, recAfter, List.foldl_cons, List.foldl_nil]; exact e3


theorem isAlive_false_of_history (h0 : Int) (a : Addr) (ops : List Op) (h : Int)
    (hw : wf h0 ops = true) (hka : ∀ hk ∈ acceptedKA a ops, hk + keepAliveTTL ≤ h) :
    isAlive (run St.init ops) a h = false := by
  unfold isAlive
  cases hg : (run St.init ops).alive.get a with
  | none => rfl
  | some u =>
    obtain ⟨hk, hm, hu⟩ := (aliveInv h0 a ops hw).prov u hg
    have := hka hk hm
    simp only [decide_eq_false_iff_not]
    omega

theorem inGrace_false_of_history (h0 : Int) (a : Addr) (ops : List Op)
    (hw : wf h0 ops = true) (hlong : h0 + gracePeriod < heightAfter h0 ops)
    (hun : ∀ e ∈ endBlocks ops, heightAfter h0 ops - gracePeriod - 1 ≤ e.1 → a ∈ unjailedAddrs e.2.2) :
    inGrace (updateGrace (run St.init ops) (heightAfter h0 ops)) a (heightAfter h0 ops) = false := by
  obtain ⟨i1, i2, _, i4, i5, _⟩ := graceInv h0 a ops hw
  have hgp : gracePeriod = 30 := rfl
  -- the previous end block exists and listed `a`
  obtain ⟨e, he, hx⟩ := i2 (heightAfter h0 ops - 1) (by omega) (by omega)
  have hprev := i4 e he (by omega)
  have hin : a ∈ unjailedAddrs e.2.2 := hun e he (by omega)
  have hsame : (updateGrace (run St.init ops) (heightAfter h0 ops)).grace.get a
      = (run St.init ops).grace.get a := by
    have := grace_only_when_new_lem (run St.init ops) (heightAfter h0 ops) 0 _ a hprev hin
    rw [endBlock_grace] at this
    exact this
  unfold inGrace
  rw [hsame]
  cases hg : (run St.init ops).grace.get a with
  | none => rfl
  | some g =>
    simp only [decide_eq_false_iff_not]
    intro hle
    obtain ⟨⟨e1, he1, hx1, _⟩, hno⟩ := i5 g hg
    have hr := i1 e1 he1
    obtain ⟨e2, he2, hx2⟩ := i2 (g - 1) (by omega) (by omega)
    exact hno e2 he2 (by omega) (hun e2 he2 (by omega))

/-- the situation the liveness clause talks about, stated on the HISTORY: `ops` is a well-formed
block history from the initial state that has reached the end of block `h`, a sweep height;
`v` is the staking entry of an unjailed, bonded or unbonding validator;
every accepted keep-alive for it is at least 2000 blocks old ("no accepted keep-alive for longer
than the lifetime"); and it was in the unjailed set at every end block of the last 31 heights
("it did not become unjailed within the grace period"). -/
def Due (h0 : Int) (ops : List Op) (h : Int) (v : Val) : Prop :=
  wf h0 ops = true ∧ heightAfter h0 ops = h ∧ isSweepHeight h = true ∧
  findVal (run St.init ops).vals v.addr = some v ∧ v.jailed = false ∧
  (v.status = .bonded ∨ v.status = .unbonding) ∧
  (∀ hk ∈ acceptedKA v.addr ops, hk + keepAliveTTL ≤ h) ∧
  h0 + gracePeriod < h ∧
  (∀ e ∈ endBlocks ops, h - gracePeriod - 1 ≤ e.1 → v.addr ∈ unjailedAddrs e.2.2)

instance (h0 : Int) (ops : List Op) (h : Int) (v : Val) : Decidable (Due h0 ops h v) := by
  unfold Due; infer_instance

theorem nodup_init (ops : List Op) : (addrsOf (run St.init ops).vals).Nodup :=
  run_nodup St.init ops (by simp [St.init, addrsOf])

theorem run_endBlock_sweep (ops : List Op) (h t : Int) (hs : isSweepHeight h = true) :
    run St.init (ops ++ [.endBlock h t]) = sweep (updateGrace (run St.init ops) h) h t := by
  rw [run_snoc]; simp [apply, endBlock, hs]

theorem sweep_split (s : St) (h t : Int) (l1 l2 : List Val) (v : Val)
    (hsplit : unjailedVals s = l1 ++ v :: l2) :
    sweep (updateGrace s h) h t = (v :: l2).foldl (sweepStep h t) (sweepAt s h t l1) := by
  unfold sweep sweepAt
  have : unjailedVals (updateGrace s h) = l1 ++ v :: l2 := hsplit
  rw [this, List.foldl_append]

theorem unbonding_of_not_active (v : Val) (hj : v.jailed = false)
    (hst : v.status = .bonded ∨ v.status = .unbonding) (hna : isActive v = false) :
    v.status = .unbonding := by
  rcases hst with e | e
  · simp [isActive, e, hj] at hna
  · exact e


/-! ### the witness of the known finding -/

/-- one block with no transactions -/
def plainBlock (h : Int) : List Op := [.beginBlock h, .endBlock h (1000 * h)]

/-- blocks `1 … n` without transactions -/
def plainBlocks (n : Nat) : List Op := (List.range n).flatMap (fun (k : Nat) => plainBlock ((k : Int) + 1))

/-- the history of the known finding: validator `[1]` bonded with power 10, validator `[2, 0x2c]`
unbonding (unjailed, 3 tokens), a keep-alive for `[1]` only, then blocks 1 … 59 and the begin of
block 60 -/
def lvgHistory : List Op :=
  [ .addVal { addr := [1], status := .bonded, jailed := false, power := 10 },
    .addVal { addr := [2, 0x2c], status := .unbonding, jailed := false, power := 3 },
    .keepAlive 1 [1] defaultMinVersion ] ++ plainBlocks 59 ++ [.beginBlock 60]

def lvgVal : Val := { addr := [2, 0x2c], status := .unbonding, jailed := false, power := 3 }

set_option maxRecDepth 100000 in
theorem lvg_due : Due 1 lvgHistory 60 lvgVal := by decide


set_option maxRecDepth 100000 in
theorem lvg_outcome :
    isJailed (run St.init (lvgHistory ++ [.endBlock 60 60000])) lvgVal.addr = false ∧
    ¬ (4 * consPower lvgVal > activeTotal (run St.init (lvgHistory ++ [.endBlock 60 60000])).vals) ∧
    activeCount (run St.init (lvgHistory ++ [.endBlock 60 60000])).vals = 1 ∧
    isActive lvgVal = false ∧ lvgVal.status = .unbonding ∧
    -- nobody at all was jailed: the states before, during and after the sweep have the same staking view
    (run St.init (lvgHistory ++ [.endBlock 60 60000])).vals = (run St.init lvgHistory).vals := by
  decide

/-- transitivity of the version order, mixed form -/
theorem vlt_of_vlt_of_vle (a b c : Ver) (h1 : vlt a b = true) (h2 : vle b c) : vlt a c = true := by
  unfold vle vlt at *
  rcases lexLt_trichotomy (vkey b) (vkey c) with h | h | h
  · exact lexLt_trans _ _ _ h1 h
  · rw [← h]; exact h1
  · rw [h2] at h; cases h

def nextSweep (x : Int) : Int := x + (10 - x % 10) % 10

theorem nextSweep_spec (x : Int) (hx : sweepMinHeight + 1 ≤ x) :
    isSweepHeight (nextSweep x) = true ∧ x ≤ nextSweep x ∧ nextSweep x ≤ x + 9 := by
  unfold nextSweep
  refine ⟨?_, by omega, by omega⟩
  simp only [isSweepHeight, sweepMinHeight, sweepPeriod, Bool.and_eq_true, beq_iff_eq] at *
  exact ⟨decide_eq_true (by omega), by omega⟩

/-- a well-formed history that has passed height `D` contains the end block of height `D` -/
theorem endBlock_split (h0 : Int) (ops : List Op) (D : Int) (hw : wf h0 ops = true)
    (h1 : h0 ≤ D) (h2 : D < heightAfter h0 ops) :
    ∃ pre t post, ops = pre ++ .endBlock D t :: post ∧ wf h0 pre = true ∧ heightAfter h0 pre = D := by
  obtain ⟨e, he, hx⟩ := (graceInv h0 [] ops hw).eb_exists D h1 h2
  unfold endBlocks at he
  obtain ⟨pre, op, post, hsplit, hm⟩ := (mem_collect_iff ebOf St.init ops e).1 he
  cases op with
  | endBlock h t =>
    simp only [ebOf, List.mem_singleton] at hm
    subst hm
    simp only at hx
    subst hx
    rw [hsplit, wf_append, Bool.and_eq_true] at hw
    obtain ⟨hw1, hw2⟩ := hw
    simp only [wf, Bool.and_eq_true, opHeightOK, beq_iff_eq] at hw2
    exact ⟨pre, t, post, hsplit, hw1, hw2.1.symm⟩
  | _ => simp [ebOf] at hm

/-- the fixed schedule by index: `jailSentences[min k 4]` -/
def sched : Nat → Int
  | 0 => minute
  | 1 => 5 * minute
  | 2 => 15 * minute
  | 3 => 60 * minute
  | _ => 1440 * minute

theorem sched_derive (k : Nat) : deriveSentence (sched k) = sched (k + 1) := by
  match k with
  | 0 => decide
  | 1 => decide
  | 2 => decide
  | 3 => decide
  | n + 4 => show deriveSentence (1440 * minute) = 1440 * minute; decide

theorem sched_spec (k : Nat) : jailSentences[min k 4]? = some (sched k) := by
  match k with
  | 0 => rfl
  | 1 => rfl
  | 2 => rfl
  | 3 => rfl
  | n + 4 =>
    have : min (n + 4) 4 = 4 := by omega
    rw [this]; rfl

/-- every further jailing falls inside the reset threshold of the sentence before it -/
def escalating (k : Nat) (t : Int) : List Int → Prop
  | [] => True
  | t' :: rest => t' - t < resetThreshold (sched k) ∧ escalating (k + 1) t' rest

theorem recAfter_streak (k : Nat) (t : Int) (rest : List Int) (h : escalating k t rest) :
    (recAfter (some { duration := sched k, jailedAt := t }) rest).map (·.duration)
      = some (sched (k + rest.length)) := by
  induction rest generalizing k t with
  | nil => rfl
  | cons t' rest ih =>
    obtain ⟨h1, h2⟩ := h
    have hn : nextSentence (some { duration := sched k, jailedAt := t }) t' = sched (k + 1) := by
      simp only [nextSentence, Option.getD_some, h1, if_true]
      exact sched_derive k
    have : recAfter (some { duration := sched k, jailedAt := t }) (t' :: rest)
        = recAfter (some { duration := sched (k + 1), jailedAt := t' }) rest := by
      simp only [recAfter, List.foldl_cons, hn]
    rw [this, ih (k + 1) t' h2]
    simp only [List.length_cons]
    congr 2
    omega

/-- a jailing starts a new streak: no record yet, or the previous one is older than its threshold -/
def fresh (r : Option JailRec) (t : Int) : Prop :=
  (r = none ∧ 0 ≤ t) ∨ (∃ x, r = some x ∧ ¬ (t - x.jailedAt < resetThreshold x.duration))

theorem nextSentence_fresh (r : Option JailRec) (t : Int) (h : fresh r t) : nextSentence r t = minute := by
  rcases h with ⟨rfl, ht⟩ | ⟨x, rfl, hx⟩
  · simp only [nextSentence, Option.getD_none]
    have : ¬ (t - zeroTime < resetThreshold minute) := by
      have : resetThreshold minute = 1800000000000 := by decide
      rw [this]
      simp only [zeroTime]
      omega
    simp only [this, if_false]
    decide
  · simp only [nextSentence, Option.getD_some, hx, if_false]
    decide

theorem run_jailLog (s : St) (ops : List Op) (a : Addr) :
    (run s ops).jailLog.get a = recAfter (s.jailLog.get a) (jailTimes a s ops) := by
  induction ops generalizing s with
  | nil => rfl
  | cons op rest ih =>
    show (run (apply s op) rest).jailLog.get a = _
    rw [ih (apply s op), apply_jailLog s op a]
    unfold jailTimes
    simp only [collect]
    rw [recAfter_append]


theorem recAfter_cons (r : Option JailRec) (t : Int) (ts : List Int) :
    recAfter r (t :: ts) = recAfter (some { duration := nextSentence r t, jailedAt := t }) ts := rfl


/-! ### histories used by the non-vacuity examples -/

/-- block `h` (2 s blocks) with the given transactions -/
def blockWith (h : Int) (txs : List Op) : List Op :=
  [.beginBlock h] ++ txs ++ [.endBlock h (2000000000 * h)]

/-- blocks `a+1 … a+n` without transactions -/
def quietBlocks (a : Int) (n : Nat) : List Op :=
  (List.range n).flatMap (fun (k : Nat) => blockWith (a + (k : Int) + 1) [])

/-- five validators of power 10 each, none of them ever sends a keep-alive -/
def fiveSilent : List Op :=
  [ .addVal { addr := [0x2c, 1], status := .bonded, jailed := false, power := 10 },
    .addVal { addr := [0x2c, 0x2c], status := .bonded, jailed := false, power := 10 },
    .addVal { addr := [7], status := .bonded, jailed := false, power := 10 },
    .addVal { addr := [9, 0x2c], status := .bonded, jailed := false, power := 10 },
    .addVal { addr := [10], status := .bonded, jailed := false, power := 10 } ]
  ++ quietBlocks 0 59 ++ [.beginBlock 60]

def lastOfFive : Val := { addr := [9, 0x2c], status := .bonded, jailed := false, power := 10 }

/-- four validators: `[0x2c]` (power 10) is silent, the three others (30 each) keep alive -/
def escHead : List Op :=
  [ .addVal { addr := [0x2c], status := .bonded, jailed := false, power := 10 },
    .addVal { addr := [1], status := .bonded, jailed := false, power := 30 },
    .addVal { addr := [2], status := .bonded, jailed := false, power := 30 },
    .addVal { addr := [3], status := .bonded, jailed := false, power := 30 },
    .keepAlive 1 [1] defaultMinVersion, .keepAlive 1 [2] defaultMinVersion,
    .keepAlive 1 [3] [118, 50, 46, 52, 46, 48],
    -- refused: "v1.11.2" is older than the minimum, and [0x2c] stays without keep-alive
    .keepAlive 1 [0x2c] [118, 49, 46, 49, 49, 46, 50] ]

def escVal : Val := { addr := [0x2c], status := .bonded, jailed := false, power := 10 }

/-- up to the begin of block 60 -/
def escTo60 : List Op := escHead ++ quietBlocks 0 59 ++ [.beginBlock 60]

/-- jailed at 60 for one minute (30 blocks), `MsgUnjail` in block 91, grace until 121, jailed again
at 130 -/
def escTo130 : List Op :=
  escHead ++ quietBlocks 0 90 ++ blockWith 91 [.unjail (2000000000 * 91) [0x2c]] ++ quietBlocks 91 39



/-! ### (c) the split is unique -/

theorem split_unique_of_nodup {α : Type} (f : α → Addr) (x : α) :
    ∀ (a a' b b' : List α), ((a ++ x :: b).map f).Nodup → a ++ x :: b = a' ++ x :: b' → a = a' ∧ b = b' := by
  intro a
  induction a with
  | nil =>
    intro a' b b' hnd e
    cases a' with
    | nil => simp only [List.nil_append, List.cons.injEq, true_and] at e; exact ⟨rfl, e⟩
    | cons y a'' =>
      simp only [List.nil_append, List.cons_append, List.cons.injEq] at e
      obtain ⟨rfl, rfl⟩ := e
      simp only [List.nil_append, List.map_cons, List.map_append, List.nodup_cons, List.mem_append,
        List.mem_map, List.mem_cons] at hnd
      exact absurd (Or.inr (Or.inl trivial)) hnd.1
  | cons y a ih =>
    intro a' b b' hnd e
    cases a' with
    | nil =>
      simp only [List.nil_append, List.cons_append, List.cons.injEq] at e
      obtain ⟨rfl, rfl⟩ := e
      simp only [List.cons_append, List.map_cons, List.map_append, List.nodup_cons, List.mem_append,
        List.mem_map, List.mem_cons] at hnd
      exact absurd (Or.inr (Or.inl trivial)) hnd.1
    | cons z a'' =>
      simp only [List.cons_append, List.cons.injEq] at e
      obtain ⟨rfl, e⟩ := e
      simp only [List.cons_append, List.map_cons, List.nodup_cons] at hnd
      obtain ⟨r1, r2⟩ := ih a'' b b' hnd.2 e
      exact ⟨by rw [r1], r2⟩

/-! ### (e) `JailedUntil` is tied to the jail log -/

/-- `JailedUntil` of `a` is `jailedAt + duration` of its jail record -/
def UntilOk (s : St) (a : Addr) : Prop :=
  s.jailedUntil.get a = (s.jailLog.get a).map (fun r => r.jailedAt + r.duration)

theorem untilOk_jailed (s : St) (t : Int) (b a : Addr) (h : UntilOk s a) : UntilOk (jailed s t b) a := by
  unfold UntilOk at *
  by_cases hab : a = b
  · subst hab; simp [jailed, Map.get_set]
  · simp [jailed, Map.get_set, hab, h]

theorem apply_untilOk (s : St) (op : Op) (a : Addr) (h : UntilOk s a) : UntilOk (apply s op) a := by
  cases op with
  | addVal v => simp only [apply, addVal]; split <;> exact h
  | setStatus b st => simp only [apply, setStatus]; split <;> exact h
  | setPower b p => simp only [apply, setPower]; split <;> exact h
  | extJail b => simp only [apply, extJail]; split <;> exact h
  | extUnjail b => simp only [apply, extUnjail]; split <;> exact h
  | unjail t b =>
    simp only [apply, unjail]
    split
    · exact h
    · split
      · exact h
      · split <;> exact h
  | jail t b =>
    simp only [apply]
    rcases jail_cases s t b with e | ⟨_, _, _, _, e⟩
    · rw [e]; exact h
    · rw [e]; exact untilOk_jailed s t b a h
  | keepAlive hh b ver =>
    simp only [apply, keepAlive]
    split
    · exact h
    · split <;> exact h
  | setMinVersion v => simp only [apply, setMinVersion]; split <;> exact h
  | scheduleMinVersion v n => simp only [apply, scheduleMinVersion]; split <;> exact h
  | proposal hh v n =>
    simp only [apply, proposal, setMinVersion, scheduleMinVersion]
    split <;> split <;> exact h
  | beginBlock hh =>
    simp only [apply, beginBlock, setMinVersion]
    split
    · exact h
    · split
      · split <;> exact h
      · exact h
  | endBlock hh t =>
    simp only [apply]
    unfold UntilOk at *
    rcases endBlock_jail_effect s hh t a with ⟨_, e2, e3⟩ | ⟨_, _, e3, e4⟩
    · rw [e2, e3]; exact h
    · rw [e3, e4]; rfl

theorem run_untilOk (s : St) (ops : List Op) (a : Addr) (h : UntilOk s a) : UntilOk (run s ops) a := by
  induction ops generalizing s with
  | nil => exact h
  | cons op rest ih => exact ih (apply s op) (apply_untilOk s op a h)

set_option maxRecDepth 100000000 in
/-- the long witness: validator `[2, 0x2c]` really SENT an accepted keep-alive (height 1) which
expired (1 + 2000 ≤ 2010), the bonded validator `[1]` renewed its own at height 1500 -/
def lvgLong : List Op :=
  [ .addVal { addr := [1], status := .bonded, jailed := false, power := 10 },
    .addVal { addr := [2, 0x2c], status := .unbonding, jailed := false, power := 3 },
    .keepAlive 1 [1] defaultMinVersion, .keepAlive 1 [2, 0x2c] defaultMinVersion ]
  ++ plainBlocks 1499 ++ [.beginBlock 1500, .keepAlive 1500 [1] defaultMinVersion, .endBlock 1500 1500000]
  ++ (List.range 509).flatMap (fun (k : Nat) => plainBlock ((k : Int) + 1501)) ++ [.beginBlock 2010]

set_option maxRecDepth 100000000 in
theorem lvgLong_due : Due 1 lvgLong 2010 lvgVal ∧ acceptedKA lvgVal.addr lvgLong = [1] := by decide

set_option maxRecDepth 100000000 in
theorem lvgLong_outcome :
    isJailed (run St.init (lvgLong ++ [.endBlock 2010 2010000])) lvgVal.addr = false ∧
    ¬ (4 * consPower lvgVal > activeTotal (run St.init (lvgLong ++ [.endBlock 2010 2010000])).vals) ∧
    activeCount (run St.init (lvgLong ++ [.endBlock 2010 2010000])).vals = 1 ∧
    (run St.init (lvgLong ++ [.endBlock 2010 2010000])).vals = (run St.init lvgLong).vals := by
  decide

/-! ### provenance from ANY store (an upgraded chain: legacy snapshot blob, old records) -/

/-- heights of the accepted keep-alives for `a` in `ops` run from the store `s0` -/
def acceptedKAFrom (s0 : St) (a : Addr) (ops : List Op) : List Int := collect (kaOf a) s0 ops
/-- the end blocks of `ops` run from the store `s0` -/
def endBlocksFrom (s0 : St) (ops : List Op) : List (Int × Int × St) := collect ebOf s0 ops

/-- the keep-alive record a sequence of accepted keep-alive heights leads to (the last one wins) -/
def aliveAfter (u : Option Int) (ks : List Int) : Option Int :=
  ks.foldl (fun _ h => some (h + keepAliveTTL)) u

theorem aliveAfter_append (u : Option Int) (a b : List Int) :
    aliveAfter u (a ++ b) = aliveAfter (aliveAfter u a) b := by
  unfold aliveAfter; rw [List.foldl_append]

theorem aliveAfter_cases (u : Option Int) (ks : List Int) :
    (ks = [] ∧ aliveAfter u ks = u) ∨ (∃ hk ∈ ks, aliveAfter u ks = some (hk + keepAliveTTL)) := by
  induction ks generalizing u with
  | nil => exact Or.inl ⟨rfl, rfl⟩
  | cons k ks ih =>
    right
    rcases ih (some (k + keepAliveTTL)) with ⟨e, h⟩ | ⟨hk, hm, h⟩
    · subst e; exact ⟨k, by simp, h⟩
    · exact ⟨hk, List.mem_cons_of_mem _ hm, h⟩

theorem keepAlive_cases (s : St) (h : Int) (a : Addr) (ver : Ver) :
    ((keepAlive s h a ver).2 = .rejected → (keepAlive s h a ver).1 = s) ∧
    ((keepAlive s h a ver).2 = .ok →
      (keepAlive s h a ver).1 = { s with alive := s.alive.set a (h + keepAliveTTL) }) := by
  unfold keepAlive
  cases hf : findVal s.vals a with
  | none => simp
  | some v =>
    cases hv : vlt ver s.minVersion with
    | true => simp
    | false => simp

theorem apply_alive (s : St) (op : Op) (a : Addr) :
    (apply s op).alive.get a = aliveAfter (s.alive.get a) (kaOf a s op) := by
  by_cases hka : ∃ h b v, op = .keepAlive h b v
  · obtain ⟨h, b, v, rfl⟩ := hka
    simp only [apply, kaOf]
    by_cases hacc : b = a ∧ (keepAlive s h b v).2 = .ok
    · rw [if_pos hacc]
      obtain ⟨rfl, hacc⟩ := hacc
      rw [((keepAlive_cases s h b v).2 hacc)]
      simp [aliveAfter, Map.get_set]
    · rw [if_neg hacc]
      simp only [aliveAfter, List.foldl_nil]
      cases hr : (keepAlive s h b v).2 with
      | rejected => rw [(keepAlive_cases s h b v).1 hr]
      | ok =>
        rw [(keepAlive_cases s h b v).2 hr]
        have hba : ¬ a = b := fun e => hacc ⟨e.symm, hr⟩
        simp [Map.get_set, hba]
  · have hne : ∀ h b v, op ≠ .keepAlive h b v := fun h b v e => hka ⟨h, b, v, e⟩
    rw [apply_alive_of_not_ka s op hne, kaOf_of_not_ka a s op hne]
    rfl

theorem run_alive (s : St) (ops : List Op) (a : Addr) :
    (run s ops).alive.get a = aliveAfter (s.alive.get a) (acceptedKAFrom s a ops) := by
  induction ops generalizing s with
  | nil => rfl
  | cons op rest ih =>
    show (run (apply s op) rest).alive.get a = _
    rw [ih (apply s op), apply_alive s op a]
    unfold acceptedKAFrom
    simp only [collect]
    rw [aliveAfter_append]

/-- the snapshot a sequence of end blocks leads to (the last one wins) -/
def prevAfter (p : Option Blob) (es : List (Int × Int × St)) : Option Blob :=
  es.foldl (fun _ e => some (encodeSet (unjailedAddrs e.2.2))) p

theorem apply_prev (s : St) (op : Op) : (apply s op).prev = prevAfter s.prev (ebOf s op) := by
  cases heb : isEB op with
  | false => rw [(apply_of_not_eb s op heb).2, ebOf_of_not_eb s op heb]; rfl
  | true =>
    cases op with
    | endBlock h t => simp only [apply, ebOf, prevAfter, List.foldl_cons, List.foldl_nil, endBlock_prev]
    | _ => simp [isEB] at heb

theorem run_prev (s : St) (ops : List Op) :
    (run s ops).prev = prevAfter s.prev (endBlocksFrom s ops) := by
  induction ops generalizing s with
  | nil => rfl
  | cons op rest ih =>
    show (run (apply s op) rest).prev = _
    rw [ih (apply s op), apply_prev s op]
    unfold endBlocksFrom prevAfter
    simp only [collect, List.foldl_append]

theorem prevAfter_cases (p : Option Blob) (es : List (Int × Int × St)) :
    (es = [] ∧ prevAfter p es = p) ∨
    (∃ e, es.getLast? = some e ∧ prevAfter p es = some (encodeSet (unjailedAddrs e.2.2))) := by
  induction es generalizing p with
  | nil => exact Or.inl ⟨rfl, rfl⟩
  | cons x xs ih =>
    right
    rcases ih (some (encodeSet (unjailedAddrs x.2.2))) with ⟨e, h⟩ | ⟨e, hl, h⟩
    · subst e; exact ⟨x, rfl, h⟩
    · refine ⟨e, ?_, h⟩
      cases xs with
      | nil => cases hl
      | cons y ys => rw [List.getLast?_cons_cons]; exact hl

/-- the snapshot and grace stores after a well-formed history from ANY store `s0` -/
structure GraceInvFrom (s0 : St) (h0 : Int) (a : Addr) (ops : List Op) : Prop where
  eb_range : ∀ e ∈ endBlocksFrom s0 ops, h0 ≤ e.1 ∧ e.1 < heightAfter h0 ops
  eb_exists : ∀ g, h0 ≤ g → g < heightAfter h0 ops → ∃ e ∈ endBlocksFrom s0 ops, e.1 = g
  prev_init : heightAfter h0 ops = h0 → (run s0 ops).prev = s0.prev
  prev_prov : ∀ e ∈ endBlocksFrom s0 ops, e.1 + 1 = heightAfter h0 ops →
    (run s0 ops).prev = some (encodeSet (unjailedAddrs e.2.2))
  grace_prov : ∀ g, (run s0 ops).grace.get a = some g →
    ((∃ e ∈ endBlocksFrom s0 ops, e.1 = g ∧ a ∈ unjailedAddrs e.2.2) ∧
      (∀ e ∈ endBlocksFrom s0 ops, e.1 + 1 = g → a ∉ unjailedAddrs e.2.2)) ∨
    s0.grace.get a = some g
  grace_lb : a ≠ [] → ∀ e ∈ endBlocksFrom s0 ops, h0 < e.1 → a ∈ unjailedAddrs e.2.2 →
    (∀ e' ∈ endBlocksFrom s0 ops, e'.1 + 1 = e.1 → a ∉ unjailedAddrs e'.2.2) →
    ∃ g, e.1 ≤ g ∧ (run s0 ops).grace.get a = some g

theorem graceInvFrom (s0 : St) (h0 : Int) (a : Addr) :
    ∀ ops, wf h0 ops = true → GraceInvFrom s0 h0 a ops := by
  apply snoc_induction
  · intro _
    refine ⟨(by intro e h; cases h), ?_, fun _ => rfl, (by intro e h; cases h),
      (fun g h => Or.inr h), (by intro _ e h; cases h)⟩
    intro g h1 h2
    simp only [heightAfter] at h2
    omega
  · intro ops op ih hw
    rw [wf_snoc, Bool.and_eq_true] at hw
    obtain ⟨hw1, hok⟩ := hw
    obtain ⟨i1, i2, i3, i4, i5, i6⟩ := ih hw1
    cases heb : isEB op with
    | false =>
      obtain ⟨hg, hp⟩ := apply_of_not_eb (run s0 ops) op heb
      have he : endBlocksFrom s0 (ops ++ [op]) = endBlocksFrom s0 ops := by
        unfold endBlocksFrom; rw [collect_snoc, ebOf_of_not_eb _ op heb]; simp
      have hh : heightAfter h0 (ops ++ [op]) = heightAfter h0 ops := by
        rw [heightAfter_snoc, nextH_of_not_eb _ op heb]
      have hrun := run_snoc s0 ops op
      refine ⟨?_, ?_, ?_, ?_, ?_, ?_⟩
      · rw [he, hh]; exact i1
      · rw [he, hh]; exact i2
      · rw [hh, hrun, hp]; exact i3
      · rw [he, hh, hrun, hp]; exact i4
      · rw [he, hrun, hg]; exact i5
      · rw [he, hrun, hg]; exact i6
    | true =>
      cases op with
      | endBlock h t =>
        have hh : h = heightAfter h0 ops := by simpa [opHeightOK] using hok
        subst hh
        have he : endBlocksFrom s0 (ops ++ [.endBlock (heightAfter h0 ops) t])
            = endBlocksFrom s0 ops ++ [(heightAfter h0 ops, t, run s0 ops)] := by
          unfold endBlocksFrom; rw [collect_snoc]; rfl
        have hcur : heightAfter h0 (ops ++ [.endBlock (heightAfter h0 ops) t]) = heightAfter h0 ops + 1 := by
          rw [heightAfter_snoc]; simp [nextH, isEB]
        have hge := heightAfter_ge h0 ops
        have hrun : run s0 (ops ++ [.endBlock (heightAfter h0 ops) t])
            = endBlock (run s0 ops) (heightAfter h0 ops) t := by rw [run_snoc]; rfl
        refine ⟨?_, ?_, ?_, ?_, ?_, ?_⟩
        · intro e hm
          rw [he] at hm
          rw [hcur]
          rcases List.mem_append.1 hm with hm | hm
          · have := i1 e hm; omega
          · simp at hm; subst hm; simp; omega
        · intro g hg1 hg2
          rw [hcur] at hg2
          rw [he]
          by_cases hg : g < heightAfter h0 ops
          · obtain ⟨e, hm, hx⟩ := i2 g hg1 hg
            exact ⟨e, List.mem_append.2 (Or.inl hm), hx⟩
          · exact ⟨_, List.mem_append.2 (Or.inr (List.mem_singleton.2 rfl)), by simp; omega⟩
        · intro hx; rw [hcur] at hx; omega
        · intro e hm hx
          rw [he] at hm
          rw [hcur] at hx
          rw [hrun, endBlock_prev]
          rcases List.mem_append.1 hm with hm | hm
          · have := i1 e hm; omega
          · simp at hm; subst hm; rfl
        · intro g hg
          rw [hrun, endBlock_grace, updateGrace_grace] at hg
          rw [he]
          split at hg
          · rename_i hnew
            cases hg
            left
            refine ⟨⟨_, List.mem_append.2 (Or.inr (List.mem_singleton.2 rfl)), rfl, hnew.1⟩, ?_⟩
            intro e hm hx
            rcases List.mem_append.1 hm with hm | hm
            · have hp := i4 e hm hx
              rw [hp] at hnew
              intro hin
              have : a ∈ decodeSet (encodeSet (unjailedAddrs e.2.2)) := (codec_mem_lem _ _).2 (Or.inl hin)
              have hc := hnew.2
              simp only [Option.getD_some] at hc
              rw [List.contains_eq_mem] at hc
              simp [this] at hc
            · simp at hm; subst hm; simp at hx; omega
          · rcases i5 g hg with ⟨⟨e, hm, hx, hin⟩, hno⟩ | hold
            · left
              refine ⟨⟨e, List.mem_append.2 (Or.inl hm), hx, hin⟩, ?_⟩
              intro e' hm' hx'
              rcases List.mem_append.1 hm' with hm' | hm'
              · exact hno e' hm' hx'
              · simp at hm'; subst hm'
                have := i1 e hm
                simp at hx'; omega
            · exact Or.inr hold
        · intro hne e hm hlt hin hno
          rw [hrun, endBlock_grace, updateGrace_grace]
          rw [he] at hm hno
          rcases List.mem_append.1 hm with hm | hm
          · obtain ⟨g, hg1, hg2⟩ := i6 hne e hm hlt hin
              (fun e' hm' hx' => hno e' (List.mem_append.2 (Or.inl hm')) hx')
            have := i1 e hm
            split
            · exact ⟨_, by omega, rfl⟩
            · exact ⟨g, hg1, hg2⟩
          · simp at hm; subst hm
            simp only at hin hno hlt ⊢
            have hnew : (decodeSet ((run s0 ops).prev.getD [])).contains a = false := by
              obtain ⟨e', hm', hx'⟩ := i2 (heightAfter h0 ops - 1) (by omega) (by omega)
              rw [i4 e' hm' (by omega)]
              simp only [Option.getD_some]
              have hn := hno e' (List.mem_append.2 (Or.inl hm')) (by omega)
              cases hc : (decodeSet (encodeSet (unjailedAddrs e'.2.2))).contains a with
              | false => rfl
              | true =>
                rw [List.contains_eq_mem] at hc
                have := (codec_mem_lem _ _).1 (of_decide_eq_true hc)
                rcases this with h1 | ⟨_, h1⟩
                · exact absurd h1 hn
                · exact absurd h1 hne
            rw [if_pos ⟨hin, hnew⟩]
            exact ⟨_, Int.le_refl _, rfl⟩
      | _ => simp [isEB] at heb

/-- `Due`, from ANY store `s0` that is at the begin of block `h0` (an upgraded chain): as `Due`, plus
what has to be known of the records `s0` already holds — one staking entry per address, a
keep-alive record of `v` that has expired by `h`, and a grace record of `v` older than the block
the history starts with (every record a node wrote before `h0` is). Nothing is assumed about the
snapshot blob of `s0`: it may be in the legacy comma-joined format. -/
def DueFrom (s0 : St) (h0 : Int) (ops : List Op) (h : Int) (v : Val) : Prop :=
  wf h0 ops = true ∧ heightAfter h0 ops = h ∧ isSweepHeight h = true ∧
  findVal (run s0 ops).vals v.addr = some v ∧ v.jailed = false ∧
  (v.status = .bonded ∨ v.status = .unbonding) ∧
  (∀ hk ∈ acceptedKAFrom s0 v.addr ops, hk + keepAliveTTL ≤ h) ∧
  h0 + gracePeriod < h ∧
  (∀ e ∈ endBlocksFrom s0 ops, h - gracePeriod - 1 ≤ e.1 → v.addr ∈ unjailedAddrs e.2.2) ∧
  (addrsOf s0.vals).Nodup ∧
  (∀ u, s0.alive.get v.addr = some u → u ≤ h) ∧
  (∀ g, s0.grace.get v.addr = some g → g < h0)

theorem isAlive_false_from (s0 : St) (a : Addr) (ops : List Op) (h : Int)
    (hka : ∀ hk ∈ acceptedKAFrom s0 a ops, hk + keepAliveTTL ≤ h)
    (hold : ∀ u, s0.alive.get a = some u → u ≤ h) :
    isAlive (run s0 ops) a h = false := by
  unfold isAlive
  rw [run_alive]
  rcases aliveAfter_cases (s0.alive.get a) (acceptedKAFrom s0 a ops) with ⟨_, e⟩ | ⟨hk, hm, e⟩
  · rw [e]
    cases hg : s0.alive.get a with
    | none => rfl
    | some u => have := hold u hg; simp only [decide_eq_false_iff_not]; omega
  · rw [e]
    have := hka hk hm
    simp only [decide_eq_false_iff_not]; omega

theorem inGrace_false_from (s0 : St) (h0 : Int) (a : Addr) (ops : List Op)
    (hw : wf h0 ops = true) (hlong : h0 + gracePeriod < heightAfter h0 ops)
    (hun : ∀ e ∈ endBlocksFrom s0 ops, heightAfter h0 ops - gracePeriod - 1 ≤ e.1 → a ∈ unjailedAddrs e.2.2)
    (hold : ∀ g, s0.grace.get a = some g → g < h0) :
    inGrace (updateGrace (run s0 ops) (heightAfter h0 ops)) a (heightAfter h0 ops) = false := by
  obtain ⟨i1, i2, _, i4, i5, _⟩ := graceInvFrom s0 h0 a ops hw
  have hgp : gracePeriod = 30 := rfl
  obtain ⟨e, he, hx⟩ := i2 (heightAfter h0 ops - 1) (by omega) (by omega)
  have hprev := i4 e he (by omega)
  have hin : a ∈ unjailedAddrs e.2.2 := hun e he (by omega)
  have hsame : (updateGrace (run s0 ops) (heightAfter h0 ops)).grace.get a
      = (run s0 ops).grace.get a := by
    have := grace_only_when_new_lem (run s0 ops) (heightAfter h0 ops) 0 _ a hprev hin
    rw [endBlock_grace] at this
    exact this
  unfold inGrace
  rw [hsame]
  cases hg : (run s0 ops).grace.get a with
  | none => rfl
  | some g =>
    simp only [decide_eq_false_iff_not]
    intro hle
    rcases i5 g hg with ⟨⟨e1, he1, hx1, _⟩, hno⟩ | hold'
    · have hr := i1 e1 he1
      obtain ⟨e2, he2, hx2⟩ := i2 (g - 1) (by omega) (by omega)
      exact hno e2 he2 (by omega) (hun e2 he2 (by omega))
    · have := hold g hold'
      omega


/-- an upgraded store at the begin of block 1000: four validators, the snapshot blob still in the
LEGACY comma-joined format (and `[0x2c, 1]` contains the separator), an old grace record and an
almost expired keep-alive record for `[0x2c, 1]`, fresh keep-alives for the others -/
def upgStore : St :=
  { St.init with
    vals := [ { addr := [7], status := .bonded, jailed := false, power := 30 },
              { addr := [8], status := .bonded, jailed := false, power := 30 },
              { addr := [9], status := .bonded, jailed := false, power := 30 },
              { addr := [0x2c, 1], status := .bonded, jailed := false, power := 10 } ],
    prev := some (encodeSetLegacy [[7], [8], [9], [0x2c, 1]]),
    grace := [([0x2c, 1], 990)],
    alive := [([7], 2990), ([8], 2990), ([9], 2990), ([0x2c, 1], 1005)] }

def upgVal : Val := { addr := [0x2c, 1], status := .bonded, jailed := false, power := 10 }

/-- blocks 1000 … 1039 without transactions, then the begin of block 1040 -/
def upgOps : List Op :=
  (List.range 40).flatMap (fun (k : Nat) => plainBlock ((k : Int) + 1000)) ++ [.beginBlock 1040]


end Lemmas


/-! ## Property theorems (C12) -/

/-- **codec_roundtrip.** Decoding the stored snapshot gives back exactly the list of addresses
that was encoded, for ALL byte strings (0x2c inside, all-0x2c, empty, prefixes of one another).
The only artefact: the empty list decodes to the set containing the empty address, as in Go
(`strings.Split("", ",")` is `[""]`); no validator has the empty address. -/
theorem codec_roundtrip (l : List Addr) :
    decodeSet (encodeSet l) = if l = [] then [[]] else l := codec_roundtrip_lem l

/-- **codec_roundtrip (membership form).** An address is found in the stored snapshot iff it was
stored — the lemma the raw `bytes.Join(…, ",")` format of the pinned tree fails. -/
theorem codec_mem (l : List Addr) (a : Addr) :
    a ∈ decodeSet (encodeSet l) ↔ a ∈ l ∨ (l = [] ∧ a = []) := codec_mem_lem l a

/-- the hex encoding of an address is injective and never contains the separator -/
theorem codec_hex_injective_no_separator (a b : Addr) :
    (hexEnc a = hexEnc b → a = b) ∧ comma ∉ hexEnc a :=
  ⟨hexEnc_injective a b, comma_not_mem_hexEnc a⟩

/-- **grace_only_when_new.** A validator listed in the snapshot of the previous block (i.e. unjailed
at the previous end block) does not get a new grace period, whatever bytes its address contains. -/
theorem grace_only_when_new (s : St) (h t : Int) (l : List Addr) (a : Addr)
    (hprev : s.prev = some (encodeSet l)) (ha : a ∈ l) :
    (endBlock s h t).grace.get a = s.grace.get a := grace_only_when_new_lem s h t l a hprev ha

/-- **grace_only_when_new (two consecutive end blocks).** If `a` is unjailed when block `h` ends,
then — whatever happens in between that is not an end block — the end block of the next block
leaves its grace period alone. -/
theorem grace_not_refreshed_next_block (s : St) (h t h' t' : Int) (ops : List Op) (v : Val)
    (hf : findVal s.vals v.addr = some v) (hj : v.jailed = false)
    (hops : ∀ op ∈ ops, ∀ x y, op ≠ Op.endBlock x y) :
    (endBlock (run (endBlock s h t) ops) h' t').grace.get v.addr
      = (endBlock s h t).grace.get v.addr := by
  have key : ∀ (ops : List Op) (s0 : St), (∀ op ∈ ops, ∀ x y, op ≠ Op.endBlock x y) →
      (run s0 ops).prev = s0.prev ∧ (run s0 ops).grace = s0.grace := by
    intro ops
    induction ops with
    | nil => intro s0 _; exact ⟨rfl, rfl⟩
    | cons op rest ih =>
      intro s0 hne
      have hrest := ih (apply s0 op) (fun o ho => hne o (List.mem_cons_of_mem _ ho))
      have hop : (apply s0 op).prev = s0.prev ∧ (apply s0 op).grace = s0.grace := by
        have hne' := hne op (by simp)
        cases op with
        | addVal v => simp only [apply, addVal]; split <;> exact ⟨rfl, rfl⟩
        | setStatus a st => simp only [apply, setStatus]; split <;> exact ⟨rfl, rfl⟩
        | setPower a p => simp only [apply, setPower]; split <;> exact ⟨rfl, rfl⟩
        | extJail a => simp only [apply, extJail]; split <;> exact ⟨rfl, rfl⟩
        | extUnjail a => simp only [apply, extUnjail]; split <;> exact ⟨rfl, rfl⟩
        | unjail t a => exact ⟨(unjail_sameStores s0 t a).2.2.1, (unjail_sameStores s0 t a).2.1⟩
        | jail t a => exact ⟨(jail_sameStores s0 t a).2.2.1, (jail_sameStores s0 t a).2.1⟩
        | keepAlive h a ver =>
          simp only [apply, keepAlive]
          split
          · exact ⟨rfl, rfl⟩
          · split <;> exact ⟨rfl, rfl⟩
        | setMinVersion v => simp only [apply, setMinVersion]; split <;> exact ⟨rfl, rfl⟩
        | scheduleMinVersion v n => simp only [apply, scheduleMinVersion]; split <;> exact ⟨rfl, rfl⟩
        | proposal h v n =>
          simp only [apply, proposal, setMinVersion, scheduleMinVersion]
          split <;> split <;> exact ⟨rfl, rfl⟩
        | beginBlock h =>
          simp only [apply, beginBlock, setMinVersion]
          split
          · exact ⟨rfl, rfl⟩
          · split
            · split <;> exact ⟨rfl, rfl⟩
            · exact ⟨rfl, rfl⟩
        | endBlock x y => exact absurd rfl (hne' x y)
      show (run (apply s0 op) rest).prev = s0.prev ∧ (run (apply s0 op) rest).grace = s0.grace
      exact ⟨hrest.1.trans hop.1, hrest.2.trans hop.2⟩
  obtain ⟨hp, hg⟩ := key ops (endBlock s h t) hops
  rw [grace_only_when_new (run (endBlock s h t) ops) h' t' (unjailedAddrs s) v.addr
        (by rw [hp, endBlock_prev]) (mem_unjailedAddrs_of_findVal s v hf hj), hg]

/-- a validator that is unjailed now and was not in the previous snapshot gets a grace period
starting at this height -/
theorem grace_when_new (s : St) (h t : Int) (a : Addr)
    (hnow : a ∈ unjailedAddrs s) (hnew : (decodeSet (s.prev.getD [])).contains a = false) :
    (endBlock s h t).grace.get a = some h := by
  rw [endBlock_grace, updateGrace_grace, hnew]
  simp [hnow]

/-- **inactive_jailed_at_next_sweep.** At a sweep height, a validator that is unjailed, bonded or
unbonding, whose keep-alive is missing or expired and that is not in its grace period (as the end
block itself has just updated it) is jailed by that end block — unless `Jail` refuses: then it is
refused: exactly one active validator is left IN THE RESULTING STATE (whether or not it is `v`: the
code's rule is global, see `jailedOrProtected`), or `v`'s consensus power exceeds 25 % of what is left
active. Step level, arbitrary state; the hypotheses are derived from a history, the state of the
25 % test is made exact and the exception is split in `inactive_jailed_history(_exact)`. -/
theorem inactive_jailed_at_next_sweep (s : St) (h t : Int) (v : Val)
    (hsweep : isSweepHeight h = true)
    (hf : findVal s.vals v.addr = some v) (hj : v.jailed = false)
    (hst : v.status = .bonded ∨ v.status = .unbonding)
    (hal : isAlive s v.addr h = false)
    (hgr : inGrace (updateGrace s h) v.addr h = false) :
    jailedOrProtected (endBlock s h t) v.addr := by
  unfold endBlock
  simp only [hsweep, if_true]
  unfold sweep
  apply sweep_reaches h t (updateGrace s h) v hst hal hgr
  right
  refine ⟨?_, ?_, sameStores_refl _, v, hf⟩
  · unfold unjailedVals
    exact List.mem_filter.2 ⟨findVal_mem _ _ _ hf, by simp [hj]⟩
  · show isJailed (updateGrace s h) v.addr = false
    rw [isJailed_of_findVal (updateGrace s h) v.addr v hf]; exact hj

/-- the grace hypothesis above in terms of the state before the block: a validator that was in the
previous snapshot keeps its old grace record -/
theorem inGrace_after_update (s : St) (h : Int) (l : List Addr) (a : Addr)
    (hprev : s.prev = some (encodeSet l)) (ha : a ∈ l) :
    inGrace (updateGrace s h) a h = inGrace s a h := by
  have := grace_only_when_new s h 0 l a hprev ha
  rw [endBlock_grace] at this
  unfold inGrace
  rw [this]

/-- **…hence within 10 + 30 blocks.** For every expiry height `e` and grace start `g` there is a
sweep height at or after the expiry, outside the grace period, at most 9 blocks later than the
later of the two (and of the first sweep height 60). -/
theorem next_sweep_bound (e g : Int) :
    ∃ h, isSweepHeight h = true ∧ e ≤ h ∧ h - g > gracePeriod ∧
      h ≤ max (max e (g + gracePeriod + 1)) (sweepMinHeight + 1) + 9 := by
  refine ⟨max (max e (g + gracePeriod + 1)) (sweepMinHeight + 1)
            + (10 - max (max e (g + gracePeriod + 1)) (sweepMinHeight + 1) % 10) % 10, ?_, ?_, ?_, ?_⟩
  · simp only [isSweepHeight, sweepMinHeight, sweepPeriod, gracePeriod, Bool.and_eq_true, beq_iff_eq]
    exact ⟨decide_eq_true (by omega), by omega⟩
  · simp only [gracePeriod, sweepMinHeight]; omega
  · simp only [gracePeriod, sweepMinHeight]; omega
  · simp only [gracePeriod, sweepMinHeight]; omega

/-- **…over a whole window of blocks.** Let `a` be unjailed, bonded or unbonding, listed in the
snapshot of the previous block, with no keep-alive valid at or after height `h`. Run the blocks
`h … h+n` without transactions (arbitrary block times). If `h+n` is a sweep height outside the
grace period, then at the end `a` is jailed (possibly by an earlier sweep of the window) or shielded
by `Jail`'s rules. SPECIAL CASE (planted start state, no transactions) kept from the first version;
the general statements — arbitrary interleaved operations, from `St.init`, hypotheses on the history,
composed with the sweep bound — are `inactive_jailed_history` and `inactive_jailed_by_deadline`. -/
theorem inactive_jailed_within_window (s : St) (h : Int) (τ : Int → Int) (n : Nat) (v : Val) (l : List Addr)
    (hf : findVal s.vals v.addr = some v) (hj : v.jailed = false)
    (hst : v.status = .bonded ∨ v.status = .unbonding)
    (hprev : s.prev = some (encodeSet l)) (ha : v.addr ∈ l)
    (hexp : ∀ k, h ≤ k → isAlive s v.addr k = false)
    (hsweep : isSweepHeight (h + n) = true)
    (hgr : inGrace s v.addr (h + n) = false) :
    jailedOrProtected (emptyBlocks s h τ (n + 1)) v.addr := by
  -- invariant of the blocks before the last one
  have inv : ∀ k : Nat,
      isJailed (emptyBlocks s h τ k) v.addr = true ∨
      (findVal (emptyBlocks s h τ k).vals v.addr = some v ∧ (emptyBlocks s h τ k).alive = s.alive ∧
        (emptyBlocks s h τ k).grace.get v.addr = s.grace.get v.addr ∧
        ∃ l', (emptyBlocks s h τ k).prev = some (encodeSet l') ∧ v.addr ∈ l') := by
    intro k
    induction k with
    | zero => exact Or.inr ⟨hf, rfl, rfl, l, hprev, ha⟩
    | succ k ih =>
      have hstep : emptyBlocks s h τ (k + 1)
          = endBlock (beginBlock (emptyBlocks s h τ k) (h + k)) (h + k) (τ (h + k)) := rfl
      rw [hstep]
      obtain ⟨bv, bal, bgr, bpr⟩ := beginBlock_stores (emptyBlocks s h τ k) (h + k)
      rcases ih with ih | ⟨i1, i2, i3, l', i4, i5⟩
      · left
        have hf' : ∃ v', findVal (beginBlock (emptyBlocks s h τ k) (h + k)).vals v.addr = some v' := by
          rw [bv]
          unfold isJailed at ih
          cases hfv : findVal (emptyBlocks s h τ k).vals v.addr with
          | none => rw [hfv] at ih; cases ih
          | some v' => exact ⟨v', rfl⟩
        obtain ⟨v', hv'⟩ := hf'
        exact (endBlock_entry _ (h + k) (τ (h + k)) v.addr v' hv').1
          (by rw [isJailed_congr_vals _ _ bv]; exact ih)
      · have hfb : findVal (beginBlock (emptyBlocks s h τ k) (h + k)).vals v.addr = some v := by rw [bv]; exact i1
        rcases (endBlock_entry _ (h + k) (τ (h + k)) v.addr v hfb).2 with e | e
        · exact Or.inl e
        · right
          refine ⟨e, by rw [endBlock_alive, bal]; exact i2, ?_, unjailedAddrs (beginBlock (emptyBlocks s h τ k) (h + k)),
            endBlock_prev _ _ _, mem_unjailedAddrs_of_findVal _ v hfb hj⟩
          rw [grace_only_when_new _ (h + k) (τ (h + k)) l' v.addr (by rw [bpr]; exact i4) i5, bgr]
          exact i3
  have hstep : emptyBlocks s h τ (n + 1)
      = endBlock (beginBlock (emptyBlocks s h τ n) (h + n)) (h + n) (τ (h + n)) := rfl
  rw [hstep]
  obtain ⟨bv, bal, bgr, bpr⟩ := beginBlock_stores (emptyBlocks s h τ n) (h + n)
  rcases inv n with ih | ⟨i1, i2, i3, l', i4, i5⟩
  · left
    unfold isJailed at ih
    cases hfv : findVal (emptyBlocks s h τ n).vals v.addr with
    | none => rw [hfv] at ih; cases ih
    | some v' =>
      exact (endBlock_entry _ (h + n) (τ (h + n)) v.addr v' (by rw [bv]; exact hfv)).1
        (by rw [isJailed_congr_vals _ _ bv]; unfold isJailed; exact ih)
  · have hfb : findVal (beginBlock (emptyBlocks s h τ n) (h + n)).vals v.addr = some v := by rw [bv]; exact i1
    apply inactive_jailed_at_next_sweep _ (h + n) (τ (h + n)) v hsweep hfb hj hst
    · rw [isAlive_congr s _ (bal.trans i2)]
      exact hexp (h + n) (by omega)
    · rw [inGrace_after_update _ (h + n) l' v.addr (by rw [bpr]; exact i4) i5]
      unfold inGrace at hgr ⊢
      rw [bgr, i3]
      exact hgr

/-- **alive_never_jailed_for_inactivity.** An end block never changes the jailed flag of a validator
whose keep-alive has not expired (`height < AliveUntilBlockHeight`). -/
theorem alive_never_jailed_for_inactivity (s : St) (h t : Int) (a : Addr)
    (hal : isAlive s a h = true) :
    isJailed (endBlock s h t) a = isJailed s a := by
  unfold endBlock
  split
  · unfold sweep
    rw [foldl_isJailed_skip h t _ (updateGrace s h) a (Or.inl hal)]
    rfl
  · rfl

/-- a validator inside its grace period is not jailed by the end block either -/
theorem grace_never_jailed (s : St) (h t : Int) (a : Addr)
    (hgr : inGrace (updateGrace s h) a h = true) :
    isJailed (endBlock s h t) a = isJailed s a := by
  unfold endBlock
  split
  · unfold sweep
    rw [foldl_isJailed_skip h t _ (updateGrace s h) a (Or.inr hgr)]
    rfl
  · rfl

/-- outside the sweep heights (`h ≤ 50` or `h % 10 ≠ 0`) the end block jails nobody -/
theorem no_jail_off_sweep (s : St) (h t : Int) (hs : isSweepHeight h = false) :
    (endBlock s h t).vals = s.vals := by
  unfold endBlock
  simp [hs, updateGrace]

/-- **old_version_refused.** A keep-alive from a relayer older than the minimum required version
is refused and changes nothing (step level; both directions of the acceptance test:
`keepAlive_result`; over histories: `old_version_refused_forever`, `older_than_default_refused`). -/
theorem old_version_refused (s : St) (h : Int) (a : Addr) (ver : Ver)
    (hold : vlt ver s.minVersion = true) : keepAlive s h a ver = (s, .rejected) := by
  unfold keepAlive
  split
  · rfl
  · rfl

/-- a version string that is not a semantic version is older than every valid minimum -/
theorem invalid_version_refused (s : St) (h : Int) (a : Addr) (ver : Ver)
    (hmin : vvalid s.minVersion = true) (hbad : vvalid ver = false) :
    keepAlive s h a ver = (s, .rejected) :=
  old_version_refused s h a ver (vlt_of_invalid_valid ver s.minVersion hbad hmin)

/-- an accepted keep-alive of a known validator is valid for exactly 2000 blocks -/
theorem keepAlive_accepted (s : St) (h : Int) (a : Addr) (ver : Ver) (v : Val)
    (hf : findVal s.vals a = some v) (hver : vlt ver s.minVersion = false) :
    (keepAlive s h a ver).2 = .ok ∧ (keepAlive s h a ver).1.alive.get a = some (h + 2000) ∧
      ∀ k, isAlive (keepAlive s h a ver).1 a k = decide (k < h + 2000) := by
  have hk : keepAlive s h a ver = ({ s with alive := s.alive.set a (h + keepAliveTTL) }, .ok) := by
    simp [keepAlive, hf, hver]
  rw [hk]
  refine ⟨rfl, by simp [Map.get_set, keepAliveTTL], ?_⟩
  intro k
  simp [isAlive, Map.get_set, keepAliveTTL]

/-- **min_version_monotone.** In every history the minimum version never decreases (in the order
of `semver.Compare`): every write goes through the `Compare(new, current) < 0` refusal. -/
theorem min_version_monotone (s : St) (ops : List Op) : vle s.minVersion (run s ops).minVersion := by
  induction ops generalizing s with
  | nil => exact vle_refl _
  | cons op rest ih =>
    show vle s.minVersion (run (apply s op) rest).minVersion
    refine vle_trans _ _ _ ?_ (ih (apply s op))
    rcases apply_minVersion s op with h | h
    · rw [h]; exact vle_refl _
    · exact h

/-- the minimum version is a valid semantic version in every history (so that an invalid version
string is always refused), and never below the built-in default `v1.11.3` -/
theorem min_version_valid (ops : List Op) :
    vvalid (run St.init ops).minVersion = true ∧ vle defaultMinVersion (run St.init ops).minVersion := by
  refine ⟨?_, min_version_monotone St.init ops⟩
  have hm := min_version_monotone St.init ops
  cases hv : vvalid (run St.init ops).minVersion with
  | true => rfl
  | false =>
    have := vlt_of_invalid_valid _ defaultMinVersion hv (by decide)
    unfold vle at hm
    rw [show St.init.minVersion = defaultMinVersion from rfl] at hm
    rw [hm] at this
    cases this

/-- what an operation can do to the pigeon requirements: nothing, an accepted immediate change
(which clears the schedule), or an accepted scheduling -/
theorem apply_requirements (s : St) (op : Op) :
    ((apply s op).minVersion = s.minVersion ∧ (apply s op).scheduled = s.scheduled) ∨
    (vlt (apply s op).minVersion s.minVersion = false ∧ (apply s op).scheduled = none) ∨
    (∃ v n, vlt v s.minVersion = false ∧ (apply s op).minVersion = s.minVersion ∧
      (apply s op).scheduled = some (v, n)) := by
  have hset : ∀ v, ((setMinVersion s v).1.minVersion = s.minVersion ∧ (setMinVersion s v).1.scheduled = s.scheduled) ∨
      (vlt (setMinVersion s v).1.minVersion s.minVersion = false ∧ (setMinVersion s v).1.scheduled = none) := by
    intro v
    unfold setMinVersion
    cases h : vlt v s.minVersion with
    | true => left; simp
    | false => right; simp [h]
  have hsch : ∀ v n, ((scheduleMinVersion s v n).1.minVersion = s.minVersion ∧ (scheduleMinVersion s v n).1.scheduled = s.scheduled) ∨
      (∃ v' n', vlt v' s.minVersion = false ∧ (scheduleMinVersion s v n).1.minVersion = s.minVersion ∧
        (scheduleMinVersion s v n).1.scheduled = some (v', n')) := by
    intro v n
    unfold scheduleMinVersion
    cases h : vlt v s.minVersion with
    | true => left; simp
    | false => right; exact ⟨v, n, h, by simp, by simp⟩
  cases op with
  | addVal v => left; simp only [apply, addVal]; split <;> exact ⟨rfl, rfl⟩
  | setStatus a st => left; simp only [apply, setStatus]; split <;> exact ⟨rfl, rfl⟩
  | setPower a p => left; simp only [apply, setPower]; split <;> exact ⟨rfl, rfl⟩
  | extJail a => left; simp only [apply, extJail]; split <;> exact ⟨rfl, rfl⟩
  | extUnjail a => left; simp only [apply, extUnjail]; split <;> exact ⟨rfl, rfl⟩
  | unjail t a => left; exact ⟨(unjail_sameStores s t a).2.2.2.1, (unjail_sameStores s t a).2.2.2.2⟩
  | jail t a => left; exact ⟨(jail_sameStores s t a).2.2.2.1, (jail_sameStores s t a).2.2.2.2⟩
  | keepAlive h a ver =>
    left; simp only [apply, keepAlive]
    split
    · exact ⟨rfl, rfl⟩
    · split <;> exact ⟨rfl, rfl⟩
  | setMinVersion v =>
    simp only [apply]
    rcases hset v with h | h
    · exact Or.inl h
    · exact Or.inr (Or.inl h)
  | scheduleMinVersion v n =>
    simp only [apply]
    rcases hsch v n with h | h
    · exact Or.inl h
    · exact Or.inr (Or.inr h)
  | proposal h v n =>
    simp only [apply, proposal]
    split
    · rcases hset v with h | h
      · exact Or.inl h
      · exact Or.inr (Or.inl h)
    · rcases hsch v n with h | h
      · exact Or.inl h
      · exact Or.inr (Or.inr h)
  | beginBlock h =>
    simp only [apply, beginBlock]
    split
    · left; exact ⟨rfl, rfl⟩
    · rename_i v n _
      split
      · rcases hset v with h | h
        · exact Or.inl h
        · exact Or.inr (Or.inl h)
      · left; exact ⟨rfl, rfl⟩
  | endBlock h t =>
    left
    simp only [apply]
    exact ⟨(endBlock_sameStores s h t).2.2.2.1, (endBlock_sameStores s h t).2.2.2.2⟩

/-- a scheduled requirement is never lower than the current one, in every history: an immediate
change clears the schedule, so the begin block that applies a due schedule is never refused and
cannot lower the minimum -/
theorem scheduled_never_lower (ops : List Op) (v : Ver) (n : Nat)
    (h : (run St.init ops).scheduled = some (v, n)) :
    vlt v (run St.init ops).minVersion = false := by
  have inv : ∀ (ops : List Op) (s : St),
      (∀ v n, s.scheduled = some (v, n) → vlt v s.minVersion = false) →
      (∀ v n, (run s ops).scheduled = some (v, n) → vlt v (run s ops).minVersion = false) := by
    intro ops
    induction ops with
    | nil => intro s hs; exact hs
    | cons op rest ih =>
      intro s hs
      apply ih (apply s op)
      intro v n hv
      rcases apply_requirements s op with ⟨h1, h2⟩ | ⟨_, h2⟩ | ⟨v', n', h1, h2, h3⟩
      · rw [h1]; exact hs v n (by rw [← h2]; exact hv)
      · rw [h2] at hv; cases hv
      · rw [h3] at hv
        cases hv
        rw [h2]; exact h1
  exact inv ops St.init (by intro v n hv; cases hv) v n h

/-- a lower version is refused by every entry point (immediate, scheduled, proposal) -/
theorem lower_min_version_refused (s : St) (v : Ver) (h : Int) (n : Nat)
    (hlow : vlt v s.minVersion = true) :
    setMinVersion s v = (s, .rejected) ∧ scheduleMinVersion s v n = (s, .rejected) ∧
      proposal s h v n = (s, .rejected) := by
  refine ⟨by simp [setMinVersion, hlow], by simp [scheduleMinVersion, hlow], ?_⟩
  unfold proposal
  split <;> simp [setMinVersion, scheduleMinVersion, hlow]

/-- a version string that does not start with the byte `v` is not a semantic version for
`golang.org/x/mod/semver`, whatever follows (`2.1.0`, `V2.1.0`, ` v2.1.0`, `=v2.1.0`, the empty
string): it sorts below every valid version -/
theorem unprefixed_version_invalid (v : Ver) (h : v.head? ≠ some 118) : vvalid v = false := by
  unfold vvalid vkey
  cases v with
  | nil => rfl
  | cons c cs =>
    have hc : c.toNat ≠ 118 := by
      intro hc
      apply h
      have : c = 118 := UInt8.toNat_inj.mp (by simpa using hc)
      simp [this]
    simp only [List.map_cons]
    unfold vkeyNat
    split
    · rename_i r heq
      injection heq with h1 _
      exact absurd h1 hc
    · rfl

/-- **min_version_monotone, the invalid strings.** In every history a string that is not a semantic
version (in particular every string without the leading `v`, however high the number it spells) is
refused as a new minimum by every entry point — immediate, scheduled, governance proposal — and
nothing is stored. Together with `min_version_valid`: the stored minimum is always a real version. -/
theorem invalid_min_version_refused (ops : List Op) (v : Ver) (h : Int) (n : Nat)
    (hbad : vvalid v = false) :
    setMinVersion (run St.init ops) v = (run St.init ops, .rejected) ∧
    scheduleMinVersion (run St.init ops) v n = (run St.init ops, .rejected) ∧
    proposal (run St.init ops) h v n = (run St.init ops, .rejected) :=
  lower_min_version_refused (run St.init ops) v h n
    (vlt_of_invalid_valid v _ hbad (min_version_valid ops).1)

/-- why the stored minimum has to be a version: with an invalid string as the minimum the gate is
off — `semver.Compare` puts every string at or above it, so every keep-alive of a validator is
accepted whatever its version and every later minimum, however low, is accepted too -/
theorem invalid_minimum_voids_gate (s : St) (hbad : vvalid s.minVersion = false) :
    (∀ (h : Int) (a : Addr) (ver : Ver) (v : Val), findVal s.vals a = some v →
        (keepAlive s h a ver).2 = .ok) ∧
    (∀ v : Ver, setMinVersion s v = ({ s with minVersion := v, scheduled := none }, .ok)) := by
  have hk : vkey s.minVersion = [] := by
    unfold vvalid at hbad
    simpa using hbad
  have hnot : ∀ x : Ver, vlt x s.minVersion = false := by
    intro x
    unfold vlt
    rw [hk]
    cases vkey x <;> rfl
  refine ⟨?_, ?_⟩
  · intro h a ver v hf
    simp [keepAlive, hf, hnot ver]
  · intro v
    simp [setMinVersion, hnot v]

/-- a scheduled requirement is a valid version in every history -/
theorem scheduled_valid (ops : List Op) (v : Ver) (n : Nat)
    (h : (run St.init ops).scheduled = some (v, n)) : vvalid v = true := by
  cases hv : vvalid v with
  | true => rfl
  | false =>
    have h1 := scheduled_never_lower ops v n h
    have h2 := vlt_of_invalid_valid v _ hv (min_version_valid ops).1
    rw [h1] at h2
    cases h2

/-- `InitGenesis` is a history: when it does not panic, the state it leaves is the one reached by
the immediate change followed by the scheduling (so every history theorem covers a chain started
from, or re-imported with, any genesis state); when it panics nothing is kept. -/
theorem initGenesis_history (s : St) (cur : Option Ver) (sch : Option (Ver × Nat)) :
    ((initGenesis s cur sch).2 = .ok ∧ (initGenesis s cur sch).1 = run s (genesisOps cur sch)) ∨
    initGenesis s cur sch = (s, .rejected) := by
  have hcur : (genesisCur s cur).1 = run s (genesisOps cur none) := by
    cases cur <;> rfl
  have hsch : ∀ s' : St, (genesisSched s' sch).1 = run s' (genesisOps none sch) := by
    intro s'; cases sch <;> rfl
  have happ : genesisOps cur sch = genesisOps cur none ++ genesisOps none sch := by
    cases cur <;> cases sch <;> rfl
  unfold initGenesis
  split
  · right; rfl
  · split
    · right; rfl
    · left
      refine ⟨rfl, ?_⟩
      show (genesisSched (genesisCur s cur).1 sch).1 = _
      rw [hsch, hcur, happ, run_append]

/-- **genesis entries are held to the same rule.** In every history (a fresh store: `ops = []`, the
comparison is then against the built-in default) a genesis state whose current or scheduled
requirement is not a semantic version, or is lower than the minimum in force, makes `InitGenesis`
panic: nothing is stored. -/
theorem genesis_lower_or_invalid_refused (ops : List Op) (cur : Option Ver) (sch : Option (Ver × Nat))
    (hbad : (∃ v, cur = some v ∧ (vvalid v = false ∨ vlt v (run St.init ops).minVersion = true)) ∨
            (∃ v n, sch = some (v, n) ∧ (vvalid v = false ∨ vlt v (run St.init ops).minVersion = true))) :
    initGenesis (run St.init ops) cur sch = (run St.init ops, .rejected) := by
  have hlow : ∀ v, (vvalid v = false ∨ vlt v (run St.init ops).minVersion = true) →
      vlt v (run St.init ops).minVersion = true := by
    intro v hv
    rcases hv with hv | hv
    · exact vlt_of_invalid_valid v _ hv (min_version_valid ops).1
    · exact hv
  rcases hbad with ⟨v, rfl, hv⟩ | ⟨v, n, rfl, hv⟩
  · simp [initGenesis, genesisCur, setMinVersion, hlow v hv]
  · have h0 := hlow v hv
    -- the minimum after the current entry is at least the one before it
    have hcur : (genesisCur (run St.init ops) cur).1 = run (run St.init ops) (genesisOps cur none) := by
      cases cur <;> rfl
    have h1 : vlt v (genesisCur (run St.init ops) cur).1.minVersion = true := by
      rw [hcur]
      exact vlt_of_vlt_of_vle v _ _ h0 (min_version_monotone _ _)
    unfold initGenesis
    split
    · rfl
    · split
      · rfl
      · rename_i hne
        exfalso
        apply hne
        simp [genesisSched, scheduleMinVersion, h1]

/-- **sentence_schedule.** A successful `Jail` at time `t` records the sentence `nextSentence`,
jails until `t + sentence`, the sentence is one of the five fixed ones; it is the next longer one
when the previous jailing is younger than the reset threshold and the shortest one otherwise. -/
theorem sentence_schedule (s : St) (t : Int) (a : Addr) (hok : (jail s t a).2 = .ok) :
    (jail s t a).1.jailLog.get a
        = some { duration := nextSentence (s.jailLog.get a) t, jailedAt := t } ∧
    (jail s t a).1.jailedUntil.get a = some (t + nextSentence (s.jailLog.get a) t) ∧
    isJailed (jail s t a).1 a = true ∧
    nextSentence (s.jailLog.get a) t ∈ jailSentences ∧
    (∀ r, s.jailLog.get a = some r → t - r.jailedAt < resetThreshold r.duration →
        nextSentence (s.jailLog.get a) t = deriveSentence r.duration) ∧
    (∀ r, s.jailLog.get a = some r → ¬ (t - r.jailedAt < resetThreshold r.duration) →
        nextSentence (s.jailLog.get a) t = minute) ∧
    (s.jailLog.get a = none → 0 ≤ t → nextSentence (s.jailLog.get a) t = minute) := by
  rcases jail_cases s t a with h | ⟨vb, hf, _, _, h⟩
  · rw [h] at hok; cases hok
  · rw [h]
    refine ⟨by simp [jailed, Map.get_set], by simp [jailed, Map.get_set], ?_, nextSentence_mem _ _, ?_, ?_, ?_⟩
    · rw [isJailed_jailed]; simp [hf]
    · intro r hr hlt
      simp [nextSentence, hr, hlt]
    · intro r hr hge
      simp only [nextSentence, hr, Option.getD_some, hge, if_false]
      decide
    · intro hn ht
      simp only [nextSentence, hn, Option.getD_none]
      have : ¬ (t - zeroTime < resetThreshold minute) := by
        have : resetThreshold minute = 1800000000000 := by decide
        rw [this]
        simp only [zeroTime]
        omega
      simp only [this, if_false]
      decide

/-- the schedule itself (1 min, 5 min, 15 min, 1 h, 24 h, capped), as a loop over `jailSentences`,
and the reset thresholds `max(30 min, d + d/20)` for the five sentences -/
theorem sentence_steps :
    deriveSentence 0 = minute ∧ deriveSentence minute = 5 * minute ∧
    deriveSentence (5 * minute) = 15 * minute ∧ deriveSentence (15 * minute) = 60 * minute ∧
    deriveSentence (60 * minute) = 1440 * minute ∧ deriveSentence (1440 * minute) = 1440 * minute ∧
    resetThreshold minute = 30 * minute ∧ resetThreshold (5 * minute) = 30 * minute ∧
    resetThreshold (15 * minute) = 30 * minute ∧ resetThreshold (60 * minute) = 63 * minute ∧
    resetThreshold (1440 * minute) = 1512 * minute := by decide

/-- `deriveSentence` is the Go loop "first sentence strictly greater than `d`, else the last" -/
theorem deriveSentence_eq_loop (d : Int) : deriveSentence d = deriveSentenceLoop d := by
  unfold deriveSentence deriveSentenceLoop jailSentences
  by_cases h1 : d < minute
  · simp [List.find?, h1]
  · by_cases h2 : d < 5 * minute
    · simp [List.find?, h1, h2]
    · by_cases h3 : d < 15 * minute
      · simp [List.find?, h1, h2, h3]
      · by_cases h4 : d < 60 * minute
        · simp [List.find?, h1, h2, h3, h4]
        · by_cases h5 : d < 1440 * minute
          · simp [List.find?, h1, h2, h3, h4, h5]
          · simp [List.find?, h1, h2, h3, h4, h5]

/-- repeated jailings lengthen the sentence: strictly, until the cap of 24 h -/
theorem sentence_lengthens (d : Int) :
    d ≤ deriveSentence d ∨ deriveSentence d = 1440 * minute := by
  unfold deriveSentence minute
  split
  · left; omega
  · split
    · left; omega
    · split
      · left; omega
      · split
        · left; omega
        · right; rfl

theorem sentence_strictly_longer (d : Int) (h : d < 1440 * minute) : d < deriveSentence d := by
  unfold deriveSentence
  unfold minute at *
  split
  · omega
  · split
    · omega
    · split
      · omega
      · split <;> omega

/-- every sentence ever recorded, in every history, is one of the five fixed sentences -/
theorem sentences_in_schedule (ops : List Op) (a : Addr) (r : JailRec)
    (h : (run St.init ops).jailLog.get a = some r) : r.duration ∈ jailSentences := by
  have inv : ∀ (ops : List Op) (s : St),
      (∀ a r, s.jailLog.get a = some r → r.duration ∈ jailSentences) →
      (∀ a r, (run s ops).jailLog.get a = some r → r.duration ∈ jailSentences) := by
    intro ops
    induction ops with
    | nil => intro s hs; exact hs
    | cons op rest ih =>
      intro s hs
      apply ih (apply s op)
      have hjailed : ∀ (s : St) (t : Int) (b : Addr),
          (∀ a r, s.jailLog.get a = some r → r.duration ∈ jailSentences) →
          (∀ a r, (jailed s t b).jailLog.get a = some r → r.duration ∈ jailSentences) := by
        intro s t b hs a r hr
        simp only [jailed, Map.get_set] at hr
        split at hr
        · cases hr; exact nextSentence_mem _ _
        · exact hs a r hr
      have hjail : ∀ (s : St) (t : Int) (b : Addr),
          (∀ a r, s.jailLog.get a = some r → r.duration ∈ jailSentences) →
          (∀ a r, (jail s t b).1.jailLog.get a = some r → r.duration ∈ jailSentences) := by
        intro s t b hs
        rcases jail_cases s t b with h | ⟨_, _, _, _, h⟩
        · rw [h]; exact hs
        · rw [h]; exact hjailed s t b hs
      cases op with
      | addVal v => simp only [apply, addVal]; split <;> exact hs
      | setStatus a st => simp only [apply, setStatus]; split <;> exact hs
      | setPower a p => simp only [apply, setPower]; split <;> exact hs
      | extJail a => simp only [apply, extJail]; split <;> exact hs
      | extUnjail a => simp only [apply, extUnjail]; split <;> exact hs
      | unjail t a =>
        simp only [apply, unjail]
        split
        · exact hs
        · split
          · exact hs
          · split <;> exact hs
      | jail t a => exact hjail s t a hs
      | keepAlive h a ver =>
        simp only [apply, keepAlive]
        split
        · exact hs
        · split <;> exact hs
      | setMinVersion v => simp only [apply, setMinVersion]; split <;> exact hs
      | scheduleMinVersion v n => simp only [apply, scheduleMinVersion]; split <;> exact hs
      | proposal h v n =>
        simp only [apply, proposal, setMinVersion, scheduleMinVersion]
        split <;> split <;> exact hs
      | beginBlock h =>
        simp only [apply, beginBlock, setMinVersion]
        split
        · exact hs
        · split
          · split <;> exact hs
          · exact hs
      | endBlock h t =>
        simp only [apply, endBlock]
        have hfold : ∀ (l : List Val) (s : St),
            (∀ a r, s.jailLog.get a = some r → r.duration ∈ jailSentences) →
            (∀ a r, (l.foldl (sweepStep h t) s).jailLog.get a = some r → r.duration ∈ jailSentences) := by
          intro l
          induction l with
          | nil => intro s hs; exact hs
          | cons w ws ihl =>
            intro s hs
            apply ihl
            rcases sweepStep_cases h t s w with h1 | ⟨_, _, _, _, h1⟩
            · rw [h1]; exact hs
            · rw [h1]; exact hjailed s t _ hs
        split
        · exact hfold _ _ hs
        · exact hs
  exact inv ops St.init (by intro a r hr; cases hr) a r h

/-- the sentence is enforced: `MsgUnjail` before `jail time + sentence` is refused -/
theorem unjail_respects_sentence (s : St) (t t' : Int) (a : Addr) (hok : (jail s t a).2 = .ok)
    (hearly : t' < t + nextSentence (s.jailLog.get a) t) :
    unjail (jail s t a).1 t' a = ((jail s t a).1, .rejected) := by
  have hu := (sentence_schedule s t a hok).2.1
  unfold unjail
  split
  · rfl
  · split
    · rfl
    · simp [hu, hearly]

/-- **protected_not_jailed (`Jail`).** `Jail` refuses — and changes nothing — when exactly one
bonded unjailed validator exists or the target's consensus power exceeds 25 % of the bonded
unjailed power. -/
theorem protected_not_jailed (s : St) (t : Int) (a : Addr) (v : Val)
    (hf : findVal s.vals a = some v) (hp : protectedIn s.vals (consPower v) = true) :
    jail s t a = (s, .rejected) := by
  cases hj : v.jailed with
  | true => simp [jail, hf, hj]
  | false =>
    rcases jail_unjailed s t a v hf hj with h | h
    · exact h.2
    · rw [hp] at h; cases h.1

/-- **protected_not_jailed (sweep).** A validator shielded by the network-protection rules when
the end block starts is not jailed by it: the sweep only ever reduces the active power. -/
theorem protected_not_jailed_by_sweep (s : St) (h t : Int) (a : Addr) (v : Val)
    (hf : findVal s.vals a = some v) (hj : v.jailed = false)
    (hp : protectedIn s.vals (consPower v) = true) :
    isJailed (endBlock s h t) a = false := by
  have inv : ∀ (l : List Val) (s' : St),
      (isJailed s' a = false ∧ ∃ v', findVal s'.vals a = some v' ∧ protectedIn s'.vals (consPower v') = true) →
      isJailed (l.foldl (sweepStep h t) s') a = false := by
    intro l
    induction l with
    | nil => intro s' hs; exact hs.1
    | cons w ws ih =>
      intro s' ⟨hj', v', hv', hp'⟩
      apply ih
      rcases sweepStep_cases h t s' w with h1 | ⟨vb, hfb, _, hpb, h1⟩
      · rw [h1]; exact ⟨hj', v', hv', hp'⟩
      · rw [h1]
        by_cases hwa : a = w.addr
        · subst hwa
          rw [hfb] at hv'; cases hv'
          rw [hpb] at hp'; cases hp'
        · refine ⟨by rw [isJailed_jailed, hj']; simp [hwa], v', ?_, ?_⟩
          · rw [findVal_jailed_other s' t a w.addr hwa]; exact hv'
          · rcases (protectedIn_iff _ _).1 hp' with h2 | h2
            · have : protectedIn s'.vals (consPower vb) = true := (protectedIn_iff _ _).2 (Or.inl h2)
              rw [hpb] at this; cases this
            · have := activeTotal_jailed_le s' t w.addr
              exact (protectedIn_iff _ _).2 (Or.inr (by omega))
  unfold endBlock
  split
  · exact inv _ (updateGrace s h) ⟨by rw [isJailed_of_findVal (updateGrace s h) a v hf]; exact hj, v, hf, hp⟩
  · show isJailed (updateGrace s h) a = false
    rw [isJailed_of_findVal (updateGrace s h) a v hf]; exact hj

/-- with a single active validator the sweep jails nobody at all -/
theorem last_validator_blocks_sweep (s : St) (h t : Int) (hc : activeCount s.vals = 1) :
    (endBlock s h t).vals = s.vals := by
  have inv : ∀ (l : List Val) (s' : St), activeCount s'.vals = 1 →
      (l.foldl (sweepStep h t) s').vals = s'.vals := by
    intro l
    induction l with
    | nil => intro s' _; rfl
    | cons w ws ih =>
      intro s' hc'
      have hstep : sweepStep h t s' w = s' := by
        rcases sweepStep_cases h t s' w with h1 | ⟨vb, _, _, hpb, _⟩
        · exact h1
        · have : protectedIn s'.vals (consPower vb) = true := (protectedIn_iff _ _).2 (Or.inl hc')
          rw [hpb] at this; cases this
      simp only [List.foldl_cons, hstep]
      exact ih s' hc'
  unfold endBlock
  split
  · exact inv _ (updateGrace s h) hc
  · rfl

/-- **known finding `C12-last-validator-global` (code as it is), step level.** The "last validator"
rule of `Jail` is global: while exactly
one bonded unjailed validator exists, `Jail` refuses EVERY target, also an unbonding validator
that is not that last active one. (The 25 % rule, in contrast, never shields a validator that is
not bonded: its consensus power counts as 0.) This REFUTES the liveness clause as written:
`liveness_as_written_false`, with a witness history from `St.init` (`fourth_disjunct_reachable`). -/
theorem last_validator_rule_is_global (s : St) (t : Int) (a : Addr)
    (hc : activeCount s.vals = 1) : jail s t a = (s, .rejected) := by
  cases hf : findVal s.vals a with
  | none => simp [jail, hf]
  | some v => exact protected_not_jailed s t a v hf ((protectedIn_iff _ _).2 (Or.inl hc))

theorem quarter_rule_ignores_not_bonded (s : St) (v : Val) (h : v.status ≠ .bonded) :
    protectedIn s.vals (consPower v) = true ↔ activeCount s.vals = 1 := by
  have : consPower v = 0 := by simp [consPower, h]
  rw [protectedIn_iff, this]
  simp


/-! ## History-level theorems -/

/-- **liveness, exact, over histories.** In every well-formed block history (arbitrary interleaved
transactions, stake changes, jailings and unjailings) that reaches a sweep height with a validator
that is `Due`, the end block jails it iff it is not shielded by `Jail`'s rules in the state the
sweep has reached when it is that validator's turn, i.e. after the jailings of the entries `l1`
that precede it in store order. -/
theorem inactive_jailed_history_exact (h0 : Int) (ops : List Op) (h t : Int) (v : Val)
    (hd : Due h0 ops h v) :
    ∃ l1 l2, unjailedVals (run St.init ops) = l1 ++ v :: l2 ∧
      findVal (sweepAt (run St.init ops) h t l1).vals v.addr = some v ∧
      isJailed (run St.init (ops ++ [.endBlock h t])) v.addr
        = !protectedIn (sweepAt (run St.init ops) h t l1).vals (consPower v) := by
  obtain ⟨hw, hh, hs, hf, hj, hst, hka, hlong, hun⟩ := hd
  have hmem : v ∈ unjailedVals (run St.init ops) := by
    unfold unjailedVals
    exact List.mem_filter.2 ⟨findVal_mem _ _ _ hf, by simp [hj]⟩
  obtain ⟨l1, l2, hsplit⟩ := List.append_of_mem hmem
  refine ⟨l1, l2, hsplit, ?_⟩
  have hal := isAlive_false_of_history h0 v.addr ops h hw hka
  subst hh
  have hgr := inGrace_false_of_history h0 v.addr ops hw hlong hun
  rw [run_endBlock_sweep ops _ t hs]
  exact sweep_exact _ _ t l1 l2 v (nodup_init ops) hsplit hst hal hgr

/-- **the turn is unique.** The split `l1 ++ v :: l2` of `inactive_jailed_history_exact` (and of
every theorem below that is stated "∃ l1 l2") is unique: the staking view has one entry per address
in every reachable state, so `l1` is THE list of unjailed entries the sweep visits before `v`. -/
theorem sweep_turn_unique (ops : List Op) (v : Val) (l1 l2 l1' l2' : List Val)
    (e : unjailedVals (run St.init ops) = l1 ++ v :: l2)
    (e' : unjailedVals (run St.init ops) = l1' ++ v :: l2') : l1 = l1' ∧ l2 = l2' := by
  have hnd : (addrsOf (unjailedVals (run St.init ops))).Nodup :=
    List.Nodup.sublist (List.Sublist.map _ List.filter_sublist) (nodup_init ops)
  rw [e] at hnd
  exact split_unique_of_nodup (fun w : Val => w.addr) v l1 l1' l2 l2' hnd (e.symm.trans e')


/-- **liveness with the exception split into its four parts.** A `Due` validator is, after the end
block, jailed — or it holds more than 25 % of the bonded power (at its turn in the sweep) — or it
is the last active validator — or (FOURTH disjunct, not in the property text: known finding
`C12-last-validator-global`) exactly one OTHER validator is active and `v` is an unbonding one:
`Jail`'s `count == 1` test does not look at the target. -/
theorem inactive_jailed_history (h0 : Int) (ops : List Op) (h t : Int) (v : Val)
    (hd : Due h0 ops h v) :
    ∃ l1 l2, unjailedVals (run St.init ops) = l1 ++ v :: l2 ∧
      (isJailed (run St.init (ops ++ [.endBlock h t])) v.addr = true ∨
       4 * consPower v > activeTotal (sweepAt (run St.init ops) h t l1).vals ∨
       (activeCount (sweepAt (run St.init ops) h t l1).vals = 1 ∧ isActive v = true) ∨
       (activeCount (sweepAt (run St.init ops) h t l1).vals = 1 ∧ isActive v = false ∧
          v.status = .unbonding)) := by
  obtain ⟨l1, l2, hsplit, _, hex⟩ := inactive_jailed_history_exact h0 ops h t v hd
  refine ⟨l1, l2, hsplit, ?_⟩
  cases hp : protectedIn (sweepAt (run St.init ops) h t l1).vals (consPower v) with
  | false => left; rw [hex, hp]; rfl
  | true =>
    right
    rcases (protectedIn_iff _ _).1 hp with hc | hq
    · right
      cases ha : isActive v with
      | true => exact Or.inl ⟨hc, rfl⟩
      | false => exact Or.inr ⟨hc, rfl, unbonding_of_not_active v hd.2.2.2.2.1 hd.2.2.2.2.2.1 ha⟩
    · exact Or.inl hq

/-- the same in terms of the state AFTER the end block only (weaker: the sweep only lowers the
active power, so being shielded at one's turn implies being shielded in the resulting state) -/
theorem inactive_jailed_history_post (h0 : Int) (ops : List Op) (h t : Int) (v : Val)
    (hd : Due h0 ops h v) :
    isJailed (run St.init (ops ++ [.endBlock h t])) v.addr = true ∨
    4 * consPower v > activeTotal (run St.init (ops ++ [.endBlock h t])).vals ∨
    (activeCount (run St.init (ops ++ [.endBlock h t])).vals = 1 ∧ isActive v = true) ∨
    (activeCount (run St.init (ops ++ [.endBlock h t])).vals = 1 ∧ isActive v = false ∧
      v.status = .unbonding) := by
  obtain ⟨l1, l2, hsplit, _, hex⟩ := inactive_jailed_history_exact h0 ops h t v hd
  cases hp : protectedIn (sweepAt (run St.init ops) h t l1).vals (consPower v) with
  | false => left; rw [hex, hp]; rfl
  | true =>
    right
    have hpost : protectedIn (run St.init (ops ++ [.endBlock h t])).vals (consPower v) = true := by
      rw [run_endBlock_sweep ops h t hd.2.2.1, sweep_split _ h t l1 l2 v hsplit]
      exact protected_mono_foldl h t _ _ _ hp
    rcases (protectedIn_iff _ _).1 hpost with hc | hq
    · right
      cases ha : isActive v with
      | true => exact Or.inl ⟨hc, rfl⟩
      | false => exact Or.inr ⟨hc, rfl, unbonding_of_not_active v hd.2.2.2.2.1 hd.2.2.2.2.2.1 ha⟩
    · exact Or.inl hq


/-! ### what the history functions mean -/

/-- `hk ∈ acceptedKA a ops`: the history contains a keep-alive for `a` at height `hk` that was
ACCEPTED in the state reached by the operations before it -/
theorem mem_acceptedKA_iff (a : Addr) (ops : List Op) (hk : Int) :
    hk ∈ acceptedKA a ops ↔ ∃ pre ver post, ops = pre ++ .keepAlive hk a ver :: post ∧
      (keepAlive (run St.init pre) hk a ver).2 = .ok := by
  unfold acceptedKA
  rw [mem_collect_iff]
  constructor
  · rintro ⟨pre, op, post, e, hm⟩
    cases op with
    | keepAlive h b ver =>
      simp only [kaOf] at hm
      split at hm
      · rename_i hc
        simp only [List.mem_singleton] at hm
        obtain ⟨rfl, hacc⟩ := hc
        subst hm
        exact ⟨pre, ver, post, e, hacc⟩
      · cases hm
    | _ => simp [kaOf] at hm
  · rintro ⟨pre, ver, post, e, hacc⟩
    exact ⟨pre, _, post, e, by simp [kaOf, hacc]⟩

/-- `(g, t, sg) ∈ endBlocks ops`: the history contains `endBlock g t`, executed in state `sg` -/
theorem mem_endBlocks_iff (ops : List Op) (g t : Int) (sg : St) :
    (g, t, sg) ∈ endBlocks ops ↔ ∃ pre post, ops = pre ++ .endBlock g t :: post ∧ sg = run St.init pre := by
  unfold endBlocks
  rw [mem_collect_iff]
  constructor
  · rintro ⟨pre, op, post, e, hm⟩
    cases op with
    | endBlock h t' =>
      simp only [ebOf, List.mem_singleton, Prod.mk.injEq] at hm
      obtain ⟨rfl, rfl, rfl⟩ := hm
      exact ⟨pre, post, e, rfl⟩
    | _ => simp [ebOf] at hm
  · rintro ⟨pre, post, e, rfl⟩
    exact ⟨pre, _, post, e, by simp [ebOf]⟩

/-- `t ∈ jailTimes a s ops`: the history contains a direct `Jail` of `a` at time `t` that went
through, or an end block with time `t` whose sweep turned `a`'s jailed flag from false to true -/
theorem mem_jailTimes_iff (a : Addr) (s : St) (ops : List Op) (t : Int) :
    t ∈ jailTimes a s ops ↔
      (∃ pre post, ops = pre ++ .jail t a :: post ∧ (jail (run s pre) t a).2 = .ok) ∨
      (∃ pre h post, ops = pre ++ .endBlock h t :: post ∧ isJailed (run s pre) a = false ∧
        isJailed (run s (pre ++ [.endBlock h t])) a = true) := by
  unfold jailTimes
  rw [mem_collect_iff]
  constructor
  · rintro ⟨pre, op, post, e, hm⟩
    cases op with
    | jail t' b =>
      simp only [jailOf] at hm
      split at hm
      · rename_i hc
        simp only [List.mem_singleton] at hm
        obtain ⟨rfl, hok⟩ := hc
        subst hm
        exact Or.inl ⟨pre, post, e, hok⟩
      · cases hm
    | endBlock h t' =>
      simp only [jailOf] at hm
      split at hm
      · rename_i hc
        simp only [List.mem_singleton] at hm
        subst hm
        exact Or.inr ⟨pre, h, post, e, hc.1, by rw [run_snoc]; exact hc.2⟩
      · cases hm
    | _ => simp [jailOf] at hm
  · rintro (⟨pre, post, e, hok⟩ | ⟨pre, h, post, e, h1, h2⟩)
    · exact ⟨pre, _, post, e, by simp [jailOf, hok]⟩
    · refine ⟨pre, _, post, e, ?_⟩
      rw [run_snoc] at h2
      simp only [jailOf]
      rw [if_pos ⟨h1, h2⟩]
      simp

/-! ### the liveness clause as written is false; the fourth disjunct is reachable -/

/-- **the known finding, as a theorem from `St.init`, with a keep-alive that really EXPIRED.**
There is a well-formed history from the initial state — two validators, one bonded, one unbonding;
BOTH send an accepted keep-alive in block 1; the bonded one renews it in block 1500, the unbonding
one falls silent; blocks 1 … 2009 and the begin of block 2010 — after which the unbonding validator
has a non-empty list of accepted keep-alives, all of them older than the lifetime (1 + 2000 ≤ 2010),
is `Due` at the sweep of height 2010, is NOT jailed, holds no bonded power at all and is not an
active validator: only the fourth disjunct of `inactive_jailed_history` holds. (`Jail` refuses
because `count == 1`, whoever the target is. Reproduced on the real implementation by the harness:
monitor `inactive_jailed`, `last-validator-global`, known finding `C12-last-validator-global`.) -/
theorem fourth_disjunct_reachable :
    ∃ ops h t v, Due 1 ops h v ∧
      acceptedKA v.addr ops ≠ [] ∧ (∀ hk ∈ acceptedKA v.addr ops, hk + keepAliveTTL ≤ h) ∧
      isJailed (run St.init (ops ++ [.endBlock h t])) v.addr = false ∧
      ¬ (4 * consPower v > activeTotal (run St.init (ops ++ [.endBlock h t])).vals) ∧
      isActive v = false ∧
      activeCount (run St.init (ops ++ [.endBlock h t])).vals = 1 ∧ v.status = .unbonding ∧
      (run St.init (ops ++ [.endBlock h t])).vals = (run St.init ops).vals :=
  ⟨lvgLong, 2010, 2010000, lvgVal, lvgLong_due.1, by rw [lvgLong_due.2]; simp,
    lvgLong_due.1.2.2.2.2.2.2.1, lvgLong_outcome.1, lvgLong_outcome.2.1, by decide,
    lvgLong_outcome.2.2.1, rfl, lvgLong_outcome.2.2.2⟩


/-- **the known finding, shortest witness (60 blocks; the validator never sent a keep-alive, so
"not for longer than the lifetime" holds over the empty list — see `fourth_disjunct_reachable` for
a witness whose keep-alive really expired).** There is a well-formed history from the
initial state — two validators, one bonded and kept alive, one unbonding and silent, blocks 1 … 60 —
after which the silent unbonding validator is `Due` at the sweep of height 60, is NOT jailed, holds
no bonded power at all and is not an active validator: only the fourth disjunct of
`inactive_jailed_history` holds. (`Jail` refuses because `count == 1`, whoever the target is.
Reproduced on the real implementation by the harness: monitor `inactive_jailed`,
`last-validator-global`, known finding `C12-last-validator-global`.) -/
theorem fourth_disjunct_reachable_silent :
    ∃ ops h t v, Due 1 ops h v ∧
      isJailed (run St.init (ops ++ [.endBlock h t])) v.addr = false ∧
      ¬ (4 * consPower v > activeTotal (run St.init (ops ++ [.endBlock h t])).vals) ∧
      isActive v = false ∧
      activeCount (run St.init (ops ++ [.endBlock h t])).vals = 1 ∧ v.status = .unbonding ∧
      (run St.init (ops ++ [.endBlock h t])).vals = (run St.init ops).vals :=
  ⟨lvgHistory, 60, 60000, lvgVal, lvg_due, lvg_outcome.1, lvg_outcome.2.1, lvg_outcome.2.2.2.1,
    lvg_outcome.2.2.1, lvg_outcome.2.2.2.2.1, lvg_outcome.2.2.2.2.2⟩

/-- **the liveness clause exactly as the property states it is FALSE** (for the model, and — known
finding — for the code), even when restricted to validators whose relayer DID send an accepted
keep-alive that has since expired: "every due validator is jailed at the next sweep unless it holds
more than 25 % of the bonded power or is the last active validator". The full-strength statement is
kept here in negated form; `inactive_jailed_history` is the true statement with the explicit extra
disjunct. -/
theorem liveness_as_written_false :
    ¬ (∀ (h0 : Int) (ops : List Op) (h t : Int) (v : Val), Due h0 ops h v →
        acceptedKA v.addr ops ≠ [] →
        isJailed (run St.init (ops ++ [.endBlock h t])) v.addr = true ∨
        4 * consPower v > activeTotal (run St.init (ops ++ [.endBlock h t])).vals ∨
        (activeCount (run St.init (ops ++ [.endBlock h t])).vals = 1 ∧ isActive v = true)) := by
  intro hall
  rcases hall 1 lvgLong 2010 2010000 lvgVal lvgLong_due.1 (by rw [lvgLong_due.2]; simp) with h | h | h
  · rw [lvgLong_outcome.1] at h; cases h
  · exact lvgLong_outcome.2.1 h
  · have : isActive lvgVal = false := by decide
    rw [this] at h; cases h.2


/-- the same without the restriction to validators that ever sent a keep-alive (weaker negation, kept
from the previous version; witness: the 60-block history). **The liveness clause exactly as the property states it is FALSE** (for the model, and — known
finding — for the code): "every due validator is jailed at the next sweep unless it holds more than
25 % of the bonded power or is the last active validator". The full-strength statement is kept here
in negated form; `inactive_jailed_history` is the true statement with the explicit extra disjunct. -/
theorem liveness_as_written_false_plain :
    ¬ (∀ (h0 : Int) (ops : List Op) (h t : Int) (v : Val), Due h0 ops h v →
        isJailed (run St.init (ops ++ [.endBlock h t])) v.addr = true ∨
        4 * consPower v > activeTotal (run St.init (ops ++ [.endBlock h t])).vals ∨
        (activeCount (run St.init (ops ++ [.endBlock h t])).vals = 1 ∧ isActive v = true)) := by
  intro hall
  rcases hall 1 lvgHistory 60 60000 lvgVal lvg_due with h | h | h
  · rw [lvg_outcome.1] at h; cases h
  · exact lvg_outcome.2.1 h
  · rw [lvg_outcome.2.2.2.1] at h; cases h.2

/-- the fourth disjunct needs exactly this constellation: with at least two active validators at
its turn, a due validator that holds no more than 25 % is jailed (so the clause as written holds
whenever the sweep sees `count ≠ 1`) -/
theorem inactive_jailed_history_two_active (h0 : Int) (ops : List Op) (h t : Int) (v : Val)
    (hd : Due h0 ops h v) :
    ∃ l1 l2, unjailedVals (run St.init ops) = l1 ++ v :: l2 ∧
      (activeCount (sweepAt (run St.init ops) h t l1).vals ≠ 1 →
        ¬ (4 * consPower v > activeTotal (sweepAt (run St.init ops) h t l1).vals) →
        isJailed (run St.init (ops ++ [.endBlock h t])) v.addr = true) := by
  obtain ⟨l1, l2, hsplit, hor⟩ := inactive_jailed_history h0 ops h t v hd
  refine ⟨l1, l2, hsplit, fun hc hq => ?_⟩
  rcases hor with h1 | h1 | h1 | h1
  · exact h1
  · exact absurd h1 hq
  · exact absurd h1.1 hc
  · exact absurd h1.1 hc

/-! ### keep-alive store: provenance, and the safety clause over histories -/

/-- **provenance of the keep-alive store.** After any well-formed history the stored
`AliveUntilBlockHeight` of `a` is `hk + 2000` for an ACCEPTED keep-alive op of the history at height
`hk`, and it is at least `hk' + 2000` for every accepted keep-alive of the history. -/
theorem alive_provenance (h0 : Int) (a : Addr) (ops : List Op) (hw : wf h0 ops = true) :
    (∀ u, (run St.init ops).alive.get a = some u → ∃ hk ∈ acceptedKA a ops, u = hk + keepAliveTTL) ∧
    (∀ hk ∈ acceptedKA a ops, ∃ u, (run St.init ops).alive.get a = some u ∧ hk + keepAliveTTL ≤ u) ∧
    (∀ hk ∈ acceptedKA a ops, hk ≤ heightAfter h0 ops) :=
  ⟨(aliveInv h0 a ops hw).prov, (aliveInv h0 a ops hw).latest, (aliveInv h0 a ops hw).ka_le⟩

/-- "has an unexpired keep-alive", in terms of the history only -/
theorem alive_iff_history (h0 : Int) (a : Addr) (ops : List Op) (h : Int) (hw : wf h0 ops = true) :
    isAlive (run St.init ops) a h = true ↔ ∃ hk ∈ acceptedKA a ops, h < hk + keepAliveTTL := by
  obtain ⟨_, i2, i3⟩ := aliveInv h0 a ops hw
  unfold isAlive
  constructor
  · intro hal
    cases hg : (run St.init ops).alive.get a with
    | none => rw [hg] at hal; cases hal
    | some u =>
      rw [hg] at hal
      obtain ⟨hk, hm, hu⟩ := i2 u hg
      exact ⟨hk, hm, by have := of_decide_eq_true hal; omega⟩
  · rintro ⟨hk, hm, hlt⟩
    obtain ⟨u, hu, hle⟩ := i3 hk hm
    rw [hu]
    exact decide_eq_true (by omega)

/-- **alive_never_jailed, over histories.** In every well-formed block history: if the history
contains an accepted keep-alive for `a` at a height `hk` with `h < hk + 2000`, the end block of
height `h` does not change `a`'s jailed flag — whatever else happened. -/
theorem alive_never_jailed_history (h0 : Int) (a : Addr) (ops : List Op) (h t hk : Int)
    (hw : wf h0 (ops ++ [.endBlock h t]) = true)
    (hm : hk ∈ acceptedKA a ops) (hlt : h < hk + keepAliveTTL) :
    isJailed (run St.init (ops ++ [.endBlock h t])) a = isJailed (run St.init ops) a := by
  rw [wf_snoc, Bool.and_eq_true] at hw
  rw [run_snoc]
  exact alive_never_jailed_for_inactivity _ h t a
    ((alive_iff_history h0 a ops h hw.1).2 ⟨hk, hm, hlt⟩)

/-- **jail provenance for end blocks.** If an end block of a well-formed history turns `a`'s jailed
flag on, then it is a sweep height, every accepted keep-alive of the history for `a` is at least 2000
blocks old, and `a` is not in a grace period. -/
theorem jailed_by_endBlock_only_if (h0 : Int) (a : Addr) (ops : List Op) (h t : Int)
    (hw : wf h0 (ops ++ [.endBlock h t]) = true)
    (hbefore : isJailed (run St.init ops) a = false)
    (hafter : isJailed (run St.init (ops ++ [.endBlock h t])) a = true) :
    isSweepHeight h = true ∧ (∀ hk ∈ acceptedKA a ops, hk + keepAliveTTL ≤ h) ∧
    inGrace (updateGrace (run St.init ops) h) a h = false := by
  have hw' := hw
  rw [wf_snoc, Bool.and_eq_true] at hw'
  rw [run_snoc] at hafter
  refine ⟨?_, ?_, ?_⟩
  · cases hs : isSweepHeight h with
    | true => rfl
    | false =>
      have := no_jail_off_sweep (run St.init ops) h t hs
      simp only [apply] at hafter
      rw [isJailed_congr_vals _ _ this, hbefore] at hafter
      cases hafter
  · intro hk hm
    by_cases hlt : h < hk + keepAliveTTL
    · have := alive_never_jailed_history h0 a ops h t hk hw hm hlt
      rw [run_snoc, hafter, hbefore] at this
      cases this
    · omega
  · cases hg : inGrace (updateGrace (run St.init ops) h) a h with
    | false => rfl
    | true =>
      have := grace_never_jailed (run St.init ops) h t a hg
      simp only [apply] at hafter
      rw [hafter, hbefore] at this
      cases this

/-! ### snapshot and grace stores: provenance -/

/-- **provenance of the stored snapshot.** After a well-formed history the snapshot is absent iff
no end block has run, and otherwise it is the hex encoding of the validators that were unjailed when
the end block of the previous height ran. (The legacy format can not arise from `St.init`.) -/
theorem prev_provenance (h0 : Int) (ops : List Op) (hw : wf h0 ops = true) :
    (heightAfter h0 ops = h0 → (run St.init ops).prev = none) ∧
    (∀ e ∈ endBlocks ops, e.1 + 1 = heightAfter h0 ops →
      (run St.init ops).prev = some (encodeSet (unjailedAddrs e.2.2))) ∧
    (∀ g, h0 ≤ g → g < heightAfter h0 ops → ∃ e ∈ endBlocks ops, e.1 = g) ∧
    (∀ e ∈ endBlocks ops, h0 ≤ e.1 ∧ e.1 < heightAfter h0 ops) :=
  ⟨(graceInv h0 [] ops hw).prev_none, (graceInv h0 [] ops hw).prev_prov,
   (graceInv h0 [] ops hw).eb_exists, (graceInv h0 [] ops hw).eb_range⟩

/-- **provenance of the grace store.** A grace record `g` of `a` after a well-formed history means:
the end block of height `g` is in the history and `a` was unjailed when it ran, and `a` was NOT
unjailed (or not a validator) when the end block of height `g - 1` ran, if there was one — "it became
unjailed at height `g`". -/
theorem grace_provenance (h0 : Int) (a : Addr) (ops : List Op) (hw : wf h0 ops = true) (g : Int)
    (hg : (run St.init ops).grace.get a = some g) :
    (∃ e ∈ endBlocks ops, e.1 = g ∧ a ∈ unjailedAddrs e.2.2) ∧
    (∀ e ∈ endBlocks ops, e.1 + 1 = g → a ∉ unjailedAddrs e.2.2) :=
  (graceInv h0 a ops hw).grace_prov g hg

/-- **the grace exception, over histories (converse of the grace hypothesis of `Due`).** If `a`
(not the empty address) was unjailed when some end block of height `g ≥ h - 30` of the history ran —
possibly the end block of `h` itself — and was not unjailed when the end block of `g - 1` ran (or there
was none), then the end block of height `h` does not change its jailed flag. -/
theorem became_unjailed_within_grace_not_jailed (h0 : Int) (a : Addr) (ops : List Op) (h t : Int)
    (hw : wf h0 (ops ++ [.endBlock h t]) = true) (hne : a ≠ [])
    (e : Int × Int × St) (he : e ∈ endBlocks (ops ++ [.endBlock h t]))
    (hrecent : h - gracePeriod ≤ e.1) (hin : a ∈ unjailedAddrs e.2.2)
    (hnew : ∀ e' ∈ endBlocks (ops ++ [.endBlock h t]), e'.1 + 1 = e.1 → a ∉ unjailedAddrs e'.2.2) :
    isJailed (run St.init (ops ++ [.endBlock h t])) a = isJailed (run St.init ops) a := by
  have inv := graceInv h0 a _ hw
  obtain ⟨g, hg1, hg2⟩ := inv.grace_lb hne e he hin hnew
  obtain ⟨⟨e1, he1, hx1, _⟩, _⟩ := inv.grace_prov g hg2
  have hr := inv.eb_range e1 he1
  have hw' := hw
  rw [wf_snoc, Bool.and_eq_true] at hw'
  have hh : h = heightAfter h0 ops := by simpa [opHeightOK] using hw'.2
  rw [heightAfter_snoc] at hr
  simp only [nextH, isEB, if_true] at hr
  rw [run_snoc] at hg2 ⊢
  simp only [apply] at hg2 ⊢
  apply grace_never_jailed
  rw [endBlock_grace] at hg2
  unfold inGrace
  rw [hg2]
  exact decide_eq_true (by omega)

/-- **jail provenance for end blocks, in terms of the history only** (the conclusion of
`jailed_by_endBlock_only_if` mentioned the grace STORE). If an end block of a well-formed history
turns the jailed flag of `a` (not the empty address) on, then it is a sweep height, every accepted
keep-alive of the history for `a` is at least 2000 blocks old, `a` did NOT become unjailed within
the last 30 blocks — there is no end block of height ≥ `h - 30` at which `a` was unjailed while it
was not unjailed (or no validator) at the end block before —, and the block time is recorded in
`jailTimes`, hence in the jail log (`jailLog_eq_history`). -/
theorem jailed_by_endBlock_only_if_history (h0 : Int) (a : Addr) (ops : List Op) (h t : Int)
    (hw : wf h0 (ops ++ [.endBlock h t]) = true) (hne : a ≠ [])
    (hbefore : isJailed (run St.init ops) a = false)
    (hafter : isJailed (run St.init (ops ++ [.endBlock h t])) a = true) :
    isSweepHeight h = true ∧ (∀ hk ∈ acceptedKA a ops, hk + keepAliveTTL ≤ h) ∧
    ¬ (∃ e ∈ endBlocks (ops ++ [.endBlock h t]), h - gracePeriod ≤ e.1 ∧ a ∈ unjailedAddrs e.2.2 ∧
        ∀ e' ∈ endBlocks (ops ++ [.endBlock h t]), e'.1 + 1 = e.1 → a ∉ unjailedAddrs e'.2.2) ∧
    t ∈ jailTimes a St.init (ops ++ [.endBlock h t]) := by
  obtain ⟨h1, h2, _⟩ := jailed_by_endBlock_only_if h0 a ops h t hw hbefore hafter
  refine ⟨h1, h2, ?_, ?_⟩
  · rintro ⟨e, he, hrecent, hin, hnew⟩
    have := became_unjailed_within_grace_not_jailed h0 a ops h t hw hne e he hrecent hin hnew
    rw [hafter, hbefore] at this
    cases this
  · rw [mem_jailTimes_iff]
    exact Or.inr ⟨ops, h, [], by simp, hbefore, hafter⟩

/-! ### bounded time -/

/-- **jailed within 10 + 30 blocks.** Let `e` bound the expiry of every accepted keep-alive of `a`
and let `a` be unjailed at every end block from height `g` on. Then the deadline
`D = nextSweep (max e (g+31) 51)` (the first sweep height at or after all three) is at most 9 blocks after the later of expiry / end of grace / first
sweep, and every well-formed history that runs past `D` contains the end block of `D`, at which `a`
— if it still is an unjailed bonded or unbonding validator — is `Due`, hence jailed or under one of
the three exceptions of `inactive_jailed_history_post`. -/
theorem inactive_jailed_by_deadline (h0 : Int) (ops : List Op) (a : Addr) (e g D : Int)
    (hw : wf h0 ops = true) (hg0 : h0 ≤ g)
    (hD : D = nextSweep (max (max e (g + gracePeriod + 1)) (sweepMinHeight + 1)))
    (hpast : D < heightAfter h0 ops)
    (hka : ∀ hk ∈ acceptedKA a ops, hk ≤ D → hk + keepAliveTTL ≤ e)
    (hun : ∀ x ∈ endBlocks ops, g ≤ x.1 → x.1 < D → a ∈ unjailedAddrs x.2.2) :
    D ≤ max (max e (g + gracePeriod + 1)) (sweepMinHeight + 1) + 9 ∧
    ∃ pre t post,
      ops = pre ++ .endBlock D t :: post ∧
      ∀ v, v.addr = a → findVal (run St.init pre).vals a = some v → v.jailed = false →
        (v.status = .bonded ∨ v.status = .unbonding) →
        Due h0 pre D v ∧
        (isJailed (run St.init (pre ++ [.endBlock D t])) a = true ∨
         4 * consPower v > activeTotal (run St.init (pre ++ [.endBlock D t])).vals ∨
         (activeCount (run St.init (pre ++ [.endBlock D t])).vals = 1 ∧ isActive v = true) ∨
         (activeCount (run St.init (pre ++ [.endBlock D t])).vals = 1 ∧ isActive v = false ∧
            v.status = .unbonding)) := by
  subst hD
  have hgp : gracePeriod = 30 := rfl
  have hsm : sweepMinHeight = 50 := rfl
  obtain ⟨hs1, hs2, hs3⟩ := nextSweep_spec (max (max e (g + gracePeriod + 1)) (sweepMinHeight + 1)) (by omega)
  refine ⟨hs3, ?_⟩
  generalize nextSweep (max (max e (g + gracePeriod + 1)) (sweepMinHeight + 1)) = D at *
  obtain ⟨pre, t, post, hsplit, hwp, hhp⟩ := endBlock_split h0 ops D hw (by omega) hpast
  refine ⟨pre, t, post, hsplit, ?_⟩
  intro v hva hf hj hst
  subst hva
  have hsubKA : ∀ hk ∈ acceptedKA v.addr pre, hk ∈ acceptedKA v.addr ops := by
    intro hk hm
    unfold acceptedKA at *
    rw [hsplit, collect_append]
    exact List.mem_append.2 (Or.inl hm)
  have hsubEB : ∀ x ∈ endBlocks pre, x ∈ endBlocks ops := by
    intro x hm
    unfold endBlocks at *
    rw [hsplit, collect_append]
    exact List.mem_append.2 (Or.inl hm)
  have hdue : Due h0 pre D v := by
    refine ⟨hwp, hhp, hs1, hf, hj, hst, ?_, by omega, ?_⟩
    · intro hk hm
      have h1 := (aliveInv h0 v.addr pre hwp).ka_le hk hm
      have := hka hk (hsubKA hk hm) (by omega)
      omega
    · intro x hm hx
      have h1 := (graceInv h0 v.addr pre hwp).eb_range x hm
      exact hun x (hsubEB x hm) (by omega) (by omega)
  exact ⟨hdue, inactive_jailed_history_post h0 pre D t v hdue⟩

/-! ### sentences along the schedule, tied to the number of previous jailings -/

/-- **provenance of the jail log.** In every history the jail record of `a` is a function of the
TIMES of the successful valset jailings of `a` in that history (`jailTimes`, see
`mem_jailTimes_iff`): each jailing maps the previous record to
`{nextSentence previous t, t}`; nothing else ever writes it. -/
theorem jailLog_eq_history (ops : List Op) (a : Addr) :
    (run St.init ops).jailLog.get a = recAfter none (jailTimes a St.init ops) :=
  run_jailLog St.init ops a

/-- **`JailedUntil` is tied to the jail log, over histories.** In every history the slashing
`JailedUntil` of `a` that `MsgUnjail` is gated on equals `jailedAt + duration` of the jail record, i.e.
it too is a function of the times of the valset jailings of `a` in the history; nothing else
writes it. -/
theorem jailedUntil_eq_history (ops : List Op) (a : Addr) :
    (run St.init ops).jailedUntil.get a
      = (recAfter none (jailTimes a St.init ops)).map (fun r => r.jailedAt + r.duration) := by
  rw [← jailLog_eq_history]
  exact run_untilOk St.init ops a rfl

/-- **the sentence is enforced, over histories**: whatever happened, `MsgUnjail` before
`jailedAt + duration` of the record the jailing history leads to is refused and changes nothing. -/
theorem unjail_respects_sentence_history (ops : List Op) (a : Addr) (r : JailRec) (t' : Int)
    (hr : recAfter none (jailTimes a St.init ops) = some r) (hearly : t' < r.jailedAt + r.duration) :
    unjail (run St.init ops) t' a = (run St.init ops, .rejected) := by
  have hu := jailedUntil_eq_history ops a
  rw [hr] at hu
  unfold unjail
  split
  · rfl
  · split
    · rfl
    · simp [hu, hearly]


/-- **repeated jailings lengthen the sentence along the fixed schedule.** If the jailings of `a` in
a history happened at times `… , t1, t2, …, tn` (oldest first) where `t1` starts a streak (no
record before it, or the record before it is older than its reset threshold) and every later one
falls within the reset threshold of its predecessor's sentence, then the sentence now on record is
`jailSentences[min (n-1) 4]`: 1 min, 5 min, 15 min, 1 h, 24 h, 24 h, … -/
theorem repeated_jailings_escalate (ops : List Op) (a : Addr) (before : List Int) (t1 : Int)
    (rest : List Int) (hjt : jailTimes a St.init ops = before ++ t1 :: rest)
    (hfresh : fresh (recAfter none before) t1) (hesc : escalating 0 t1 rest) :
    ((run St.init ops).jailLog.get a).map (·.duration) = some (sched rest.length) ∧
    jailSentences[min rest.length 4]? = some (sched rest.length) := by
  refine ⟨?_, sched_spec _⟩
  rw [jailLog_eq_history, hjt, recAfter_append]
  have : recAfter (recAfter none before) (t1 :: rest)
      = recAfter (some { duration := sched 0, jailedAt := t1 }) rest := by
    rw [recAfter_cons, nextSentence_fresh _ _ hfresh]
    rfl
  rw [this, recAfter_streak 0 t1 rest hesc]
  simp

/-- a jailing after the reset threshold starts again at one minute, whatever the record says -/
theorem jailing_after_threshold_resets (ops : List Op) (a : Addr) (before : List Int) (t1 : Int)
    (hjt : jailTimes a St.init ops = before ++ [t1]) (hfresh : fresh (recAfter none before) t1) :
    (run St.init ops).jailLog.get a = some { duration := minute, jailedAt := t1 } := by
  rw [jailLog_eq_history, hjt, recAfter_append]
  rw [recAfter_cons, nextSentence_fresh _ _ hfresh]
  rfl

/-! ### version gate over histories -/

/-- the result of a keep-alive, both directions, and the rejected branch changes nothing -/
theorem keepAlive_result (s : St) (h : Int) (a : Addr) (ver : Ver) :
    ((keepAlive s h a ver).2 = .ok ↔ (findVal s.vals a).isSome = true ∧ vlt ver s.minVersion = false) ∧
    ((keepAlive s h a ver).2 = .rejected → (keepAlive s h a ver).1 = s) ∧
    ((keepAlive s h a ver).2 = .ok →
      (keepAlive s h a ver).1 = { s with alive := s.alive.set a (h + keepAliveTTL) }) := by
  unfold keepAlive
  cases hf : findVal s.vals a with
  | none => simp
  | some v =>
    cases hv : vlt ver s.minVersion with
    | true => simp
    | false => simp

/-- **old_version_refused, over histories.** Once the minimum version is `m` (at any point of any
history), a keep-alive from a relayer older than `m` is refused at every later point, whatever
happened in between (the minimum never decreases); in particular a relayer older than the built-in
default `v1.11.3` is refused in every state reachable from `St.init`. -/
theorem old_version_refused_forever (s : St) (ops : List Op) (h : Int) (a : Addr) (ver : Ver)
    (hold : vlt ver s.minVersion = true) :
    keepAlive (run s ops) h a ver = (run s ops, .rejected) :=
  old_version_refused (run s ops) h a ver
    (vlt_of_vlt_of_vle ver s.minVersion _ hold (min_version_monotone s ops))

theorem older_than_default_refused (ops : List Op) (h : Int) (a : Addr) (ver : Ver)
    (hold : vlt ver defaultMinVersion = true) :
    keepAlive (run St.init ops) h a ver = (run St.init ops, .rejected) ∧
    acceptedKA a (ops ++ [.keepAlive h a ver]) = acceptedKA a ops := by
  have h1 := old_version_refused_forever St.init ops h a ver hold
  refine ⟨h1, ?_⟩
  unfold acceptedKA
  rw [collect_snoc]
  simp [kaOf, h1]

/-- **that minimum never decreases, against every earlier minimum.** The minimum in force after any
longer history is at least the minimum in force at any earlier point of it (the harness monitor
compares every observed minimum with the highest one observed before). -/
theorem min_never_below_earlier (s : St) (ops1 ops2 : List Op) :
    vle (run s ops1).minVersion (run s (ops1 ++ ops2)).minVersion := by
  rw [run_append]
  exact min_version_monotone (run s ops1) ops2

/-- **old versions refused, against every earlier minimum.** A keep-alive from a relayer older than
a minimum that was in force at ANY earlier point of the history is refused. -/
theorem old_version_refused_any_earlier_minimum (s : St) (ops1 ops2 : List Op) (h : Int) (a : Addr)
    (ver : Ver) (hold : vlt ver (run s ops1).minVersion = true) :
    keepAlive (run s (ops1 ++ ops2)) h a ver = (run s (ops1 ++ ops2), .rejected) := by
  rw [run_append]
  exact old_version_refused_forever (run s ops1) ops2 h a ver hold


set_option maxRecDepth 100000 in
/-- **the 25 % rule is evaluated at the validator's turn, not before the sweep.** From `St.init`:
five equal silent validators are all `Due` at height 60; before the sweep each holds 10 of 50
(20 %, not shielded, five active validators); the sweep jails the first two in store order and then
refuses the other three, which by then hold 10 of 30. So "holds more than 25 % of bonded power"
is true of them only in the state `sweepAt` of `inactive_jailed_history_exact`. -/
theorem quarter_rule_evaluated_at_turn :
    Due 1 fiveSilent 60 lastOfFive ∧
    ¬ (4 * consPower lastOfFive > activeTotal (run St.init fiveSilent).vals) ∧
    activeCount (run St.init fiveSilent).vals = 5 ∧
    isJailed (run St.init (fiveSilent ++ [.endBlock 60 120000000000])) lastOfFive.addr = false ∧
    isJailed (run St.init (fiveSilent ++ [.endBlock 60 120000000000])) [7] = true ∧
    isJailed (run St.init (fiveSilent ++ [.endBlock 60 120000000000])) [10] = true ∧
    activeTotal (run St.init (fiveSilent ++ [.endBlock 60 120000000000])).vals = 30 := by
  decide



/-- **the pre-sweep reading of "holds more than 25 % of bonded power" is FALSE.** If the exception
is read in the state BEFORE the sweep (the natural reading of the property text), the liveness
clause fails even with an unrestricted "last validator" exception: in `fiveSilent` the last of five
equal validators holds 20 % before the sweep, five validators are active, and it is not jailed.
The true statement evaluates the rule at the validator's turn: `inactive_jailed_history_exact`. -/
theorem quarter_rule_pre_sweep_reading_false :
    ¬ (∀ (h0 : Int) (ops : List Op) (h t : Int) (v : Val), Due h0 ops h v →
        isJailed (run St.init (ops ++ [.endBlock h t])) v.addr = true ∨
        4 * consPower v > activeTotal (run St.init ops).vals ∨
        activeCount (run St.init ops).vals = 1) := by
  intro hall
  obtain ⟨q1, q2, q3, q4, _⟩ := quarter_rule_evaluated_at_turn
  rcases hall 1 fiveSilent 60 120000000000 lastOfFive q1 with h | h | h
  · rw [q4] at h; cases h
  · exact q2 h
  · rw [q3] at h; cases h


/-! ### provenance and liveness from ANY store (an upgraded chain) -/

/-- **the keep-alive store from any store.** From ANY store `s0` (no well-formedness needed): the
`AliveUntilBlockHeight` of `a` after `ops` is `hk + 2000` for the LAST accepted keep-alive of the
history, and the record `s0` held if there was none. -/
theorem alive_from_any_store (s0 : St) (ops : List Op) (a : Addr) :
    (run s0 ops).alive.get a = aliveAfter (s0.alive.get a) (acceptedKAFrom s0 a ops) ∧
    ((acceptedKAFrom s0 a ops = [] ∧ (run s0 ops).alive.get a = s0.alive.get a) ∨
     (∃ hk ∈ acceptedKAFrom s0 a ops, (run s0 ops).alive.get a = some (hk + keepAliveTTL))) := by
  refine ⟨run_alive s0 ops a, ?_⟩
  rw [run_alive]
  exact aliveAfter_cases _ _

/-- **the snapshot from any store.** From ANY store — in particular one whose snapshot blob is still
in the legacy comma-joined format — the blob after `ops` is the hex encoding of the validators
unjailed at the LAST end block of the history; it is the blob of `s0` only while no end block has
run. So the legacy format disappears with the first block after the upgrade. -/
theorem prev_from_any_store (s0 : St) (ops : List Op) :
    (endBlocksFrom s0 ops = [] ∧ (run s0 ops).prev = s0.prev) ∨
    (∃ e, (endBlocksFrom s0 ops).getLast? = some e ∧
      (run s0 ops).prev = some (encodeSet (unjailedAddrs e.2.2))) := by
  rw [run_prev]
  exact prevAfter_cases _ _

/-- **the jail log and `JailedUntil` from any store**: `jailLog_eq_history` / `jailedUntil_eq_history`
with the records of `s0` as the starting point. -/
theorem jailLog_from_any_store (s0 : St) (ops : List Op) (a : Addr) :
    (run s0 ops).jailLog.get a = recAfter (s0.jailLog.get a) (jailTimes a s0 ops) ∧
    (UntilOk s0 a → UntilOk (run s0 ops) a) :=
  ⟨run_jailLog s0 ops a, run_untilOk s0 ops a⟩

/-- **the grace store from any store.** After a well-formed history from ANY store, a grace record
`g` of `a` is either the record `s0` held, or the end block of height `g` is in the history, `a` was
unjailed when it ran and was not unjailed when the end block of `g - 1` ran, if the history has one
(at the first end block after an upgrade the legacy blob may be misread: that grants ONE fresh
grace period, see the example below). -/
theorem grace_from_any_store (s0 : St) (h0 : Int) (a : Addr) (ops : List Op) (hw : wf h0 ops = true)
    (g : Int) (hg : (run s0 ops).grace.get a = some g) :
    ((∃ e ∈ endBlocksFrom s0 ops, e.1 = g ∧ a ∈ unjailedAddrs e.2.2) ∧
      (∀ e ∈ endBlocksFrom s0 ops, e.1 + 1 = g → a ∉ unjailedAddrs e.2.2)) ∨
    s0.grace.get a = some g :=
  (graceInvFrom s0 h0 a ops hw).grace_prov g hg

/-- **liveness, exact, from ANY store.** `inactive_jailed_history_exact` does not depend on the chain
having started from the empty store: from any store `s0` (legacy snapshot blob included) that is at
the begin of block `h0`, a validator that is `DueFrom s0` at a sweep height more than 30 blocks
later is jailed iff it is not shielded at its turn. -/
theorem inactive_jailed_exact_from (s0 : St) (h0 : Int) (ops : List Op) (h t : Int) (v : Val)
    (hd : DueFrom s0 h0 ops h v) :
    ∃ l1 l2, unjailedVals (run s0 ops) = l1 ++ v :: l2 ∧
      findVal (sweepAt (run s0 ops) h t l1).vals v.addr = some v ∧
      isJailed (run s0 (ops ++ [.endBlock h t])) v.addr
        = !protectedIn (sweepAt (run s0 ops) h t l1).vals (consPower v) := by
  obtain ⟨hw, hh, hs, hf, hj, hst, hka, hlong, hun, hnd, holdA, holdG⟩ := hd
  have hmem : v ∈ unjailedVals (run s0 ops) := by
    unfold unjailedVals
    exact List.mem_filter.2 ⟨findVal_mem _ _ _ hf, by simp [hj]⟩
  obtain ⟨l1, l2, hsplit⟩ := List.append_of_mem hmem
  refine ⟨l1, l2, hsplit, ?_⟩
  have hal := isAlive_false_from s0 v.addr ops h hka holdA
  subst hh
  have hgr := inGrace_false_from s0 h0 v.addr ops hw hlong hun holdG
  have hrun : run s0 (ops ++ [.endBlock (heightAfter h0 ops) t])
      = sweep (updateGrace (run s0 ops) (heightAfter h0 ops)) (heightAfter h0 ops) t := by
    rw [run_snoc]; simp [apply, endBlock, hs]
  rw [hrun]
  exact sweep_exact _ _ t l1 l2 v (run_nodup s0 ops hnd) hsplit hst hal hgr

/-- from the empty store `DueFrom` is `Due` -/
theorem due_iff_dueFrom_init (h0 : Int) (ops : List Op) (h : Int) (v : Val) :
    Due h0 ops h v ↔ DueFrom St.init h0 ops h v := by
  unfold Due DueFrom acceptedKA endBlocks acceptedKAFrom endBlocksFrom
  constructor
  · rintro ⟨a1, a2, a3, a4, a5, a6, a7, a8, a9⟩
    exact ⟨a1, a2, a3, a4, a5, a6, a7, a8, a9, by simp [St.init, addrsOf],
      (by intro u hu; cases hu), (by intro g hg; cases hg)⟩
  · rintro ⟨a1, a2, a3, a4, a5, a6, a7, a8, a9, _⟩
    exact ⟨a1, a2, a3, a4, a5, a6, a7, a8, a9⟩

/-! ## Non-vacuity -/

/-- three validators (two of them with 0x2c in the address), equal power, no keep-alive, previous
snapshot present, grace periods long over: at height 60 the first one in store order is jailed -/
def exVals : List Val :=
  [ { addr := [0x2c, 0x01], status := .bonded, jailed := false, power := 10 },
    { addr := [0x2c, 0x2c], status := .bonded, jailed := false, power := 10 },
    { addr := [0x07], status := .bonded, jailed := false, power := 10 },
    { addr := [0x09, 0x2c], status := .bonded, jailed := false, power := 10 },
    { addr := [0x0a], status := .bonded, jailed := false, power := 10 } ]

def exState : St :=
  { St.init with vals := exVals, prev := some (encodeSet (exVals.map (·.addr))),
                 grace := [([0x2c, 0x01], 1), ([0x2c, 0x2c], 1)],
                 alive := [([0x07], 2059), ([0x2c, 0x2c], 60)] }

example : isSweepHeight 60 = true ∧ findVal exState.vals [0x2c, 0x01]
      = some { addr := [0x2c, 0x01], status := .bonded, jailed := false, power := 10 } ∧
    isAlive exState [0x2c, 0x01] 60 = false ∧ inGrace (updateGrace exState 60) [0x2c, 0x01] 60 = false ∧
    isJailed (endBlock exState 60 1000) [0x2c, 0x01] = true ∧
    -- expired exactly at the sweep height: jailed as well
    isJailed (endBlock exState 60 1000) [0x2c, 0x2c] = true ∧
    -- unexpired keep-alive: untouched
    isAlive exState [0x07] 60 = true ∧ isJailed (endBlock exState 60 1000) [0x07] = false ∧
    -- after two jailings 10 of the remaining 30 is more than 25 %: the others are protected
    isJailed (endBlock exState 60 1000) [0x0a] = false ∧
    protectedIn (endBlock exState 60 1000).vals 10 = true := by decide

/-- the known finding on a planted state (from `St.init` through `run`: `fourth_disjunct_reachable`):
one active validator, one unbonding inactive validator with an expired keep-alive — the sweep does
not jail the unbonding one -/
example :
    let s : St := { St.init with
      vals := [ { addr := [1], status := .bonded, jailed := false, power := 10 },
                { addr := [2, 0x2c], status := .unbonding, jailed := false, power := 3 } ],
      prev := some (encodeSet [[1], [2, 0x2c]]), alive := [([1], 5000)] }
    activeCount s.vals = 1 ∧ isAlive s [2, 0x2c] 60 = false ∧
    inGrace (updateGrace s 60) [2, 0x2c] 60 = false ∧
    isJailed (endBlock s 60 0) [2, 0x2c] = false := by decide

/-- the regression the repair removed: with the raw comma-joined format an address containing
0x2c is not found in its own snapshot (so it got a fresh grace period in every block) -/
example : ([0x2c, 0x01] : Addr) ∉ decodeSet (encodeSetLegacy [[0x2c, 0x01], [0x07]]) ∧
    ([0x2c, 0x01] : Addr) ∈ decodeSet (encodeSet [[0x2c, 0x01], [0x07]]) ∧
    ([0x2c] : Addr) ∉ decodeSet (encodeSetLegacy [[0x2c]]) ∧
    decodeSet (encodeSet [[0x2c], [0x2c, 0x2c], []]) = [[0x2c], [0x2c, 0x2c], []] := by decide

/-- the hypotheses of `grace_only_when_new` are met by the example state, and the record stays -/
example : exState.prev = some (encodeSet (exVals.map (·.addr))) ∧
    ([0x2c, 0x2c] : Addr) ∈ exVals.map (·.addr) ∧
    (endBlock exState 61 0).grace.get [0x2c, 0x2c] = some 1 := by decide

/-- the window theorem applies to the example state: blocks 55 … 60, the sweep at 60 is outside the
grace period that started at height 1 -/
example : jailedOrProtected (emptyBlocks exState 55 (fun k => 2 * k) 6) [0x2c, 0x01] :=
  inactive_jailed_within_window exState 55 (fun k => 2 * k) 5
    { addr := [0x2c, 0x01], status := .bonded, jailed := false, power := 10 } (exVals.map (·.addr))
    (by decide) rfl (Or.inl rfl) rfl (by decide) (fun _ _ => rfl) (by decide) (by decide)

example : isJailed (emptyBlocks exState 55 (fun k => 2 * k) 6) [0x2c, 0x01] = true := by decide

/-- versions: old and malformed ones are below the default minimum, newer ones are not -/
example :
    -- "v1.11.2", "1.12.0" (no v), "v1.11.3-rc1" are older than "v1.11.3"; "v2.4.0" is not
    vlt [118, 49, 46, 49, 49, 46, 50] defaultMinVersion = true ∧
    vlt [49, 46, 49, 50, 46, 48] defaultMinVersion = true ∧
    vlt [118, 49, 46, 49, 49, 46, 51, 45, 114, 99, 49] defaultMinVersion = true ∧
    vlt [118, 50, 46, 52, 46, 48] defaultMinVersion = false ∧
    vvalid defaultMinVersion = true := by decide

/-- sentences: second jailing 10 minutes after a 1-minute sentence gives 5 minutes, after 31
minutes it is reset to 1 minute -/
example : nextSentence (some { duration := minute, jailedAt := 0 }) (10 * minute) = 5 * minute ∧
    nextSentence (some { duration := minute, jailedAt := 0 }) (31 * minute) = minute ∧
    nextSentence none 1704067200000000000 = minute := by decide


set_option maxRecDepth 100000 in
/-- non-vacuity through `run St.init`: the silent validator is `Due` at 60 and jailed there (its
refused keep-alive does not count); an alive one is untouched -/
example : Due 1 escTo60 60 escVal ∧ acceptedKA [0x2c] escTo60 = [] ∧ acceptedKA [3] escTo60 = [1] ∧
    isJailed (run St.init (escTo60 ++ [.endBlock 60 120000000000])) [0x2c] = true ∧
    isJailed (run St.init (escTo60 ++ [.endBlock 60 120000000000])) [3] = false ∧
    (run St.init (escTo60 ++ [.endBlock 60 120000000000])).jailLog.get [0x2c]
      = some { duration := minute, jailedAt := 120000000000 } := by decide

set_option maxRecDepth 100000 in
/-- … unjailed in block 91 it gets a grace period (not jailed by the sweeps of 100, 110, 120: the
history is not `Due` there), is jailed again at 130, and — second jailing within the threshold —
for five minutes: the hypotheses of `repeated_jailings_escalate` hold with `rest = [t2]` -/
example : wf 1 escTo130 = true ∧ heightAfter 1 escTo130 = 131 ∧
    jailTimes [0x2c] St.init escTo130 = [] ++ 120000000000 :: [260000000000] ∧
    fresh (recAfter none []) 120000000000 ∧ escalating 0 120000000000 [260000000000] ∧
    (run St.init escTo130).grace.get [0x2c] = some 91 ∧
    isJailed (run St.init (escHead ++ quietBlocks 0 90 ++ blockWith 91 [.unjail (2000000000 * 91) [0x2c]]
      ++ quietBlocks 91 29)) [0x2c] = false ∧
    isJailed (run St.init escTo130) [0x2c] = true ∧
    (run St.init escTo130).jailLog.get [0x2c] = some { duration := 5 * minute, jailedAt := 260000000000 } := by
  refine ⟨by decide, by decide, by decide, Or.inl ⟨rfl, by decide⟩, ⟨by decide, trivial⟩, by decide, by decide,
    by decide, by decide⟩


set_option maxRecDepth 100000 in
/-- the grace exception through `run St.init`: at the sweep of height 100 the validator unjailed in
block 91 meets the hypotheses of `became_unjailed_within_grace_not_jailed` (newly unjailed at the
end block of 91 ≥ 100 - 30), and indeed is not jailed although it has no keep-alive -/
example :
    let ops := escHead ++ quietBlocks 0 90 ++ blockWith 91 [.unjail (2000000000 * 91) [0x2c]]
      ++ quietBlocks 91 8 ++ [.beginBlock 100]
    wf 1 (ops ++ [.endBlock 100 200000000000]) = true ∧
    (∃ e ∈ endBlocks (ops ++ [.endBlock 100 200000000000]), e.1 = 91 ∧ 100 - gracePeriod ≤ e.1 ∧
      ([0x2c] : Addr) ∈ unjailedAddrs e.2.2 ∧
      ∀ e' ∈ endBlocks (ops ++ [.endBlock 100 200000000000]), e'.1 + 1 = e.1 →
        ([0x2c] : Addr) ∉ unjailedAddrs e'.2.2) ∧
    isAlive (run St.init ops) [0x2c] 100 = false ∧
    isJailed (run St.init (ops ++ [.endBlock 100 200000000000])) [0x2c] = false := by decide

set_option maxRecDepth 100000 in
/-- the hypotheses of `inactive_jailed_by_deadline` through `run St.init`: no keep-alive ever
(`e = 0`), unjailed from the first end block on (`g = 1`): the deadline is the sweep of height 60 -/
example :
    let ops := escTo60 ++ [.endBlock 60 120000000000] ++ quietBlocks 60 3
    nextSweep (max (max 0 (1 + gracePeriod + 1)) (sweepMinHeight + 1)) = 60 ∧
    wf 1 ops = true ∧ 60 < heightAfter 1 ops ∧ acceptedKA [0x2c] ops = [] ∧
    (∀ x ∈ endBlocks ops, 1 ≤ x.1 → x.1 < 60 → ([0x2c] : Addr) ∈ unjailedAddrs x.2.2) := by decide

set_option maxRecDepth 100000 in
/-- `jailedUntil_eq_history` / `unjail_respects_sentence_history` / `jailed_by_endBlock_only_if_history`
through `run St.init`: the end block of height 60 jails `[0x2c]` (flag off before, on after), the jail
history is `[t]`, the record `{1 min, t}`, `JailedUntil = t + 1 min`; `MsgUnjail` one nanosecond earlier is
refused, at that time it is accepted -/
example :
    isJailed (run St.init escTo60) [0x2c] = false ∧
    isJailed (run St.init (escTo60 ++ [.endBlock 60 120000000000])) [0x2c] = true ∧
    wf 1 (escTo60 ++ [.endBlock 60 120000000000]) = true ∧
    jailTimes [0x2c] St.init (escTo60 ++ [.endBlock 60 120000000000]) = [120000000000] ∧
    recAfter none [120000000000] = some { duration := minute, jailedAt := 120000000000 } ∧
    (run St.init (escTo60 ++ [.endBlock 60 120000000000])).jailedUntil.get [0x2c] = some (120000000000 + minute) ∧
    (unjail (run St.init (escTo60 ++ [.endBlock 60 120000000000])) (120000000000 + minute - 1) [0x2c]).2 = .rejected ∧
    (unjail (run St.init (escTo60 ++ [.endBlock 60 120000000000])) (120000000000 + minute) [0x2c]).2 = .ok := by
  decide

set_option maxRecDepth 100000 in
/-- non-vacuity of `inactive_jailed_exact_from`: on the upgraded store the legacy blob is misread
at the first end block (the validator gets ONE fresh grace record, at height 1000), the blob is
rewritten in the hex format, and at the sweep of height 1040 the validator is `DueFrom` and jailed -/
example : DueFrom upgStore 1000 upgOps 1040 upgVal ∧
    (run upgStore (plainBlock 1000)).grace.get [0x2c, 1] = some 1000 ∧
    (run upgStore (plainBlock 1000)).prev = some (encodeSet [[7], [8], [9], [0x2c, 1]]) ∧
    (run upgStore upgOps).grace.get [0x2c, 1] = some 1000 ∧
    isJailed (run upgStore (upgOps ++ [.endBlock 1040 1040000])) [0x2c, 1] = true := by
  refine ⟨⟨by decide, by decide, by decide, by decide, rfl, Or.inl rfl, by decide, by decide, by decide,
    by decide, ?_, ?_⟩, by decide, by decide, by decide, by decide⟩
  · intro u hu
    have : upgStore.alive.get upgVal.addr = some 1005 := by decide
    rw [this] at hu; cases hu; omega
  · intro g hg
    have : upgStore.grace.get upgVal.addr = some 990 := by decide
    rw [this] at hg; cases hg; omega

/-- "2.1.0" -/
def verNoV210 : Ver := [50, 46, 49, 46, 48]
/-- "v2.0.0", "v2.1.0", "v1.12.0", "v1.9.0" -/
def ver200 : Ver := [118, 50, 46, 48, 46, 48]
def ver210 : Ver := [118, 50, 46, 49, 46, 48]
def ver1120 : Ver := [118, 49, 46, 49, 50, 46, 48]
def ver190 : Ver := [118, 49, 46, 57, 46, 48]

set_option maxRecDepth 100000 in
/-- non-vacuity of `unprefixed_version_invalid` / `invalid_min_version_refused` /
`genesis_lower_or_invalid_refused`: the history "v2.0.0 at once, then `2.1.0` (no leading `v`, spells
a HIGHER number) immediately / scheduled / by proposal / by genesis": all refused, the minimum stays
`v2.0.0`, after which a `v1.9.0` keep-alive and a `v1.12.0` minimum are refused while `v2.1.0` with
the `v` is accepted through each path -/
example :
    verNoV210.head? ≠ some 118 ∧ vvalid verNoV210 = false ∧ vvalid ver210 = true ∧
    (run St.init [.proposal 100 ver200 0]).minVersion = ver200 ∧
    (proposal (run St.init [.proposal 100 ver200 0]) 100 verNoV210 150).2 = .rejected ∧
    (proposal (run St.init [.proposal 100 ver200 0]) 100 verNoV210 0).2 = .rejected ∧
    (initGenesis (run St.init [.proposal 100 ver200 0]) (some verNoV210) none).2 = .rejected ∧
    (initGenesis (run St.init [.proposal 100 ver200 0]) (some ver200) (some (verNoV210, 150))).2 = .rejected ∧
    (initGenesis St.init (some verNoV210) none).2 = .rejected ∧
    (run St.init [.proposal 100 ver200 0, .proposal 100 verNoV210 150, .beginBlock 150,
        .setMinVersion ver1120]).minVersion = ver200 ∧
    (keepAlive (run (addVal St.init ⟨[1], .bonded, false, 10⟩).1 [.proposal 100 ver200 0, .proposal 100 verNoV210 150,
        .beginBlock 150]) 151 [1] ver190).2 = .rejected ∧
    (keepAlive (run (addVal St.init ⟨[1], .bonded, false, 10⟩).1 [.proposal 100 ver200 0]) 151 [1] ver210).2 = .ok ∧
    (initGenesis St.init (some ver200) (some (ver210, 150))).2 = .ok ∧
    (initGenesis St.init (some ver200) (some (ver210, 150))).1.minVersion = ver200 ∧
    (initGenesis St.init (some ver200) (some (ver210, 150))).1.scheduled = some (ver210, 150) ∧
    (run St.init (genesisOps (some ver200) (some (ver210, 150)) ++ [.beginBlock 150])).minVersion = ver210 := by
  decide

/-- non-vacuity of `invalid_minimum_voids_gate`: were `2.1.0` ever stored as the minimum, the `v1.9.0`
keep-alive would be accepted and the minimum could be set to `v1.12.0` (what the theorems above exclude) -/
example :
    vvalid ({ St.init with minVersion := verNoV210 }).minVersion = false ∧
    (keepAlive { (addVal St.init ⟨[1], .bonded, false, 10⟩).1 with minVersion := verNoV210 } 151 [1] ver190).2 = .ok ∧
    (setMinVersion { St.init with minVersion := verNoV210 } ver1120).1.minVersion = ver1120 := by
  decide

end Paloma.KeepAlive
