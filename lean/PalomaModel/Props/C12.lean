/-
C12 — keep-alive liveness and inactivity jailing (model: `Model/KeepAlive.lean`).

"A bonded or unbonding, unjailed validator whose relayer has not sent an accepted keep-alive for
longer than the keep-alive lifetime is jailed at the next periodic liveness check, unless it became
unjailed within the grace period or jailing it is forbidden by the network-protection rules (it
holds more than 25% of bonded power or is the last active validator). A validator with an unexpired
keep-alive is never jailed for inactivity, keep-alives from relayers older than the minimum required
version are refused, that minimum never decreases, and repeated jailings lengthen the sentence along
the fixed schedule."

All theorems are about arbitrary states / arbitrary operation lists (`run`), arbitrary address byte
strings and arbitrary stake distributions; nothing is bounded. See C12.md for what is modelled.
-/
import PalomaModel.Model.KeepAlive

namespace Paloma.KeepAlive
open List

/-! ## helper lemmas -/
section Lemmas

/-! ### codec -/

theorem unhex_hexDigit : ∀ n, n < 16 → unhex (hexDigit n) = some n := by decide

theorem hexDigit_ne_comma : ∀ n, n < 16 → hexDigit n ≠ comma := by decide

theorem hexDec_hexEnc (a : List UInt8) : hexDec (hexEnc a) = some a := by
  induction a with
  | nil => rfl
  | cons b bs ih =>
    have hb : b.toNat < 256 := by have := UInt8.toNat_lt b; omega
    have h1 : b.toNat / 16 < 16 := by omega
    have h2 : b.toNat % 16 < 16 := by omega
    simp only [hexEnc, hexDec, unhex_hexDigit _ h1, unhex_hexDigit _ h2, ih]
    have : 16 * (b.toNat / 16) + b.toNat % 16 = b.toNat := Nat.div_add_mod _ _
    rw [this, UInt8.ofNat_toNat]

theorem hexEnc_injective (a b : List UInt8) (h : hexEnc a = hexEnc b) : a = b := by
  have := congrArg hexDec h
  simpa [hexDec_hexEnc] using this

theorem comma_not_mem_hexEnc (a : List UInt8) : comma ∉ hexEnc a := by
  induction a with
  | nil => simp [hexEnc]
  | cons b bs ih =>
    have hb : b.toNat < 256 := by have := UInt8.toNat_lt b; omega
    have h1 : b.toNat / 16 < 16 := by omega
    have h2 : b.toNat % 16 < 16 := by omega
    simp only [hexEnc, List.mem_cons, not_or]
    exact ⟨fun h => hexDigit_ne_comma _ h1 h.symm, fun h => hexDigit_ne_comma _ h2 h.symm, ih⟩

theorem splitBy_noSep (sep : UInt8) (x : List UInt8) (hx : sep ∉ x) : splitBy sep x = [x] := by
  induction x with
  | nil => rfl
  | cons c cs ih =>
    simp only [List.mem_cons, not_or] at hx
    have hc : c ≠ sep := fun h => hx.1 h.symm
    simp [splitBy, hc, ih hx.2]

theorem splitBy_append_sep (sep : UInt8) (x rest : List UInt8) (hx : sep ∉ x) :
    splitBy sep (x ++ sep :: rest) = x :: splitBy sep rest := by
  induction x with
  | nil => simp [splitBy]
  | cons c cs ih =>
    simp only [List.mem_cons, not_or] at hx
    have hc : c ≠ sep := fun h => hx.1 h.symm
    simp [splitBy, hc, ih hx.2]

theorem splitBy_joinBy (sep : UInt8) (segs : List (List UInt8)) (hne : segs ≠ [])
    (h : ∀ x ∈ segs, sep ∉ x) : splitBy sep (joinBy sep segs) = segs := by
  induction segs with
  | nil => exact absurd rfl hne
  | cons x rest ih =>
    cases rest with
    | nil => simpa [joinBy] using splitBy_noSep sep x (h x (by simp))
    | cons y ys =>
      have hx : sep ∉ x := h x (by simp)
      have := ih (by simp) (fun z hz => h z (by simp [hz]))
      simp only [joinBy]
      rw [splitBy_append_sep sep x _ hx, this]

theorem cutPrefix_hexPrefix_append (x : List UInt8) : cutPrefix hexPrefix (hexPrefix ++ x) = some x := by
  simp [cutPrefix, hexPrefix, List.isPrefixOf]

theorem filterMap_hexDec_map_hexEnc (l : List (List UInt8)) : (l.map hexEnc).filterMap hexDec = l := by
  induction l with
  | nil => rfl
  | cons a as ih => simp [hexDec_hexEnc, ih]

/-! ### version order -/

theorem lexLt_irrefl (a : List Nat) : lexLt a a = false := by
  induction a with
  | nil => rfl
  | cons x xs ih => simp [lexLt, ih]

theorem lexLt_trans : ∀ (a b c : List Nat), lexLt a b = true → lexLt b c = true → lexLt a c = true
  | _, [], _, h, _ => by cases ‹List Nat› <;> simp [lexLt] at h
  | _, _ :: _, [], _, h => by simp [lexLt] at h
  | [], _ :: _, _ :: _, _, _ => by simp [lexLt]
  | x :: xs, y :: ys, z :: zs, h1, h2 => by
    simp only [lexLt] at h1 h2 ⊢
    by_cases hxy : x < y
    · by_cases hyz : y < z
      · have : x < z := by omega
        simp [this]
      · by_cases hzy : z < y
        · simp [hyz, hzy] at h2
        · have : y = z := by omega
          subst this; simp [hxy]
    · by_cases hyx : y < x
      · simp [hxy, hyx] at h1
      · have hxy' : x = y := by omega
        subst hxy'
        simp only [hxy, if_false] at h1
        by_cases hyz : x < z
        · simp [hyz]
        · by_cases hzy : z < x
          · simp [hyz, hzy] at h2
          · simp only [hyz, hzy, if_false] at h2 ⊢
            exact lexLt_trans xs ys zs h1 h2

theorem lexLt_trichotomy : ∀ (a b : List Nat), lexLt a b = true ∨ a = b ∨ lexLt b a = true
  | [], [] => by simp
  | [], _ :: _ => by simp [lexLt]
  | _ :: _, [] => by simp [lexLt]
  | x :: xs, y :: ys => by
    simp only [lexLt]
    by_cases hxy : x < y
    · simp [hxy]
    · by_cases hyx : y < x
      · simp [hyx]
      · have : x = y := by omega
        subst this
        simp only [hxy, if_false, List.cons.injEq, true_and]
        exact lexLt_trichotomy xs ys

theorem lexLt_asymm (a b : List Nat) (h : lexLt a b = true) : lexLt b a = false := by
  cases hba : lexLt b a with
  | false => rfl
  | true => have := lexLt_trans a b a h hba; simp [lexLt_irrefl] at this

/-- `semver.Compare(a, b) ≤ 0` -/
def vle (a b : Ver) : Prop := vlt b a = false

theorem vle_refl (a : Ver) : vle a a := lexLt_irrefl _

theorem vle_trans (a b c : Ver) (h1 : vle a b) (h2 : vle b c) : vle a c := by
  unfold vle vlt at *
  cases hca : lexLt (vkey c) (vkey a) with
  | false => rfl
  | true =>
    rcases lexLt_trichotomy (vkey a) (vkey b) with h | h | h
    · have := lexLt_trans _ _ _ hca h; simp [h2] at this
    · rw [h] at hca; simp [h2] at hca
    · simp [h1] at h

theorem vle_total (a b : Ver) : vle a b ∨ vle b a := by
  unfold vle vlt
  cases h : lexLt (vkey b) (vkey a) with
  | false => exact Or.inl rfl
  | true => exact Or.inr (lexLt_asymm _ _ h)

theorem vlt_of_invalid_valid (a b : Ver) (ha : vvalid a = false) (hb : vvalid b = true) : vlt a b = true := by
  unfold vvalid at ha hb
  unfold vlt
  have ha' : vkey a = [] := by simpa using ha
  rw [ha']
  cases hk : vkey b with
  | nil => simp [hk] at hb
  | cons x xs => simp [lexLt]

/-! ### maps -/

theorem Map.get_filter_ne {α : Type} (m : Map α) (a b : Addr) (h : b ≠ a) :
    Map.get (m.filter (fun p => p.1 != a)) b = Map.get m b := by
  induction m with
  | nil => rfl
  | cons p rest ih =>
    obtain ⟨k, x⟩ := p
    by_cases hk : k = a
    · subst hk
      have : k ≠ b := fun e => h e.symm
      simp [Map.get, this, ih]
    · by_cases hkb : k = b
      · subst hkb
        simp [hk, Map.get]
      · simp [hk, Map.get, hkb, ih]

theorem Map.get_set {α : Type} (m : Map α) (a b : Addr) (x : α) :
    (m.set a x).get b = if b = a then some x else m.get b := by
  unfold Map.set
  by_cases h : b = a
  · subst h; simp [Map.get]
  · have h' : a ≠ b := fun e => h e.symm
    simp only [Map.get, h', h, if_false]
    exact Map.get_filter_ne m a b h

/-! ### the staking view -/

theorem findVal_updVal (l : List Val) (a b : Addr) (f : Val → Val) (hf : ∀ v, (f v).addr = v.addr) :
    findVal (updVal l a f) b = (findVal l b).map (fun v => if v.addr = a then f v else v) := by
  unfold findVal updVal
  rw [List.find?_map]
  have : ((fun v : Val => v.addr == b) ∘ fun v => if v.addr = a then f v else v) = (fun v : Val => v.addr == b) := by
    funext v
    simp only [Function.comp]
    split <;> simp [hf]
  rw [this]

theorem findVal_setJailed (l : List Val) (a b : Addr) (j : Bool) :
    findVal (setJailed l a j) b
      = (findVal l b).map (fun v => if v.addr = a then { v with jailed := j } else v) :=
  findVal_updVal l a b _ (fun _ => rfl)

theorem findVal_addr (l : List Val) (a : Addr) (v : Val) (h : findVal l a = some v) : v.addr = a := by
  unfold findVal at h
  have := List.find?_some h
  simpa using this

theorem findVal_mem (l : List Val) (a : Addr) (v : Val) (h : findVal l a = some v) : v ∈ l :=
  List.mem_of_find?_eq_some h

def contrib (v : Val) : Nat := if isActive v then v.power else 0

theorem activeTotal_eq (l : List Val) : activeTotal l = (l.map contrib).sum := by
  induction l with
  | nil => rfl
  | cons w ws ih =>
    unfold activeTotal at *
    by_cases h : isActive w = true
    · simp [h, contrib, ih]
    · simp [h, contrib, ih]

theorem sum_map_le (l : List Val) (g : Val → Val) (c : Val → Nat) (h : ∀ v, c (g v) ≤ c v) :
    ((l.map g).map c).sum ≤ (l.map c).sum := by
  induction l with
  | nil => simp
  | cons w ws ih =>
    simp only [List.map_cons, List.sum_cons]
    have := h w
    omega

theorem activeTotal_setJailed_le (l : List Val) (a : Addr) :
    activeTotal (setJailed l a true) ≤ activeTotal l := by
  rw [activeTotal_eq, activeTotal_eq]
  unfold setJailed updVal
  apply sum_map_le
  intro v
  by_cases hv : v.addr = a
  · simp [hv, contrib, isActive]
  · simp [hv]

theorem isJailed_of_findVal (s : St) (a : Addr) (v : Val) (h : findVal s.vals a = some v) :
    isJailed s a = v.jailed := by simp [isJailed, h]

/-! ### `Jail` -/

theorem protectedIn_iff (l : List Val) (p : Nat) :
    protectedIn l p = true ↔ activeCount l = 1 ∨ 4 * p > activeTotal l := by
  simp [protectedIn, protectionDenominator]

/-- the state `Jail` produces when it goes through -/
def jailed (s : St) (t : Int) (b : Addr) : St :=
  { s with vals := setJailed s.vals b true,
           jailLog := s.jailLog.set b { duration := nextSentence (s.jailLog.get b) t, jailedAt := t },
           jailedUntil := s.jailedUntil.set b (t + nextSentence (s.jailLog.get b) t) }

theorem jail_unjailed (s : St) (t : Int) (b : Addr) (vb : Val) (hf : findVal s.vals b = some vb)
    (hj : vb.jailed = false) :
    (protectedIn s.vals (consPower vb) = true ∧ jail s t b = (s, .rejected)) ∨
    (protectedIn s.vals (consPower vb) = false ∧ jail s t b = (jailed s t b, .ok)) := by
  unfold jail jailed
  simp only [hf, hj, Bool.false_eq_true, if_false]
  by_cases hc : activeCount s.vals = 1
  · left
    exact ⟨(protectedIn_iff _ _).2 (Or.inl hc), by simp [hc]⟩
  · by_cases hp : protectionDenominator * consPower vb > activeTotal s.vals
    · left
      refine ⟨(protectedIn_iff _ _).2 (Or.inr (by simpa [protectionDenominator] using hp)), ?_⟩
      simp [hc, hp]
    · right
      refine ⟨?_, by simp [hc, hp]⟩
      cases hpr : protectedIn s.vals (consPower vb) with
      | false => rfl
      | true =>
        rcases (protectedIn_iff _ _).1 hpr with h | h
        · exact absurd h hc
        · exact absurd (by simpa [protectionDenominator] using h) hp

theorem jail_cases (s : St) (t : Int) (b : Addr) :
    jail s t b = (s, .rejected) ∨
    (∃ vb, findVal s.vals b = some vb ∧ vb.jailed = false ∧
      protectedIn s.vals (consPower vb) = false ∧ jail s t b = (jailed s t b, .ok)) := by
  cases hf : findVal s.vals b with
  | none => left; simp [jail, hf]
  | some vb =>
    cases hj : vb.jailed with
    | true => left; simp [jail, hf, hj]
    | false =>
      rcases jail_unjailed s t b vb hf hj with h | h
      · exact Or.inl h.2
      · exact Or.inr ⟨vb, rfl, hj, h.1, h.2⟩

theorem isJailed_jailed (s : St) (t : Int) (a b : Addr) :
    isJailed (jailed s t b) a = (isJailed s a || (decide (a = b) && (findVal s.vals a).isSome)) := by
  unfold isJailed jailed
  simp only [findVal_setJailed]
  cases hf : findVal s.vals a with
  | none => simp
  | some v =>
    have hv := findVal_addr _ _ _ hf
    by_cases hab : a = b
    · subst hab; simp [hv]
    · have : v.addr ≠ b := by rw [hv]; exact hab
      simp [this, hab]

theorem findVal_jailed_other (s : St) (t : Int) (a b : Addr) (h : a ≠ b) :
    findVal (jailed s t b).vals a = findVal s.vals a := by
  unfold jailed
  simp only [findVal_setJailed]
  cases hf : findVal s.vals a with
  | none => rfl
  | some v =>
    have hv := findVal_addr _ _ _ hf
    have : v.addr ≠ b := by rw [hv]; exact h
    simp [this]

theorem activeTotal_jailed_le (s : St) (t : Int) (b : Addr) :
    activeTotal (jailed s t b).vals ≤ activeTotal s.vals := activeTotal_setJailed_le _ _

/-! ### the sweep -/

theorem sweepStep_eq (h t : Int) (s : St) (w : Val) :
    sweepStep h t s w = s ∨ sweepStep h t s w = (jail s t w.addr).1 := by
  unfold sweepStep
  split
  · exact Or.inl rfl
  · split
    · exact Or.inl rfl
    · split
      · exact Or.inl rfl
      · split
        · exact Or.inl rfl
        · exact Or.inr rfl

/-- what a sweep iteration can do: nothing, or a successful `Jail` of that entry's address -/
theorem sweepStep_cases (h t : Int) (s : St) (w : Val) :
    sweepStep h t s w = s ∨
    (∃ vb, findVal s.vals w.addr = some vb ∧ vb.jailed = false ∧
      protectedIn s.vals (consPower vb) = false ∧ sweepStep h t s w = jailed s t w.addr) := by
  rcases sweepStep_eq h t s w with h1 | h1
  · exact Or.inl h1
  · rcases jail_cases s t w.addr with h2 | ⟨vb, hf, hj, hp, h2⟩
    · left; rw [h1, h2]
    · right; exact ⟨vb, hf, hj, hp, by rw [h1, h2]⟩

theorem isAlive_congr (s s' : St) (h : s'.alive = s.alive) (a : Addr) (ht : Int) :
    isAlive s' a ht = isAlive s a ht := by unfold isAlive; rw [h]

theorem inGrace_congr (s s' : St) (h : s'.grace = s.grace) (a : Addr) (ht : Int) :
    inGrace s' a ht = inGrace s a ht := by unfold inGrace; rw [h]

/-- the fields a sweep never touches -/
def sameStores (s s' : St) : Prop :=
  s'.alive = s.alive ∧ s'.grace = s.grace ∧ s'.prev = s.prev ∧ s'.minVersion = s.minVersion ∧
  s'.scheduled = s.scheduled

theorem sameStores_refl (s : St) : sameStores s s := ⟨rfl, rfl, rfl, rfl, rfl⟩

theorem sameStores_trans {a b c : St} (h1 : sameStores a b) (h2 : sameStores b c) : sameStores a c := by
  obtain ⟨x1, x2, x3, x4, x5⟩ := h1
  obtain ⟨y1, y2, y3, y4, y5⟩ := h2
  exact ⟨y1.trans x1, y2.trans x2, y3.trans x3, y4.trans x4, y5.trans x5⟩

theorem sameStores_jailed (s : St) (t : Int) (b : Addr) : sameStores s (jailed s t b) :=
  ⟨rfl, rfl, rfl, rfl, rfl⟩

theorem sameStores_sweepStep (h t : Int) (s : St) (w : Val) : sameStores s (sweepStep h t s w) := by
  rcases sweepStep_cases h t s w with h1 | ⟨_, _, _, _, h1⟩
  · rw [h1]; exact sameStores_refl s
  · rw [h1]; exact sameStores_jailed s t _

theorem sameStores_foldl (h t : Int) (l : List Val) (s : St) :
    sameStores s (l.foldl (sweepStep h t) s) := by
  induction l generalizing s with
  | nil => exact sameStores_refl s
  | cons w ws ih => exact sameStores_trans (sameStores_sweepStep h t s w) (ih _)

/-- an iteration never changes the jailed flag of a validator that is alive or in its grace period -/
theorem sweepStep_isJailed_skip (h t : Int) (s : St) (w : Val) (a : Addr)
    (hskip : isAlive s a h = true ∨ inGrace s a h = true) :
    isJailed (sweepStep h t s w) a = isJailed s a := by
  by_cases hw : w.addr = a
  · have : sweepStep h t s w = s := by
      unfold sweepStep
      rw [hw]
      rcases hskip with h1 | h1
      · split
        · rfl
        · simp
      · split
        · rfl
        · split
          · rfl
          · simp
    rw [this]
  · rcases sweepStep_cases h t s w with h1 | ⟨vb, _, _, _, h1⟩
    · rw [h1]
    · rw [h1, isJailed_jailed]
      have : a ≠ w.addr := fun e => hw e.symm
      simp [this]

theorem foldl_isJailed_skip (h t : Int) (l : List Val) (s : St) (a : Addr)
    (hskip : isAlive s a h = true ∨ inGrace s a h = true) :
    isJailed (l.foldl (sweepStep h t) s) a = isJailed s a := by
  induction l generalizing s with
  | nil => rfl
  | cons w ws ih =>
    simp only [List.foldl_cons]
    have hs := sameStores_sweepStep h t s w
    have hskip' : isAlive (sweepStep h t s w) a h = true ∨ inGrace (sweepStep h t s w) a h = true := by
      rw [isAlive_congr _ _ hs.1, inGrace_congr _ _ hs.2.1]; exact hskip
    rw [ih _ hskip', sweepStep_isJailed_skip h t s w a hskip]

/-- "jailed, or shielded by the network-protection rules in this state" -/
def jailedOrProtected (s : St) (a : Addr) : Prop :=
  isJailed s a = true ∨ ∃ v, findVal s.vals a = some v ∧ protectedIn s.vals (consPower v) = true

theorem jailedOrProtected_jailed (s : St) (t : Int) (a b : Addr) (vb : Val)
    (hf : findVal s.vals b = some vb) (hp : protectedIn s.vals (consPower vb) = false)
    (h : jailedOrProtected s a) : jailedOrProtected (jailed s t b) a := by
  rcases h with h | ⟨v, hv, hpv⟩
  · left; rw [isJailed_jailed, h]; rfl
  · by_cases hab : a = b
    · subst hab
      rw [hf] at hv
      cases hv
      rw [hp] at hpv
      cases hpv
    · right
      refine ⟨v, by rw [findVal_jailed_other s t a b hab]; exact hv, ?_⟩
      rcases (protectedIn_iff _ _).1 hpv with h1 | h1
      · -- with one active validator nothing can be jailed at all
        have : protectedIn s.vals (consPower vb) = true := (protectedIn_iff _ _).2 (Or.inl h1)
        rw [hp] at this
        cases this
      · have := activeTotal_jailed_le s t b
        exact (protectedIn_iff _ _).2 (Or.inr (by omega))

theorem jailedOrProtected_sweepStep (h t : Int) (s : St) (w : Val) (a : Addr)
    (hr : jailedOrProtected s a) : jailedOrProtected (sweepStep h t s w) a := by
  rcases sweepStep_cases h t s w with h1 | ⟨vb, hf, _, hp, h1⟩
  · rw [h1]; exact hr
  · rw [h1]; exact jailedOrProtected_jailed s t a w.addr vb hf hp hr

theorem jailedOrProtected_foldl (h t : Int) (l : List Val) (s : St) (a : Addr)
    (hr : jailedOrProtected s a) : jailedOrProtected (l.foldl (sweepStep h t) s) a := by
  induction l generalizing s with
  | nil => exact hr
  | cons w ws ih => exact ih _ (jailedOrProtected_sweepStep h t s w a hr)

/-- the iteration on the entry of an unjailed, due validator -/
theorem sweepStep_due (h t : Int) (s : St) (v vs : Val)
    (hst : v.status = .bonded ∨ v.status = .unbonding)
    (hal : isAlive s v.addr h = false) (hgr : inGrace s v.addr h = false)
    (hf : findVal s.vals v.addr = some vs) (hj : vs.jailed = false) :
    jailedOrProtected (sweepStep h t s v) v.addr := by
  have hstep : sweepStep h t s v = (jail s t v.addr).1 := by
    unfold sweepStep
    have h1 : (v.status == Status.bonded || v.status == Status.unbonding) = true := by
      rcases hst with e | e <;> simp [e]
    have h2 : isJailed s v.addr = false := by rw [isJailed_of_findVal s _ _ hf]; exact hj
    simp [h1, hal, hgr, h2]
  rw [hstep]
  rcases jail_unjailed s t v.addr vs hf hj with ⟨hp, he⟩ | ⟨_, he⟩
  · rw [he]; right; exact ⟨vs, hf, hp⟩
  · rw [he]; left
    rw [isJailed_jailed]
    simp [hf]

/-- state of the target before its own iteration has run -/
def pending (s1 s : St) (a : Addr) : Prop :=
  isJailed s a = false ∧ sameStores s1 s ∧ ∃ v, findVal s.vals a = some v

theorem sweep_reaches (h t : Int) (s1 : St) (v : Val)
    (hst : v.status = .bonded ∨ v.status = .unbonding)
    (hal : isAlive s1 v.addr h = false) (hgr : inGrace s1 v.addr h = false) :
    ∀ (l : List Val) (s : St),
      (jailedOrProtected s v.addr ∨ (v ∈ l ∧ pending s1 s v.addr)) →
      jailedOrProtected (l.foldl (sweepStep h t) s) v.addr := by
  intro l
  induction l with
  | nil =>
    intro s hs
    rcases hs with hs | ⟨hm, _⟩
    · exact hs
    · cases hm
  | cons w ws ih =>
    intro s hs
    simp only [List.foldl_cons]
    apply ih
    rcases hs with hs | ⟨hm, hj, hsame, vs, hvs⟩
    · exact Or.inl (jailedOrProtected_sweepStep h t s w _ hs)
    · by_cases hwv : w = v
      · subst hwv
        left
        have hal' : isAlive s w.addr h = false := by rw [isAlive_congr _ _ hsame.1]; exact hal
        have hgr' : inGrace s w.addr h = false := by rw [inGrace_congr _ _ hsame.2.1]; exact hgr
        have hjv : vs.jailed = false := by rw [← isJailed_of_findVal s _ _ hvs]; exact hj
        exact sweepStep_due h t s w vs hst hal' hgr' hvs hjv
      · have hm' : v ∈ ws := by
          rcases List.mem_cons.1 hm with e | e
          · exact absurd e.symm hwv
          · exact e
        rcases sweepStep_cases h t s w with h1 | ⟨vb, hf, hjb, hp, h1⟩
        · rw [h1]; exact Or.inr ⟨hm', hj, hsame, vs, hvs⟩
        · rw [h1]
          by_cases hwa : w.addr = v.addr
          · left; left
            rw [isJailed_jailed, ← hwa]
            simp [hf]
          · right
            have hne : v.addr ≠ w.addr := fun e => hwa e.symm
            refine ⟨hm', ?_, sameStores_trans hsame (sameStores_jailed s t _), vs, ?_⟩
            · rw [isJailed_jailed, hj]; simp [hne]
            · rw [findVal_jailed_other s t _ _ hne]; exact hvs

/-! ### grace periods -/

theorem graceFold_get (lookup : List Addr) (h : Int) (l : List Addr) (g : Map Int) (a : Addr) :
    (graceFold lookup h g l).get a
      = if a ∈ l ∧ lookup.contains a = false then some h else g.get a := by
  induction l generalizing g with
  | nil => simp [graceFold]
  | cons b bs ih =>
    simp only [graceFold, ih, List.mem_cons]
    cases hb : lookup.contains b <;> by_cases hab : a = b <;> by_cases hm : a ∈ bs <;>
      simp_all [Map.get_set]

theorem updateGrace_grace (s : St) (h : Int) (a : Addr) :
    (updateGrace s h).grace.get a
      = if a ∈ unjailedAddrs s ∧ (decodeSet (s.prev.getD [])).contains a = false then some h
        else s.grace.get a := by
  unfold updateGrace
  exact graceFold_get _ _ _ _ _

theorem endBlock_sameStores (s : St) (h t : Int) : sameStores (updateGrace s h) (endBlock s h t) := by
  unfold endBlock
  split
  · exact sameStores_foldl h t _ _
  · exact sameStores_refl _

theorem endBlock_grace (s : St) (h t : Int) : (endBlock s h t).grace = (updateGrace s h).grace :=
  (endBlock_sameStores s h t).2.1

theorem endBlock_alive (s : St) (h t : Int) : (endBlock s h t).alive = s.alive :=
  (endBlock_sameStores s h t).1

/-- the snapshot written by an end block is the encoding of the validators unjailed at that moment -/
theorem endBlock_prev (s : St) (h t : Int) :
    (endBlock s h t).prev = some (encodeSet (unjailedAddrs s)) :=
  (endBlock_sameStores s h t).2.2.1

theorem mem_unjailedAddrs_of_findVal (s : St) (v : Val) (hf : findVal s.vals v.addr = some v)
    (hj : v.jailed = false) : v.addr ∈ unjailedAddrs s := by
  unfold unjailedAddrs unjailedVals
  exact List.mem_map.2 ⟨v, List.mem_filter.2 ⟨findVal_mem _ _ _ hf, by simp [hj]⟩, rfl⟩

/-! ### sentences -/

theorem deriveSentence_mem (d : Int) : deriveSentence d ∈ jailSentences := by
  unfold deriveSentence jailSentences
  split
  · simp
  · split
    · simp
    · split
      · simp
      · split <;> simp

theorem nextSentence_mem (r : Option JailRec) (t : Int) : nextSentence r t ∈ jailSentences := by
  unfold nextSentence
  split <;> exact deriveSentence_mem _

/-! ### pigeon requirements -/

theorem setMinVersion_min (s : St) (v : Ver) :
    (setMinVersion s v).1.minVersion = s.minVersion ∨
    (vlt v s.minVersion = false ∧ (setMinVersion s v).1.minVersion = v) := by
  unfold setMinVersion
  cases h : vlt v s.minVersion with
  | true => left; simp
  | false => right; simp

theorem scheduleMinVersion_min (s : St) (v : Ver) (n : Nat) :
    (scheduleMinVersion s v n).1.minVersion = s.minVersion := by
  unfold scheduleMinVersion
  split <;> rfl

theorem jail_sameStores (s : St) (t : Int) (a : Addr) : sameStores s (jail s t a).1 := by
  rcases jail_cases s t a with h | ⟨_, _, _, _, h⟩
  · rw [h]; exact sameStores_refl s
  · rw [h]; exact sameStores_jailed s t a

theorem unjail_sameStores (s : St) (t : Int) (a : Addr) : sameStores s (unjail s t a).1 := by
  unfold unjail
  split
  · exact sameStores_refl s
  · split
    · exact sameStores_refl s
    · split
      · exact sameStores_refl s
      · exact ⟨rfl, rfl, rfl, rfl, rfl⟩

/-- every operation leaves the minimum version alone or replaces it by one that is not lower -/
theorem apply_minVersion (s : St) (op : Op) :
    (apply s op).minVersion = s.minVersion ∨
    (vlt (apply s op).minVersion s.minVersion = false) := by
  cases op with
  | addVal v => left; simp only [apply, addVal]; split <;> rfl
  | setStatus a st => left; simp only [apply, setStatus]; split <;> rfl
  | setPower a p => left; simp only [apply, setPower]; split <;> rfl
  | extJail a => left; simp only [apply, extJail]; split <;> rfl
  | extUnjail a => left; simp only [apply, extUnjail]; split <;> rfl
  | unjail t a => left; exact (unjail_sameStores s t a).2.2.2.1
  | jail t a => left; exact (jail_sameStores s t a).2.2.2.1
  | keepAlive h a ver =>
    left; simp only [apply, keepAlive]
    split
    · rfl
    · split <;> rfl
  | setMinVersion v =>
    simp only [apply]
    rcases setMinVersion_min s v with h | ⟨h1, h2⟩
    · exact Or.inl h
    · right; rw [h2]; exact h1
  | scheduleMinVersion v n => left; exact scheduleMinVersion_min s v n
  | proposal h v n =>
    simp only [apply, proposal]
    split
    · rcases setMinVersion_min s v with h | ⟨h1, h2⟩
      · exact Or.inl h
      · right; rw [h2]; exact h1
    · left; exact scheduleMinVersion_min s v n
  | beginBlock h =>
    simp only [apply, beginBlock]
    split
    · left; rfl
    · rename_i v n _
      split
      · rcases setMinVersion_min s v with h | ⟨h1, h2⟩
        · exact Or.inl h
        · right; rw [h2]; exact h1
      · left; rfl
  | endBlock h t =>
    left
    simp only [apply]
    exact (endBlock_sameStores s h t).2.2.2.1

/-! ### runs of blocks without transactions -/

/-- one block without transactions: `BeginBlock`, then `EndBlock` -/
def emptyBlock (s : St) (h t : Int) : St := endBlock (beginBlock s h) h t

/-- `n` consecutive blocks without transactions at heights `h, h+1, …, h+n-1`; block `k` has time `τ k` -/
def emptyBlocks (s : St) (h : Int) (τ : Int → Int) : Nat → St
  | 0 => s
  | n + 1 => emptyBlock (emptyBlocks s h τ n) (h + n) (τ (h + n))

theorem beginBlock_stores (s : St) (h : Int) :
    (beginBlock s h).vals = s.vals ∧ (beginBlock s h).alive = s.alive ∧
    (beginBlock s h).grace = s.grace ∧ (beginBlock s h).prev = s.prev := by
  unfold beginBlock
  split
  · exact ⟨rfl, rfl, rfl, rfl⟩
  · split
    · unfold setMinVersion
      split <;> exact ⟨rfl, rfl, rfl, rfl⟩
    · exact ⟨rfl, rfl, rfl, rfl⟩

theorem isJailed_congr_vals (s s' : St) (h : s'.vals = s.vals) (a : Addr) : isJailed s' a = isJailed s a := by
  unfold isJailed; rw [h]

/-- an end block never unjails, and leaves the staking entry of a validator it does not jail alone -/
theorem endBlock_entry (s : St) (h t : Int) (a : Addr) (v : Val) (hf : findVal s.vals a = some v) :
    (isJailed s a = true → isJailed (endBlock s h t) a = true) ∧
    (isJailed (endBlock s h t) a = true ∨ findVal (endBlock s h t).vals a = some v) := by
  have inv : ∀ (l : List Val) (s' : St),
      ((isJailed s a = true → isJailed s' a = true) ∧ (isJailed s' a = true ∨ findVal s'.vals a = some v)) →
      ((isJailed s a = true → isJailed (l.foldl (sweepStep h t) s') a = true) ∧
        (isJailed (l.foldl (sweepStep h t) s') a = true ∨ findVal (l.foldl (sweepStep h t) s').vals a = some v)) := by
    intro l
    induction l with
    | nil => intro s' hs; exact hs
    | cons w ws ih =>
      intro s' ⟨h1, h2⟩
      apply ih
      rcases sweepStep_cases h t s' w with e | ⟨vb, hfb, _, _, e⟩
      · rw [e]; exact ⟨h1, h2⟩
      · rw [e]
        refine ⟨fun hj => by rw [isJailed_jailed, h1 hj]; rfl, ?_⟩
        rcases h2 with h2 | h2
        · left; rw [isJailed_jailed, h2]; rfl
        · by_cases hab : a = w.addr
          · left; rw [isJailed_jailed, hab]; simp [hfb]
          · right; rw [findVal_jailed_other s' t a w.addr hab]; exact h2
  unfold endBlock
  split
  · exact inv _ (updateGrace s h) ⟨fun hj => hj, Or.inr hf⟩
  · exact ⟨fun hj => hj, Or.inr hf⟩

end Lemmas

/-! ## Property theorems (C12) -/

/-- **codec_roundtrip.** Decoding the stored snapshot gives back exactly the list of addresses
that was encoded, for ALL byte strings (0x2c inside, all-0x2c, empty, prefixes of one another).
The only artefact: the empty list decodes to the set containing the empty address, as in Go
(`strings.Split("", ",")` is `[""]`); no validator has the empty address. -/
theorem codec_roundtrip (l : List Addr) :
    decodeSet (encodeSet l) = if l = [] then [[]] else l := by
  unfold decodeSet encodeSet
  rw [cutPrefix_hexPrefix_append]
  simp only
  by_cases hl : l = []
  · subst hl; simp [joinBy, splitBy, hexDec]
  · simp only [hl, if_false]
    rw [splitBy_joinBy comma (l.map hexEnc) (by simpa using hl)]
    · exact filterMap_hexDec_map_hexEnc l
    · intro x hx
      obtain ⟨a, _, rfl⟩ := List.mem_map.1 hx
      exact comma_not_mem_hexEnc a

/-- **codec_roundtrip (membership form).** An address is found in the stored snapshot iff it was
stored — the lemma the raw `bytes.Join(…, ",")` format of the pinned tree fails. -/
theorem codec_mem (l : List Addr) (a : Addr) :
    a ∈ decodeSet (encodeSet l) ↔ a ∈ l ∨ (l = [] ∧ a = []) := by
  rw [codec_roundtrip]
  by_cases hl : l = []
  · subst hl; simp
  · simp [hl]

/-- the hex encoding of an address is injective and never contains the separator -/
theorem codec_hex_injective_no_separator (a b : Addr) :
    (hexEnc a = hexEnc b → a = b) ∧ comma ∉ hexEnc a :=
  ⟨hexEnc_injective a b, comma_not_mem_hexEnc a⟩

/-- **grace_only_when_new.** A validator listed in the snapshot of the previous block (i.e. unjailed
at the previous end block) does not get a new grace period, whatever bytes its address contains. -/
theorem grace_only_when_new (s : St) (h t : Int) (l : List Addr) (a : Addr)
    (hprev : s.prev = some (encodeSet l)) (ha : a ∈ l) :
    (endBlock s h t).grace.get a = s.grace.get a := by
  rw [endBlock_grace, updateGrace_grace, hprev]
  have hl : l ≠ [] := fun e => by subst e; cases ha
  have : (decodeSet ((some (encodeSet l)).getD [])).contains a = true := by
    simp only [Option.getD_some]
    rw [codec_roundtrip]; simp [hl, ha]
  rw [this]
  simp

/-- **grace_only_when_new (two consecutive end blocks).** If `a` is unjailed when block `h` ends,
then — whatever happens in between that is not an end block — the end block of the next block
leaves its grace period alone. -/
theorem grace_not_refreshed_next_block (s : St) (h t h' t' : Int) (ops : List Op) (v : Val)
    (hf : findVal s.vals v.addr = some v) (hj : v.jailed = false)
    (hops : ∀ op ∈ ops, ∀ x y, op ≠ Op.endBlock x y) :
    (endBlock (run (endBlock s h t) ops) h' t').grace.get v.addr
      = (endBlock s h t).grace.get v.addr := by
  have key : ∀ (ops : List Op) (s0 : St), (∀ op ∈ ops, ∀ x y, op ≠ Op.endBlock x y) →
      (run s0 ops).prev = s0.prev ∧ (run s0 ops).grace = s0.grace := by
    intro ops
    induction ops with
    | nil => intro s0 _; exact ⟨rfl, rfl⟩
    | cons op rest ih =>
      intro s0 hne
      have hrest := ih (apply s0 op) (fun o ho => hne o (List.mem_cons_of_mem _ ho))
      have hop : (apply s0 op).prev = s0.prev ∧ (apply s0 op).grace = s0.grace := by
        have hne' := hne op (by simp)
        cases op with
        | addVal v => simp only [apply, addVal]; split <;> exact ⟨rfl, rfl⟩
        | setStatus a st => simp only [apply, setStatus]; split <;> exact ⟨rfl, rfl⟩
        | setPower a p => simp only [apply, setPower]; split <;> exact ⟨rfl, rfl⟩
        | extJail a => simp only [apply, extJail]; split <;> exact ⟨rfl, rfl⟩
        | extUnjail a => simp only [apply, extUnjail]; split <;> exact ⟨rfl, rfl⟩
        | unjail t a => exact ⟨(unjail_sameStores s0 t a).2.2.1, (unjail_sameStores s0 t a).2.1⟩
        | jail t a => exact ⟨(jail_sameStores s0 t a).2.2.1, (jail_sameStores s0 t a).2.1⟩
        | keepAlive h a ver =>
          simp only [apply, keepAlive]
          split
          · exact ⟨rfl, rfl⟩
          · split <;> exact ⟨rfl, rfl⟩
        | setMinVersion v => simp only [apply, setMinVersion]; split <;> exact ⟨rfl, rfl⟩
        | scheduleMinVersion v n => simp only [apply, scheduleMinVersion]; split <;> exact ⟨rfl, rfl⟩
        | proposal h v n =>
          simp only [apply, proposal, setMinVersion, scheduleMinVersion]
          split <;> split <;> exact ⟨rfl, rfl⟩
        | beginBlock h =>
          simp only [apply, beginBlock, setMinVersion]
          split
          · exact ⟨rfl, rfl⟩
          · split
            · split <;> exact ⟨rfl, rfl⟩
            · exact ⟨rfl, rfl⟩
        | endBlock x y => exact absurd rfl (hne' x y)
      show (run (apply s0 op) rest).prev = s0.prev ∧ (run (apply s0 op) rest).grace = s0.grace
      exact ⟨hrest.1.trans hop.1, hrest.2.trans hop.2⟩
  obtain ⟨hp, hg⟩ := key ops (endBlock s h t) hops
  rw [grace_only_when_new (run (endBlock s h t) ops) h' t' (unjailedAddrs s) v.addr
        (by rw [hp, endBlock_prev]) (mem_unjailedAddrs_of_findVal s v hf hj), hg]

/-- a validator that is unjailed now and was not in the previous snapshot gets a grace period
starting at this height -/
theorem grace_when_new (s : St) (h t : Int) (a : Addr)
    (hnow : a ∈ unjailedAddrs s) (hnew : (decodeSet (s.prev.getD [])).contains a = false) :
    (endBlock s h t).grace.get a = some h := by
  rw [endBlock_grace, updateGrace_grace, hnew]
  simp [hnow]

/-- **inactive_jailed_at_next_sweep.** At a sweep height, a validator that is unjailed, bonded or
unbonding, whose keep-alive is missing or expired and that is not in its grace period (as the end
block itself has just updated it) is jailed by that end block — unless `Jail` refuses: then it is
shielded by the network-protection rules in the resulting state (exactly one active validator is
left, or its consensus power exceeds 25 % of what is left active). -/
theorem inactive_jailed_at_next_sweep (s : St) (h t : Int) (v : Val)
    (hsweep : isSweepHeight h = true)
    (hf : findVal s.vals v.addr = some v) (hj : v.jailed = false)
    (hst : v.status = .bonded ∨ v.status = .unbonding)
    (hal : isAlive s v.addr h = false)
    (hgr : inGrace (updateGrace s h) v.addr h = false) :
    jailedOrProtected (endBlock s h t) v.addr := by
  unfold endBlock
  simp only [hsweep, if_true]
  unfold sweep
  apply sweep_reaches h t (updateGrace s h) v hst hal hgr
  right
  refine ⟨?_, ?_, sameStores_refl _, v, hf⟩
  · unfold unjailedVals
    exact List.mem_filter.2 ⟨findVal_mem _ _ _ hf, by simp [hj]⟩
  · show isJailed (updateGrace s h) v.addr = false
    rw [isJailed_of_findVal (updateGrace s h) v.addr v hf]; exact hj

/-- the grace hypothesis above in terms of the state before the block: a validator that was in the
previous snapshot keeps its old grace record -/
theorem inGrace_after_update (s : St) (h : Int) (l : List Addr) (a : Addr)
    (hprev : s.prev = some (encodeSet l)) (ha : a ∈ l) :
    inGrace (updateGrace s h) a h = inGrace s a h := by
  have := grace_only_when_new s h 0 l a hprev ha
  rw [endBlock_grace] at this
  unfold inGrace
  rw [this]

/-- **…hence within 10 + 30 blocks.** For every expiry height `e` and grace start `g` there is a
sweep height at or after the expiry, outside the grace period, at most 9 blocks later than the
later of the two (and of the first sweep height 60). -/
theorem next_sweep_bound (e g : Int) :
    ∃ h, isSweepHeight h = true ∧ e ≤ h ∧ h - g > gracePeriod ∧
      h ≤ max (max e (g + gracePeriod + 1)) (sweepMinHeight + 1) + 9 := by
  refine ⟨max (max e (g + gracePeriod + 1)) (sweepMinHeight + 1)
            + (10 - max (max e (g + gracePeriod + 1)) (sweepMinHeight + 1) % 10) % 10, ?_, ?_, ?_, ?_⟩
  · simp only [isSweepHeight, sweepMinHeight, sweepPeriod, gracePeriod, Bool.and_eq_true, beq_iff_eq]
    exact ⟨decide_eq_true (by omega), by omega⟩
  · simp only [gracePeriod, sweepMinHeight]; omega
  · simp only [gracePeriod, sweepMinHeight]; omega
  · simp only [gracePeriod, sweepMinHeight]; omega

/-- **…over a whole window of blocks.** Let `a` be unjailed, bonded or unbonding, listed in the
snapshot of the previous block, with no keep-alive valid at or after height `h`. Run the blocks
`h … h+n` without transactions (arbitrary block times). If `h+n` is a sweep height outside the
grace period, then at the end `a` is jailed (possibly by an earlier sweep of the window) or shielded
by the network-protection rules. With `next_sweep_bound` this is "jailed within 10 + 30 blocks of
expiry unless protected". -/
theorem inactive_jailed_within_window (s : St) (h : Int) (τ : Int → Int) (n : Nat) (v : Val) (l : List Addr)
    (hf : findVal s.vals v.addr = some v) (hj : v.jailed = false)
    (hst : v.status = .bonded ∨ v.status = .unbonding)
    (hprev : s.prev = some (encodeSet l)) (ha : v.addr ∈ l)
    (hexp : ∀ k, h ≤ k → isAlive s v.addr k = false)
    (hsweep : isSweepHeight (h + n) = true)
    (hgr : inGrace s v.addr (h + n) = false) :
    jailedOrProtected (emptyBlocks s h τ (n + 1)) v.addr := by
  -- invariant of the blocks before the last one
  have inv : ∀ k : Nat,
      isJailed (emptyBlocks s h τ k) v.addr = true ∨
      (findVal (emptyBlocks s h τ k).vals v.addr = some v ∧ (emptyBlocks s h τ k).alive = s.alive ∧
        (emptyBlocks s h τ k).grace.get v.addr = s.grace.get v.addr ∧
        ∃ l', (emptyBlocks s h τ k).prev = some (encodeSet l') ∧ v.addr ∈ l') := by
    intro k
    induction k with
    | zero => exact Or.inr ⟨hf, rfl, rfl, l, hprev, ha⟩
    | succ k ih =>
      have hstep : emptyBlocks s h τ (k + 1)
          = endBlock (beginBlock (emptyBlocks s h τ k) (h + k)) (h + k) (τ (h + k)) := rfl
      rw [hstep]
      obtain ⟨bv, bal, bgr, bpr⟩ := beginBlock_stores (emptyBlocks s h τ k) (h + k)
      rcases ih with ih | ⟨i1, i2, i3, l', i4, i5⟩
      · left
        have hf' : ∃ v', findVal (beginBlock (emptyBlocks s h τ k) (h + k)).vals v.addr = some v' := by
          rw [bv]
          unfold isJailed at ih
          cases hfv : findVal (emptyBlocks s h τ k).vals v.addr with
          | none => rw [hfv] at ih; cases ih
          | some v' => exact ⟨v', rfl⟩
        obtain ⟨v', hv'⟩ := hf'
        exact (endBlock_entry _ (h + k) (τ (h + k)) v.addr v' hv').1
          (by rw [isJailed_congr_vals _ _ bv]; exact ih)
      · have hfb : findVal (beginBlock (emptyBlocks s h τ k) (h + k)).vals v.addr = some v := by rw [bv]; exact i1
        rcases (endBlock_entry _ (h + k) (τ (h + k)) v.addr v hfb).2 with e | e
        · exact Or.inl e
        · right
          refine ⟨e, by rw [endBlock_alive, bal]; exact i2, ?_, unjailedAddrs (beginBlock (emptyBlocks s h τ k) (h + k)),
            endBlock_prev _ _ _, mem_unjailedAddrs_of_findVal _ v hfb hj⟩
          rw [grace_only_when_new _ (h + k) (τ (h + k)) l' v.addr (by rw [bpr]; exact i4) i5, bgr]
          exact i3
  have hstep : emptyBlocks s h τ (n + 1)
      = endBlock (beginBlock (emptyBlocks s h τ n) (h + n)) (h + n) (τ (h + n)) := rfl
  rw [hstep]
  obtain ⟨bv, bal, bgr, bpr⟩ := beginBlock_stores (emptyBlocks s h τ n) (h + n)
  rcases inv n with ih | ⟨i1, i2, i3, l', i4, i5⟩
  · left
    unfold isJailed at ih
    cases hfv : findVal (emptyBlocks s h τ n).vals v.addr with
    | none => rw [hfv] at ih; cases ih
    | some v' =>
      exact (endBlock_entry _ (h + n) (τ (h + n)) v.addr v' (by rw [bv]; exact hfv)).1
        (by rw [isJailed_congr_vals _ _ bv]; unfold isJailed; exact ih)
  · have hfb : findVal (beginBlock (emptyBlocks s h τ n) (h + n)).vals v.addr = some v := by rw [bv]; exact i1
    apply inactive_jailed_at_next_sweep _ (h + n) (τ (h + n)) v hsweep hfb hj hst
    · rw [isAlive_congr s _ (bal.trans i2)]
      exact hexp (h + n) (by omega)
    · rw [inGrace_after_update _ (h + n) l' v.addr (by rw [bpr]; exact i4) i5]
      unfold inGrace at hgr ⊢
      rw [bgr, i3]
      exact hgr

/-- **alive_never_jailed_for_inactivity.** An end block never changes the jailed flag of a validator
whose keep-alive has not expired (`height < AliveUntilBlockHeight`). -/
theorem alive_never_jailed_for_inactivity (s : St) (h t : Int) (a : Addr)
    (hal : isAlive s a h = true) :
    isJailed (endBlock s h t) a = isJailed s a := by
  unfold endBlock
  split
  · unfold sweep
    rw [foldl_isJailed_skip h t _ (updateGrace s h) a (Or.inl hal)]
    rfl
  · rfl

/-- a validator inside its grace period is not jailed by the end block either -/
theorem grace_never_jailed (s : St) (h t : Int) (a : Addr)
    (hgr : inGrace (updateGrace s h) a h = true) :
    isJailed (endBlock s h t) a = isJailed s a := by
  unfold endBlock
  split
  · unfold sweep
    rw [foldl_isJailed_skip h t _ (updateGrace s h) a (Or.inr hgr)]
    rfl
  · rfl

/-- outside the sweep heights (`h ≤ 50` or `h % 10 ≠ 0`) the end block jails nobody -/
theorem no_jail_off_sweep (s : St) (h t : Int) (hs : isSweepHeight h = false) :
    (endBlock s h t).vals = s.vals := by
  unfold endBlock
  simp [hs, updateGrace]

/-- **old_version_refused.** A keep-alive from a relayer older than the minimum required version
is refused and changes nothing. -/
theorem old_version_refused (s : St) (h : Int) (a : Addr) (ver : Ver)
    (hold : vlt ver s.minVersion = true) : keepAlive s h a ver = (s, .rejected) := by
  unfold keepAlive
  split
  · rfl
  · rfl

/-- a version string that is not a semantic version is older than every valid minimum -/
theorem invalid_version_refused (s : St) (h : Int) (a : Addr) (ver : Ver)
    (hmin : vvalid s.minVersion = true) (hbad : vvalid ver = false) :
    keepAlive s h a ver = (s, .rejected) :=
  old_version_refused s h a ver (vlt_of_invalid_valid ver s.minVersion hbad hmin)

/-- an accepted keep-alive of a known validator is valid for exactly 2000 blocks -/
theorem keepAlive_accepted (s : St) (h : Int) (a : Addr) (ver : Ver) (v : Val)
    (hf : findVal s.vals a = some v) (hver : vlt ver s.minVersion = false) :
    (keepAlive s h a ver).2 = .ok ∧ (keepAlive s h a ver).1.alive.get a = some (h + 2000) ∧
      ∀ k, isAlive (keepAlive s h a ver).1 a k = decide (k < h + 2000) := by
  have hk : keepAlive s h a ver = ({ s with alive := s.alive.set a (h + keepAliveTTL) }, .ok) := by
    simp [keepAlive, hf, hver]
  rw [hk]
  refine ⟨rfl, by simp [Map.get_set, keepAliveTTL], ?_⟩
  intro k
  simp [isAlive, Map.get_set, keepAliveTTL]

/-- **min_version_monotone.** In every history the minimum version never decreases (in the order
of `semver.Compare`): every write goes through the `Compare(new, current) < 0` refusal. -/
theorem min_version_monotone (s : St) (ops : List Op) : vle s.minVersion (run s ops).minVersion := by
  induction ops generalizing s with
  | nil => exact vle_refl _
  | cons op rest ih =>
    show vle s.minVersion (run (apply s op) rest).minVersion
    refine vle_trans _ _ _ ?_ (ih (apply s op))
    rcases apply_minVersion s op with h | h
    · rw [h]; exact vle_refl _
    · exact h

/-- the minimum version is a valid semantic version in every history (so that an invalid version
string is always refused), and never below the built-in default `v1.11.3` -/
theorem min_version_valid (ops : List Op) :
    vvalid (run St.init ops).minVersion = true ∧ vle defaultMinVersion (run St.init ops).minVersion := by
  refine ⟨?_, min_version_monotone St.init ops⟩
  have hm := min_version_monotone St.init ops
  cases hv : vvalid (run St.init ops).minVersion with
  | true => rfl
  | false =>
    have := vlt_of_invalid_valid _ defaultMinVersion hv (by decide)
    unfold vle at hm
    rw [show St.init.minVersion = defaultMinVersion from rfl] at hm
    rw [hm] at this
    cases this

/-- what an operation can do to the pigeon requirements: nothing, an accepted immediate change
(which clears the schedule), or an accepted scheduling -/
theorem apply_requirements (s : St) (op : Op) :
    ((apply s op).minVersion = s.minVersion ∧ (apply s op).scheduled = s.scheduled) ∨
    (vlt (apply s op).minVersion s.minVersion = false ∧ (apply s op).scheduled = none) ∨
    (∃ v n, vlt v s.minVersion = false ∧ (apply s op).minVersion = s.minVersion ∧
      (apply s op).scheduled = some (v, n)) := by
  have hset : ∀ v, ((setMinVersion s v).1.minVersion = s.minVersion ∧ (setMinVersion s v).1.scheduled = s.scheduled) ∨
      (vlt (setMinVersion s v).1.minVersion s.minVersion = false ∧ (setMinVersion s v).1.scheduled = none) := by
    intro v
    unfold setMinVersion
    cases h : vlt v s.minVersion with
    | true => left; simp
    | false => right; simp [h]
  have hsch : ∀ v n, ((scheduleMinVersion s v n).1.minVersion = s.minVersion ∧ (scheduleMinVersion s v n).1.scheduled = s.scheduled) ∨
      (∃ v' n', vlt v' s.minVersion = false ∧ (scheduleMinVersion s v n).1.minVersion = s.minVersion ∧
        (scheduleMinVersion s v n).1.scheduled = some (v', n')) := by
    intro v n
    unfold scheduleMinVersion
    cases h : vlt v s.minVersion with
    | true => left; simp
    | false => right; exact ⟨v, n, h, by simp, by simp⟩
  cases op with
  | addVal v => left; simp only [apply, addVal]; split <;> exact ⟨rfl, rfl⟩
  | setStatus a st => left; simp only [apply, setStatus]; split <;> exact ⟨rfl, rfl⟩
  | setPower a p => left; simp only [apply, setPower]; split <;> exact ⟨rfl, rfl⟩
  | extJail a => left; simp only [apply, extJail]; split <;> exact ⟨rfl, rfl⟩
  | extUnjail a => left; simp only [apply, extUnjail]; split <;> exact ⟨rfl, rfl⟩
  | unjail t a => left; exact ⟨(unjail_sameStores s t a).2.2.2.1, (unjail_sameStores s t a).2.2.2.2⟩
  | jail t a => left; exact ⟨(jail_sameStores s t a).2.2.2.1, (jail_sameStores s t a).2.2.2.2⟩
  | keepAlive h a ver =>
    left; simp only [apply, keepAlive]
    split
    · exact ⟨rfl, rfl⟩
    · split <;> exact ⟨rfl, rfl⟩
  | setMinVersion v =>
    simp only [apply]
    rcases hset v with h | h
    · exact Or.inl h
    · exact Or.inr (Or.inl h)
  | scheduleMinVersion v n =>
    simp only [apply]
    rcases hsch v n with h | h
    · exact Or.inl h
    · exact Or.inr (Or.inr h)
  | proposal h v n =>
    simp only [apply, proposal]
    split
    · rcases hset v with h | h
      · exact Or.inl h
      · exact Or.inr (Or.inl h)
    · rcases hsch v n with h | h
      · exact Or.inl h
      · exact Or.inr (Or.inr h)
  | beginBlock h =>
    simp only [apply, beginBlock]
    split
    · left; exact ⟨rfl, rfl⟩
    · rename_i v n _
      split
      · rcases hset v with h | h
        · exact Or.inl h
        · exact Or.inr (Or.inl h)
      · left; exact ⟨rfl, rfl⟩
  | endBlock h t =>
    left
    simp only [apply]
    exact ⟨(endBlock_sameStores s h t).2.2.2.1, (endBlock_sameStores s h t).2.2.2.2⟩

/-- a scheduled requirement is never lower than the current one, in every history: an immediate
change clears the schedule, so the begin block that applies a due schedule is never refused and
cannot lower the minimum -/
theorem scheduled_never_lower (ops : List Op) (v : Ver) (n : Nat)
    (h : (run St.init ops).scheduled = some (v, n)) :
    vlt v (run St.init ops).minVersion = false := by
  have inv : ∀ (ops : List Op) (s : St),
      (∀ v n, s.scheduled = some (v, n) → vlt v s.minVersion = false) →
      (∀ v n, (run s ops).scheduled = some (v, n) → vlt v (run s ops).minVersion = false) := by
    intro ops
    induction ops with
    | nil => intro s hs; exact hs
    | cons op rest ih =>
      intro s hs
      apply ih (apply s op)
      intro v n hv
      rcases apply_requirements s op with ⟨h1, h2⟩ | ⟨_, h2⟩ | ⟨v', n', h1, h2, h3⟩
      · rw [h1]; exact hs v n (by rw [← h2]; exact hv)
      · rw [h2] at hv; cases hv
      · rw [h3] at hv
        cases hv
        rw [h2]; exact h1
  exact inv ops St.init (by intro v n hv; cases hv) v n h

/-- a lower version is refused by every entry point (immediate, scheduled, proposal) -/
theorem lower_min_version_refused (s : St) (v : Ver) (h : Int) (n : Nat)
    (hlow : vlt v s.minVersion = true) :
    setMinVersion s v = (s, .rejected) ∧ scheduleMinVersion s v n = (s, .rejected) ∧
      proposal s h v n = (s, .rejected) := by
  refine ⟨by simp [setMinVersion, hlow], by simp [scheduleMinVersion, hlow], ?_⟩
  unfold proposal
  split <;> simp [setMinVersion, scheduleMinVersion, hlow]

/-- **sentence_schedule.** A successful `Jail` at time `t` records the sentence `nextSentence`,
jails until `t + sentence`, the sentence is one of the five fixed ones; it is the next longer one
when the previous jailing is younger than the reset threshold and the shortest one otherwise. -/
theorem sentence_schedule (s : St) (t : Int) (a : Addr) (hok : (jail s t a).2 = .ok) :
    (jail s t a).1.jailLog.get a
        = some { duration := nextSentence (s.jailLog.get a) t, jailedAt := t } ∧
    (jail s t a).1.jailedUntil.get a = some (t + nextSentence (s.jailLog.get a) t) ∧
    isJailed (jail s t a).1 a = true ∧
    nextSentence (s.jailLog.get a) t ∈ jailSentences ∧
    (∀ r, s.jailLog.get a = some r → t - r.jailedAt < resetThreshold r.duration →
        nextSentence (s.jailLog.get a) t = deriveSentence r.duration) ∧
    (∀ r, s.jailLog.get a = some r → ¬ (t - r.jailedAt < resetThreshold r.duration) →
        nextSentence (s.jailLog.get a) t = minute) ∧
    (s.jailLog.get a = none → 0 ≤ t → nextSentence (s.jailLog.get a) t = minute) := by
  rcases jail_cases s t a with h | ⟨vb, hf, _, _, h⟩
  · rw [h] at hok; cases hok
  · rw [h]
    refine ⟨by simp [jailed, Map.get_set], by simp [jailed, Map.get_set], ?_, nextSentence_mem _ _, ?_, ?_, ?_⟩
    · rw [isJailed_jailed]; simp [hf]
    · intro r hr hlt
      simp [nextSentence, hr, hlt]
    · intro r hr hge
      simp only [nextSentence, hr, Option.getD_some, hge, if_false]
      decide
    · intro hn ht
      simp only [nextSentence, hn, Option.getD_none]
      have : ¬ (t - zeroTime < resetThreshold minute) := by
        have : resetThreshold minute = 1800000000000 := by decide
        rw [this]
        simp only [zeroTime]
        omega
      simp only [this, if_false]
      decide

/-- the schedule itself (1 min, 5 min, 15 min, 1 h, 24 h, capped), as a loop over `jailSentences`,
and the reset thresholds `max(30 min, d + d/20)` for the five sentences -/
theorem sentence_steps :
    deriveSentence 0 = minute ∧ deriveSentence minute = 5 * minute ∧
    deriveSentence (5 * minute) = 15 * minute ∧ deriveSentence (15 * minute) = 60 * minute ∧
    deriveSentence (60 * minute) = 1440 * minute ∧ deriveSentence (1440 * minute) = 1440 * minute ∧
    resetThreshold minute = 30 * minute ∧ resetThreshold (5 * minute) = 30 * minute ∧
    resetThreshold (15 * minute) = 30 * minute ∧ resetThreshold (60 * minute) = 63 * minute ∧
    resetThreshold (1440 * minute) = 1512 * minute := by decide

/-- `deriveSentence` is the Go loop "first sentence strictly greater than `d`, else the last" -/
theorem deriveSentence_eq_loop (d : Int) : deriveSentence d = deriveSentenceLoop d := by
  unfold deriveSentence deriveSentenceLoop jailSentences
  by_cases h1 : d < minute
  · simp [List.find?, h1]
  · by_cases h2 : d < 5 * minute
    · simp [List.find?, h1, h2]
    · by_cases h3 : d < 15 * minute
      · simp [List.find?, h1, h2, h3]
      · by_cases h4 : d < 60 * minute
        · simp [List.find?, h1, h2, h3, h4]
        · by_cases h5 : d < 1440 * minute
          · simp [List.find?, h1, h2, h3, h4, h5]
          · simp [List.find?, h1, h2, h3, h4, h5]

/-- repeated jailings lengthen the sentence: strictly, until the cap of 24 h -/
theorem sentence_lengthens (d : Int) :
    d ≤ deriveSentence d ∨ deriveSentence d = 1440 * minute := by
  unfold deriveSentence minute
  split
  · left; omega
  · split
    · left; omega
    · split
      · left; omega
      · split
        · left; omega
        · right; rfl

theorem sentence_strictly_longer (d : Int) (h : d < 1440 * minute) : d < deriveSentence d := by
  unfold deriveSentence
  unfold minute at *
  split
  · omega
  · split
    · omega
    · split
      · omega
      · split <;> omega

/-- every sentence ever recorded, in every history, is one of the five fixed sentences -/
theorem sentences_in_schedule (ops : List Op) (a : Addr) (r : JailRec)
    (h : (run St.init ops).jailLog.get a = some r) : r.duration ∈ jailSentences := by
  have inv : ∀ (ops : List Op) (s : St),
      (∀ a r, s.jailLog.get a = some r → r.duration ∈ jailSentences) →
      (∀ a r, (run s ops).jailLog.get a = some r → r.duration ∈ jailSentences) := by
    intro ops
    induction ops with
    | nil => intro s hs; exact hs
    | cons op rest ih =>
      intro s hs
      apply ih (apply s op)
      have hjailed : ∀ (s : St) (t : Int) (b : Addr),
          (∀ a r, s.jailLog.get a = some r → r.duration ∈ jailSentences) →
          (∀ a r, (jailed s t b).jailLog.get a = some r → r.duration ∈ jailSentences) := by
        intro s t b hs a r hr
        simp only [jailed, Map.get_set] at hr
        split at hr
        · cases hr; exact nextSentence_mem _ _
        · exact hs a r hr
      have hjail : ∀ (s : St) (t : Int) (b : Addr),
          (∀ a r, s.jailLog.get a = some r → r.duration ∈ jailSentences) →
          (∀ a r, (jail s t b).1.jailLog.get a = some r → r.duration ∈ jailSentences) := by
        intro s t b hs
        rcases jail_cases s t b with h | ⟨_, _, _, _, h⟩
        · rw [h]; exact hs
        · rw [h]; exact hjailed s t b hs
      cases op with
      | addVal v => simp only [apply, addVal]; split <;> exact hs
      | setStatus a st => simp only [apply, setStatus]; split <;> exact hs
      | setPower a p => simp only [apply, setPower]; split <;> exact hs
      | extJail a => simp only [apply, extJail]; split <;> exact hs
      | extUnjail a => simp only [apply, extUnjail]; split <;> exact hs
      | unjail t a =>
        simp only [apply, unjail]
        split
        · exact hs
        · split
          · exact hs
          · split <;> exact hs
      | jail t a => exact hjail s t a hs
      | keepAlive h a ver =>
        simp only [apply, keepAlive]
        split
        · exact hs
        · split <;> exact hs
      | setMinVersion v => simp only [apply, setMinVersion]; split <;> exact hs
      | scheduleMinVersion v n => simp only [apply, scheduleMinVersion]; split <;> exact hs
      | proposal h v n =>
        simp only [apply, proposal, setMinVersion, scheduleMinVersion]
        split <;> split <;> exact hs
      | beginBlock h =>
        simp only [apply, beginBlock, setMinVersion]
        split
        · exact hs
        · split
          · split <;> exact hs
          · exact hs
      | endBlock h t =>
        simp only [apply, endBlock]
        have hfold : ∀ (l : List Val) (s : St),
            (∀ a r, s.jailLog.get a = some r → r.duration ∈ jailSentences) →
            (∀ a r, (l.foldl (sweepStep h t) s).jailLog.get a = some r → r.duration ∈ jailSentences) := by
          intro l
          induction l with
          | nil => intro s hs; exact hs
          | cons w ws ihl =>
            intro s hs
            apply ihl
            rcases sweepStep_cases h t s w with h1 | ⟨_, _, _, _, h1⟩
            · rw [h1]; exact hs
            · rw [h1]; exact hjailed s t _ hs
        split
        · exact hfold _ _ hs
        · exact hs
  exact inv ops St.init (by intro a r hr; cases hr) a r h

/-- the sentence is enforced: `MsgUnjail` before `jail time + sentence` is refused -/
theorem unjail_respects_sentence (s : St) (t t' : Int) (a : Addr) (hok : (jail s t a).2 = .ok)
    (hearly : t' < t + nextSentence (s.jailLog.get a) t) :
    unjail (jail s t a).1 t' a = ((jail s t a).1, .rejected) := by
  have hu := (sentence_schedule s t a hok).2.1
  unfold unjail
  split
  · rfl
  · split
    · rfl
    · simp [hu, hearly]

/-- **protected_not_jailed (`Jail`).** `Jail` refuses — and changes nothing — when exactly one
bonded unjailed validator exists or the target's consensus power exceeds 25 % of the bonded
unjailed power. -/
theorem protected_not_jailed (s : St) (t : Int) (a : Addr) (v : Val)
    (hf : findVal s.vals a = some v) (hp : protectedIn s.vals (consPower v) = true) :
    jail s t a = (s, .rejected) := by
  cases hj : v.jailed with
  | true => simp [jail, hf, hj]
  | false =>
    rcases jail_unjailed s t a v hf hj with h | h
    · exact h.2
    · rw [hp] at h; cases h.1

/-- **protected_not_jailed (sweep).** A validator shielded by the network-protection rules when
the end block starts is not jailed by it: the sweep only ever reduces the active power. -/
theorem protected_not_jailed_by_sweep (s : St) (h t : Int) (a : Addr) (v : Val)
    (hf : findVal s.vals a = some v) (hj : v.jailed = false)
    (hp : protectedIn s.vals (consPower v) = true) :
    isJailed (endBlock s h t) a = false := by
  have inv : ∀ (l : List Val) (s' : St),
      (isJailed s' a = false ∧ ∃ v', findVal s'.vals a = some v' ∧ protectedIn s'.vals (consPower v') = true) →
      isJailed (l.foldl (sweepStep h t) s') a = false := by
    intro l
    induction l with
    | nil => intro s' hs; exact hs.1
    | cons w ws ih =>
      intro s' ⟨hj', v', hv', hp'⟩
      apply ih
      rcases sweepStep_cases h t s' w with h1 | ⟨vb, hfb, _, hpb, h1⟩
      · rw [h1]; exact ⟨hj', v', hv', hp'⟩
      · rw [h1]
        by_cases hwa : a = w.addr
        · subst hwa
          rw [hfb] at hv'; cases hv'
          rw [hpb] at hp'; cases hp'
        · refine ⟨by rw [isJailed_jailed, hj']; simp [hwa], v', ?_, ?_⟩
          · rw [findVal_jailed_other s' t a w.addr hwa]; exact hv'
          · rcases (protectedIn_iff _ _).1 hp' with h2 | h2
            · have : protectedIn s'.vals (consPower vb) = true := (protectedIn_iff _ _).2 (Or.inl h2)
              rw [hpb] at this; cases this
            · have := activeTotal_jailed_le s' t w.addr
              exact (protectedIn_iff _ _).2 (Or.inr (by omega))
  unfold endBlock
  split
  · exact inv _ (updateGrace s h) ⟨by rw [isJailed_of_findVal (updateGrace s h) a v hf]; exact hj, v, hf, hp⟩
  · show isJailed (updateGrace s h) a = false
    rw [isJailed_of_findVal (updateGrace s h) a v hf]; exact hj

/-- with a single active validator the sweep jails nobody at all -/
theorem last_validator_blocks_sweep (s : St) (h t : Int) (hc : activeCount s.vals = 1) :
    (endBlock s h t).vals = s.vals := by
  have inv : ∀ (l : List Val) (s' : St), activeCount s'.vals = 1 →
      (l.foldl (sweepStep h t) s').vals = s'.vals := by
    intro l
    induction l with
    | nil => intro s' _; rfl
    | cons w ws ih =>
      intro s' hc'
      have hstep : sweepStep h t s' w = s' := by
        rcases sweepStep_cases h t s' w with h1 | ⟨vb, _, _, hpb, _⟩
        · exact h1
        · have : protectedIn s'.vals (consPower vb) = true := (protectedIn_iff _ _).2 (Or.inl hc')
          rw [hpb] at this; cases this
      simp only [List.foldl_cons, hstep]
      exact ih s' hc'
  unfold endBlock
  split
  · exact inv _ (updateGrace s h) hc
  · rfl

/-- **watch item (code as it is).** The "last validator" rule of `Jail` is global: while exactly
one bonded unjailed validator exists, `Jail` refuses EVERY target, also an unbonding validator
that is not that last active one. (The 25 % rule, in contrast, never shields a validator that is
not bonded: its consensus power counts as 0.) -/
theorem last_validator_rule_is_global (s : St) (t : Int) (a : Addr)
    (hc : activeCount s.vals = 1) : jail s t a = (s, .rejected) := by
  cases hf : findVal s.vals a with
  | none => simp [jail, hf]
  | some v => exact protected_not_jailed s t a v hf ((protectedIn_iff _ _).2 (Or.inl hc))

theorem quarter_rule_ignores_not_bonded (s : St) (v : Val) (h : v.status ≠ .bonded) :
    protectedIn s.vals (consPower v) = true ↔ activeCount s.vals = 1 := by
  have : consPower v = 0 := by simp [consPower, h]
  rw [protectedIn_iff, this]
  simp

/-! ## Non-vacuity -/

/-- three validators (two of them with 0x2c in the address), equal power, no keep-alive, previous
snapshot present, grace periods long over: at height 60 the first one in store order is jailed -/
def exVals : List Val :=
  [ { addr := [0x2c, 0x01], status := .bonded, jailed := false, power := 10 },
    { addr := [0x2c, 0x2c], status := .bonded, jailed := false, power := 10 },
    { addr := [0x07], status := .bonded, jailed := false, power := 10 },
    { addr := [0x09, 0x2c], status := .bonded, jailed := false, power := 10 },
    { addr := [0x0a], status := .bonded, jailed := false, power := 10 } ]

def exState : St :=
  { St.init with vals := exVals, prev := some (encodeSet (exVals.map (·.addr))),
                 grace := [([0x2c, 0x01], 1), ([0x2c, 0x2c], 1)],
                 alive := [([0x07], 2059), ([0x2c, 0x2c], 60)] }

example : isSweepHeight 60 = true ∧ findVal exState.vals [0x2c, 0x01]
      = some { addr := [0x2c, 0x01], status := .bonded, jailed := false, power := 10 } ∧
    isAlive exState [0x2c, 0x01] 60 = false ∧ inGrace (updateGrace exState 60) [0x2c, 0x01] 60 = false ∧
    isJailed (endBlock exState 60 1000) [0x2c, 0x01] = true ∧
    -- expired exactly at the sweep height: jailed as well
    isJailed (endBlock exState 60 1000) [0x2c, 0x2c] = true ∧
    -- unexpired keep-alive: untouched
    isAlive exState [0x07] 60 = true ∧ isJailed (endBlock exState 60 1000) [0x07] = false ∧
    -- after two jailings 10 of the remaining 30 is more than 25 %: the others are protected
    isJailed (endBlock exState 60 1000) [0x0a] = false ∧
    protectedIn (endBlock exState 60 1000).vals 10 = true := by decide

/-- the watch item is reachable: one active validator, one unbonding inactive validator with an
expired keep-alive — the sweep does not jail the unbonding one -/
example :
    let s : St := { St.init with
      vals := [ { addr := [1], status := .bonded, jailed := false, power := 10 },
                { addr := [2, 0x2c], status := .unbonding, jailed := false, power := 3 } ],
      prev := some (encodeSet [[1], [2, 0x2c]]), alive := [([1], 5000)] }
    activeCount s.vals = 1 ∧ isAlive s [2, 0x2c] 60 = false ∧
    inGrace (updateGrace s 60) [2, 0x2c] 60 = false ∧
    isJailed (endBlock s 60 0) [2, 0x2c] = false := by decide

/-- the regression the repair removed: with the raw comma-joined format an address containing
0x2c is not found in its own snapshot (so it got a fresh grace period in every block) -/
example : ([0x2c, 0x01] : Addr) ∉ decodeSet (encodeSetLegacy [[0x2c, 0x01], [0x07]]) ∧
    ([0x2c, 0x01] : Addr) ∈ decodeSet (encodeSet [[0x2c, 0x01], [0x07]]) ∧
    ([0x2c] : Addr) ∉ decodeSet (encodeSetLegacy [[0x2c]]) ∧
    decodeSet (encodeSet [[0x2c], [0x2c, 0x2c], []]) = [[0x2c], [0x2c, 0x2c], []] := by decide

/-- the hypotheses of `grace_only_when_new` are met by the example state, and the record stays -/
example : exState.prev = some (encodeSet (exVals.map (·.addr))) ∧
    ([0x2c, 0x2c] : Addr) ∈ exVals.map (·.addr) ∧
    (endBlock exState 61 0).grace.get [0x2c, 0x2c] = some 1 := by decide

/-- the window theorem applies to the example state: blocks 55 … 60, the sweep at 60 is outside the
grace period that started at height 1 -/
example : jailedOrProtected (emptyBlocks exState 55 (fun k => 2 * k) 6) [0x2c, 0x01] :=
  inactive_jailed_within_window exState 55 (fun k => 2 * k) 5
    { addr := [0x2c, 0x01], status := .bonded, jailed := false, power := 10 } (exVals.map (·.addr))
    (by decide) rfl (Or.inl rfl) rfl (by decide) (fun _ _ => rfl) (by decide) (by decide)

example : isJailed (emptyBlocks exState 55 (fun k => 2 * k) 6) [0x2c, 0x01] = true := by decide

/-- versions: old and malformed ones are below the default minimum, newer ones are not -/
example :
    -- "v1.11.2", "1.12.0" (no v), "v1.11.3-rc1" are older than "v1.11.3"; "v2.4.0" is not
    vlt [118, 49, 46, 49, 49, 46, 50] defaultMinVersion = true ∧
    vlt [49, 46, 49, 50, 46, 48] defaultMinVersion = true ∧
    vlt [118, 49, 46, 49, 49, 46, 51, 45, 114, 99, 49] defaultMinVersion = true ∧
    vlt [118, 50, 46, 52, 46, 48] defaultMinVersion = false ∧
    vvalid defaultMinVersion = true := by decide

/-- sentences: second jailing 10 minutes after a 1-minute sentence gives 5 minutes, after 31
minutes it is reset to 1 minute -/
example : nextSentence (some { duration := minute, jailedAt := 0 }) (10 * minute) = 5 * minute ∧
    nextSentence (some { duration := minute, jailedAt := 0 }) (31 * minute) = minute ∧
    nextSentence none 1704067200000000000 = minute := by decide

end Paloma.KeepAlive
