/-
C04 — message consensus needs 2/3 of snapshot power on identical evidence;
the elected gas estimate needs quorum, is the median (within [min,max]) and is immutable.

Two layers (both in Model/Libcons.lean):
* the pure functions of util/libcons, util/palomath and x/consensus/types (`verifyEvidence`,
  `verifyGasEstimates`, `median`, `addEvidence`, `addGasEstimate`, `setElected`);
* the history model `Hist` (one consensus queue, the current snapshot, the log of applied attestation
  effects; operations = the keeper entry points), on which every clause that the property states over
  histories is proved for `Hist.run ops` from `Hist.St.init`, for all `ops`.

Helper lemmas (and the definitions used in statements: `snapPower`, `SnapOK`, `lastSub`,
`Hist.GroupQuorum`, `Hist.EstQuorum`, `Hist.accepted`, `Hist.Res.commits`) are in the section before
the marker line; the property theorems follow it.
-/
import PalomaModel.Model.Libcons
import PalomaModel.Model.Queue
import PalomaModel.Gen.Consts

namespace Paloma.Libcons

/-! ## helper lemmas -/
section Lemmas

/-- sum of the shares of the addresses found in the snapshot (with multiplicity) -/
def shareSum (s : Snapshot) (addrs : List Nat) : Nat := (foundShares s addrs).sum

theorem consensus_iff (s : Snapshot) (addrs : List Nat) :
    (tally s addrs).consensus = true ↔
      foundShares s addrs ≠ [] ∧ 3 * shareSum s addrs ≥ 2 * s.total := by
  unfold Power.consensus tally shareSum
  cases h : foundShares s addrs <;> simp

def sumOver (vs : List (Nat × Nat)) : List Nat → Nat
  | [] => 0
  | a :: as => (lookup vs a).getD 0 + sumOver vs as

theorem shareSum_eq (s : Snapshot) (l : List Nat) : shareSum s l = sumOver s.vals l := by
  induction l with
  | nil => rfl
  | cons a as ih =>
    unfold shareSum foundShares at *
    simp only [List.filterMap_cons, sumOver, Snapshot.share?]
    cases h : lookup s.vals a <;> simp [← ih]

theorem lookup_cons (v : Nat × Nat) (vs : List (Nat × Nat)) (a : Nat) :
    lookup (v :: vs) a = if v.1 == a then some v.2 else lookup vs a := by
  unfold lookup
  simp only [List.find?_cons]
  cases h : v.1 == a <;> simp

theorem sumOver_append (vs : List (Nat × Nat)) (l₁ l₂ : List Nat) :
    sumOver vs (l₁ ++ l₂) = sumOver vs l₁ + sumOver vs l₂ := by
  induction l₁ with
  | nil => simp [sumOver]
  | cons a as ih => simp [sumOver, ih, Nat.add_assoc]

theorem sumOver_cons_le (v : Nat × Nat) (vs : List (Nat × Nat)) (l : List Nat) (hnd : l.Nodup) :
    sumOver (v :: vs) l ≤ v.2 + sumOver vs l := by
  induction l with
  | nil => simp [sumOver]
  | cons a as ih =>
    have hnd' := (List.nodup_cons.mp hnd)
    have ih' := ih hnd'.2
    simp only [sumOver, lookup_cons]
    by_cases h : v.1 = a
    · -- `a` is the head address; it does not occur in `as`, so the tail picks nothing from `v`
      subst h
      have htail : sumOver (v :: vs) as = sumOver vs as := by
        clear ih ih' hnd
        have hnot := hnd'.1
        induction as with
        | nil => rfl
        | cons b bs ihb =>
          have hb : ¬ v.1 = b := by
            intro e; apply hnot; simp [e]
          have hbs : ¬ v.1 ∈ bs := by
            intro e; apply hnot; simp [e]
          have := ihb ⟨hbs, (List.nodup_cons.mp hnd'.2).2⟩ hbs
          simp only [sumOver, lookup_cons, this]
          simp [hb]
      simp only [beq_self_eq_true, if_true, Option.getD_some, htail]
      omega
    · simp only [beq_iff_eq, h, if_false]
      omega

theorem sumOver_le_total (vs : List (Nat × Nat)) (l : List Nat) (hnd : l.Nodup) :
    sumOver vs l ≤ (vs.map (·.2)).sum := by
  induction vs with
  | nil =>
    have : ∀ l, sumOver [] l = 0 := by
      intro l; induction l with
      | nil => rfl
      | cons a as ih => simp [sumOver, ih, lookup]
    simp [this]
  | cons v vs ih =>
    have := sumOver_cons_le v vs l hnd
    simp only [List.map_cons, List.sum_cons]
    omega

theorem groupOf_sublist (evs : List Evidence) (h : Nat) :
    (groupOf evs h).Sublist (evs.map (·.1)) := by
  unfold groupOf
  exact List.Sublist.map _ (List.filter_sublist)

theorem fst_inj_of_nodup (evs : List Evidence) (hnd : (evs.map (·.1)).Nodup) (a x y : Nat)
    (hx : (a, x) ∈ evs) (hy : (a, y) ∈ evs) : x = y := by
  induction evs with
  | nil => cases hx
  | cons e es ih =>
    have hnd' := List.nodup_cons.mp (by simpa only [List.map_cons] using hnd)
    have hnotin : ∀ z, (a, z) ∈ es → e.1 ≠ a := by
      intro z hz he
      apply hnd'.1
      exact List.mem_map.mpr ⟨(a, z), hz, by simp [he]⟩
    rcases List.mem_cons.mp hx with hx | hx <;> rcases List.mem_cons.mp hy with hy | hy
    · have := hx.trans hy.symm; exact (Prod.mk.inj this).2
    · exact absurd (by rw [← hx]) (hnotin y hy)
    · exact absurd (by rw [← hy]) (hnotin x hx)
    · exact ih hnd'.2 hx hy

theorem mem_groupOf {evs : List Evidence} {h a : Nat} : a ∈ groupOf evs h ↔ (a, h) ∈ evs := by
  unfold groupOf
  constructor
  · intro ha
    rcases List.mem_map.mp ha with ⟨e, he, rfl⟩
    have := List.mem_filter.mp he
    have h2 : e.2 = h := by simpa using this.2
    rw [← h2]; exact this.1
  · intro ha
    exact List.mem_map.mpr ⟨(a, h), List.mem_filter.mpr ⟨ha, by simp⟩, rfl⟩

theorem groups_disjoint_nodup (evs : List Evidence) (h₁ h₂ : Nat) (hne : h₁ ≠ h₂)
    (hnd : (evs.map (·.1)).Nodup) : (groupOf evs h₁ ++ groupOf evs h₂).Nodup := by
  rw [List.nodup_append]
  refine ⟨hnd.sublist (groupOf_sublist evs h₁), hnd.sublist (groupOf_sublist evs h₂), ?_⟩
  intro a ha b hb hab
  subst hab
  exact hne (fst_inj_of_nodup evs hnd a h₁ h₂ (mem_groupOf.mp ha) (mem_groupOf.mp hb))

theorem mem_winners {s : Snapshot} {evs : List Evidence} {h : Nat} (hw : h ∈ winners s evs) :
    (tally s (groupOf evs h)).consensus = true := by
  unfold winners at hw
  exact (List.mem_filter.mp hw).2

theorem addEvidence_keys (evs : List Evidence) (e : Evidence) :
    (addEvidence evs e).map (·.1) =
      if e.1 ∈ evs.map (·.1) then evs.map (·.1) else evs.map (·.1) ++ [e.1] := by
  induction evs with
  | nil => simp [addEvidence]
  | cons x xs ih =>
    simp only [addEvidence]
    by_cases hx : x.1 = e.1
    · simp [hx]
    · simp only [beq_iff_eq, hx, if_false, List.map_cons, ih, List.mem_cons]
      have : ¬ e.1 = x.1 := fun h => hx h.symm
      simp only [this, false_or]
      split <;> simp

/-- `sortAsc` facts -/
theorem mem_insertSorted {x y : Nat} {l : List Nat} : y ∈ insertSorted x l ↔ y = x ∨ y ∈ l := by
  induction l with
  | nil => simp [insertSorted]
  | cons z zs ih =>
    simp only [insertSorted]
    split
    · simp
    · simp only [List.mem_cons, ih]
      constructor
      · rintro (h | h | h) <;> simp [h]
      · rintro (h | h | h) <;> simp [h]

theorem mem_sortAsc {y : Nat} {l : List Nat} : y ∈ sortAsc l ↔ y ∈ l := by
  induction l with
  | nil => simp [sortAsc]
  | cons z zs ih => simp [sortAsc, mem_insertSorted, ih]

theorem length_insertSorted (x : Nat) (l : List Nat) : (insertSorted x l).length = l.length + 1 := by
  induction l with
  | nil => simp [insertSorted]
  | cons z zs ih => simp only [insertSorted]; split <;> simp [ih]

theorem length_sortAsc (l : List Nat) : (sortAsc l).length = l.length := by
  induction l with
  | nil => rfl
  | cons z zs ih => simp [sortAsc, length_insertSorted, ih]

def Ascending (l : List Nat) : Prop := List.Pairwise (· ≤ ·) l

theorem ascending_insertSorted (x : Nat) (l : List Nat) (h : Ascending l) :
    Ascending (insertSorted x l) := by
  induction l with
  | nil => simp [insertSorted, Ascending]
  | cons z zs ih =>
    unfold Ascending at *
    simp only [insertSorted]
    have hz := List.pairwise_cons.mp h
    split
    · rename_i hxz
      refine List.pairwise_cons.mpr ⟨?_, h⟩
      intro a ha
      rcases List.mem_cons.mp ha with ha | ha
      · omega
      · have := hz.1 a ha; omega
    · rename_i hxz
      refine List.pairwise_cons.mpr ⟨?_, ih hz.2⟩
      intro a ha
      rcases mem_insertSorted.mp ha with ha | ha
      · omega
      · exact hz.1 a ha

theorem ascending_sortAsc (l : List Nat) : Ascending (sortAsc l) := by
  induction l with
  | nil => simp [sortAsc, Ascending]
  | cons z zs ih => exact ascending_insertSorted z _ ih

theorem ascending_getD_le (l : List Nat) (h : Ascending l) (i j : Nat) (hij : i ≤ j) (hj : j < l.length) :
    l.getD i 0 ≤ l.getD j 0 := by
  unfold Ascending at h
  rcases Nat.lt_or_eq_of_le hij with hlt | heq
  · have hi : i < l.length := by omega
    have := List.pairwise_iff_getElem.mp h i j hi hj hlt
    simpa [List.getD_eq_getElem?_getD, List.getElem?_eq_getElem hi, List.getElem?_eq_getElem hj] using this
  · subst heq; exact Nat.le_refl _

theorem getD_mem (l : List Nat) (i : Nat) (hi : i < l.length) : l.getD i 0 ∈ l := by
  simp [List.getD_eq_getElem?_getD, List.getElem?_eq_getElem hi]

theorem midpoint_between (lo hi : Nat) (h : lo ≤ hi) (hhi : hi < U64) :
    lo ≤ midpoint lo hi ∧ midpoint lo hi ≤ hi := by
  unfold midpoint U64 at *
  omega


/-! ### each validator once: power counted from the snapshot side -/

def snapPower (s : Snapshot) (grp : List Nat) : Nat :=
  ((s.vals.filter (fun v => grp.contains v.1)).map (·.2)).sum

theorem sumOver_cons_not_mem (v : Nat × Nat) (vs : List (Nat × Nat)) (l : List Nat) (h : ¬ v.1 ∈ l) :
    sumOver (v :: vs) l = sumOver vs l := by
  induction l with
  | nil => rfl
  | cons a as ih =>
    have ha : ¬ v.1 = a := by intro e; apply h; simp [e]
    have has : ¬ v.1 ∈ as := by intro e; apply h; simp [e]
    simp only [sumOver, lookup_cons, ih has]
    simp [ha]

theorem sumOver_le_power (vs : List (Nat × Nat)) (l : List Nat) (hnd : l.Nodup) :
    sumOver vs l ≤ ((vs.filter (fun v => l.contains v.1)).map (·.2)).sum := by
  induction vs with
  | nil =>
    have : ∀ l, sumOver [] l = 0 := by
      intro l; induction l with
      | nil => rfl
      | cons a as ih => simp [sumOver, ih, lookup]
    simp [this]
  | cons v vs ih =>
    by_cases hm : v.1 ∈ l
    · have := sumOver_cons_le v vs l hnd
      have hc : l.contains v.1 = true := by simpa using hm
      simp only [List.filter_cons, hc, if_true, List.map_cons, List.sum_cons]
      omega
    · rw [sumOver_cons_not_mem v vs l hm]
      have hc : l.contains v.1 = false := by simpa using hm
      simp only [List.filter_cons, hc]
      simpa using ih

theorem sublist_sum_le {l₁ l₂ : List Nat} (h : l₁.Sublist l₂) : l₁.sum ≤ l₂.sum := by
  induction h with
  | slnil => simp
  | cons a _ ih => simp only [List.sum_cons]; omega
  | cons_cons a _ ih => simp only [List.sum_cons]; omega

theorem mem_hashes {evs : List Evidence} {h : Nat} : h ∈ hashes evs ↔ ∃ a, (a, h) ∈ evs := by
  induction evs with
  | nil => simp [hashes]
  | cons e es ih =>
    simp only [hashes, List.mem_cons, List.mem_filter, ih]
    constructor
    · rintro (rfl | ⟨⟨a, ha⟩, _⟩)
      · exact ⟨e.1, Or.inl rfl⟩
      · exact ⟨a, Or.inr ha⟩
    · rintro ⟨a, ha | ha⟩
      · left; rw [← ha]
      · by_cases he : h = e.2
        · exact Or.inl he
        · right; exact ⟨⟨a, ha⟩, by simpa using he⟩

theorem foundShares_sublist {s : Snapshot} {l₁ l₂ : List Nat} (h : l₁.Sublist l₂) :
    (foundShares s l₁).Sublist (foundShares s l₂) := by
  unfold foundShares; exact h.filterMap _

theorem group_consensus_overall (s : Snapshot) (evs : List Evidence) (h : Nat)
    (hc : (tally s (groupOf evs h)).consensus = true) :
    (tally s (evs.map (·.1))).consensus = true := by
  have ⟨hne, hq⟩ := (consensus_iff s _).mp hc
  apply (consensus_iff s _).mpr
  have hsub := foundShares_sublist (s := s) (groupOf_sublist evs h)
  refine ⟨?_, ?_⟩
  · intro e; rw [e] at hsub; exact hne (List.sublist_nil.mp hsub)
  · have := sublist_sum_le hsub; unfold shareSum at *; omega

theorem verifyEvidence_winnerIn_iff (s : Snapshot) (evs : List Evidence) (ws : List Nat) :
    verifyEvidence s evs = .winnerIn ws ↔
      (tally s (evs.map (·.1))).consensus = true ∧ ws = winners s evs ∧ ws ≠ [] := by
  unfold verifyEvidence
  cases hc : (tally s (evs.map (·.1))).consensus
  · simp
  · cases hw : winners s evs with
    | nil =>
      simp only [Bool.not_true, Bool.false_eq_true, if_false, true_and]
      constructor
      · intro h; cases h
      · rintro ⟨h1, h2⟩; exact absurd h1 h2
    | cons w ws' =>
      simp only [Bool.not_true, Bool.false_eq_true, if_false, true_and]
      constructor
      · intro h; injection h with h; exact ⟨h.symm, by rw [← h]; simp⟩
      · rintro ⟨h1, _⟩; rw [h1]

theorem group_nonempty_of_consensus {s : Snapshot} {l : List Nat}
    (hc : (tally s l).consensus = true) : ∃ a, a ∈ l := by
  have ⟨hne, _⟩ := (consensus_iff s _).mp hc
  cases l with
  | nil => exact absurd rfl hne
  | cons a _ => exact ⟨a, by simp⟩

theorem lookup_none_of_not_mem (vs : List (Nat × Nat)) (a : Nat) (h : ¬ a ∈ vs.map (·.1)) :
    lookup vs a = none := by
  induction vs with
  | nil => rfl
  | cons v vs ih =>
    rw [lookup_cons]
    have h1 : ¬ v.1 = a := by intro e; apply h; simp [e]
    have h2 : ¬ a ∈ vs.map (·.1) := by intro e; apply h; simp only [List.map_cons, List.mem_cons]; exact Or.inr e
    simp only [beq_iff_eq, h1, if_false]
    exact ih h2

theorem sumOver_cons_mem (v : Nat × Nat) (vs : List (Nat × Nat)) (l : List Nat)
    (hm : v.1 ∈ l) (hnd : l.Nodup) (hv : lookup vs v.1 = none) :
    sumOver (v :: vs) l = v.2 + sumOver vs l := by
  induction l with
  | nil => cases hm
  | cons a as ih =>
    have hnd' := List.nodup_cons.mp hnd
    simp only [sumOver, lookup_cons]
    by_cases ha : v.1 = a
    · subst ha
      rw [sumOver_cons_not_mem v vs as hnd'.1, hv]
      simp
    · have hmem : v.1 ∈ as := by
        rcases List.mem_cons.mp hm with h | h
        · exact absurd h ha
        · exact h
      rw [ih hmem hnd'.2]
      simp only [beq_iff_eq, ha, if_false]
      omega

theorem sumOver_eq_power (vs : List (Nat × Nat)) (hvs : (vs.map (·.1)).Nodup) (l : List Nat)
    (hnd : l.Nodup) :
    sumOver vs l = ((vs.filter (fun v => l.contains v.1)).map (·.2)).sum := by
  induction vs with
  | nil =>
    have : ∀ l, sumOver [] l = 0 := by
      intro l; induction l with
      | nil => rfl
      | cons a as ih => simp [sumOver, ih, lookup]
    simp [this]
  | cons v vs ih =>
    have hvs' := List.nodup_cons.mp (by simpa only [List.map_cons] using hvs)
    by_cases hm : v.1 ∈ l
    · have hc : l.contains v.1 = true := by simpa using hm
      rw [sumOver_cons_mem v vs l hm hnd (lookup_none_of_not_mem vs v.1 hvs'.1)]
      simp only [List.filter_cons, hc, if_true, List.map_cons, List.sum_cons, ih hvs'.2]
    · have hc : l.contains v.1 = false := by simpa using hm
      rw [sumOver_cons_not_mem v vs l hm]
      simp only [List.filter_cons, hc]
      simpa using ih hvs'.2

theorem foundShares_ne_nil_iff (s : Snapshot) (l : List Nat) :
    foundShares s l ≠ [] ↔ ∃ a ∈ l, s.share? a ≠ none := by
  unfold foundShares
  induction l with
  | nil => simp
  | cons a as ih =>
    simp only [List.filterMap_cons]
    cases h : s.share? a with
    | none =>
      simp only [ih, List.mem_cons]
      constructor
      · rintro ⟨b, hb, hb'⟩; exact ⟨b, Or.inr hb, hb'⟩
      · rintro ⟨b, hb | hb, hb'⟩
        · subst hb; exact absurd h hb'
        · exact ⟨b, hb, hb'⟩
    | some x =>
      simp only [ne_eq, reduceCtorEq, not_false_eq_true, true_iff]
      exact ⟨a, by simp, by simp [h]⟩

theorem hashes_nodup (evs : List Evidence) : (hashes evs).Nodup := by
  induction evs with
  | nil => simp [hashes]
  | cons e es ih =>
    simp only [hashes]
    rw [List.nodup_cons]
    refine ⟨by simp [List.mem_filter], ih.sublist List.filter_sublist⟩

theorem nodup_all_eq_length_le_one {l : List Nat} (hnd : l.Nodup) (h : ∀ a ∈ l, ∀ b ∈ l, a = b) :
    l.length ≤ 1 := by
  cases l with
  | nil => simp
  | cons x xs =>
    cases xs with
    | nil => simp
    | cons y ys =>
      exfalso
      have := h x (by simp) y (by simp)
      subst this
      have := List.nodup_cons.mp hnd
      exact this.1 (by simp)

theorem shareSum_eq_snapPower (s : Snapshot) (hs : (s.vals.map (·.1)).Nodup) (l : List Nat)
    (hl : l.Nodup) : shareSum s l = snapPower s l := by
  rw [shareSum_eq]; unfold snapPower; exact sumOver_eq_power s.vals hs l hl

/-- a snapshot as `createNewSnapshot` builds it (total = sum of the shares, positive), or the
    empty one the model starts with -/
def SnapOK (s : Snapshot) : Prop :=
  s.vals = [] ∨ ((s.vals.map (·.2)).sum ≤ s.total ∧ 0 < s.total)

theorem winners_nil_of_no_vals (s : Snapshot) (evs : List Evidence) (h : s.vals = []) :
    winners s evs = [] := by
  unfold winners
  apply List.filter_eq_nil_iff.mpr
  intro w _
  have : foundShares s (groupOf evs w) = [] := by
    unfold foundShares
    apply List.filterMap_eq_nil_iff.mpr
    intro a _
    simp [Snapshot.share?, lookup, h]
  simp [tally, this, Power.consensus]

theorem lookup_ne_none_of_mem (vs : List (Nat × Nat)) (v : Nat × Nat) (hv : v ∈ vs) :
    lookup vs v.1 ≠ none := by
  induction vs with
  | nil => cases hv
  | cons x xs ih =>
    rw [lookup_cons]
    by_cases hx : x.1 = v.1
    · simp [hx]
    · simp only [beq_iff_eq, hx, if_false]
      rcases List.mem_cons.mp hv with e | e
      · exact absurd (by rw [e]) hx
      · exact ih e

/-! ### the median -/

theorem insertSorted_perm (x : Nat) (l : List Nat) : (insertSorted x l).Perm (x :: l) := by
  induction l with
  | nil => simp [insertSorted]
  | cons y ys ih =>
    simp only [insertSorted]
    split
    · exact List.Perm.refl _
    · exact (List.Perm.cons y ih).trans (List.Perm.swap x y ys)

theorem sortAsc_perm (l : List Nat) : (sortAsc l).Perm l := by
  induction l with
  | nil => simp [sortAsc]
  | cons x xs ih => exact (insertSorted_perm x _).trans (List.Perm.cons x ih)

theorem ascending_getElem_le (l : List Nat) (h : Ascending l) (i j : Nat) (hij : i ≤ j) (hj : j < l.length) :
    l[i]'(by omega) ≤ l[j] := by
  unfold Ascending at h
  rcases Nat.lt_or_eq_of_le hij with hlt | heq
  · exact List.pairwise_iff_getElem.mp h i j (by omega) hj hlt
  · subst heq; exact Nat.le_refl _

theorem count_le_sorted (w : List Nat) (hw : Ascending w) (i : Nat) (hi : i < w.length)
    (m : Nat) (hm : w[i] ≤ m) : i + 1 ≤ w.countP (fun x => decide (x ≤ m)) := by
  have hall : (w.take (i+1)).countP (fun x => decide (x ≤ m)) = (w.take (i+1)).length := by
    apply List.countP_eq_length.mpr
    intro a ha
    obtain ⟨j, hj, rfl⟩ := List.mem_take_iff_getElem.mp ha
    have hj' : j < i + 1 ∧ j < w.length := by omega
    have := ascending_getElem_le w hw j i (by omega) hi
    simp only [decide_eq_true_eq]; omega
  have hlen : (w.take (i+1)).length = i + 1 := by simp; omega
  have hsub := (List.take_sublist (i+1) w).countP_le (p := fun x => decide (x ≤ m))
  omega

theorem count_ge_sorted (w : List Nat) (hw : Ascending w) (i : Nat) (hi : i < w.length)
    (m : Nat) (hm : m ≤ w[i]) : w.length - i ≤ w.countP (fun x => decide (m ≤ x)) := by
  have hall : (w.drop i).countP (fun x => decide (m ≤ x)) = (w.drop i).length := by
    apply List.countP_eq_length.mpr
    intro a ha
    obtain ⟨j, hj, rfl⟩ := List.mem_drop_iff_getElem.mp ha
    have := ascending_getElem_le w hw i (i + j) (by omega) (by omega)
    simp only [decide_eq_true_eq]; omega
  have hlen : (w.drop i).length = w.length - i := by simp
  have hsub := (List.drop_sublist i w).countP_le (p := fun x => decide (m ≤ x))
  omega

theorem getD_eq_getElem (l : List Nat) (i : Nat) (hi : i < l.length) : l.getD i 0 = l[i] := by
  simp [List.getD_eq_getElem?_getD, List.getElem?_eq_getElem hi]

theorem midpoint_eq (lo hi : Nat) (h : lo ≤ hi) (hhi : hi < U64) : midpoint lo hi = (lo + hi) / 2 := by
  unfold midpoint U64 at *
  omega

/-- unfolding of `median` on a non-empty list, with in-range indexing -/
theorem median_cases (l : List Nat) (hne : l ≠ []) :
    let w := sortAsc l
    ∃ hc : w.length / 2 < w.length,
      (w.length % 2 = 1 → median l = w[w.length / 2]) ∧
      (w.length % 2 = 0 → ∃ hc1 : w.length / 2 - 1 < w.length,
          median l = midpoint w[w.length / 2 - 1] w[w.length / 2]) := by
  intro w
  have hlen : 0 < l.length := List.length_pos_iff.mpr hne
  have hsl : w.length = l.length := length_sortAsc l
  have hc : w.length / 2 < w.length := by omega
  refine ⟨hc, ?_, ?_⟩
  · intro hodd
    unfold median medianWith
    simp only [show ¬ l.length < 1 by omega, if_false]
    have : ¬ ((sortAsc l).length % 2 == 0) = true := by simp; omega
    simp only [this]
    exact getD_eq_getElem _ _ hc
  · intro heven
    have hc1 : w.length / 2 - 1 < w.length := by omega
    refine ⟨hc1, ?_⟩
    unfold median medianWith
    simp only [show ¬ l.length < 1 by omega, if_false]
    have : ((sortAsc l).length % 2 == 0) = true := by simp; omega
    simp only [this, if_true]
    rw [getD_eq_getElem _ _ hc, getD_eq_getElem _ _ hc1]

/-! ### proofs of the pure-layer property theorems that the history lemmas reuse -/

theorem winner_has_two_thirds_lem (s : Snapshot) (evs : List Evidence) (ws : List Nat) (h : Nat)
    (hv : verifyEvidence s evs = .winnerIn ws) (hh : h ∈ ws) :
    3 * shareSum s (groupOf evs h) ≥ 2 * s.total ∧
    (∀ a ∈ groupOf evs h, (a, h) ∈ evs) := by
  unfold verifyEvidence at hv
  split at hv
  · cases hv
  · split at hv
    · cases hv
    · rename_i ws' hne
      injection hv with hv
      subst hv
      have hc := mem_winners (by assumption : h ∈ winners s evs)
      refine ⟨((consensus_iff s _).mp hc).2, ?_⟩
      intro a ha
      unfold groupOf at ha
      rcases List.mem_map.mp ha with ⟨e, he, rfl⟩
      have := List.mem_filter.mp he
      have h2 : e.2 = h := by simpa using this.2
      rw [← h2]; exact this.1

theorem estimate_needs_quorum_lem (s : Snapshot) (ests : List (Nat × Nat)) (v : Nat)
    (h : verifyGasEstimates s ests = .elected v) :
    3 * shareSum s (ests.map (·.1)) ≥ 2 * s.total ∧ v = median (ests.map (·.2)) ∧ v ≠ 0 := by
  unfold verifyGasEstimates at h
  split at h
  · cases h
  · rename_i hc
    have hc' : (tally s (ests.map (·.1))).consensus = true := by simpa using hc
    simp only at h
    split at h
    · cases h
    · rename_i hz
      injection h with h
      refine ⟨((consensus_iff s _).mp hc').2, h.symm, ?_⟩
      subst h; simpa using hz

theorem median_in_range_lem (l : List Nat) (hne : l ≠ []) (hb : ∀ x ∈ l, x < U64) :
    ∃ a ∈ l, ∃ b ∈ l, a ≤ median l ∧ median l ≤ b := by
  have hlen : 0 < l.length := List.length_pos_iff.mpr hne
  have hsl := length_sortAsc l
  unfold median medianWith
  simp only [show ¬ l.length < 1 by omega, if_false]
  split
  · rename_i heven
    have heven' : (sortAsc l).length % 2 = 0 := by simpa using heven
    have hc : (sortAsc l).length / 2 < (sortAsc l).length := by omega
    have hc1 : (sortAsc l).length / 2 - 1 < (sortAsc l).length := by omega
    have hlo := getD_mem (sortAsc l) _ hc1
    have hhi := getD_mem (sortAsc l) _ hc
    have hle := ascending_getD_le (sortAsc l) (ascending_sortAsc l) ((sortAsc l).length / 2 - 1)
      ((sortAsc l).length / 2) (by omega) hc
    have hbound := hb _ (mem_sortAsc.mp hhi)
    have := midpoint_between _ _ hle hbound
    exact ⟨_, mem_sortAsc.mp hlo, _, mem_sortAsc.mp hhi, this.1, this.2⟩
  · have hc : (sortAsc l).length / 2 < (sortAsc l).length := by omega
    have hm := getD_mem (sortAsc l) _ hc
    exact ⟨_, mem_sortAsc.mp hm, _, mem_sortAsc.mp hm, Nat.le_refl _, Nat.le_refl _⟩

theorem median_half_lem (l : List Nat) (hne : l ≠ []) (hb : ∀ x ∈ l, x < U64) :
    l.length ≤ 2 * l.countP (fun x => decide (x ≤ median l)) ∧
    l.length ≤ 2 * l.countP (fun x => decide (median l ≤ x)) := by
  obtain ⟨hc, hodd, heven⟩ := median_cases l hne
  have hperm := sortAsc_perm l
  have hasc := ascending_sortAsc l
  have hsl : (sortAsc l).length = l.length := length_sortAsc l
  rw [← hperm.countP_eq, ← hperm.countP_eq]
  rcases Nat.mod_two_eq_zero_or_one (sortAsc l).length with h0 | h1
  · obtain ⟨hc1, hm⟩ := heven h0
    have hle := ascending_getElem_le (sortAsc l) hasc ((sortAsc l).length / 2 - 1)
      ((sortAsc l).length / 2) (by omega) hc
    have hbound := hb _ (mem_sortAsc.mp (List.getElem_mem hc))
    have hmid := midpoint_between _ _ hle hbound
    rw [← hm] at hmid
    have h1 := count_le_sorted (sortAsc l) hasc _ hc1 (median l) hmid.1
    have h2 := count_ge_sorted (sortAsc l) hasc _ hc (median l) hmid.2
    omega
  · have hm := hodd h1
    have h1' := count_le_sorted (sortAsc l) hasc _ hc (median l) (by rw [hm]; exact Nat.le_refl _)
    have h2 := count_ge_sorted (sortAsc l) hasc _ hc (median l) (by rw [hm]; exact Nat.le_refl _)
    omega

/-! ### latest submission -/

theorem addEvidence_cons (x : Evidence) (xs : List Evidence) (e : Evidence) :
    addEvidence (x :: xs) e = if x.1 = e.1 then (x.1, e.2) :: xs else x :: addEvidence xs e := by
  simp only [addEvidence]
  by_cases h : x.1 = e.1 <;> simp [h]

theorem lookup_nil (a : Nat) : lookup [] a = none := rfl

theorem lookup_cons' (v : Nat × Nat) (vs : List (Nat × Nat)) (a : Nat) :
    lookup (v :: vs) a = if v.1 = a then some v.2 else lookup vs a := by
  rw [lookup_cons]
  by_cases h : v.1 = a <;> simp [h]

theorem lookup_addEvidence (evs : List Evidence) (e : Evidence) (a : Nat) :
    lookup (addEvidence evs e) a = if e.1 = a then some e.2 else lookup evs a := by
  induction evs with
  | nil => simp [addEvidence, lookup_cons', lookup_nil]
  | cons x xs ih =>
    rw [addEvidence_cons]
    by_cases hx : x.1 = e.1
    · simp only [hx, if_true, lookup_cons']
      by_cases ha : e.1 = a <;> simp [ha]
    · simp only [hx, if_false, lookup_cons', ih]
      by_cases hxa : x.1 = a
      · have : ¬ e.1 = a := by intro h; exact hx (hxa.trans h.symm)
        simp [hxa, this]
      · simp [hxa]

/-- the proof hash of the last submission by validator `a` in `subs` -/
def lastSub (subs : List Evidence) (a : Nat) : Option Nat :=
  subs.foldl (fun r e => if e.1 = a then some e.2 else r) none

theorem lookup_foldl_addEvidence (subs acc : List Evidence) (a : Nat) :
    lookup (subs.foldl addEvidence acc) a =
      subs.foldl (fun r e => if e.1 = a then some e.2 else r) (lookup acc a) := by
  induction subs generalizing acc with
  | nil => rfl
  | cons e es ih => simp only [List.foldl_cons, ih, lookup_addEvidence]

theorem lastSub_append (pre post : List Evidence) (a : Nat) :
    lastSub (pre ++ post) a =
      post.foldl (fun r e => if e.1 = a then some e.2 else r) (lastSub pre a) := by
  unfold lastSub; rw [List.foldl_append]

theorem foldl_keep (post : List Evidence) (a : Nat) (r : Option Nat) (h : ∀ e ∈ post, e.1 ≠ a) :
    post.foldl (fun r e => if e.1 = a then some e.2 else r) r = r := by
  induction post generalizing r with
  | nil => rfl
  | cons e es ih =>
    have he : ¬ e.1 = a := h e (by simp)
    simp only [List.foldl_cons, he, if_false]
    exact ih r (fun x hx => h x (by simp [hx]))

theorem mem_iff_lookup (evs : List Evidence) (hnd : (evs.map (·.1)).Nodup) (a h : Nat) :
    (a, h) ∈ evs ↔ lookup evs a = some h := by
  induction evs with
  | nil => simp [lookup_nil]
  | cons x xs ih =>
    have hnd' := List.nodup_cons.mp (by simpa only [List.map_cons] using hnd)
    rw [lookup_cons', List.mem_cons]
    by_cases hx : x.1 = a
    · simp only [hx, if_true]
      constructor
      · rintro (h1 | h1)
        · rw [← h1]
        · exfalso; apply hnd'.1; exact List.mem_map.mpr ⟨(a, h), h1, hx.symm⟩
      · intro h1; injection h1 with h1; left; rw [← h1, ← hx]
    · simp only [hx, if_false, ← ih hnd'.2]
      constructor
      · rintro (h1 | h1)
        · exfalso; apply hx; rw [← h1]
        · exact h1
      · intro h1; exact Or.inr h1

/-! ### history model -/

namespace Hist

theorem get_nil (id : Nat) : get [] id = none := rfl

theorem get_cons (x : Item) (xs : List Item) (id : Nat) :
    get (x :: xs) id = if x.id = id then some x else get xs id := by
  unfold get
  rw [List.find?_cons]
  by_cases h : x.id = id
  · simp [h]
  · have : (x.id == id) = false := by simpa using h
    simp [this, h]

theorem get_some {q : List Item} {id : Nat} {it : Item} (h : get q id = some it) :
    it ∈ q ∧ it.id = id := by
  unfold get at h
  exact ⟨List.mem_of_find?_eq_some h, by simpa using List.find?_some h⟩

theorem get_none {q : List Item} {id : Nat} : get q id = none ↔ ∀ it ∈ q, it.id ≠ id := by
  unfold get
  simp [List.find?_eq_none]

theorem get_of_mem {q : List Item} {it : Item} (hnd : (q.map (·.id)).Nodup) (h : it ∈ q) :
    get q it.id = some it := by
  induction q with
  | nil => cases h
  | cons x xs ih =>
    have hnd' := List.nodup_cons.mp (by simpa only [List.map_cons] using hnd)
    rw [get_cons]
    rcases List.mem_cons.mp h with h | h
    · subst h; simp
    · have : x.id ≠ it.id := by
        intro e; apply hnd'.1; exact List.mem_map.mpr ⟨it, h, e.symm⟩
      simp only [this, if_false]
      exact ih hnd'.2 h

theorem set_cons (x : Item) (xs : List Item) (it : Item) :
    set (x :: xs) it = (if x.id = it.id then it else x) :: set xs it := by
  unfold set
  by_cases h : x.id = it.id <;> simp [h]

theorem del_cons (x : Item) (xs : List Item) (id : Nat) :
    del (x :: xs) id = if x.id = id then del xs id else x :: del xs id := by
  unfold del
  by_cases h : x.id = id <;> simp [h]

theorem get_set (q : List Item) (it : Item) (id : Nat) :
    get (set q it) id = if it.id = id then (get q id).map (fun _ => it) else get q id := by
  induction q with
  | nil => simp [get, set]
  | cons x xs ih =>
    rw [set_cons, get_cons, get_cons, ih]
    by_cases hx : x.id = it.id
    · by_cases hi : it.id = id
      · simp [hx, hi]
      · have : ¬ x.id = id := by rw [hx]; exact hi
        simp [hx, hi]
    · by_cases hxi : x.id = id
      · subst hxi
        have h1 : ¬ it.id = x.id := fun e => hx e.symm
        simp only [hx, if_false, if_true, h1]
      · simp only [hx, if_false, hxi]

theorem get_del (q : List Item) (id' id : Nat) :
    get (del q id') id = if id = id' then none else get q id := by
  induction q with
  | nil => simp [get, del]
  | cons x xs ih =>
    rw [del_cons, get_cons]
    by_cases hx : x.id = id'
    · simp only [hx, if_true, ih]
      by_cases hi : id = id'
      · simp [hi]
      · have : ¬ id' = id := fun e => hi e.symm
        simp [hi, this]
    · simp only [hx, if_false, get_cons, ih]
      by_cases hxi : x.id = id
      · have : ¬ id = id' := by intro e; exact hx (hxi.trans e)
        simp [hxi, this]
      · simp [hxi]

theorem get_append_single (q : List Item) (x : Item) (id : Nat) :
    get (q ++ [x]) id = match get q id with
      | some it => some it
      | none => if x.id = id then some x else none := by
  induction q with
  | nil => simp [get_cons, get_nil]
  | cons y ys ih =>
    rw [List.cons_append, get_cons, get_cons, ih]
    by_cases h : y.id = id <;> simp [h]

/-- what one operation can do to the state (every other branch leaves it untouched) -/
inductive Tr (s : St) : Op → St → Prop
  | same (op : Op) : Tr s op s
  | snap (sn : Snapshot) : Tr s (.snap sn) { s with snap := sn }
  | put (req : Bool) : Tr s (.put req)
      { s with nextId := s.nextId + 1, queue := s.queue ++ [{ id := s.nextId + 1, req := req }] }
  | ev (id a h : Nat) (it : Item) (hg : get s.queue id = some it) : Tr s (.ev id a h)
      { s with queue := set s.queue { it with evs := addEvidence it.evs (a, h) } }
  | est (id a v : Nat) (it : Item) (es : List (Nat × Nat)) (hg : get s.queue id = some it)
      (hreq : it.req = true) (hv1 : 1 ≤ v) (hv : v < U64)
      (hadd : addGasEstimate it.ests (a, v) = some es) :
      Tr s (.est id a v) { s with queue := set s.queue { it with ests := es } }
  | elect (id g : Nat) (it : Item) (hg : get s.queue id = some it) (hreq : it.req = true)
      (h0 : it.elected = 0) (hver : verifyGasEstimates s.snap it.ests = .elected g) :
      Tr s (.elect id true) { s with queue := set s.queue { it with elected := g } }
  | attest (id hint : Nat) (hard soft : List Nat) (it : Item) (ws : List Nat)
      (hg : get s.queue id = some it) (hev : it.evs ≠ [])
      (hver : verifyEvidence s.snap it.evs = .winnerIn ws)
      (hout : outcomeOf hard soft (pickWinner ws hint) ≠ .hard) :
      Tr s (.attest id hint hard soft)
        { s with queue := del s.queue id,
                 declared := s.declared ++
                   [(id, pickWinner ws hint, outcomeOf hard soft (pickWinner ws hint) == .soft)] }
  | prune (id : Nat) (it : Item) (hg : get s.queue id = some it) :
      Tr s (.prune id) { s with queue := del s.queue id }

theorem step_tr (s : St) (op : Op) : Tr s op (apply s op) := by
  unfold apply
  cases op with
  | snap sn => exact Tr.snap sn
  | put req => exact Tr.put req
  | ev id a h =>
    simp only [step, evStep]
    split
    · exact Tr.same _
    · rename_i it hg; exact Tr.ev id a h it hg
  | est id a v =>
    simp only [step, estStep]
    split
    · exact Tr.same _
    · rename_i hv1
      split
      · exact Tr.same _
      · rename_i it hg
        split
        · exact Tr.same _
        · rename_i hreq
          split
          · exact Tr.same _
          · rename_i hv
            split
            · exact Tr.same _
            · rename_i es hadd
              exact Tr.est id a v it es hg (by simpa using hreq) (by omega) (by simpa using hv) hadd
  | elect id feeOk =>
    simp only [step, electStep]
    split
    · exact Tr.same _
    · rename_i it hg
      split
      · exact Tr.same _
      · rename_i hreq
        split
        · exact Tr.same _
        · split
          · exact Tr.same _
          · rename_i h0
            split
            · exact Tr.same _
            · exact Tr.same _
            · rename_i g hver
              have h0' : it.elected = 0 := by omega
              simp only [setElected, h0']
              simp only [bne_self_eq_false, Bool.false_eq_true, if_false]
              cases feeOk
              · exact Tr.same _
              · exact Tr.elect id g it hg (by simpa using hreq) h0' hver
  | attest id hint hard soft =>
    simp only [step, attestStep]
    split
    · exact Tr.same _
    · rename_i it hg
      split
      · exact Tr.same _
      · rename_i hev
        have hev' : it.evs ≠ [] := by
          intro e; apply hev; simp [e]
        split
        · exact Tr.same _
        · rename_i ws hver
          have key := Tr.attest (s := s) id hint hard soft it ws hg hev' hver
          cases ho : outcomeOf hard soft (pickWinner ws hint)
          · rw [ho] at key; exact key (by decide)
          · rw [ho] at key; exact key (by decide)
          · exact Tr.same _
  | prune id =>
    simp only [step]
    split
    · exact Tr.same _
    · rename_i it hg; exact Tr.prune id it hg


theorem mem_set {q : List Item} {it x : Item} (h : x ∈ set q it) : x = it ∨ x ∈ q := by
  unfold set at h
  rcases List.mem_map.mp h with ⟨y, hy, rfl⟩
  by_cases hc : y.id = it.id
  · simp [hc]
  · simp [hc, hy]

theorem set_ids (q : List Item) (it : Item) : (set q it).map (·.id) = q.map (·.id) := by
  induction q with
  | nil => rfl
  | cons x xs ih =>
    rw [set_cons, List.map_cons, List.map_cons, ih]
    by_cases h : x.id = it.id <;> simp [h]

theorem mem_del {q : List Item} {id : Nat} {x : Item} (h : x ∈ del q id) : x ∈ q ∧ x.id ≠ id := by
  unfold del at h
  have := List.mem_filter.mp h
  exact ⟨this.1, by simpa using this.2⟩

theorem del_ids_nodup {q : List Item} (id : Nat) (h : (q.map (·.id)).Nodup) :
    ((del q id).map (·.id)).Nodup := by
  unfold del
  exact h.sublist (List.Sublist.map _ List.filter_sublist)

theorem addGasEstimate_nodup (ests ests' : List (Nat × Nat)) (e : Nat × Nat)
    (hnd : (ests.map (·.1)).Nodup) (h : addGasEstimate ests e = some ests') :
    (ests'.map (·.1)).Nodup ∧ ests' = ests ++ [e] := by
  unfold addGasEstimate at h
  split at h
  · cases h
  · rename_i hany
    injection h with h; subst h
    refine ⟨?_, rfl⟩
    simp only [List.map_append, List.map_cons, List.map_nil]
    rw [List.nodup_append]
    refine ⟨hnd, by simp, ?_⟩
    intro a ha b hb
    simp at hb; subst hb
    intro e'; subst e'
    apply hany
    rcases List.mem_map.mp ha with ⟨x, hx, hx1⟩
    exact List.any_eq_true.mpr ⟨x, hx, by simp [hx1]⟩

theorem addEvidence_keys_nodup (evs : List Evidence) (e : Evidence) (h : (evs.map (·.1)).Nodup) :
    ((addEvidence evs e).map (·.1)).Nodup := by
  rw [addEvidence_keys]
  split
  · exact h
  · rename_i hnot
    rw [List.nodup_append]
    refine ⟨h, by simp, ?_⟩
    intro a ha b hb
    simp at hb; subst hb
    intro e'; subst e'; exact hnot ha

/-- the invariant of reachable states -/
structure Inv (s : St) : Prop where
  ids_le : ∀ it ∈ s.queue, it.id ≤ s.nextId
  ids_nodup : (s.queue.map (·.id)).Nodup
  evs_nodup : ∀ it ∈ s.queue, (it.evs.map (·.1)).Nodup
  ests_nodup : ∀ it ∈ s.queue, (it.ests.map (·.1)).Nodup
  ests_u64 : ∀ it ∈ s.queue, ∀ e ∈ it.ests, 1 ≤ e.2 ∧ e.2 < U64
  decl_gone : ∀ d ∈ s.declared, d.1 ≤ s.nextId ∧ get s.queue d.1 = none
  decl_nodup : (s.declared.map (·.1)).Nodup

theorem inv_init : Inv St.init := by
  refine ⟨?_, ?_, ?_, ?_, ?_, ?_, ?_⟩ <;> simp [St.init]

theorem inv_set {s : St} (hI : Inv s) (id : Nat) (it it' : Item) (hg : get s.queue id = some it)
    (hid : it'.id = it.id) (hevs : (it'.evs.map (·.1)).Nodup) (hests : (it'.ests.map (·.1)).Nodup)
    (hu : ∀ e ∈ it'.ests, 1 ≤ e.2 ∧ e.2 < U64) : Inv { s with queue := set s.queue it' } := by
  have ⟨hmem, hitid⟩ := get_some hg
  refine ⟨?_, ?_, ?_, ?_, ?_, ?_, hI.decl_nodup⟩
  · intro x hx
    rcases mem_set hx with rfl | hx
    · show x.id ≤ s.nextId
      rw [hid]; exact hI.ids_le it hmem
    · exact hI.ids_le x hx
  · show ((set s.queue it').map (·.id)).Nodup
    rw [set_ids]; exact hI.ids_nodup
  · intro x hx
    rcases mem_set hx with rfl | hx
    · exact hevs
    · exact hI.evs_nodup x hx
  · intro x hx
    rcases mem_set hx with rfl | hx
    · exact hests
    · exact hI.ests_nodup x hx
  · intro x hx
    rcases mem_set hx with rfl | hx
    · exact hu
    · exact hI.ests_u64 x hx
  · intro d hd
    have := hI.decl_gone d hd
    refine ⟨this.1, ?_⟩
    show get (set s.queue it') d.1 = none
    rw [get_set]
    split <;> simp [this.2]

theorem inv_del {s : St} (hI : Inv s) (id : Nat) (decl : List (Nat × Nat × Bool))
    (hdecl : decl = s.declared ∨ (∃ w b, decl = s.declared ++ [(id, w, b)] ∧ ∃ it, get s.queue id = some it)) :
    Inv { s with queue := del s.queue id, declared := decl } := by
  have hold : ∀ d ∈ s.declared, d.1 ≤ s.nextId ∧ get (del s.queue id) d.1 = none := by
    intro d hd
    have := hI.decl_gone d hd
    refine ⟨this.1, ?_⟩
    rw [get_del]; split <;> simp [this.2]
  refine ⟨?_, del_ids_nodup id hI.ids_nodup, ?_, ?_, ?_, ?_, ?_⟩
  · intro x hx; exact hI.ids_le x (mem_del hx).1
  · intro x hx; exact hI.evs_nodup x (mem_del hx).1
  · intro x hx; exact hI.ests_nodup x (mem_del hx).1
  · intro x hx; exact hI.ests_u64 x (mem_del hx).1
  · rcases hdecl with rfl | ⟨w, b, rfl, it, hg⟩
    · exact hold
    · intro d hd
      rcases List.mem_append.mp hd with hd | hd
      · exact hold d hd
      · simp at hd; subst hd
        have ⟨hmem, hid⟩ := get_some hg
        refine ⟨by rw [← hid]; exact hI.ids_le it hmem, ?_⟩
        show get (del s.queue id) id = none
        rw [get_del]; simp
  · rcases hdecl with rfl | ⟨w, b, rfl, it, hg⟩
    · exact hI.decl_nodup
    · show ((s.declared ++ [(id, w, b)]).map (·.1)).Nodup
      simp only [List.map_append, List.map_cons, List.map_nil]
      rw [List.nodup_append]
      refine ⟨hI.decl_nodup, by simp, ?_⟩
      intro a ha b' hb
      simp at hb; subst hb
      intro e; subst e
      rcases List.mem_map.mp ha with ⟨d, hd, hd1⟩
      have := (hI.decl_gone d hd).2
      rw [hd1, hg] at this
      cases this

theorem inv_tr {s s' : St} {op : Op} (hI : Inv s) (ht : Tr s op s') : Inv s' := by
  cases ht with
  | same => exact hI
  | snap sn => exact ⟨hI.ids_le, hI.ids_nodup, hI.evs_nodup, hI.ests_nodup, hI.ests_u64, hI.decl_gone, hI.decl_nodup⟩
  | put req =>
    refine ⟨?_, ?_, ?_, ?_, ?_, ?_, hI.decl_nodup⟩
    · intro x hx
      rcases List.mem_append.mp hx with hx | hx
      · have := hI.ids_le x hx; show x.id ≤ s.nextId + 1; omega
      · simp at hx; subst hx; exact Nat.le_refl _
    · show (List.map (fun x : Item => x.id) (s.queue ++ [_])).Nodup
      simp only [List.map_append, List.map_cons, List.map_nil]
      rw [List.nodup_append]
      refine ⟨hI.ids_nodup, by simp, ?_⟩
      intro a ha b hb
      simp at hb; subst hb
      rcases List.mem_map.mp ha with ⟨x, hx, rfl⟩
      have := hI.ids_le x hx
      omega
    · intro x hx
      rcases List.mem_append.mp hx with hx | hx
      · exact hI.evs_nodup x hx
      · simp at hx; subst hx; simp
    · intro x hx
      rcases List.mem_append.mp hx with hx | hx
      · exact hI.ests_nodup x hx
      · simp at hx; subst hx; simp
    · intro x hx
      rcases List.mem_append.mp hx with hx | hx
      · exact hI.ests_u64 x hx
      · simp at hx; subst hx; simp
    · intro d hd
      have := hI.decl_gone d hd
      refine ⟨by show d.1 ≤ s.nextId + 1; omega, ?_⟩
      show get (s.queue ++ [_]) d.1 = none
      rw [get_append_single, this.2]
      have : ¬ s.nextId + 1 = d.1 := by omega
      simp [this]
  | ev id a h it hg =>
    have ⟨hmem, _⟩ := get_some hg
    exact inv_set hI id it _ hg rfl (addEvidence_keys_nodup _ _ (hI.evs_nodup it hmem))
      (hI.ests_nodup it hmem) (hI.ests_u64 it hmem)
  | est id a v it es hg hreq hv1 hv hadd =>
    have ⟨hmem, _⟩ := get_some hg
    have ⟨hnd, hes⟩ := addGasEstimate_nodup _ _ _ (hI.ests_nodup it hmem) hadd
    refine inv_set hI id it _ hg rfl (hI.evs_nodup it hmem) hnd ?_
    intro e he
    rw [hes] at he
    rcases List.mem_append.mp he with he | he
    · exact hI.ests_u64 it hmem e he
    · simp at he; subst he; exact ⟨hv1, hv⟩
  | elect id g it hg hreq h0 hver =>
    have ⟨hmem, _⟩ := get_some hg
    exact inv_set hI id it _ hg rfl (hI.evs_nodup it hmem) (hI.ests_nodup it hmem) (hI.ests_u64 it hmem)
  | attest id hint hard soft it ws hg hev hver hout =>
    exact inv_del hI id _ (Or.inr ⟨_, _, rfl, it, hg⟩)
  | prune id it hg =>
    exact inv_del hI id _ (Or.inl rfl)

theorem runFrom_append (s : St) (a b : List Op) : runFrom (runFrom s a) b = runFrom s (a ++ b) := by
  unfold runFrom; rw [List.foldl_append]

theorem run_snoc (ops : List Op) (op : Op) : run (ops ++ [op]) = apply (run ops) op := by
  unfold run runFrom; rw [List.foldl_append]; rfl

theorem run_append (a b : List Op) : run (a ++ b) = runFrom (run a) b := by
  unfold run; rw [runFrom_append]

theorem inv_runFrom (s : St) (hI : Inv s) (ops : List Op) : Inv (runFrom s ops) := by
  induction ops generalizing s with
  | nil => exact hI
  | cons op ops ih => exact ih (apply s op) (inv_tr hI (step_tr s op))


theorem snoc_ind {α : Type} {P : List α → Prop} (hnil : P [])
    (hsnoc : ∀ l a, P l → P (l ++ [a])) (l : List α) : P l := by
  have h : ∀ r : List α, P r.reverse := by
    intro r
    induction r with
    | nil => simpa using hnil
    | cons a r ih => simpa using hsnoc _ a ih
  simpa using h l.reverse

/-- frame: what a surviving (or fresh) item looks like after one operation -/
theorem tr_frame {s s' : St} {op : Op} (ht : Tr s op s') (id : Nat) (it' : Item)
    (hg' : get s'.queue id = some it') :
    (∃ it, get s.queue id = some it ∧ it'.id = it.id ∧ it'.req = it.req ∧
      (it'.evs = it.evs ∨ ∃ a h, op = .ev id a h ∧ it'.evs = addEvidence it.evs (a, h)) ∧
      (it'.ests = it.ests ∨ ∃ a v, op = .est id a v ∧ it'.ests = it.ests ++ [(a, v)]) ∧
      (it'.elected = it.elected ∨
        (op = .elect id true ∧ it.elected = 0 ∧
          verifyGasEstimates s.snap it.ests = .elected it'.elected)))
    ∨ (∃ req, op = .put req ∧ id = s.nextId + 1 ∧ it' = { id := id, req := req }) := by
  have hsame : ∀ it, get s.queue id = some it → it' = it →
      (∃ it, get s.queue id = some it ∧ it'.id = it.id ∧ it'.req = it.req ∧
      (it'.evs = it.evs ∨ ∃ a h, op = .ev id a h ∧ it'.evs = addEvidence it.evs (a, h)) ∧
      (it'.ests = it.ests ∨ ∃ a v, op = .est id a v ∧ it'.ests = it.ests ++ [(a, v)]) ∧
      (it'.elected = it.elected ∨
        (op = .elect id true ∧ it.elected = 0 ∧
          verifyGasEstimates s.snap it.ests = .elected it'.elected))) := by
    intro it hg e; subst e
    exact ⟨it', hg, rfl, rfl, Or.inl rfl, Or.inl rfl, Or.inl rfl⟩
  cases ht with
  | same => exact Or.inl (hsame it' hg' rfl)
  | snap sn => exact Or.inl (hsame it' hg' rfl)
  | put req =>
    simp only [get_append_single] at hg'
    rcases Option.eq_none_or_eq_some (get s.queue id) with hq | ⟨it, hq⟩
    · rw [hq] at hg'
      simp only at hg'
      split at hg'
      · rename_i hid
        injection hg' with e
        try simp only at hid
        exact Or.inr ⟨req, rfl, hid.symm, by rw [← e, hid]⟩
      · cases hg'
    · rw [hq] at hg'; injection hg' with e
      exact Or.inl (hsame it hq e.symm)
  | ev id₀ a h it hg =>
    have hid₀ := (get_some hg).2; subst hid₀
    simp only [get_set] at hg'
    split at hg'
    · rename_i hid
      try simp only at hid
      subst hid
      rw [hg] at hg'; simp only [Option.map_some] at hg'
      injection hg' with e; subst e
      exact Or.inl ⟨it, hg, rfl, rfl, Or.inr ⟨a, h, rfl, rfl⟩, Or.inl rfl, Or.inl rfl⟩
    · exact Or.inl (hsame it' hg' rfl)
  | est id₀ a v it es hg hreq hv1 hv hadd =>
    have hid₀ := (get_some hg).2; subst hid₀
    simp only [get_set] at hg'
    split at hg'
    · rename_i hid
      try simp only at hid
      subst hid
      rw [hg] at hg'; simp only [Option.map_some] at hg'
      injection hg' with e; subst e
      have hes : es = it.ests ++ [(a, v)] := by
        unfold addGasEstimate at hadd
        split at hadd
        · cases hadd
        · injection hadd with e; exact e.symm
      exact Or.inl ⟨it, hg, rfl, rfl, Or.inl rfl, Or.inr ⟨a, v, rfl, hes⟩, Or.inl rfl⟩
    · exact Or.inl (hsame it' hg' rfl)
  | elect id₀ g it hg hreq h0 hver =>
    have hid₀ := (get_some hg).2; subst hid₀
    simp only [get_set] at hg'
    split at hg'
    · rename_i hid
      try simp only at hid
      subst hid
      rw [hg] at hg'; simp only [Option.map_some] at hg'
      injection hg' with e; subst e
      exact Or.inl ⟨it, hg, rfl, rfl, Or.inl rfl, Or.inl rfl, Or.inr ⟨rfl, h0, hver⟩⟩
    · exact Or.inl (hsame it' hg' rfl)
  | attest id₀ hint hard soft it ws hg hev hver hout =>
    simp only [get_del] at hg'
    split at hg'
    · cases hg'
    · exact Or.inl (hsame it' hg' rfl)
  | prune id₀ it hg =>
    simp only [get_del] at hg'
    split at hg'
    · cases hg'
    · exact Or.inl (hsame it' hg' rfl)

theorem inv_run (ops : List Op) : Inv (run ops) := inv_runFrom _ inv_init ops

theorem tr_nextId_le {s s' : St} {op : Op} (ht : Tr s op s') : s.nextId ≤ s'.nextId := by
  cases ht <;> simp

/-- a removed (or never used, but already passed) id never shows up again -/
theorem tr_gone {s s' : St} {op : Op} (_hI : Inv s) (ht : Tr s op s') (id : Nat)
    (hle : id ≤ s.nextId) (hg : get s.queue id = none) : get s'.queue id = none := by
  cases ht with
  | same => exact hg
  | snap sn => exact hg
  | put req =>
    show get (s.queue ++ [_]) id = none
    rw [get_append_single, hg]
    have : ¬ s.nextId + 1 = id := by omega
    simp [this]
  | ev id₀ a h it hg₀ => show get (set _ _) id = none; rw [get_set]; split <;> simp [hg]
  | est id₀ a v it es hg₀ hreq hv1 hv hadd => show get (set _ _) id = none; rw [get_set]; split <;> simp [hg]
  | elect id₀ g it hg₀ hreq h0 hver => show get (set _ _) id = none; rw [get_set]; split <;> simp [hg]
  | attest id₀ hint hard soft it ws hg₀ hev hver hout => show get (del _ _) id = none; rw [get_del]; split <;> simp [hg]
  | prune id₀ it hg₀ => show get (del _ _) id = none; rw [get_del]; split <;> simp [hg]

theorem gone_forever (s : St) (hI : Inv s) (id : Nat) (hle : id ≤ s.nextId)
    (hg : get s.queue id = none) (ops : List Op) : get (runFrom s ops).queue id = none := by
  induction ops generalizing s with
  | nil => exact hg
  | cons op ops ih =>
    have ht := step_tr s op
    exact ih (apply s op) (inv_tr hI ht) (Nat.le_trans hle (tr_nextId_le ht)) (tr_gone hI ht id hle hg)

theorem pickWinner_mem (ws : List Nat) (hint : Nat) (h : ws ≠ []) : pickWinner ws hint ∈ ws := by
  unfold pickWinner
  split
  · rename_i hc; simpa using hc
  · cases ws with
    | nil => exact absurd rfl h
    | cons w _ => simp

/-- the quorum facts about a winning group `w` of evidence list `evs` under snapshot `sn` -/
def GroupQuorum (sn : Snapshot) (evs : List Evidence) (w : Nat) : Prop :=
  (evs.map (·.1)).Nodup ∧
  (∃ ws, verifyEvidence sn evs = .winnerIn ws ∧ w ∈ ws) ∧
  3 * snapPower sn (groupOf evs w) ≥ 2 * sn.total

theorem groupQuorum_of_winner (sn : Snapshot) (evs : List Evidence) (ws : List Nat) (w : Nat)
    (hnd : (evs.map (·.1)).Nodup) (hv : verifyEvidence sn evs = .winnerIn ws) (hw : w ∈ ws) :
    GroupQuorum sn evs w := by
  refine ⟨hnd, ⟨ws, hv, hw⟩, ?_⟩
  have h2 := (winner_has_two_thirds_lem sn evs ws w hv hw).1
  rw [shareSum_eq] at h2
  have := sumOver_le_power sn.vals (groupOf evs w) (hnd.sublist (groupOf_sublist evs w))
  unfold snapPower
  omega


/-- one step: a message that disappears was pruned (nothing declared) or attested with quorum
    (and exactly its declaration is appended) -/
theorem tr_removal {s s' : St} {op : Op} (hI : Inv s) (ht : Tr s op s') (id : Nat) (it : Item)
    (hg : get s.queue id = some it) (hgone : get s'.queue id = none) :
    (op = .prune id ∧ s'.declared = s.declared) ∨
    (∃ hint hard soft w, op = .attest id hint hard soft ∧ outcomeOf hard soft w ≠ .hard ∧
      GroupQuorum s.snap it.evs w ∧
      s'.declared = s.declared ++ [(id, w, outcomeOf hard soft w == .soft)]) := by
  have hcontra : get s.queue id = none → False := by intro e; rw [e] at hg; cases hg
  cases ht with
  | same => exact (hcontra hgone).elim
  | snap sn => exact (hcontra hgone).elim
  | put req =>
    exfalso
    have : get (s.queue ++ [_]) id = none := hgone
    rw [get_append_single, hg] at this; cases this
  | ev id₀ a h it₀ hg₀ =>
    exfalso
    have : get (set _ _) id = none := hgone
    rw [get_set, hg] at this; split at this <;> cases this
  | est id₀ a v it₀ es hg₀ hreq hv hadd =>
    exfalso
    have : get (set _ _) id = none := hgone
    rw [get_set, hg] at this; split at this <;> cases this
  | elect id₀ g it₀ hg₀ hreq h0 hver =>
    exfalso
    have : get (set _ _) id = none := hgone
    rw [get_set, hg] at this; split at this <;> cases this
  | attest id₀ hint hard soft it₀ ws hg₀ hev hver hout =>
    have : get (del _ _) id = none := hgone
    rw [get_del] at this
    split at this
    · rename_i hid; subst hid
      rw [hg] at hg₀; injection hg₀ with e; subst e
      have hws : ws ≠ [] := ((verifyEvidence_winnerIn_iff _ _ _).mp hver).2.2
      exact Or.inr ⟨hint, hard, soft, pickWinner ws hint, rfl, hout,
        groupQuorum_of_winner _ _ ws _ (hI.evs_nodup it (get_some hg).1) hver (pickWinner_mem ws hint hws), rfl⟩
    · exact (hcontra this).elim
  | prune id₀ it₀ hg₀ =>
    have : get (del _ _) id = none := hgone
    rw [get_del] at this
    split at this
    · rename_i hid; subst hid; exact Or.inl ⟨rfl, rfl⟩
    · exact (hcontra this).elim

/-- one step: the effect log only grows, by at most the declaration of an attested message
    that had quorum and is removed by the same step -/
theorem tr_declared {s s' : St} {op : Op} (hI : Inv s) (ht : Tr s op s') :
    s'.declared = s.declared ∨
    (∃ id hint hard soft w it, op = .attest id hint hard soft ∧ outcomeOf hard soft w ≠ .hard ∧
      get s.queue id = some it ∧ GroupQuorum s.snap it.evs w ∧
      s'.declared = s.declared ++ [(id, w, outcomeOf hard soft w == .soft)] ∧
      get s'.queue id = none) := by
  cases ht with
  | attest id₀ hint hard soft it₀ ws hg₀ hev hver hout =>
    have hws : ws ≠ [] := ((verifyEvidence_winnerIn_iff _ _ _).mp hver).2.2
    refine Or.inr ⟨id₀, hint, hard, soft, pickWinner ws hint, it₀, rfl, hout, hg₀,
      groupQuorum_of_winner _ _ ws _ (hI.evs_nodup it₀ (get_some hg₀).1) hver (pickWinner_mem ws hint hws), rfl, ?_⟩
    show get (del _ _) id₀ = none
    rw [get_del]; simp
  | _ => exact Or.inl rfl

/-- results after which something was written -/
def Res.commits : Res → Bool
  | .ok | .newId _ | .elected _ | .declared _ _ => true
  | _ => false

/-- what an elected value `g` means for the estimates `ests` under snapshot `sn` -/
def EstQuorum (sn : Snapshot) (ests : List (Nat × Nat)) (g : Nat) : Prop :=
  (ests.map (·.1)).Nodup ∧
  verifyGasEstimates sn ests = .elected g ∧
  3 * snapPower sn (ests.map (·.1)) ≥ 2 * sn.total ∧
  g = median (ests.map (·.2)) ∧ g ≠ 0 ∧
  (∃ a ∈ ests.map (·.2), ∃ b ∈ ests.map (·.2), a ≤ g ∧ g ≤ b) ∧
  (ests.length ≤ 2 * (ests.map (·.2)).countP (fun x => decide (x ≤ g)) ∧
   ests.length ≤ 2 * (ests.map (·.2)).countP (fun x => decide (g ≤ x)))

theorem estQuorum_of_elected (sn : Snapshot) (ests : List (Nat × Nat)) (g : Nat)
    (hnd : (ests.map (·.1)).Nodup) (hu : ∀ e ∈ ests, e.2 < U64)
    (hv : verifyGasEstimates sn ests = .elected g) : EstQuorum sn ests g := by
  have ⟨hq, hm, h0⟩ := estimate_needs_quorum_lem sn ests g hv
  have hne : ests.map (·.2) ≠ [] := by
    intro e
    have : ests = [] := by simpa using e
    subst this
    simp [verifyGasEstimates, tally, foundShares, Power.consensus] at hv
  have hb : ∀ x ∈ ests.map (·.2), x < U64 := by
    intro x hx
    rcases List.mem_map.mp hx with ⟨e, he, rfl⟩
    exact hu e he
  refine ⟨hnd, hv, ?_, hm, h0, ?_, ?_⟩
  · rw [shareSum_eq] at hq
    have := sumOver_le_power sn.vals (ests.map (·.1)) hnd
    unfold snapPower; omega
  · rw [hm]; exact median_in_range_lem _ hne hb
  · have := median_half_lem _ hne hb
    rw [hm]; simpa using this

theorem tr_elected_stable {s s' : St} {op : Op} (ht : Tr s op s') (id : Nat) (it it' : Item)
    (hg : get s.queue id = some it) (h0 : it.elected ≠ 0) (hg' : get s'.queue id = some it')
    (hle : id ≤ s.nextId) : it'.elected = it.elected := by
  rcases tr_frame ht id it' hg' with ⟨it₀, hg₀, _, _, _, _, hel⟩ | ⟨req, hop, hid, hit⟩
  · rw [hg] at hg₀; injection hg₀ with e; subst e
    rcases hel with hel | ⟨_, hz, _⟩
    · exact hel
    · exact absurd hz h0
  · omega

theorem elected_never_changes_from (s : St) (hI : Inv s) (id : Nat) (it : Item)
    (hg : get s.queue id = some it) (h0 : it.elected ≠ 0) (post : List Op) (it' : Item)
    (hg' : get (runFrom s post).queue id = some it') : it'.elected = it.elected := by
  induction post generalizing s it with
  | nil =>
    have : get s.queue id = some it' := hg'
    rw [hg] at this; injection this with e; rw [← e]
  | cons op post ih =>
    have ht := step_tr s op
    have hle : id ≤ s.nextId := by
      have := hI.ids_le it (get_some hg).1
      rw [(get_some hg).2] at this; exact this
    rcases Option.eq_none_or_eq_some (get (apply s op).queue id) with hn | ⟨it₁, hs⟩
    · exfalso
      have := gone_forever (apply s op) (inv_tr hI ht) id (Nat.le_trans hle (tr_nextId_le ht)) hn post
      have hg'' : get (runFrom (apply s op) post).queue id = some it' := hg'
      rw [this] at hg''; cases hg''
    · have h1 := tr_elected_stable ht id it it₁ hg h0 hs hle
      have := ih (apply s op) (inv_tr hI ht) it₁ hs (by rw [h1]; exact h0) hg'
      rw [this, h1]

theorem traceFrom_append (s : St) (a b : List Op) :
    traceFrom s (a ++ b) = traceFrom s a ++ traceFrom (runFrom s a) b := by
  induction a generalizing s with
  | nil => rfl
  | cons op ops ih =>
    simp only [List.cons_append, traceFrom, ih, runFrom, List.foldl_cons]

theorem length_traceFrom (s : St) (ops : List Op) : (traceFrom s ops).length = ops.length := by
  induction ops generalizing s with
  | nil => rfl
  | cons op ops ih => simp [traceFrom, ih]

theorem trace_snoc (ops : List Op) (op : Op) :
    trace (ops ++ [op]) = trace ops ++ [(step (run ops) op).2] := by
  unfold trace run
  rw [traceFrom_append]; rfl

/-- the submission carried by an evidence operation for message `id` that was answered `ok` -/
def pickEv (id : Nat) (p : Op × Res) : Option Evidence :=
  match p.1, p.2 with
  | .ev i a h, .ok => if i = id then some (a, h) else none
  | _, _ => none

/-- the accepted evidence submissions for message `id`, in order: a function of the history and
    of the answers it got -/
def accepted (ops : List Op) (id : Nat) : List Evidence :=
  (ops.zip (trace ops)).filterMap (pickEv id)

theorem accepted_snoc (ops : List Op) (op : Op) (id : Nat) :
    accepted (ops ++ [op]) id =
      accepted ops id ++ (match pickEv id (op, (step (run ops) op).2) with
                          | some e => [e] | none => []) := by
  unfold accepted
  rw [trace_snoc, List.zip_append (by unfold trace; rw [length_traceFrom]), List.filterMap_append]
  congr 1
  simp only [List.zip_cons_cons, List.zip_nil_right, List.filterMap_cons, List.filterMap_nil]
  cases pickEv id (op, (step (run ops) op).2) <;> rfl

theorem stored_evidence_aux (ops : List Op) :
    (∀ id, (run ops).nextId < id → accepted ops id = []) ∧
    (∀ id it, get (run ops).queue id = some it →
      it.evs = (accepted ops id).foldl addEvidence []) := by
  induction ops using snoc_ind with
  | hnil =>
    refine ⟨fun id _ => rfl, ?_⟩
    intro id it h; simp [run, runFrom, St.init, get] at h
  | hsnoc ops op ih =>
    obtain ⟨ih1, ih2⟩ := ih
    have hI := inv_run ops
    have ht := step_tr (run ops) op
    have hrs := run_snoc ops op
    -- the new accepted entry, if any
    have hpick : ∀ id e, pickEv id (op, (step (run ops) op).2) = some e →
        ∃ a h it₀, op = .ev id a h ∧ e = (a, h) ∧ get (run ops).queue id = some it₀ := by
      intro id e hp
      cases op with
      | ev i a h =>
        simp only [pickEv, step, evStep] at hp
        rcases Option.eq_none_or_eq_some (get (run ops).queue i) with hn | ⟨it₀, hs⟩
        · simp [hn] at hp
        · simp only [hs] at hp
          split at hp
          · rename_i hi; subst hi; injection hp with hp
            exact ⟨a, h, it₀, rfl, hp.symm, hs⟩
          · cases hp
      | _ => simp [pickEv] at hp
    refine ⟨?_, ?_⟩
    · intro id hlt
      rw [hrs] at hlt
      have hlt' : (run ops).nextId < id := Nat.lt_of_le_of_lt (tr_nextId_le ht) hlt
      rw [accepted_snoc, ih1 id hlt']
      rcases Option.eq_none_or_eq_some (pickEv id (op, (step (run ops) op).2)) with hn | ⟨e, hs⟩
      · simp [hn]
      · exfalso
        obtain ⟨a, h, it₀, _, _, hg⟩ := hpick id e hs
        have := hI.ids_le it₀ (get_some hg).1
        rw [(get_some hg).2] at this
        omega
    · intro id it' hg'
      rw [hrs] at hg'
      rw [accepted_snoc]
      rcases Option.eq_none_or_eq_some (pickEv id (op, (step (run ops) op).2)) with hn | ⟨e, hs⟩
      · -- no new accepted submission for `id`: the evidence of `id` is unchanged (or `id` is fresh)
        simp only [hn, List.append_nil]
        rcases tr_frame ht id it' hg' with ⟨it₀, hg₀, _, _, hevs, _, _⟩ | ⟨req, hop, hid, hit⟩
        · rcases hevs with hevs | ⟨a, h, hop, _⟩
          · rw [hevs]; exact ih2 id it₀ hg₀
          · exfalso
            subst hop
            simp [pickEv, step, evStep, hg₀] at hn
        · rw [hit, ih1 id (by omega)]; rfl
      · obtain ⟨a, h, it₀, hop, he, hg₀⟩ := hpick id e hs
        subst hop; subst he
        simp only [hs, List.foldl_append, List.foldl_cons, List.foldl_nil]
        rw [← ih2 id it₀ hg₀]
        have : apply (run ops) (.ev id a h) =
            { run ops with queue := set (run ops).queue { it₀ with evs := addEvidence it₀.evs (a, h) } } := by
          simp [apply, step, evStep, hg₀]
        rw [this] at hg'
        simp only [get_set] at hg'
        rw [hg₀] at hg'
        have hid := (get_some hg₀).2
        simp [hid] at hg'
        rw [← hg']

theorem pickEv_step_iff (s : St) (op : Op) (id : Nat) (e : Evidence) :
    pickEv id (op, (step s op).2) = some e ↔
      op = .ev id e.1 e.2 ∧ ∃ it₀, get s.queue id = some it₀ := by
  cases op with
  | ev i a h =>
    simp only [pickEv, step, evStep]
    rcases Option.eq_none_or_eq_some (get s.queue i) with hn | ⟨it₀, hs⟩
    · simp only [hn]
      constructor
      · intro hh; cases hh
      · rintro ⟨hop, it₀, hg⟩
        injection hop with h1 h2 h3; subst h1
        rw [hn] at hg; cases hg
    · simp only [hs]
      constructor
      · intro hp
        split at hp
        · rename_i hi; subst hi; injection hp with hp
          subst hp; exact ⟨rfl, it₀, hs⟩
        · cases hp
      · rintro ⟨hop, _⟩
        injection hop with h1 h2 h3; subst h1; subst h2; subst h3
        simp
  | snap _ => simp [pickEv]
  | put _ => simp [pickEv]
  | est _ _ _ => simp [pickEv]
  | elect _ _ => simp [pickEv]
  | attest _ _ _ _ => simp [pickEv]
  | prune _ => simp [pickEv]

theorem pickWinner_singleton (w hint : Nat) : pickWinner [w] hint = w := by
  unfold pickWinner
  by_cases h : hint = w
  · simp [h]
  · simp [h]

theorem snapOK_run (ops : List Op) (h : ∀ sn, Op.snap sn ∈ ops → SnapOK sn) : SnapOK (run ops).snap := by
  induction ops using snoc_ind with
  | hnil => left; rfl
  | hsnoc ops op ih =>
    have ih' := ih (fun sn hsn => h sn (List.mem_append.mpr (Or.inl hsn)))
    have ht := step_tr (run ops) op
    rw [← run_snoc] at ht
    generalize run (ops ++ [op]) = s' at ht
    cases ht with
    | snap sn => exact h sn (by simp)
    | _ => exact ih'

end Hist

/-! ### evidence bytes (`Enc`) -/
namespace Enc

theorem digit_val {c : Char} (h : c.isDigit = true) : (ofChar c).val = c.toNat ∧ 48 ≤ c.toNat ∧ c.toNat ≤ 57 := by
  have h2 := Char.isDigit_iff_toNat.mp h
  have h0 : '0'.toNat = 48 := by decide
  have h9 : '9'.toNat = 57 := by decide
  rw [h0, h9] at h2
  refine ⟨?_, h2.1, h2.2⟩
  unfold ofChar
  rw [Fin.val_ofNat]
  omega

theorem ofChar_inj_digits {a b : Char} (ha : a.isDigit = true) (hb : b.isDigit = true)
    (h : ofChar a = ofChar b) : a = b := by
  have h1 := digit_val ha
  have h2 := digit_val hb
  have : (ofChar a).val = (ofChar b).val := by rw [h]
  exact Char.toNat_inj.mp (by omega)

theorem map_ofChar_inj : ∀ (l l' : List Char), (∀ c ∈ l, c.isDigit = true) → (∀ c ∈ l', c.isDigit = true) →
    l.map ofChar = l'.map ofChar → l = l' := by
  intro l
  induction l with
  | nil => intro l' _ _ h; cases l' with
    | nil => rfl
    | cons _ _ => simp at h
  | cons c cs ih =>
    intro l' hl hl' h
    cases l' with
    | nil => simp at h
    | cons c' cs' =>
      simp only [List.map_cons, List.cons.injEq] at h
      rw [ofChar_inj_digits (hl c (by simp)) (hl' c' (by simp)) h.1,
        ih cs' (fun x hx => hl x (by simp [hx])) (fun x hx => hl' x (by simp [hx])) h.2]

theorem toDigits_isDigit (n : Nat) : ∀ c ∈ Nat.toDigits 10 n, c.isDigit = true :=
  fun _ h => Nat.isDigit_of_mem_toDigits (by decide) (by decide) h

theorem decimal_inj {m n : Nat} (h : decimal m = decimal n) : m = n := by
  have h' := map_ofChar_inj _ _ (toDigits_isDigit m) (toDigits_isDigit n) h
  have := congrArg (fun l => Nat.ofDigitChars 10 l 0) h'
  simpa [Nat.ofDigitChars_ten_toDigits] using this

/-- a decimal number contains digits only -/
theorem decimal_digits {n : Nat} {b : Byte} (h : b ∈ decimal n) : 48 ≤ b.val ∧ b.val ≤ 57 := by
  unfold decimal at h
  obtain ⟨c, hc, rfl⟩ := List.mem_map.mp h
  have := digit_val (toDigits_isDigit n c hc)
  omega

theorem not_mem_decimal (b : Byte) (hb : b.val < 48 ∨ 57 < b.val) (n : Nat) : b ∉ decimal n := by
  intro h
  have := decimal_digits h
  omega

theorem hexDigit_ne_slash : ∀ n : Fin 16, hexDigit n.val ≠ slash := by decide

theorem hexDigit_inj : ∀ a b : Fin 16, hexDigit a.val = hexDigit b.val → a = b := by decide

theorem slash_not_mem_hexStr (b : Bytes) : slash ∉ hexStr b := by
  induction b with
  | nil => simp [hexStr]
  | cons x xs ih =>
    intro h
    unfold hexStr at h
    rcases List.mem_cons.mp h with e | h
    · exact hexDigit_ne_slash ⟨x.val / 16, by omega⟩ e.symm
    rcases List.mem_cons.mp h with e | h
    · exact hexDigit_ne_slash ⟨x.val % 16, by omega⟩ e.symm
    · exact ih h

theorem hexStr_inj : ∀ (a b : Bytes), hexStr a = hexStr b → a = b := by
  intro a
  induction a with
  | nil => intro b h; cases b with
    | nil => rfl
    | cons _ _ => simp [hexStr] at h
  | cons x xs ih =>
    intro b h
    cases b with
    | nil => simp [hexStr] at h
    | cons y ys =>
      simp only [hexStr, List.cons.injEq] at h
      have h1 := hexDigit_inj ⟨x.val / 16, by omega⟩ ⟨y.val / 16, by omega⟩ h.1
      have h2 := hexDigit_inj ⟨x.val % 16, by omega⟩ ⟨y.val % 16, by omega⟩ h.2.1
      have h1' : x.val / 16 = y.val / 16 := by simpa using congrArg Fin.val h1
      have h2' : x.val % 16 = y.val % 16 := by simpa using congrArg Fin.val h2
      have : x = y := Fin.ext (by omega)
      rw [this, ih ys h.2.2]

/-- two strings cut at the first occurrence of a separator: if the separator occurs in neither head
    and each tail is empty or starts with it, the cut is unique -/
theorem split_at_sep {α : Type} (sep : α) : ∀ (a a' r r' : List α), sep ∉ a → sep ∉ a' →
    (r = [] ∨ ∃ t, r = sep :: t) → (r' = [] ∨ ∃ t, r' = sep :: t) →
    a ++ r = a' ++ r' → a = a' ∧ r = r' := by
  intro a
  induction a with
  | nil =>
    intro a' r r' _ ha' hr hr' h
    cases a' with
    | nil => exact ⟨rfl, by simpa using h⟩
    | cons c cs =>
      rcases hr with rfl | ⟨t, rfl⟩
      · simp at h
      · simp at h
        exact absurd h.1 (by intro e; apply ha'; simp [e])
  | cons c cs ih =>
    intro a' r r' ha ha' hr hr' h
    cases a' with
    | nil =>
      rcases hr' with rfl | ⟨t, rfl⟩
      · simp at h
      · simp at h
        exact absurd h.1 (by intro e; apply ha; simp [e])
    | cons c' cs' =>
      simp at h
      have := ih cs' r r' (by intro e; apply ha; simp [e]) (by intro e; apply ha'; simp [e]) hr hr' h.2
      exact ⟨by rw [h.1, this.1], this.2⟩

theorem joinSlash_shape (bs : List Bytes) : joinSlash bs = [] ∨ ∃ t, joinSlash bs = slash :: t := by
  cases bs <;> simp [joinSlash]

theorem joinSlash_inj : ∀ (bs bs' : List Bytes), joinSlash bs = joinSlash bs' → bs = bs' := by
  intro bs
  induction bs with
  | nil =>
    intro bs' h
    cases bs' with
    | nil => rfl
    | cons b bs => simp [joinSlash] at h
  | cons b bs ih =>
    intro bs' h
    cases bs' with
    | nil => simp [joinSlash] at h
    | cons b' bs' =>
      simp only [joinSlash, List.cons.injEq, true_and] at h
      have := split_at_sep slash _ _ _ _ (slash_not_mem_hexStr b) (slash_not_mem_hexStr b')
        (joinSlash_shape bs) (joinSlash_shape bs') h
      rw [hexStr_inj _ _ this.1, ih bs' this.2]

theorem slash_not_mem_decimal (n : Nat) : slash ∉ decimal n :=
  not_mem_decimal slash (Or.inl (by decide)) n

/-- the encoding of d674fa52 is injective: no hypothesis on the field contents, across proof types -/
theorem bytes_inj_lem (p q : Proof) (h : p.bytes = q.bytes) : p = q := by
  cases p with
  | err m =>
    cases q with
    | err m' =>
      simp only [Proof.bytes] at h
      rw [hexStr_inj _ _ (List.append_cancel_left h)]
    | balances _ _ => simp [Proof.bytes, tagErr, tagBal] at h
    | refBlock _ _ => simp [Proof.bytes, tagErr, tagRef] at h
  | balances ht bs =>
    cases q with
    | err _ => simp [Proof.bytes, tagErr, tagBal] at h
    | refBlock _ _ => simp [Proof.bytes, tagRef, tagBal] at h
    | balances ht' bs' =>
      simp only [Proof.bytes] at h
      have := split_at_sep slash _ _ _ _ (slash_not_mem_decimal ht) (slash_not_mem_decimal ht')
        (joinSlash_shape bs) (joinSlash_shape bs') (List.append_cancel_left h)
      rw [decimal_inj this.1, joinSlash_inj bs bs' this.2]
  | refBlock ht x =>
    cases q with
    | err _ => simp [Proof.bytes, tagErr, tagRef] at h
    | balances _ _ => simp [Proof.bytes, tagRef, tagBal] at h
    | refBlock ht' x' =>
      simp only [Proof.bytes] at h
      have := split_at_sep slash _ _ _ _ (slash_not_mem_decimal ht) (slash_not_mem_decimal ht')
        (Or.inr ⟨_, rfl⟩) (Or.inr ⟨_, rfl⟩) (List.append_cancel_left h)
      have h2 : hexStr x = hexStr x' := by simpa using this.2
      rw [decimal_inj this.1, hexStr_inj _ _ h2]

theorem firstIdx_inj (a b : Bytes) : ∀ (l : List Bytes), a ∈ l → firstIdx a l = firstIdx b l → a = b := by
  intro l
  induction l with
  | nil => intro h; simp at h
  | cons x xs ih =>
    intro hm h
    unfold firstIdx at h
    by_cases hxa : x = a
    · rw [if_pos hxa] at h
      by_cases hxb : x = b
      · rw [← hxa, hxb]
      · rw [if_neg hxb] at h; omega
    · rw [if_neg hxa] at h
      by_cases hxb : x = b
      · rw [if_pos hxb] at h; omega
      · rw [if_neg hxb] at h
        have hm' : a ∈ xs := by
          rcases List.mem_cons.mp hm with e | e
          · exact absurd e.symm hxa
          · exact e
        exact ih hm' (by omega)

/-- the group of key `keyIn L b` among entries keyed through `L` = the entries whose bytes are `b` -/
theorem groupOf_keys_aux (enc : Proof → Bytes) (L : List Bytes) (b : Bytes) (hb : b ∈ L) :
    ∀ (l : List (Nat × Proof)),
      groupOf (l.map (fun e => (e.1, keyIn L (enc e.2)))) (keyIn L b) =
        (l.filter (fun e => enc e.2 = b)).map (·.1) := by
  intro l
  induction l with
  | nil => simp [groupOf]
  | cons e es ih =>
    unfold groupOf at ih ⊢
    simp only [List.map_cons, List.filter_cons]
    by_cases he : enc e.2 = b
    · simp [he, ih]
    · have : ¬ keyIn L (enc e.2) = keyIn L b := by
        intro hk
        unfold keyIn at hk
        exact he (firstIdx_inj b (enc e.2) L hb (by omega)).symm
      simp [he, this, ih]

theorem groupOf_keysWith (enc : Proof → Bytes) (evs : List (Nat × Proof)) (e : Nat × Proof) (he : e ∈ evs) :
    groupOf (keysWith enc evs) (keyIn (evs.map (fun x => enc x.2)) (enc e.2)) =
      (evs.filter (fun x => enc x.2 = enc e.2)).map (·.1) :=
  groupOf_keys_aux enc _ _ (List.mem_map.mpr ⟨e, he, rfl⟩) evs

/-- the group of an entry = the validators that supplied exactly its proof -/
theorem suppliers_eq_group (evs : List (Nat × Proof)) (e : Nat × Proof) (he : e ∈ evs) :
    groupOf (keys evs) (keyIn (evs.map (·.2.bytes)) e.2.bytes) = suppliers evs e.2 := by
  have := groupOf_keysWith Proof.bytes evs e he
  unfold keys
  rw [this]
  unfold suppliers
  congr 1
  apply List.filter_congr
  intro x _
  have : x.2.bytes = e.2.bytes ↔ x.2 = e.2 :=
    ⟨fun h => bytes_inj_lem _ _ h, fun h => by rw [h]⟩
  simp [this]

end Enc

end Lemmas

/-! ## Property theorems (C04) -/

/-- **winner_has_two_thirds.** If `VerifyEvidence` can return hash `h` as winner, the snapshot
validators that supplied evidence with exactly that hash hold at least 2/3 of the snapshot
total; validators outside the snapshot contribute nothing (`share? = none ↦ 0`). -/
theorem winner_has_two_thirds (s : Snapshot) (evs : List Evidence) (ws : List Nat) (h : Nat)
    (hv : verifyEvidence s evs = .winnerIn ws) (hh : h ∈ ws) :
    3 * shareSum s (groupOf evs h) ≥ 2 * s.total ∧
    (∀ a ∈ groupOf evs h, (a, h) ∈ evs) :=
  winner_has_two_thirds_lem s evs ws h hv hh

/-- **winner_iff_quorum** (soundness *and* completeness of `VerifyEvidence`). Hash `h` is among the
groups `VerifyEvidence` may return **iff** the group of `h` passes `consensusPower.consensus`; the
all-evidence pre-check never refuses a group that has quorum on its own. -/
theorem winner_iff_quorum (s : Snapshot) (evs : List Evidence) (h : Nat) :
    (∃ ws, verifyEvidence s evs = .winnerIn ws ∧ h ∈ ws) ↔
      (tally s (groupOf evs h)).consensus = true := by
  constructor
  · rintro ⟨ws, hv, hh⟩
    obtain ⟨_, rfl, _⟩ := (verifyEvidence_winnerIn_iff s evs ws).mp hv
    exact mem_winners hh
  · intro hc
    refine ⟨winners s evs, ?_, ?_⟩
    · have hmem : h ∈ winners s evs := by
        unfold winners
        obtain ⟨a, ha⟩ := group_nonempty_of_consensus hc
        exact List.mem_filter.mpr ⟨mem_hashes.mpr ⟨a, mem_groupOf.mp ha⟩, hc⟩
      exact (verifyEvidence_winnerIn_iff s evs _).mpr
        ⟨group_consensus_overall s evs h hc, rfl, List.ne_nil_of_mem hmem⟩
    · unfold winners
      obtain ⟨a, ha⟩ := group_nonempty_of_consensus hc
      exact List.mem_filter.mpr ⟨mem_hashes.mpr ⟨a, mem_groupOf.mp ha⟩, hc⟩

/-- **winner_counts_each_validator_once** (the combined theorem). With one evidence entry per
validator (`addEvidence_unique`; an invariant of every reachable queue, `reachable_each_validator_once`),
a returned winner `w` has at least 2/3 of the snapshot total **counted from the snapshot side**:
`snapPower` sums the share of every snapshot entry whose address supplied exactly that hash — each
validator at most once, validators outside the snapshot nothing. -/
theorem winner_counts_each_validator_once (sn : Snapshot) (evs : List Evidence) (ws : List Nat) (w : Nat)
    (hnd : (evs.map (·.1)).Nodup) (hv : verifyEvidence sn evs = .winnerIn ws) (hw : w ∈ ws) :
    3 * snapPower sn (groupOf evs w) ≥ 2 * sn.total ∧ ∀ a, a ∈ groupOf evs w ↔ (a, w) ∈ evs :=
  ⟨(Hist.groupQuorum_of_winner sn evs ws w hnd hv hw).2.2, fun _ => mem_groupOf⟩

/-- **quorum_group_wins** (completeness, snapshot side). If the snapshot lists every address once,
every validator has one evidence entry, at least one supporter of `h` is in the snapshot (Go's
zero-value `runningSum` refuses an empty tally even when the total is 0) and the supporters of `h`
hold 2/3 of the total, then `VerifyEvidence` returns `h`. -/
theorem quorum_group_wins (s : Snapshot) (evs : List Evidence) (h : Nat)
    (hs : (s.vals.map (·.1)).Nodup) (hnd : (evs.map (·.1)).Nodup)
    (hin : ∃ a, (a, h) ∈ evs ∧ s.share? a ≠ none)
    (hq : 3 * snapPower s (groupOf evs h) ≥ 2 * s.total) :
    ∃ ws, verifyEvidence s evs = .winnerIn ws ∧ h ∈ ws := by
  apply (winner_iff_quorum s evs h).mpr
  apply (consensus_iff s _).mpr
  refine ⟨?_, ?_⟩
  · apply (foundShares_ne_nil_iff s _).mpr
    obtain ⟨a, ha, hsa⟩ := hin
    exact ⟨a, mem_groupOf.mpr ha, hsa⟩
  · rw [shareSum_eq_snapPower s hs _ (hnd.sublist (groupOf_sublist evs h))]
    exact hq

/-- **outsiders_contribute_nothing.** Submitters that are not in the snapshot do not change the
power of a group. -/
theorem outsiders_contribute_nothing (s : Snapshot) (grp out : List Nat) (ho : ∀ a ∈ out, s.share? a = none) :
    snapPower s (grp ++ out) = snapPower s grp := by
  unfold snapPower
  congr 2
  apply List.filter_congr
  intro v hv
  have hnot : ¬ v.1 ∈ out := by
    intro hm
    have := ho v.1 hm
    have hfound := lookup_ne_none_of_mem s.vals v hv
    exact hfound this
  simp [hnot]

/-- **winner_unique.** With one evidence entry per validator (what `AddEvidence` maintains, see
`addEvidence_unique` / `reachable_each_validator_once`), at most one hash group has quorum, so the result
does not depend on Go's map order. ASSUMPTIONS on the snapshot (both external — `createNewSnapshot`,
C10): `htot` the total is at least the sum of the listed shares, `hpos` the total is positive. Both are
necessary: `winner_unique_needs_assumptions`. -/
theorem winner_unique (s : Snapshot) (evs : List Evidence)
    (hnd : (evs.map (·.1)).Nodup)
    (htot : (s.vals.map (·.2)).sum ≤ s.total) (hpos : 0 < s.total)
    (h₁ h₂ : Nat) (hw₁ : h₁ ∈ winners s evs) (hw₂ : h₂ ∈ winners s evs) : h₁ = h₂ := by
  by_cases hne : h₁ = h₂
  · exact hne
  · exfalso
    have c₁ := ((consensus_iff s _).mp (mem_winners hw₁)).2
    have c₂ := ((consensus_iff s _).mp (mem_winners hw₂)).2
    have hdis := groups_disjoint_nodup evs h₁ h₂ hne hnd
    have hle := sumOver_le_total s.vals _ hdis
    rw [sumOver_append, ← shareSum_eq, ← shareSum_eq] at hle
    omega

/-- Neither snapshot assumption of `winner_unique` can be dropped: with total 0 (and zero shares) or
with a total smaller than the sum of the shares two disjoint groups both pass `3*sum >= 2*total`. -/
theorem winner_unique_needs_assumptions :
    winners ⟨[(1,0),(2,0)], 0⟩ [(1,7),(2,8)] = [7, 8] ∧
    winners ⟨[(1,5),(2,5)], 6⟩ [(1,7),(2,8)] = [7, 8] := by decide

/-- **winners_at_most_one.** For a snapshot as the valset keeper builds it (`SnapOK`: empty, or
positive total ≥ sum of shares) and one entry per validator there is at most one quorum group. -/
theorem winners_at_most_one (s : Snapshot) (evs : List Evidence) (hs : SnapOK s)
    (hnd : (evs.map (·.1)).Nodup) : (winners s evs).length ≤ 1 := by
  rcases hs with hs | ⟨htot, hpos⟩
  · rw [winners_nil_of_no_vals s evs hs]; simp
  · apply nodup_all_eq_length_le_one
    · unfold winners; exact (hashes_nodup evs).sublist List.filter_sublist
    · intro a ha b hb
      exact winner_unique s evs hnd htot hpos a b ha hb

/-- **quorum_as_in_source.** `consensusPower.consensus` in the current source is
`3 * sum >= 2 * total` (factors and comparator regenerated by the extractor on every run). -/
theorem quorum_as_in_source :
    Paloma.Gen.Consts.consensusSumFactor = 3 ∧ Paloma.Gen.Consts.consensusTotalFactor = 2 ∧
    Paloma.Gen.Consts.consensusComparator = "GTE" := by decide

/-- **no_quorum_no_winner.** Below 2/3 over *all* evidence the verdict is `notAchieved`. -/
theorem no_quorum_no_winner (s : Snapshot) (evs : List Evidence)
    (h : 3 * shareSum s (evs.map (·.1)) < 2 * s.total) :
    verifyEvidence s evs = .notAchieved := by
  unfold verifyEvidence
  have : (tally s (evs.map (·.1))).consensus = false := by
    cases hc : (tally s (evs.map (·.1))).consensus
    · rfl
    · have := ((consensus_iff s _).mp hc).2; omega
  simp [this]

/-- **addEvidence_unique.** `AddEvidence` keeps one entry per validator, over any history. -/
theorem addEvidence_unique (subs : List Evidence) :
    ((subs.foldl addEvidence []).map (·.1)).Nodup := by
  suffices h : ∀ acc : List Evidence, (acc.map (·.1)).Nodup →
      ((subs.foldl addEvidence acc).map (·.1)).Nodup from h [] (by simp)
  induction subs with
  | nil => intro acc h; simpa
  | cons e es ih =>
    intro acc h
    apply ih
    rw [addEvidence_keys]
    split
    · exact h
    · rename_i hnot
      rw [List.nodup_append]
      refine ⟨h, by simp, ?_⟩
      intro a ha b hb
      simp at hb; subst hb
      intro e'; subst e'; exact hnot ha

/-- **addEvidence_latest.** One step: the submitted entry is stored (history form:
`addEvidence_stored_is_last`, `Hist.stored_evidence_is_latest`). -/
theorem addEvidence_latest (evs : List Evidence) (e : Evidence) : e ∈ addEvidence evs e := by
  induction evs with
  | nil => simp [addEvidence]
  | cons x xs ih =>
    simp only [addEvidence]
    by_cases hx : x.1 = e.1
    · simp [hx]
    · simp [hx, ih]

/-- **addEvidence_stored_is_last** ("its latest submission", over any submission history). After
any sequence of `AddEvidence` calls the proof stored for validator `a` is the one of `a`'s **last**
submission (`lastSub`, characterised by `lastSub_spec` / `lastSub_none`), and `(a, h)` is stored iff that
last submission carried `h`. -/
theorem addEvidence_stored_is_last (subs : List Evidence) (a : Nat) :
    lookup (subs.foldl addEvidence []) a = lastSub subs a ∧
    ∀ h, (a, h) ∈ subs.foldl addEvidence [] ↔ lastSub subs a = some h := by
  have h1 : lookup (subs.foldl addEvidence []) a = lastSub subs a := by
    rw [lookup_foldl_addEvidence]; rfl
  refine ⟨h1, ?_⟩
  intro h
  rw [mem_iff_lookup _ (addEvidence_unique subs), h1]

/-- `lastSub` really is the last submission: the one after which `a` did not submit again. -/
theorem lastSub_spec (pre post : List Evidence) (a h : Nat) (hpost : ∀ e ∈ post, e.1 ≠ a) :
    lastSub (pre ++ (a, h) :: post) a = some h := by
  rw [lastSub_append]
  simp only [List.foldl_cons, if_true]
  exact foldl_keep post a _ hpost

/-- `lastSub` is `none` exactly when `a` never submitted. -/
theorem lastSub_none (subs : List Evidence) (a : Nat) :
    lastSub subs a = none ↔ ∀ e ∈ subs, e.1 ≠ a := by
  induction subs using Hist.snoc_ind with
  | hnil => simp [lastSub]
  | hsnoc l e ih =>
    rw [lastSub_append]
    simp only [List.foldl_cons, List.foldl_nil, List.mem_append, List.mem_singleton]
    by_cases he : e.1 = a
    · simp only [he, if_true, reduceCtorEq, false_iff]
      intro hh; exact hh e (Or.inr rfl) he
    · simp only [he, if_false, ih]
      constructor
      · intro hh x hx
        rcases hx with hx | hx
        · exact hh x hx
        · subst hx; exact he
      · intro hh x hx; exact hh x (Or.inl hx)

/-- **median_in_range.** For a non-empty multiset of `uint64` values, the value `Median`
returns lies between two submitted values (hence between the lowest and the highest). -/
theorem median_in_range (l : List Nat) (hne : l ≠ []) (hb : ∀ x ∈ l, x < U64) :
    ∃ a ∈ l, ∃ b ∈ l, a ≤ median l ∧ median l ≤ b :=
  median_in_range_lem l hne hb

/-- **median_between_min_max.** … hence between any lower and upper bound of the submitted values
("lies between the lowest and highest submitted value"). -/
theorem median_between_min_max (l : List Nat) (hne : l ≠ []) (hb : ∀ x ∈ l, x < U64) (lo hi : Nat)
    (hlo : ∀ x ∈ l, lo ≤ x) (hhi : ∀ x ∈ l, x ≤ hi) : lo ≤ median l ∧ median l ≤ hi := by
  obtain ⟨a, ha, b, hb', h1, h2⟩ := median_in_range l hne hb
  exact ⟨Nat.le_trans (hlo a ha) h1, Nat.le_trans h2 (hhi b hb')⟩

/-- **median_is_median** ("it is their median", exact). `Median` returns, for the ascending
rearrangement `w` of the submitted values (a permutation of them), the middle element when the count
is odd and `⌊(w[n/2-1] + w[n/2]) / 2⌋` — computed without wrap-around — when it is even. Indexing is
in range (`[i]? = some _`), no default value is involved. -/
theorem median_is_median (l : List Nat) (hne : l ≠ []) (hb : ∀ x ∈ l, x < U64) :
    ∃ w : List Nat, w.Perm l ∧ Ascending w ∧
      (w.length % 2 = 1 → w[w.length / 2]? = some (median l)) ∧
      (w.length % 2 = 0 → ∃ lo hi, w[w.length / 2 - 1]? = some lo ∧ w[w.length / 2]? = some hi ∧
          lo ≤ hi ∧ median l = (lo + hi) / 2) := by
  obtain ⟨hc, hodd, heven⟩ := median_cases l hne
  refine ⟨sortAsc l, sortAsc_perm l, ascending_sortAsc l, ?_, ?_⟩
  · intro h; rw [hodd h]; exact List.getElem?_eq_getElem hc
  · intro h
    obtain ⟨hc1, hm⟩ := heven h
    have hle := ascending_getElem_le (sortAsc l) (ascending_sortAsc l) ((sortAsc l).length / 2 - 1)
      ((sortAsc l).length / 2) (by omega) hc
    have hbound := hb _ (mem_sortAsc.mp (List.getElem_mem hc))
    refine ⟨_, _, List.getElem?_eq_getElem hc1, List.getElem?_eq_getElem hc, hle, ?_⟩
    rw [hm, midpoint_eq _ _ hle hbound]

/-- **median_half.** At least half of the submitted values are ≤ the median and at least half are ≥ it. -/
theorem median_half (l : List Nat) (hne : l ≠ []) (hb : ∀ x ∈ l, x < U64) :
    l.length ≤ 2 * l.countP (fun x => decide (x ≤ median l)) ∧
    l.length ≤ 2 * l.countP (fun x => decide (median l ≤ x)) := by
  obtain ⟨hc, hodd, heven⟩ := median_cases l hne
  have hperm := sortAsc_perm l
  have hasc := ascending_sortAsc l
  have hsl : (sortAsc l).length = l.length := length_sortAsc l
  rw [← hperm.countP_eq, ← hperm.countP_eq]
  rcases Nat.mod_two_eq_zero_or_one (sortAsc l).length with h0 | h1
  · obtain ⟨hc1, hm⟩ := heven h0
    have hle := ascending_getElem_le (sortAsc l) hasc ((sortAsc l).length / 2 - 1)
      ((sortAsc l).length / 2) (by omega) hc
    have hbound := hb _ (mem_sortAsc.mp (List.getElem_mem hc))
    have hmid := midpoint_between _ _ hle hbound
    rw [← hm] at hmid
    have h1 := count_le_sorted (sortAsc l) hasc _ hc1 (median l) hmid.1
    have h2 := count_ge_sorted (sortAsc l) hasc _ hc (median l) hmid.2
    omega
  · have hm := hodd h1
    have h1' := count_le_sorted (sortAsc l) hasc _ hc (median l) (by rw [hm]; exact Nat.le_refl _)
    have h2 := count_ge_sorted (sortAsc l) hasc _ hc (median l) (by rw [hm]; exact Nat.le_refl _)
    omega

/-- The pre-repair midpoint `(w[c-1]+w[c])/2` on `uint64` is *not* within range:
    `{2^63+1, 2^63+3}` ↦ 2 (the defect repaired by the `fix:` commit). -/
theorem medianWrapping_out_of_range :
    medianWrapping [9223372036854775809, 9223372036854775811] = 2 := by decide

/-- **estimate_needs_quorum.** An elected value implies 2/3 of snapshot shares submitted. -/
theorem estimate_needs_quorum (s : Snapshot) (ests : List (Nat × Nat)) (v : Nat)
    (h : verifyGasEstimates s ests = .elected v) :
    3 * shareSum s (ests.map (·.1)) ≥ 2 * s.total ∧ v = median (ests.map (·.2)) ∧ v ≠ 0 :=
  estimate_needs_quorum_lem s ests v h

/-- **estimate_elected_spec** (the combined theorem for gas estimates). With one estimate per validator
and `uint64` values (invariants of every reachable queue, `reachable_each_validator_once`), an elected
value `g` means (`EstQuorum`): the submitters that are in the snapshot hold 2/3 of its total, each
counted once from the snapshot side; `g` is the median of all submitted values, non-zero, between two
submitted values, with at least half of the values on either side. -/
theorem estimate_elected_spec (sn : Snapshot) (ests : List (Nat × Nat)) (g : Nat)
    (hnd : (ests.map (·.1)).Nodup) (hu : ∀ e ∈ ests, e.2 < U64)
    (hv : verifyGasEstimates sn ests = .elected g) : Hist.EstQuorum sn ests g :=
  Hist.estQuorum_of_elected sn ests g hnd hu hv

/-- **elected_immutable** (the guard of `Queue.SetElectedGasEstimate`, one call; the history form is
`Hist.elected_never_changes` / `Hist.elected_changes_only_by_election`). -/
theorem elected_immutable (cur new : Nat) (h : cur ≠ 0) : setElected cur new = none := by
  simp [setElected, h]

/-- **one_estimate_per_validator** (`AddGasEstimate`, one call; lifted to all histories by
`Hist.reachable_each_validator_once`). -/
theorem one_estimate_per_validator (ests ests' : List (Nat × Nat)) (e : Nat × Nat)
    (hnd : (ests.map (·.1)).Nodup) (h : addGasEstimate ests e = some ests') :
    (ests'.map (·.1)).Nodup := by
  unfold addGasEstimate at h
  split at h
  · cases h
  · rename_i hany
    injection h with h; subst h
    simp only [List.map_append, List.map_cons, List.map_nil]
    rw [List.nodup_append]
    refine ⟨hnd, by simp, ?_⟩
    intro a ha b hb
    simp at hb; subst hb
    intro e'; subst e'
    apply hany
    rcases List.mem_map.mp ha with ⟨x, hx, hx1⟩
    exact List.any_eq_true.mpr ⟨x, hx, by simp [hx1]⟩

/-! ### history level (`Hist.run ops` from `Hist.St.init`) -/

namespace Hist

/-- **reachable_each_validator_once** ("counting each validator once", all histories). In every
reachable state every queued message has at most one evidence entry and at most one gas estimate per
validator, and every stored estimate is at least 1 and fits `uint64`. -/
theorem reachable_each_validator_once (ops : List Op) (it : Item) (h : it ∈ (run ops).queue) :
    (it.evs.map (·.1)).Nodup ∧ (it.ests.map (·.1)).Nodup ∧ (∀ e ∈ it.ests, 1 ≤ e.2 ∧ e.2 < U64) :=
  ⟨(inv_run ops).evs_nodup it h, (inv_run ops).ests_nodup it h, (inv_run ops).ests_u64 it h⟩

/-- **stored_evidence_is_latest** ("its latest submission", all histories). The evidence stored with a
queued message is the `AddEvidence` fold of the submissions accepted for it (`accepted`, a function of
the operations and their answers, tied to the operation list by `accepted_spec`); hence for every
validator the stored proof is that of its last accepted submission. -/
theorem stored_evidence_is_latest (ops : List Op) (id : Nat) (it : Item)
    (hg : get (run ops).queue id = some it) :
    it.evs = (accepted ops id).foldl addEvidence [] ∧
    ∀ a, lookup it.evs a = lastSub (accepted ops id) a ∧
      ∀ h, (a, h) ∈ it.evs ↔ lastSub (accepted ops id) a = some h := by
  have h1 := (stored_evidence_aux ops).2 id it hg
  refine ⟨h1, ?_⟩
  intro a
  rw [h1]
  exact addEvidence_stored_is_last (accepted ops id) a

/-- `accepted ops id` are exactly the evidence operations for `id` issued while `id` was queued. -/
theorem accepted_spec (ops : List Op) (id : Nat) (e : Evidence) :
    e ∈ accepted ops id ↔
      ∃ pre post it₀, ops = pre ++ .ev id e.1 e.2 :: post ∧ get (run pre).queue id = some it₀ := by
  induction ops using snoc_ind with
  | hnil =>
    simp only [accepted, trace, traceFrom, List.zip_nil_left, List.filterMap_nil, List.not_mem_nil, false_iff]
    rintro ⟨pre, post, _, h, _⟩
    cases pre <;> cases h
  | hsnoc ops op ih =>
    rw [accepted_snoc, List.mem_append, ih]
    constructor
    · rintro (⟨pre, post, it₀, hops, hg⟩ | hnew)
      · exact ⟨pre, post ++ [op], it₀, by rw [hops]; simp, hg⟩
      · rcases Option.eq_none_or_eq_some (pickEv id (op, (step (run ops) op).2)) with hn | ⟨e', hs⟩
        · rw [hn] at hnew; cases hnew
        · rw [hs] at hnew
          simp at hnew; subst hnew
          obtain ⟨hop, it₀, hg⟩ := (pickEv_step_iff _ _ _ _).mp hs
          exact ⟨ops, [], it₀, by rw [hop], hg⟩
    · rintro ⟨pre, post, it₀, hops, hg⟩
      rcases List.eq_nil_or_concat post with hp | ⟨post', x, hp⟩
      · subst hp
        right
        have h1 : ops = pre ∧ op = .ev id e.1 e.2 := by
          have := List.append_inj' hops (by simp)
          exact ⟨this.1, by simpa using this.2⟩
        obtain ⟨h1, h2⟩ := h1
        subst h1
        have := (pickEv_step_iff (run ops) op id e).mpr ⟨h2, it₀, hg⟩
        rw [this]; simp
      · left
        subst hp
        have : ops ++ [op] = (pre ++ .ev id e.1 e.2 :: post') ++ [x] := by
          rw [hops]; simp
        have h1 := List.append_inj' this (by simp)
        exact ⟨pre, post', it₀, h1.1, hg⟩

/-- **declared_has_quorum** ("declared … when 2/3 supplied identical evidence", provenance over all
histories). Every entry `(id, w, soft)` of the effect log was written by an `attest` step for `id` whose
attester did not fail hard, taken in a state where `id` was queued and its evidence — one entry per
validator — had `w` among `VerifyEvidence`'s winners with 2/3 of the **then current** snapshot total
counted once per validator from the snapshot side (`GroupQuorum`); that same step appended exactly this
entry and removed the message. -/
theorem declared_has_quorum (ops : List Op) (d : Nat × Nat × Bool) (hd : d ∈ (run ops).declared) :
    ∃ pre post hint hard soft it, ops = pre ++ .attest d.1 hint hard soft :: post ∧
      outcomeOf hard soft d.2.1 ≠ .hard ∧
      d.2.2 = (outcomeOf hard soft d.2.1 == .soft) ∧ get (run pre).queue d.1 = some it ∧
      GroupQuorum (run pre).snap it.evs d.2.1 ∧
      (run (pre ++ [.attest d.1 hint hard soft])).declared = (run pre).declared ++ [d] ∧
      get (run (pre ++ [.attest d.1 hint hard soft])).queue d.1 = none := by
  induction ops using snoc_ind with
  | hnil => simp [run, runFrom, St.init] at hd
  | hsnoc ops op ih =>
    have hstep := run_snoc ops op
    have ht := step_tr (run ops) op
    rw [← hstep] at ht
    have extend : d ∈ (run ops).declared →
        ∃ pre post hint hard soft it, ops ++ [op] = pre ++ .attest d.1 hint hard soft :: post ∧
          outcomeOf hard soft d.2.1 ≠ .hard ∧
          d.2.2 = (outcomeOf hard soft d.2.1 == .soft) ∧ get (run pre).queue d.1 = some it ∧
          GroupQuorum (run pre).snap it.evs d.2.1 ∧
          (run (pre ++ [.attest d.1 hint hard soft])).declared = (run pre).declared ++ [d] ∧
          get (run (pre ++ [.attest d.1 hint hard soft])).queue d.1 = none := fun h => by
      obtain ⟨pre, post, hint, hard, soft, it, hops, h1, h2, h3, h4, h5, h6⟩ := ih h
      exact ⟨pre, post ++ [op], hint, hard, soft, it, by rw [hops]; simp, h1, h2, h3, h4, h5, h6⟩
    rcases tr_declared (inv_run ops) ht with
      hsame | ⟨id, hint, hard, soft, w, it, hop, hout, hg, hq, hdecl, hgone⟩
    · rw [hsame] at hd; exact extend hd
    · rw [hdecl] at hd
      rcases List.mem_append.mp hd with hd | hd
      · exact extend hd
      · simp at hd; subst hd
        refine ⟨ops, [], hint, hard, soft, it, by rw [hop], hout, rfl, hg, hq, ?_, ?_⟩
        · rw [← hop]; exact hdecl
        · rw [← hop]; exact hgone

/-- **removal_needs_quorum** ("and only then removed with its effects applied"). In every reachable
state, an operation after which a queued message is gone is either `prune` (time-out / superseded:
nothing is declared) or its attestation with quorum, which appends exactly its declaration in the same
step. -/
theorem removal_needs_quorum (pre : List Op) (op : Op) (id : Nat) (it : Item)
    (hg : get (run pre).queue id = some it) (hgone : get (run (pre ++ [op])).queue id = none) :
    (op = .prune id ∧ (run (pre ++ [op])).declared = (run pre).declared) ∨
    (∃ hint hard soft w, op = .attest id hint hard soft ∧ outcomeOf hard soft w ≠ .hard ∧
      GroupQuorum (run pre).snap it.evs w ∧
      (run (pre ++ [op])).declared = (run pre).declared ++ [(id, w, outcomeOf hard soft w == .soft)]) := by
  have ht := step_tr (run pre) op
  rw [← run_snoc] at ht
  exact tr_removal (inv_run pre) ht id it hg hgone

/-- **declared_once_and_gone.** A message is declared at most once, and once declared it never shows
up in the queue again (ids are fresh). -/
theorem declared_once_and_gone (ops : List Op) :
    ((run ops).declared.map (·.1)).Nodup ∧
    ∀ d ∈ (run ops).declared, ∀ more, get (run (ops ++ more)).queue d.1 = none := by
  have hI := inv_run ops
  refine ⟨hI.decl_nodup, ?_⟩
  intro d hd more
  rw [run_append]
  exact gone_forever _ hI d.1 (hI.decl_gone d hd).1 (hI.decl_gone d hd).2 more

/-- **noncommitting_is_noop** (all refused / failed / no-quorum branches, explicitly). Whenever an
operation answers anything but `ok`, a new id, `elected` or `declared` — unknown id, refused estimate,
no evidence, consensus not achieved, zero median, failed fee step, hard attester failure — the state
is unchanged. -/
theorem noncommitting_is_noop (s : St) (op : Op) (h : (step s op).2.commits = false) :
    apply s op = s := by
  unfold apply
  cases op with
  | snap sn => simp [step, Res.commits] at h
  | put req => simp [step, Res.commits] at h
  | ev id a hh =>
    simp only [step, evStep] at *
    split
    · rfl
    · rename_i it hg; simp [hg, Res.commits] at h
  | est id a v =>
    simp only [step, estStep] at *
    split
    · rfl
    · rename_i hv1
      simp only [hv1] at h
      split
      · rfl
      · rename_i it hg
        simp only [hg] at h
        split
        · rfl
        · rename_i hreq
          simp only [hreq] at h
          split
          · rfl
          · rename_i hv
            simp only [hv] at h
            split
            · rfl
            · rename_i es hadd; simp [hadd, Res.commits] at h
  | elect id feeOk =>
    simp only [step, electStep] at *
    split
    · rfl
    · rename_i it hg
      simp only [hg] at h
      split
      · rfl
      · rename_i hreq
        simp only [hreq] at h
        split
        · rfl
        · rename_i hlen
          simp only [hlen] at h
          split
          · rfl
          · rename_i h0
            simp only [h0] at h
            split
            · rfl
            · rfl
            · rename_i g hver
              simp only [hver] at h
              split
              · rfl
              · rename_i g' hset
                simp only [hset] at h
                cases feeOk
                · rfl
                · simp [Res.commits] at h
  | attest id hint hard soft =>
    simp only [step, attestStep] at *
    split
    · rfl
    · rename_i it hg
      simp only [hg] at h
      split
      · rfl
      · rename_i hev
        simp only [hev] at h
        split
        · rfl
        · rename_i ws hver
          simp only [hver] at h
          cases ho : outcomeOf hard soft (pickWinner ws hint)
          · simp [ho, Res.commits] at h
          · simp [ho, Res.commits] at h
          · rfl
  | prune id =>
    simp only [step] at *
    split
    · rfl
    · rename_i it hg; simp [hg, Res.commits] at h

/-- A hard attester failure drops the cache: nothing is removed, nothing declared. -/
theorem hard_failure_is_noop (s : St) (id hint : Nat) (hard soft : List Nat) (w : Nat)
    (h : (step s (.attest id hint hard soft)).2 = .hardFail w) :
    apply s (.attest id hint hard soft) = s := by
  apply noncommitting_is_noop
  rw [h]; rfl

/-- A failing fee step drops the cache: the election is not recorded. -/
theorem fee_failure_is_noop (s : St) (id : Nat) : apply s (.elect id false) = s := by
  apply noncommitting_is_noop
  simp only [step, electStep]
  split
  · rfl
  · split
    · rfl
    · split
      · rfl
      · split
        · rfl
        · split
          · rfl
          · rfl
          · split <;> rfl


/-- **elected_changes_only_by_election** ("requires submissions from 2/3 …, is their median"). In
every reachable state, an operation that changes the elected estimate of a queued message is its
committed election, the value was unset before, and the new value satisfies `EstQuorum` for the
estimates and the snapshot of that moment. -/
theorem elected_changes_only_by_election (pre : List Op) (op : Op) (id : Nat) (it it' : Item)
    (hg : get (run pre).queue id = some it) (hg' : get (run (pre ++ [op])).queue id = some it')
    (hne : it'.elected ≠ it.elected) :
    op = .elect id true ∧ it.elected = 0 ∧ it'.ests = it.ests ∧
      EstQuorum (run pre).snap it.ests it'.elected := by
  have ht := step_tr (run pre) op
  rw [← run_snoc] at ht
  have hI := inv_run pre
  rcases tr_frame ht id it' hg' with ⟨it₀, hg₀, _, _, _, hests, hel⟩ | ⟨req, hop, hid, hit⟩
  · rw [hg] at hg₀; injection hg₀ with e; subst e
    rcases hel with hel | ⟨hop, h0, hver⟩
    · exact absurd hel hne
    · have hmem := (get_some hg).1
      have hests' : it'.ests = it.ests := by
        rcases hests with h | ⟨a, v, hop', _⟩
        · exact h
        · rw [hop] at hop'; cases hop'
      exact ⟨hop, h0, hests',
        estQuorum_of_elected _ _ _ (hI.ests_nodup it hmem) (fun e he => (hI.ests_u64 it hmem e he).2) hver⟩
  · exfalso
    have hle := hI.ids_le it (get_some hg).1
    rw [(get_some hg).2] at hle
    omega

/-- **elected_never_changes** ("once elected never changes", all histories). Once a queued message has
a non-zero elected estimate, whatever operations follow, as long as the message is queued its elected
estimate is that value. -/
theorem elected_never_changes (pre post : List Op) (id : Nat) (it it' : Item)
    (hg : get (run pre).queue id = some it) (h0 : it.elected ≠ 0)
    (hg' : get (run (pre ++ post)).queue id = some it') : it'.elected = it.elected := by
  rw [run_append] at hg'
  exact elected_never_changes_from _ (inv_run pre) id it hg h0 post it' hg'

/-- **elected_provenance.** Every non-zero elected estimate found in a reachable state was written by a
committed `elect` step of the history, from the unset state, with `EstQuorum` for the estimates and
the snapshot current at that step. -/
theorem elected_provenance (ops : List Op) (id : Nat) (it : Item)
    (hg : get (run ops).queue id = some it) (h0 : it.elected ≠ 0) :
    ∃ pre post it₀, ops = pre ++ .elect id true :: post ∧ get (run pre).queue id = some it₀ ∧
      it₀.elected = 0 ∧ EstQuorum (run pre).snap it₀.ests it.elected := by
  induction ops using snoc_ind generalizing it with
  | hnil => simp [run, runFrom, St.init, get] at hg
  | hsnoc ops op ih =>
    have ht := step_tr (run ops) op
    rw [← run_snoc] at ht
    rcases tr_frame ht id it hg with ⟨it₀, hg₀, _, _, _, _, hel⟩ | ⟨req, hop, hid, hit⟩
    · by_cases hsame : it.elected = it₀.elected
      · obtain ⟨pre, post, it₁, hops, h1, h2, h3⟩ := ih it₀ hg₀ (by rw [← hsame]; exact h0)
        exact ⟨pre, post ++ [op], it₁, by rw [hops]; simp, h1, h2, by rw [hsame]; exact h3⟩
      · have := elected_changes_only_by_election ops op id it₀ it hg₀ hg hsame
        exact ⟨ops, [], it₀, by rw [this.1], hg₀, this.2.1, this.2.2.2⟩
    · rw [hit] at h0; exact absurd rfl h0

/-- The second guard (`SetElectedGasEstimate` refusing an already elected message) is never the one that
fires: `checkAndProcessEstimatedMessage` has skipped such messages before. -/
theorem refused_unreachable (s : St) (id : Nat) (feeOk : Bool) :
    (step s (.elect id feeOk)).2 ≠ .refused := by
  simp only [step, electStep]
  split
  · simp
  · rename_i it hg
    split
    · simp
    · split
      · simp
      · split
        · simp
        · rename_i h0
          have h0' : it.elected = 0 := by omega
          split
          · simp
          · simp
          · simp only [setElected, h0']
            simp only [bne_self_eq_false, Bool.false_eq_true, if_false]
            split <;> simp

/-- Behind the message server (which refuses the value 0) the `gas estimate is zero` branch of
`VerifyGasEstimates` is dead: in every reachable state no queued message's estimates have median 0. -/
theorem zero_median_unreachable (ops : List Op) (it : Item) (h : it ∈ (run ops).queue) :
    verifyGasEstimates (run ops).snap it.ests ≠ .zero := by
  intro hz
  have hI := inv_run ops
  unfold verifyGasEstimates at hz
  split at hz
  · cases hz
  · rename_i hc
    simp only at hz
    split at hz
    · rename_i hm
      have hm' : median (it.ests.map (·.2)) = 0 := by simpa using hm
      have hne : it.ests.map (·.2) ≠ [] := by
        intro e
        have : it.ests = [] := by simpa using e
        rw [this] at hc
        simp [tally, foundShares, Power.consensus] at hc
      have hb : ∀ x ∈ it.ests.map (·.2), x < U64 := by
        intro x hx
        rcases List.mem_map.mp hx with ⟨e, he, rfl⟩
        exact (hI.ests_u64 it h e he).2
      obtain ⟨a, ha, _, _, h1, _⟩ := median_in_range _ hne hb
      rcases List.mem_map.mp ha with ⟨e, he, rfl⟩
      have := (hI.ests_u64 it h e he).1
      omega
    · cases hz

/-- **attest_deterministic.** If every snapshot published in the history is `SnapOK` (ASSUMPTION on the
valset keeper, C10), then in every reachable state the outcome of an attestation does not depend on
which quorum group Go's map iteration meets first. -/
theorem attest_deterministic (ops : List Op) (hsn : ∀ sn, Op.snap sn ∈ ops → SnapOK sn)
    (id hint hint' : Nat) (hard soft : List Nat) :
    step (run ops) (.attest id hint hard soft) = step (run ops) (.attest id hint' hard soft) := by
  have hI := inv_run ops
  have hs := snapOK_run ops hsn
  generalize run ops = s at hI hs
  simp only [step, attestStep]
  split
  · rfl
  · rename_i it hg
    split
    · rfl
    · split
      · rfl
      · rename_i ws hver
        obtain ⟨_, hws, hne⟩ := (verifyEvidence_winnerIn_iff _ _ _).mp hver
        have hlen := winners_at_most_one s.snap it.evs hs (hI.evs_nodup it (get_some hg).1)
        rw [← hws] at hlen
        have : ∃ w, ws = [w] := by
          cases ws with
          | nil => exact absurd rfl hne
          | cons w rest =>
            cases rest with
            | nil => exact ⟨w, rfl⟩
            | cons _ _ => simp at hlen
        obtain ⟨w, rfl⟩ := this
        simp only [pickWinner_singleton]

end Hist

namespace Enc

/-! ### "byte-identical evidence": from the group key back to what the validators submitted

The theorems above speak about group keys. `VerifyEvidence` derives the key from
`BytesToHash(proof)`; the clause "have supplied byte-identical evidence" is about the proofs. None of
the theorems below has a hypothesis on the field contents: error messages, balance strings and block
hashes are arbitrary byte lists (with `/`, line feeds, digits, hex-looking text, empty). -/

/-- **bytes_identical_iff_same_proof.** The bytes `BytesToHash` produces (repo commit d674fa52: a tag
per proof type, every free-form field hex encoded) are equal **iff** the proofs are equal — for all
field contents and across the three text proof types. -/
theorem bytes_identical_iff_same_proof (p q : Proof) : p.bytes = q.bytes ↔ p = q :=
  ⟨bytes_inj_lem p q, fun h => by rw [h]⟩

/-- **winner_supplied_identical_evidence** (clause: *declared … when validators holding at least
two thirds … have supplied byte-identical evidence*, on proof content). If `VerifyEvidence` can
return the group with key `k`, then `k` is the key of an entry `e` of the evidence list and the
validators that supplied **exactly the proof of `e`** (not merely something with the same key) hold
at least 2/3 of the snapshot total. -/
theorem winner_supplied_identical_evidence (s : Snapshot) (evs : List (Nat × Proof))
    (ws : List Nat) (k : Nat) (hv : verifyProofs s evs = .winnerIn ws) (hk : k ∈ ws) :
    ∃ e ∈ evs, keyIn (evs.map (·.2.bytes)) e.2.bytes = k ∧
      3 * shareSum s (suppliers evs e.2) ≥ 2 * s.total := by
  have h2 := winner_has_two_thirds s (keys evs) ws k hv hk
  obtain ⟨_, rfl, _⟩ := (verifyEvidence_winnerIn_iff s (keys evs) ws).mp hv
  have hmem : k ∈ hashes (keys evs) := by
    unfold winners at hk
    exact (List.mem_filter.mp hk).1
  obtain ⟨a, ha⟩ := mem_hashes.mp hmem
  unfold keys keysWith at ha
  obtain ⟨e, he, hek⟩ := List.mem_map.mp ha
  have hk' : keyIn (evs.map (·.2.bytes)) e.2.bytes = k := by
    have := congrArg Prod.snd hek
    simpa using this
  refine ⟨e, he, hk', ?_⟩
  rw [← suppliers_eq_group evs e he, hk']
  exact h2.1

/-- **winner_identical_counts_each_validator_once.** The same, counted from the snapshot side (each
snapshot validator at most once, outsiders nothing), for evidence lists with one entry per
validator (`addEvidence_unique`, `Hist.reachable_each_validator_once`). -/
theorem winner_identical_counts_each_validator_once (s : Snapshot) (evs : List (Nat × Proof))
    (hnd : (evs.map (·.1)).Nodup)
    (ws : List Nat) (k : Nat) (hv : verifyProofs s evs = .winnerIn ws) (hk : k ∈ ws) :
    ∃ e ∈ evs, keyIn (evs.map (·.2.bytes)) e.2.bytes = k ∧
      3 * snapPower s (suppliers evs e.2) ≥ 2 * s.total := by
  obtain ⟨e, he, hke, h2⟩ := winner_supplied_identical_evidence s evs ws k hv hk
  refine ⟨e, he, hke, ?_⟩
  rw [shareSum_eq] at h2
  have hsub : (suppliers evs e.2).Sublist (evs.map (·.1)) := by
    unfold suppliers
    exact List.Sublist.map _ List.filter_sublist
  have := sumOver_le_power s.vals (suppliers evs e.2) (hnd.sublist hsub)
  unfold snapPower
  omega

/-- **identical_quorum_wins** (completeness on proof content). If the validators that supplied
exactly the proof of entry `e` hold 2/3 of the snapshot total (and one of them is in the
snapshot), `VerifyEvidence` returns that group. -/
theorem identical_quorum_wins (s : Snapshot) (evs : List (Nat × Proof))
    (e : Nat × Proof) (he : e ∈ evs)
    (hin : ∃ a ∈ suppliers evs e.2, s.share? a ≠ none)
    (hq : 3 * shareSum s (suppliers evs e.2) ≥ 2 * s.total) :
    ∃ ws, verifyProofs s evs = .winnerIn ws ∧ keyIn (evs.map (·.2.bytes)) e.2.bytes ∈ ws := by
  unfold verifyProofs
  apply (winner_iff_quorum s (keys evs) _).mpr
  apply (consensus_iff s _).mpr
  rw [suppliers_eq_group evs e he]
  exact ⟨(foundShares_ne_nil_iff s _).mpr hin, hq⟩

/-- **old_encoding_collided** (the defect repaired by d674fa52; a statement about `bytesOld`, not
about the code as it is). Written one after the other without length, escaping or type tag, a
reference block whose hash starts with a digit, a balance string containing a line feed, or an error
message spelled like another proof's bytes had the bytes of a *different* proof … -/
theorem old_encoding_collided :
    (Proof.refBlock 1 (str "20xab")).bytesOld = (Proof.refBlock 12 (str "0xab")).bytesOld ∧
    (Proof.balances 7 [str "1\n2"]).bytesOld = (Proof.balances 7 [str "1", str "2"]).bytesOld ∧
    (Proof.err (str "120xab")).bytesOld = (Proof.refBlock 12 (str "0xab")).bytesOld := by decide

/-- … **old_encoding_minority_decided**: and then one validator with a quarter of the shares that
submitted first had its reference block (height 1) returned as the winner, although the two other
validators supplied a different one (height 12) and nobody held 2/3 on identical evidence. Under the
encoding as it is the same submissions reach no consensus. -/
theorem old_encoding_minority_decided :
    verifyProofsOld ⟨[(1,25),(2,25),(3,25),(4,25)], 100⟩
      [(1, .refBlock 1 (str "20xab")), (2, .refBlock 12 (str "0xab")), (3, .refBlock 12 (str "0xab"))]
      = .winnerIn [1] ∧
    suppliers [(1, Proof.refBlock 1 (str "20xab")), (2, .refBlock 12 (str "0xab")), (3, .refBlock 12 (str "0xab"))]
      (.refBlock 1 (str "20xab")) = [1] ∧
    verifyProofs ⟨[(1,25),(2,25),(3,25),(4,25)], 100⟩
      [(1, .refBlock 1 (str "20xab")), (2, .refBlock 12 (str "0xab")), (3, .refBlock 12 (str "0xab"))]
      = .notAchieved := by decide

end Enc

/-! ### non-vacuity -/
example : verifyEvidence ⟨[(1,5),(2,5),(3,5)], 15⟩ [(1,7),(2,7),(3,8),(9,7)] = .winnerIn [7] := by decide
example : verifyEvidence ⟨[(1,5),(2,5),(3,5)], 15⟩ [(1,7),(2,8),(3,9)] = .notAchieved := by decide
example : median [5, 1, 9, 3] = 4 ∧ median [18446744073709551615, 18446744073709551613] = 18446744073709551614 := by decide
example : verifyGasEstimates ⟨[(1,5),(2,5),(3,5)], 15⟩ [(1,100),(2,300),(9,200)] = .elected 200 := by decide

/-! non-vacuity through `run` from the initial state -/
open Hist in
/-- quorum by two of three equal validators, an outsider's estimate counts for the median but not for
    the quorum, a second estimate is refused, the election happens once and later steps keep it -/
example :
    trace [.snap ⟨[(1,5),(2,5),(3,5)], 15⟩, .put true, .est 1 1 100, .elect 1 true, .est 1 2 300,
           .est 1 9 200, .est 1 1 7, .elect 1 false, .elect 1 true, .est 1 3 1, .elect 1 true,
           .snap ⟨[(3,1)], 1⟩, .elect 1 true]
      = [.ok, .newId 1, .ok, .notAchieved, .ok, .ok, .rejected, .feeFailed, .elected 200, .ok, .skipped,
         .ok, .skipped] ∧
    (run [.snap ⟨[(1,5),(2,5),(3,5)], 15⟩, .put true, .est 1 1 100, .elect 1 true, .est 1 2 300,
          .est 1 9 200, .est 1 1 7, .elect 1 false, .elect 1 true, .est 1 3 1, .elect 1 true,
          .snap ⟨[(3,1)], 1⟩, .elect 1 true]).queue
      = [{ id := 1, req := true, ests := [(1,100),(2,300),(9,200),(3,1)], elected := 200 }] := by decide
open Hist in
/-- split vote → not achieved; re-submission replaces; hard failure keeps the message; the soft
    failure removes it with its declaration; afterwards the id is gone -/
example :
    trace [.snap ⟨[(1,5),(2,5),(3,5)], 15⟩, .put false, .ev 1 1 7, .ev 1 2 8, .ev 1 9 7, .attest 1 7 [] [],
           .ev 1 2 7, .attest 1 7 [7] [], .attest 1 7 [8] [7], .attest 1 7 [] [], .ev 1 3 7, .prune 1]
      = [.ok, .newId 1, .ok, .ok, .ok, .notAchieved, .ok, .hardFail 7, .declared 7 true, .absent,
         .rejected, .rejected] ∧
    (run [.snap ⟨[(1,5),(2,5),(3,5)], 15⟩, .put false, .ev 1 1 7, .ev 1 2 8, .ev 1 9 7, .attest 1 7 [] [],
          .ev 1 2 7, .attest 1 7 [7] [], .attest 1 7 [8] [7], .attest 1 7 [] [], .ev 1 3 7, .prune 1])
      = { snap := ⟨[(1,5),(2,5),(3,5)], 15⟩, nextId := 1, queue := [], declared := [(1, 7, true)] } := by decide
open Hist in
/-- exactly 2/3 passes, one share short does not (total not divisible by 3) -/
example :
    trace [.snap ⟨[(1,7),(2,3)], 10⟩, .put false, .ev 1 1 4, .attest 1 0 [] []] = [.ok, .newId 1, .ok, .declared 4 false] ∧
    trace [.snap ⟨[(1,6),(2,4)], 10⟩, .put false, .ev 1 1 4, .attest 1 0 [] []] = [.ok, .newId 1, .ok, .notAchieved] ∧
    accepted [.ev 1 1 9, .put false, .ev 1 1 4, .ev 2 1 5, .ev 1 1 6] 1 = [(1,4),(1,6)] := by decide

/-! non-vacuity of the evidence-bytes theorems: the tags and the encoding are the Go text; proofs
    that differ only in where a digit, a `/` or an empty string sits have different bytes; a 50/50 split
    over them has no winner, and 3 of 4 on one of them win with the key of the first identical entry -/
open Enc in
example : tagErr = str "error/" ∧ tagBal = str "balances/" ∧ tagRef = str "refblock/" ∧
    (Proof.balances 7 []).bytes = str "balances/7" ∧ (Proof.balances 7 [[]]).bytes = str "balances/7/" ∧
    (Proof.balances 7 [[], []]).bytes = str "balances/7//" ∧
    (Proof.balances 12 [str "60", str "0"]).bytes = str "balances/12/3630/30" ∧
    (Proof.refBlock 12 (str "0xAb")).bytes = str "refblock/12/30784162" ∧
    (Proof.err (str "balances/7")).bytes = str "error/62616c616e6365732f37" := by decide
open Enc in
example : (Proof.balances 12 [str "60", str "0"]).bytes ≠ (Proof.balances 12 [str "6", str "00"]).bytes ∧
    (Proof.balances 12 [str "1000", [], str "5000"]).bytes ≠ (Proof.balances 12 [str "1000", str "5000", []]).bytes ∧
    (Proof.balances 7 [str "1/2"]).bytes ≠ (Proof.balances 7 [str "1", str "2"]).bytes ∧
    (Proof.balances 7 [str "31/32"]).bytes ≠ (Proof.balances 7 [str "1", str "2"]).bytes ∧
    (Proof.refBlock 1 (str "20xab")).bytes ≠ (Proof.refBlock 12 (str "0xab")).bytes := by decide
open Enc in
example : verifyProofs ⟨[(1,25),(2,25),(3,25),(4,25)], 100⟩
    [(1, .balances 9 [str "60", str "0"]), (2, .balances 9 [str "60", str "0"]),
     (3, .balances 9 [str "6", str "00"]), (4, .balances 9 [str "6", str "00"])] = .notAchieved := by decide
open Enc in
example : verifyProofs ⟨[(1,25),(2,25),(3,25),(4,25)], 100⟩
    [(1, .balances 9 [str "6", str "00"]), (2, .balances 9 [str "60", str "0"]),
     (3, .balances 9 [str "60", str "0"]), (4, .balances 9 [str "60", str "0"])] = .winnerIn [2] := by decide

end Paloma.Libcons

namespace Paloma.Queue

/-! ### C04 at the level of the consensus queue: steps that assign a message again

"The gas estimate elected for a message … once elected never changes" must survive the two steps that give a queued
message to a relayer again: `reassign` (`Keeper.ReassignOrphanedMessages` → `Queue.ReassignValidator`) and `attest`
(`CheckAndProcessAttestedMessages` retrying a failed logic call).  For the other steps of the queue machine it is
`elected_immutable_hist` of Props/C14.lean. -/

/-- helper: the loop of `reassign` changes assignee and relayer address only -/
theorem c04_reassignAux_rest (env : Env) (ts : Nat) (flags : JobFlags) (q : List Item) :
    (reassignAux env ts flags q).1.map (fun it => { it with assignee := 0, remote := 0 }) =
      q.map (fun it => { it with assignee := 0, remote := 0 }) := by
  induction q with
  | nil => simp [reassignAux]
  | cons it rest ih =>
    unfold reassignAux
    split
    · split
      · rfl
      · simp only [List.map_cons, ih]
        simp [handTo]
    · simp only [List.map_cons, ih]

/-- **reassign_keeps_elected** (clause "once elected never changes", step `reassign`).  Handing stale messages to the
relayer picked now — whatever the environment, the block time, the set of stale messages and the demands of their jobs,
whether the loop succeeds or stops at a failing pick — leaves the queue position by position with the same message id,
the same elected estimate, the same fees, the same stored estimates (the multiset a later election would run over is
never consulted again: the elected value is not cleared) and the same number of signatures. -/
theorem reassign_keeps_elected (s : State) (ts : Nat) (flags : JobFlags) :
    (reassign s ts flags).1.queue.map (fun it => (it.id, it.elected, it.fees, it.estimates, it.sigs.length)) =
      s.queue.map (fun it => (it.id, it.elected, it.fees, it.estimates, it.sigs.length)) := by
  have h := congrArg (List.map (fun it : Item => (it.id, it.elected, it.fees, it.estimates, it.sigs.length)))
    (c04_reassignAux_rest s.env ts flags s.queue)
  simpa [List.map_map, Function.comp_def, reassign] using h

/-- **elected_message_is_passed_by** (the same clause over the two cooperating steps: the end-block step that follows a
reassignment).  `checkAndProcessEstimatedMessage` passes by every message that has an elected estimate, whatever estimates
are stored on it by then and whatever the environment: elected estimate and fees stay.  With `reassign_keeps_elected`
(an elected message is still elected after the reassignment): reassignment followed by any number of end-block steps
never re-elects. -/
theorem elected_message_is_passed_by (env : Env) (snap : Snap) (it : Item) (hel : it.elected ≠ 0) :
    (electOne env snap it).elected = it.elected ∧ (electOne env snap it).fees = it.fees := by
  unfold electOne
  split
  · exact ⟨rfl, rfl⟩
  · split
    · exact ⟨rfl, rfl⟩
    · split
      · exact ⟨rfl, rfl⟩
      · rename_i h
        exact absurd (Nat.pos_of_ne_zero hel) (by simpa using h)

/-- helper -/
theorem c04_mem_remove {s : State} {id : Nat} {x : Item} (h : x ∈ (remove s id).1.queue) : x ∈ s.queue := by
  unfold remove at h
  split at h
  · exact h
  · exact (List.mem_filter.mp h).1

/-- helper: one attested message leaves old messages as they are and adds at most a fresh retry -/
theorem c04_attestOne_old_or_fresh (ts : Nat) (flags : JobFlags) (s : State) (it : Item) :
    ∀ x ∈ (attestOne ts flags s it).queue, x ∈ s.queue ∨ (x.elected = 0 ∧ x.fees = none ∧ x.estimates = []) := by
  intro x hx
  unfold attestOne at hx
  split at hx
  · exact Or.inl hx
  · split at hx
    · exact Or.inl hx
    · split at hx
      · exact Or.inl hx
      · split at hx
        · unfold enqueue at hx
          split at hx
          · exact Or.inl (c04_mem_remove hx)
          · simp only [put] at hx
            rcases List.mem_append.mp hx with h | h
            · exact Or.inl (c04_mem_remove h)
            · simp only [List.mem_singleton] at h
              subst h
              exact Or.inr ⟨rfl, rfl, rfl⟩
        · exact Or.inl (c04_mem_remove hx)

/-- **attest_keeps_elected** (clause "once elected never changes", step `attest`).  Whatever the attestation step does
— nothing, remove messages whose evidence won, enqueue retries — every message in the queue afterwards is a message
that was in the queue before, field by field unchanged, or a freshly enqueued retry without elected estimate, fees or
stored estimates: a retry starts its own election, it never inherits or overwrites one. -/
theorem attest_keeps_elected (s : State) (ts : Nat) (flags : JobFlags) (x : Item) (hx : x ∈ (attest s ts flags).queue) :
    x ∈ s.queue ∨ (x.elected = 0 ∧ x.fees = none ∧ x.estimates = []) := by
  have : ∀ (l : List Item) (s : State), ∀ x ∈ (l.foldl (attestOne ts flags) s).queue,
      x ∈ s.queue ∨ (x.elected = 0 ∧ x.fees = none ∧ x.estimates = []) := by
    intro l
    induction l with
    | nil => intro s x h; exact Or.inl h
    | cons it rest ih =>
      intro s x h
      simp only [List.foldl_cons] at h
      rcases ih _ x h with h1 | h1
      · exact c04_attestOne_old_or_fresh ts flags s it x h1
      · exact Or.inr h1
  exact this s.queue s x hx

/-- NOT the code that exists: a reassignment that clears the elected estimate of messages that require estimation
    ("fees are bound to the assignee").  Negation witness: with it, an estimate handed in after the election moves the
    value the next end-block step elects. -/
def handToClearing (it : Item) (vr : Nat × Nat) : Item :=
  if it.reqEst then { handTo it vr with elected := 0 } else handTo it vr

def c04Snap : Snap := { vals := [⟨1, 5, []⟩, ⟨2, 5, []⟩, ⟨3, 5, []⟩], total := 15 }
def c04Elected : Item :=
  { id := 1, kind := .other, content := 7, sender := 0, assignee := 1, remote := 4, reqEst := true,
    estimates := [(1, 21000), (2, 21000), (3, 23000)], elected := 21000 }

-- elected 21000 by validators 1 and 2 (10 of 15 shares); validator 3's 23000 arrived afterwards
example : (electOne {} c04Snap { c04Elected with estimates := [(1, 21000), (2, 21000)], elected := 0 }).elected = 21000 := by decide
example : (electOne {} c04Snap (handTo c04Elected (2, 8))).elected = 21000 ∧
    (electOne {} c04Snap (handToClearing c04Elected (2, 8))).elected = 21000 ∧
    (electOne {} c04Snap (handToClearing { c04Elected with estimates := [(1, 21000), (2, 23000), (3, 23000)] } (2, 8))).elected = 23000 := by decide

end Paloma.Queue
