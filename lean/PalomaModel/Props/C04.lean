/-
C04 — message consensus needs 2/3 of snapshot power on identical evidence;
the elected gas estimate needs quorum, is the median (within [min,max]) and is immutable.
Property theorems only; helper lemmas are in the `Paloma.Libcons.Lemmas` section below
the line and are never restated as property theorems.
-/
import PalomaModel.Model.Libcons
import PalomaModel.Gen.Consts

namespace Paloma.Libcons

/-! ## helper lemmas -/
section Lemmas

/-- sum of the shares of the addresses found in the snapshot (with multiplicity) -/
def shareSum (s : Snapshot) (addrs : List Nat) : Nat := (foundShares s addrs).sum

theorem consensus_iff (s : Snapshot) (addrs : List Nat) :
    (tally s addrs).consensus = true ↔
      foundShares s addrs ≠ [] ∧ 3 * shareSum s addrs ≥ 2 * s.total := by
  unfold Power.consensus tally shareSum
  cases h : foundShares s addrs <;> simp

def sumOver (vs : List (Nat × Nat)) : List Nat → Nat
  | [] => 0
  | a :: as => (lookup vs a).getD 0 + sumOver vs as

theorem shareSum_eq (s : Snapshot) (l : List Nat) : shareSum s l = sumOver s.vals l := by
  induction l with
  | nil => rfl
  | cons a as ih =>
    unfold shareSum foundShares at *
    simp only [List.filterMap_cons, sumOver, Snapshot.share?]
    cases h : lookup s.vals a <;> simp [← ih, Snapshot.share?]

theorem lookup_cons (v : Nat × Nat) (vs : List (Nat × Nat)) (a : Nat) :
    lookup (v :: vs) a = if v.1 == a then some v.2 else lookup vs a := by
  unfold lookup
  simp only [List.find?_cons]
  cases h : v.1 == a <;> simp

theorem sumOver_append (vs : List (Nat × Nat)) (l₁ l₂ : List Nat) :
    sumOver vs (l₁ ++ l₂) = sumOver vs l₁ + sumOver vs l₂ := by
  induction l₁ with
  | nil => simp [sumOver]
  | cons a as ih => simp [sumOver, ih, Nat.add_assoc]

theorem sumOver_cons_le (v : Nat × Nat) (vs : List (Nat × Nat)) (l : List Nat) (hnd : l.Nodup) :
    sumOver (v :: vs) l ≤ v.2 + sumOver vs l := by
  induction l with
  | nil => simp [sumOver]
  | cons a as ih =>
    have hnd' := (List.nodup_cons.mp hnd)
    have ih' := ih hnd'.2
    simp only [sumOver, lookup_cons]
    by_cases h : v.1 = a
    · -- `a` is the head address; it does not occur in `as`, so the tail picks nothing from `v`
      subst h
      have htail : sumOver (v :: vs) as = sumOver vs as := by
        clear ih ih' hnd
        have hnot := hnd'.1
        induction as with
        | nil => rfl
        | cons b bs ihb =>
          have hb : ¬ v.1 = b := by
            intro e; apply hnot; simp [e]
          have hbs : ¬ v.1 ∈ bs := by
            intro e; apply hnot; simp [e]
          have := ihb ⟨hbs, (List.nodup_cons.mp hnd'.2).2⟩ hbs
          simp only [sumOver, lookup_cons, this]
          simp [hb]
      simp only [beq_self_eq_true, if_true, Option.getD_some, htail]
      omega
    · simp only [beq_iff_eq, h, if_false]
      omega

theorem sumOver_le_total (vs : List (Nat × Nat)) (l : List Nat) (hnd : l.Nodup) :
    sumOver vs l ≤ (vs.map (·.2)).sum := by
  induction vs with
  | nil =>
    have : ∀ l, sumOver [] l = 0 := by
      intro l; induction l with
      | nil => rfl
      | cons a as ih => simp [sumOver, ih, lookup]
    simp [this]
  | cons v vs ih =>
    have := sumOver_cons_le v vs l hnd
    simp only [List.map_cons, List.sum_cons]
    omega

theorem groupOf_sublist (evs : List Evidence) (h : Nat) :
    (groupOf evs h).Sublist (evs.map (·.1)) := by
  unfold groupOf
  exact List.Sublist.map _ (List.filter_sublist)

theorem fst_inj_of_nodup (evs : List Evidence) (hnd : (evs.map (·.1)).Nodup) (a x y : Nat)
    (hx : (a, x) ∈ evs) (hy : (a, y) ∈ evs) : x = y := by
  induction evs with
  | nil => cases hx
  | cons e es ih =>
    have hnd' := List.nodup_cons.mp (by simpa only [List.map_cons] using hnd)
    have hnotin : ∀ z, (a, z) ∈ es → e.1 ≠ a := by
      intro z hz he
      apply hnd'.1
      exact List.mem_map.mpr ⟨(a, z), hz, by simp [he]⟩
    rcases List.mem_cons.mp hx with hx | hx <;> rcases List.mem_cons.mp hy with hy | hy
    · have := hx.trans hy.symm; exact (Prod.mk.inj this).2
    · exact absurd (by rw [← hx]) (hnotin y hy)
    · exact absurd (by rw [← hy]) (hnotin x hx)
    · exact ih hnd'.2 hx hy

theorem mem_groupOf {evs : List Evidence} {h a : Nat} : a ∈ groupOf evs h ↔ (a, h) ∈ evs := by
  unfold groupOf
  constructor
  · intro ha
    rcases List.mem_map.mp ha with ⟨e, he, rfl⟩
    have := List.mem_filter.mp he
    have h2 : e.2 = h := by simpa using this.2
    rw [← h2]; exact this.1
  · intro ha
    exact List.mem_map.mpr ⟨(a, h), List.mem_filter.mpr ⟨ha, by simp⟩, rfl⟩

theorem groups_disjoint_nodup (evs : List Evidence) (h₁ h₂ : Nat) (hne : h₁ ≠ h₂)
    (hnd : (evs.map (·.1)).Nodup) : (groupOf evs h₁ ++ groupOf evs h₂).Nodup := by
  rw [List.nodup_append]
  refine ⟨hnd.sublist (groupOf_sublist evs h₁), hnd.sublist (groupOf_sublist evs h₂), ?_⟩
  intro a ha b hb hab
  subst hab
  exact hne (fst_inj_of_nodup evs hnd a h₁ h₂ (mem_groupOf.mp ha) (mem_groupOf.mp hb))

theorem mem_winners {s : Snapshot} {evs : List Evidence} {h : Nat} (hw : h ∈ winners s evs) :
    (tally s (groupOf evs h)).consensus = true := by
  unfold winners at hw
  exact (List.mem_filter.mp hw).2

theorem addEvidence_keys (evs : List Evidence) (e : Evidence) :
    (addEvidence evs e).map (·.1) =
      if e.1 ∈ evs.map (·.1) then evs.map (·.1) else evs.map (·.1) ++ [e.1] := by
  induction evs with
  | nil => simp [addEvidence]
  | cons x xs ih =>
    simp only [addEvidence]
    by_cases hx : x.1 = e.1
    · simp [hx]
    · simp only [beq_iff_eq, hx, if_false, List.map_cons, ih, List.mem_cons]
      have : ¬ e.1 = x.1 := fun h => hx h.symm
      simp only [this, false_or]
      split <;> simp

/-- `sortAsc` facts -/
theorem mem_insertSorted {x y : Nat} {l : List Nat} : y ∈ insertSorted x l ↔ y = x ∨ y ∈ l := by
  induction l with
  | nil => simp [insertSorted]
  | cons z zs ih =>
    simp only [insertSorted]
    split
    · simp
    · simp only [List.mem_cons, ih]
      constructor
      · rintro (h | h | h) <;> simp [h]
      · rintro (h | h | h) <;> simp [h]

theorem mem_sortAsc {y : Nat} {l : List Nat} : y ∈ sortAsc l ↔ y ∈ l := by
  induction l with
  | nil => simp [sortAsc]
  | cons z zs ih => simp [sortAsc, mem_insertSorted, ih]

theorem length_insertSorted (x : Nat) (l : List Nat) : (insertSorted x l).length = l.length + 1 := by
  induction l with
  | nil => simp [insertSorted]
  | cons z zs ih => simp only [insertSorted]; split <;> simp [ih]

theorem length_sortAsc (l : List Nat) : (sortAsc l).length = l.length := by
  induction l with
  | nil => rfl
  | cons z zs ih => simp [sortAsc, length_insertSorted, ih]

def Ascending (l : List Nat) : Prop := List.Pairwise (· ≤ ·) l

theorem ascending_insertSorted (x : Nat) (l : List Nat) (h : Ascending l) :
    Ascending (insertSorted x l) := by
  induction l with
  | nil => simp [insertSorted, Ascending]
  | cons z zs ih =>
    unfold Ascending at *
    simp only [insertSorted]
    have hz := List.pairwise_cons.mp h
    split
    · rename_i hxz
      refine List.pairwise_cons.mpr ⟨?_, h⟩
      intro a ha
      rcases List.mem_cons.mp ha with ha | ha
      · omega
      · have := hz.1 a ha; omega
    · rename_i hxz
      refine List.pairwise_cons.mpr ⟨?_, ih hz.2⟩
      intro a ha
      rcases mem_insertSorted.mp ha with ha | ha
      · omega
      · exact hz.1 a ha

theorem ascending_sortAsc (l : List Nat) : Ascending (sortAsc l) := by
  induction l with
  | nil => simp [sortAsc, Ascending]
  | cons z zs ih => exact ascending_insertSorted z _ ih

theorem ascending_getD_le (l : List Nat) (h : Ascending l) (i j : Nat) (hij : i ≤ j) (hj : j < l.length) :
    l.getD i 0 ≤ l.getD j 0 := by
  unfold Ascending at h
  rcases Nat.lt_or_eq_of_le hij with hlt | heq
  · have hi : i < l.length := by omega
    have := List.pairwise_iff_getElem.mp h i j hi hj hlt
    simpa [List.getD_eq_getElem?_getD, List.getElem?_eq_getElem hi, List.getElem?_eq_getElem hj] using this
  · subst heq; exact Nat.le_refl _

theorem getD_mem (l : List Nat) (i : Nat) (hi : i < l.length) : l.getD i 0 ∈ l := by
  simp [List.getD_eq_getElem?_getD, List.getElem?_eq_getElem hi]

theorem midpoint_between (lo hi : Nat) (h : lo ≤ hi) (hhi : hi < U64) :
    lo ≤ midpoint lo hi ∧ midpoint lo hi ≤ hi := by
  unfold midpoint U64 at *
  omega

end Lemmas

/-! ## Property theorems (C04) -/

/-- **winner_has_two_thirds.** If `VerifyEvidence` can return hash `h` as winner, the snapshot
validators that supplied evidence with exactly that hash hold at least 2/3 of the snapshot
total; validators outside the snapshot contribute nothing (`share? = none ↦ 0`). -/
theorem winner_has_two_thirds (s : Snapshot) (evs : List Evidence) (ws : List Nat) (h : Nat)
    (hv : verifyEvidence s evs = .winnerIn ws) (hh : h ∈ ws) :
    3 * shareSum s (groupOf evs h) ≥ 2 * s.total ∧
    (∀ a ∈ groupOf evs h, (a, h) ∈ evs) := by
  unfold verifyEvidence at hv
  split at hv
  · cases hv
  · split at hv
    · cases hv
    · rename_i ws' hne
      injection hv with hv
      subst hv
      have hc := mem_winners (by assumption : h ∈ winners s evs)
      refine ⟨((consensus_iff s _).mp hc).2, ?_⟩
      intro a ha
      unfold groupOf at ha
      rcases List.mem_map.mp ha with ⟨e, he, rfl⟩
      have := List.mem_filter.mp he
      have h2 : e.2 = h := by simpa using this.2
      rw [← h2]; exact this.1

/-- **winner_unique.** With one evidence entry per validator (what `AddEvidence` maintains,
see `addEvidence_unique`), a snapshot whose total is the sum of its shares and is positive
admits at most one hash group with quorum: the result does not depend on Go's map order. -/
theorem winner_unique (s : Snapshot) (evs : List Evidence)
    (hnd : (evs.map (·.1)).Nodup)
    (htot : (s.vals.map (·.2)).sum ≤ s.total) (hpos : 0 < s.total)
    (h₁ h₂ : Nat) (hw₁ : h₁ ∈ winners s evs) (hw₂ : h₂ ∈ winners s evs) : h₁ = h₂ := by
  by_cases hne : h₁ = h₂
  · exact hne
  · exfalso
    have c₁ := ((consensus_iff s _).mp (mem_winners hw₁)).2
    have c₂ := ((consensus_iff s _).mp (mem_winners hw₂)).2
    have hdis := groups_disjoint_nodup evs h₁ h₂ hne hnd
    have hle := sumOver_le_total s.vals _ hdis
    rw [sumOver_append, ← shareSum_eq, ← shareSum_eq] at hle
    omega

/-- **quorum_as_in_source.** `consensusPower.consensus` in the current source is
`3 * sum >= 2 * total` (factors and comparator regenerated by the extractor on every run). -/
theorem quorum_as_in_source :
    Paloma.Gen.Consts.consensusSumFactor = 3 ∧ Paloma.Gen.Consts.consensusTotalFactor = 2 ∧
    Paloma.Gen.Consts.consensusComparator = "GTE" := by decide

/-- **no_quorum_no_winner.** Below 2/3 over *all* evidence the verdict is `notAchieved`. -/
theorem no_quorum_no_winner (s : Snapshot) (evs : List Evidence)
    (h : 3 * shareSum s (evs.map (·.1)) < 2 * s.total) :
    verifyEvidence s evs = .notAchieved := by
  unfold verifyEvidence
  have : (tally s (evs.map (·.1))).consensus = false := by
    cases hc : (tally s (evs.map (·.1))).consensus
    · rfl
    · have := ((consensus_iff s _).mp hc).2; omega
  simp [this]

/-- **addEvidence_unique.** `AddEvidence` keeps one entry per validator, over any history. -/
theorem addEvidence_unique (subs : List Evidence) :
    ((subs.foldl addEvidence []).map (·.1)).Nodup := by
  suffices h : ∀ acc : List Evidence, (acc.map (·.1)).Nodup →
      ((subs.foldl addEvidence acc).map (·.1)).Nodup from h [] (by simp)
  induction subs with
  | nil => intro acc h; simpa
  | cons e es ih =>
    intro acc h
    apply ih
    rw [addEvidence_keys]
    split
    · exact h
    · rename_i hnot
      rw [List.nodup_append]
      refine ⟨h, by simp, ?_⟩
      intro a ha b hb
      simp at hb; subst hb
      intro e'; subst e'; exact hnot ha

/-- **addEvidence_latest.** The stored proof of a validator is its latest submission. -/
theorem addEvidence_latest (evs : List Evidence) (e : Evidence) : e ∈ addEvidence evs e := by
  induction evs with
  | nil => simp [addEvidence]
  | cons x xs ih =>
    simp only [addEvidence]
    by_cases hx : x.1 = e.1
    · simp [hx]
    · simp [hx, ih]

/-- **median_in_range.** For a non-empty multiset of `uint64` values, the value `Median`
returns lies between two submitted values (hence between the lowest and the highest). -/
theorem median_in_range (l : List Nat) (hne : l ≠ []) (hb : ∀ x ∈ l, x < U64) :
    ∃ a ∈ l, ∃ b ∈ l, a ≤ median l ∧ median l ≤ b := by
  have hlen : 0 < l.length := List.length_pos_iff.mpr hne
  have hsl := length_sortAsc l
  unfold median medianWith
  simp only [show ¬ l.length < 1 by omega, if_false]
  split
  · rename_i heven
    have heven' : (sortAsc l).length % 2 = 0 := by simpa using heven
    have hc : (sortAsc l).length / 2 < (sortAsc l).length := by omega
    have hc1 : (sortAsc l).length / 2 - 1 < (sortAsc l).length := by omega
    have hlo := getD_mem (sortAsc l) _ hc1
    have hhi := getD_mem (sortAsc l) _ hc
    have hle := ascending_getD_le (sortAsc l) (ascending_sortAsc l) ((sortAsc l).length / 2 - 1)
      ((sortAsc l).length / 2) (by omega) hc
    have hbound := hb _ (mem_sortAsc.mp hhi)
    have := midpoint_between _ _ hle hbound
    exact ⟨_, mem_sortAsc.mp hlo, _, mem_sortAsc.mp hhi, this.1, this.2⟩
  · have hc : (sortAsc l).length / 2 < (sortAsc l).length := by omega
    have hm := getD_mem (sortAsc l) _ hc
    exact ⟨_, mem_sortAsc.mp hm, _, mem_sortAsc.mp hm, Nat.le_refl _, Nat.le_refl _⟩

/-- The pre-repair midpoint `(w[c-1]+w[c])/2` on `uint64` is *not* within range:
    `{2^63+1, 2^63+3}` ↦ 2 (the defect repaired by the `fix:` commit). -/
theorem medianWrapping_out_of_range :
    medianWrapping [9223372036854775809, 9223372036854775811] = 2 := by decide

/-- **estimate_needs_quorum.** An elected value implies 2/3 of snapshot shares submitted. -/
theorem estimate_needs_quorum (s : Snapshot) (ests : List (Nat × Nat)) (v : Nat)
    (h : verifyGasEstimates s ests = .elected v) :
    3 * shareSum s (ests.map (·.1)) ≥ 2 * s.total ∧ v = median (ests.map (·.2)) ∧ v ≠ 0 := by
  unfold verifyGasEstimates at h
  split at h
  · cases h
  · rename_i hc
    have hc' : (tally s (ests.map (·.1))).consensus = true := by simpa using hc
    simp only at h
    split at h
    · cases h
    · rename_i hz
      injection h with h
      refine ⟨((consensus_iff s _).mp hc').2, h.symm, ?_⟩
      subst h; simpa using hz

/-- **elected_immutable.** Once an estimate is elected (non-zero — `VerifyGasEstimates`
never yields 0), `SetElectedGasEstimate` refuses every later value. -/
theorem elected_immutable (cur new : Nat) (h : cur ≠ 0) : setElected cur new = none := by
  simp [setElected, h]

/-- **one_estimate_per_validator.** `AddGasEstimate` keeps submitters distinct. -/
theorem one_estimate_per_validator (ests ests' : List (Nat × Nat)) (e : Nat × Nat)
    (hnd : (ests.map (·.1)).Nodup) (h : addGasEstimate ests e = some ests') :
    (ests'.map (·.1)).Nodup := by
  unfold addGasEstimate at h
  split at h
  · cases h
  · rename_i hany
    injection h with h; subst h
    simp only [List.map_append, List.map_cons, List.map_nil]
    rw [List.nodup_append]
    refine ⟨hnd, by simp, ?_⟩
    intro a ha b hb
    simp at hb; subst hb
    intro e'; subst e'
    apply hany
    rcases List.mem_map.mp ha with ⟨x, hx, hx1⟩
    exact List.any_eq_true.mpr ⟨x, hx, by simp [hx1]⟩

/-! ### non-vacuity -/
example : verifyEvidence ⟨[(1,5),(2,5),(3,5)], 15⟩ [(1,7),(2,7),(3,8),(9,7)] = .winnerIn [7] := by decide
example : verifyEvidence ⟨[(1,5),(2,5),(3,5)], 15⟩ [(1,7),(2,8),(3,9)] = .notAchieved := by decide
example : median [5, 1, 9, 3] = 4 ∧ median [18446744073709551615, 18446744073709551613] = 18446744073709551614 := by decide
example : verifyGasEstimates ⟨[(1,5),(2,5),(3,5)], 15⟩ [(1,100),(2,300),(9,200)] = .elected 200 := by decide

end Paloma.Libcons
