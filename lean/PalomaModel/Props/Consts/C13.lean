import PalomaModel.Props.Consts.Lookup

namespace Paloma.ConstTie.C13
open Paloma.ConstTie

/-! ## Property theorems -/

/-- the prune-time floor: nobody is jailed when `10 * votes < total shares` (model: `pruneJail` in Props/C13) -/
theorem prune_floor_as_in_source :
    uses "x/consensus/keeper.Keeper.jailValidatorsWhichMissedAttestation" =
      ["r.TotalVotes.Mul(math.NewInt(10)).LT(r.TotalShares)",
       "len(snapshot.Validators) == 0 || snapshot.TotalShares.Equal(math.ZeroInt())"] := by decide +kernel

/-- the signature normalisation of bad-signature evidence -/
theorem evidence_signature_shape_as_in_source :
    uses "x/skyway/types.EthAddressFromSignature" = ["len(signature) < 65", "signature[64] == 27 || signature[64] == 28", "signature[64] -= 27"] := by
  decide +kernel

end Paloma.ConstTie.C13
