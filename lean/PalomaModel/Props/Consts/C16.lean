import PalomaModel.Props.Consts.Lookup
import PalomaModel.Model.TokenFactory

namespace Paloma.ConstTie.C16
open Paloma.ConstTie Paloma.TokenFactory

/-! ## Property theorems -/

theorem denom_limits_as_in_source :
    int? "x/tokenfactory/types.MaxSubdenomLength" = some "44" ∧ MaxSubdenomLength = 44 ∧
    int? "x/tokenfactory/types.MaxCreatorLength" = some "75" ∧
    uses "x/tokenfactory/types.DeconstructDenom" = ["len(strParts) < 3", "strParts[0] != ModuleDenomPrefix"] ∧
    const? "x/tokenfactory/types.ModuleDenomPrefix" = some ("string", "factory") := by
  refine ⟨by decide +kernel, rfl, by decide +kernel, by decide +kernel, by decide +kernel⟩

end Paloma.ConstTie.C16
