import PalomaModel.Props.Consts.Lookup
import PalomaModel.Model.KeepAlive

namespace Paloma.ConstTie.C12
open Paloma.ConstTie Paloma.KeepAlive

/-! ## Property theorems -/

/-- keep-alive lifetime: 2000 blocks in the source, and the model's `keepAliveTTL` -/
theorem keepAliveTTL_as_in_source :
    int? "x/valset/keeper.cJailingDefaultKeepAliveBlockHeight" = some "2000" ∧ keepAliveTTL = 2000 := by
  refine ⟨by decide +kernel, rfl⟩

/-- grace period after an unjail: 30 blocks -/
theorem gracePeriod_as_in_source :
    int? "x/valset/keeper.cJailingGracePeriodBlockHeight" = some "30" ∧ gracePeriod = 30 := by
  refine ⟨by decide +kernel, rfl⟩

/-- network-share protection: the constant 0.25 (`1/4` exactly), the model's `4 * p > total` -/
theorem shareProtection_as_in_source :
    const? "x/valset/keeper.cJailingNetworkShareProtection" = some ("float", "1/4") ∧ protectionDenominator = 4 := by
  refine ⟨by decide +kernel, rfl⟩

/-- the schedule of the valset end-blocker: snapshot every 50th height (and at height 1), liveness sweep at every
    10th height above 50 -/
theorem endBlock_schedule_as_in_source :
    uses "x/valset.AppModule.EndBlock" =
      ["sdkCtx.BlockHeight()%50 == 0 || sdkCtx.BlockHeight() == 1",
       "sdkCtx.BlockHeight() > 50 && sdkCtx.BlockHeight()%10 == 0"] ∧
    sweepMinHeight = 50 ∧ sweepPeriod = 10 := by
  refine ⟨by decide +kernel, rfl, rfl⟩

/-- the sentence schedule 1 m, 5 m, 15 m, 1 h, 24 h -/
theorem jailSentences_as_in_source :
    var? "x/valset/keeper.jailSentences" =
      some "[]time.Duration{ time.Minute, time.Minute * 5, time.Minute * 15, time.Hour, time.Hour * 24, }" ∧
    jailSentences = [minute, 5 * minute, 15 * minute, 60 * minute, 1440 * minute] ∧ minute = 60 * 1000000000 := by
  refine ⟨by decide +kernel, rfl, rfl⟩

/-- reset threshold `max(30 min, d + d/20)` and the first sentence `time.Minute * 1` -/
theorem resetThreshold_as_in_source :
    uses "x/valset/keeper.calculateJailSentenceResetThreshold" = ["time.Minute * 30", "d + time.Duration(d/20)"] ∧
    uses "x/valset/keeper.deriveJailSentence" = ["len(jailSentences) - 1"] ∧
    uses "x/valset/keeper.Keeper.Jail" = ["count := 0", "count == 1", "time.Minute * 1"] ∧
    resetThresholdFloor = 30 * minute ∧ resetThresholdDivisor = 20 := by
  refine ⟨by decide +kernel, by decide +kernel, by decide +kernel, rfl, rfl⟩

end Paloma.ConstTie.C12
