import PalomaModel.Props.Consts.Lookup

/-! The heights at which the end-blockers do periodic work (C08 twin execution and C09 hostile fuzzing steer their
histories to exactly these height classes: 10, 50, 300, 303, 10 000). -/
namespace Paloma.ConstTie.Schedule
open Paloma.ConstTie

/-! ## Property theorems -/

theorem block_schedule_as_in_source :
    uses "x/valset.AppModule.EndBlock" =
      ["sdkCtx.BlockHeight()%50 == 0 || sdkCtx.BlockHeight() == 1", "sdkCtx.BlockHeight() > 50 && sdkCtx.BlockHeight()%10 == 0"] ∧
    uses "x/consensus.AppModule.EndBlock" = ["ctx.BlockHeight()%50 == 0"] ∧
    uses "x/evm.AppModule.EndBlock" =
      ["sdkCtx.BlockHeight()%300 == 0", "sdkCtx.BlockHeight()%updateXChainsReferencesPeriod == 0",
       "sdkCtx.BlockHeight()%purgeStaleUserSmartContractsPeriod == 0"] ∧
    int? "x/evm.updateXChainsReferencesPeriod" = some "10000" ∧ int? "x/evm.purgeStaleUserSmartContractsPeriod" = some "10000" ∧
    uses "x/metrix.AppModule.EndBlock" = ["sdkCtx.BlockHeight()%cUpdateUptimeBlockInterval == 0"] ∧
    int? "x/metrix.cUpdateUptimeBlockInterval" = some "10" ∧
    uses "x/paloma.AppModule.EndBlock" = ["sdkCtx.BlockHeight()%303 == 0"] ∧
    uses "x/skyway.createBatch" = ["sdkCtx.BlockHeight()%50 == 0"] ∧
    int? "x/skyway.updateValidatorNoncesPeriod" = some "50" := by
  refine ⟨by decide +kernel, by decide +kernel, by decide +kernel, by decide +kernel, by decide +kernel, by decide +kernel,
    by decide +kernel, by decide +kernel, by decide +kernel, by decide +kernel⟩

end Paloma.ConstTie.Schedule
