import PalomaModel.Props.Consts.Lookup
import PalomaModel.Model.Auth

namespace Paloma.ConstTie.C03
open Paloma.ConstTie

/-! ## Property theorems -/

/-- the depth to which `authz.MsgExec` wrappers are unfolded — by the ante decorator and by the wasm message router — is the
    model's `maxNesting` -/
theorem nesting_bound_as_in_source :
    int? "x/paloma.cMaxNestedMsgDepth" = some "6" ∧ int? "util/libwasm.cMaxNestedMsgDepth" = some "6" ∧
    Paloma.Auth.maxNesting = 6 := by
  refine ⟨by decide +kernel, by decide +kernel, rfl⟩

end Paloma.ConstTie.C03
