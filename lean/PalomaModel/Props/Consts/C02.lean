import PalomaModel.Props.Consts.Lookup
import PalomaModel.Model.Oracle

namespace Paloma.ConstTie.C02
open Paloma.ConstTie Paloma.Oracle

/-! ## Property theorems -/

/-- the 66 % threshold: the variable, its use in `TryAttestation` (`66 * total / 100`, then a strict comparison
    — the comparator itself is `Gen.Consts.tryAttestationComparator`, consumed by Props/C02), the consecutive-nonce
    test of `Attest` and `TryAttestation` -/
theorem threshold_as_in_source :
    var? "x/skyway/types.AttestationVotesPowerThreshold" = some "math.NewInt(66)" ∧
    uses "x/skyway/keeper.Keeper.TryAttestation" =
      ["types.AttestationVotesPowerThreshold.Mul(totalPower).Quo(math.NewInt(100))", "math.NewInt(0)",
       "claim.GetSkywayNonce() != lastSkywayNonce+1"] ∧
    uses "x/skyway/keeper.Keeper.Attest" = ["claim.GetSkywayNonce() != lastSkywayNonce+1", "lastSkywayNonce + 1"] ∧
    uses "x/skyway.attestationTally" = ["nonce == uint64(lastEventNonce)+1"] ∧
    votesPowerThreshold = 66 ∧ powerDivisor = 100 := by
  refine ⟨by decide +kernel, by decide +kernel, by decide +kernel, by decide +kernel, rfl, rfl⟩

/-- a validator without a recorded nonce starts one below the last observed one -/
theorem new_validator_nonce_as_in_source :
    uses "x/skyway/keeper.Keeper.GetLastSkywayNonceByValidator" =
      ["len(bytes) == 0", "lastEventNonce >= 1", "lastEventNonce - 1"] := by decide +kernel

end Paloma.ConstTie.C02
