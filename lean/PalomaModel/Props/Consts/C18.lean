import PalomaModel.Props.Consts.Lookup
import PalomaModel.Model.LightNode

namespace Paloma.ConstTie.C18
open Paloma.ConstTie Paloma.LightNode

/-! ## Property theorems -/

/-- a sale vests over 24 months and is paid in grains = 10^6 ugrain -/
theorem sale_constants_as_in_source :
    int? "x/paloma/keeper.lightNodeSaleVestingMonths" = some "24" ∧ saleMonths = 24 ∧
    uses "x/paloma/keeper.Keeper.CreateSaleLightNodeClientLicense" =
      ["amount.Mul(math.NewInt(1_000_000))", "len(funders.Accounts) == 0", "math.NewInt(1_000_000)"] ∧
    grain = 1000000 := by
  refine ⟨by decide +kernel, rfl, by decide +kernel, rfl⟩

end Paloma.ConstTie.C18
