import PalomaModel.Props.Consts.Lookup

namespace Paloma.ConstTie.C17
open Paloma.ConstTie

/-! ## Property theorems -/

/-- the caller is appended as a 32-byte word; ids are at most 32 bytes; the payload rule -/
theorem job_constants_as_in_source :
    int? "x/scheduler/types.JobAddressLength" = some "32" ∧ int? "x/scheduler/types.JobIDMaxLen" = some "32" ∧
    uses "x/scheduler/keeper.Keeper.ScheduleNow" = ["len(in) > 0 && !job.GetIsPayloadModifiable()"] := by
  refine ⟨by decide +kernel, by decide +kernel, by decide +kernel⟩

end Paloma.ConstTie.C17
