import PalomaModel.Props.Consts.Lookup
import PalomaModel.Model.Valset

namespace Paloma.ConstTie.C10
open Paloma.ConstTie Paloma.Valset

/-! ## Property theorems -/

/-- powers are scaled to 2^32; the quorum constant is 2863311530 -/
theorem power_constants_as_in_source :
    int? "x/evm/keeper.maxPower" = some "4294967296" ∧ maxPower = 4294967296 ∧
    int? "x/evm/keeper.thresholdForConsensus" = some "2863311530" ∧ thresholdForConsensus = 2863311530 := by
  refine ⟨by decide +kernel, by decide, by decide +kernel, rfl⟩

/-- a chain keeps its valset for 30 days before an unchanged one is re-published -/
theorem keepWarm_as_in_source :
    uses "x/evm/keeper.Keeper.PublishSnapshotToAllChains" =
      ["keepWarmDays := 30", "latestActiveValsetAge < (time.Duration(keepWarmDays) * 24 * time.Hour)"] ∧
    keepWarm = 30 * 24 * 3600 := by
  refine ⟨by decide +kernel, rfl⟩

/-- division only with a positive total -/
theorem power_guard_as_in_source :
    uses "x/evm/keeper.transformSnapshotToCompass" = ["totalPower.Sign() > 0"] := by decide +kernel

end Paloma.ConstTie.C10
