import PalomaModel.Props.Consts.Lookup
import PalomaModel.Model.Libcons

namespace Paloma.ConstTie.C04
open Paloma.ConstTie

/-! ## Property theorems -/

/-- the two places that test `3 * sum ≥ 2 * total`, and nothing else numeric in them -/
theorem two_thirds_as_in_source :
    uses "util/libcons.consensusPower.consensus" =
      ["c.runningSum.Mul(sdkmath.NewInt(3)).GTE( c.totalPower.Mul(sdkmath.NewInt(2)), )"] ∧
    uses "x/consensus/keeper.Keeper.GetMessagesThatHaveReachedConsensus" =
      ["len(msgs) == 0", "len(snapshot.Validators) == 0 || snapshot.TotalShares.Equal(math.ZeroInt())",
       "msgTotal.Mul(math.NewInt(3)).GTE(snapshot.TotalShares.Mul(math.NewInt(2)))"] := by
  refine ⟨by decide +kernel, by decide +kernel⟩

/-- `palomath.Median`: empty ↦ 0, middle index `len/2`, even count ↦ the overflow-free midpoint -/
theorem median_as_in_source :
    uses "util/palomath.Median" =
      ["len(s) < 1", "len(w) / 2", "len(w)%2 == 0", "w[c-1] + (w[c]-w[c-1])/2.0"] := by decide +kernel

/-- an elected estimate of 0 is refused; estimates below 1 are refused at submission; election only when none is set -/
theorem estimate_guards_as_in_source :
    uses "util/libcons.ConsensusChecker.VerifyGasEstimates" = ["winner == 0"] ∧
    uses "x/consensus/keeper.msgServer.AddMessageEstimates" = ["estimate.GetValue() < 1"] ∧
    uses "x/consensus/keeper/consensus.Queue.SetElectedGasEstimate" = ["msg.GetGasEstimate() != 0"] := by
  refine ⟨by decide +kernel, by decide +kernel, by decide +kernel⟩

end Paloma.ConstTie.C04
