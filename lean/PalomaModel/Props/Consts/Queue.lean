import PalomaModel.Props.Consts.Lookup
import PalomaModel.Model.Queue

/-! Numbers of the queue model (C06 / C14). -/
namespace Paloma.ConstTie.Queue
open Paloma.ConstTie Paloma.Queue

/-! ## Property theorems -/

/-- the relayer is drawn from the best 5 -/
theorem topPool_as_in_source :
    int? "x/evm/keeper.topValidatorPoolSize" = some "5" ∧ topPool = 5 := by
  refine ⟨by decide +kernel, rfl⟩

/-- listings are capped at 1000 messages -/
theorem respCap_as_in_source :
    var? "x/consensus/keeper.defaultResponseMessageCount" = some "1000" ∧ respCap = 1000 ∧
    uses "x/consensus/keeper.Keeper.GetMessagesFromQueue" = ["n > 0 && len(msgs) > n"] := by
  refine ⟨by decide +kernel, rfl, by decide +kernel⟩

/-- the relay filters' numeric tests -/
theorem relay_filters_as_in_source :
    uses "x/consensus/keeper/filters.HasGasEstimate" = ["msg.GetGasEstimate() > 0"] ∧
    uses "x/consensus/keeper/filters.IsNotBlockedByValset" =
      ["pendingValsetUpdates == nil || len(pendingValsetUpdates) < 1", "msg.GetId() <= pendingValsetUpdates[0].GetId()"] ∧
    uses "x/consensus/keeper/filters.IsOldestMsgPerSender" = ["len(senderAddress) < 1"] := by
  refine ⟨by decide +kernel, by decide +kernel, by decide +kernel⟩

/-- the order in which `GetMessagesForRelaying` evaluates its filters (Go's `&&` stops at the first false one): valset block
    and processed test first (`pass1`), then the per-sender filter — which REGISTERS the sender as a side effect —, and only
    then the estimate and assignee tests (`pass2`).  `relayAux` registers the sender between `pass1` and `pass2` for exactly
    this reason; swapping two filters in the source changes which older messages block a sender. -/
theorem relay_filter_order_as_in_source :
    (Paloma.Gen.ConstTable.andChains.find? (·.1 == "x/consensus/keeper.Keeper.GetMessagesForRelaying")).map (·.2) =
      some [["filters.IsNotBlockedByValset", "filters.IsUnprocessed", "filters.IsOldestMsgPerSender", "filters.HasGasEstimate",
             "filters.IsAssignedTo"]] := by decide +kernel

/-- defaults used where nothing is elected yet -/
theorem defaults_as_in_source :
    int? "x/skyway/types.cConservativeDummyGasEstimate" = some "300000" ∧ defaultGas = 300000 ∧ defaultFee = 100000 := by
  refine ⟨by decide +kernel, rfl, rfl⟩

end Paloma.ConstTie.Queue
