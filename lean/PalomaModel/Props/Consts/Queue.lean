import PalomaModel.Props.Consts.Lookup
import PalomaModel.Model.Queue

/-! Numbers of the queue model (C06 / C14). -/
namespace Paloma.ConstTie.Queue
open Paloma.ConstTie Paloma.Queue

/-! ## Property theorems -/

/-- the relayer is drawn from the best 5 -/
theorem topPool_as_in_source :
    int? "x/evm/keeper.topValidatorPoolSize" = some "5" ∧ topPool = 5 := by
  refine ⟨by decide +kernel, rfl⟩

/-- listings are capped at 1000 messages -/
theorem respCap_as_in_source :
    var? "x/consensus/keeper.defaultResponseMessageCount" = some "1000" ∧ respCap = 1000 ∧
    uses "x/consensus/keeper.Keeper.GetMessagesFromQueue" = ["n > 0 && len(msgs) > n"] := by
  refine ⟨by decide +kernel, rfl, by decide +kernel⟩

/-- the relay filters' numeric tests -/
theorem relay_filters_as_in_source :
    uses "x/consensus/keeper/filters.HasGasEstimate" = ["msg.GetGasEstimate() > 0"] ∧
    uses "x/consensus/keeper/filters.IsNotBlockedByValset" =
      ["pendingValsetUpdates == nil || len(pendingValsetUpdates) < 1", "msg.GetId() <= pendingValsetUpdates[0].GetId()"] ∧
    uses "x/consensus/keeper/filters.IsOldestMsgPerSender" = ["len(senderAddress) < 1"] := by
  refine ⟨by decide +kernel, by decide +kernel, by decide +kernel⟩

/-- defaults used where nothing is elected yet -/
theorem defaults_as_in_source :
    int? "x/skyway/types.cConservativeDummyGasEstimate" = some "300000" ∧ defaultGas = 300000 ∧ defaultFee = 100000 := by
  refine ⟨by decide +kernel, rfl, rfl⟩

end Paloma.ConstTie.Queue
