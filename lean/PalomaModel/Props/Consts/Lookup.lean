/-
Look-ups into `Gen/ConstTable.lean` — the table of every package-level constant (with its value as EVALUATED by
go/types), every package-level variable (initialiser text) and every literal-bearing condition of /repo's own
packages, regenerated from the current source on every run.  The per-property files next to this one state, for each
number a model hard-codes, (a) what the source says now (a `decide +kernel` look-up in the regenerated table) and
(b) that the model uses that very number (`rfl`).  Changing a constant in /repo breaks (a); changing the model
breaks (b).
-/
import PalomaModel.Gen.ConstTable

namespace Paloma.ConstTie
open Paloma.Gen.ConstTable

/-- (kind, value) of the package-level constant `k` (`dir.Name`) -/
def const? (k : String) : Option (String × String) := (consts.find? (·.1 == k)).map (·.2)

/-- decimal spelling of the evaluated value of an integer constant (`none` when `k` is not an integer constant) -/
def int? (k : String) : Option String :=
  match const? k with
  | some (kind, v) => if kind == "int" then some v else none
  | none => none

/-- initialiser text of the package-level variable `k` -/
def var? (k : String) : Option String := (vars.find? (·.1 == k)).map (·.2)

/-- the literal-bearing expressions of function `f`, in source order -/
def uses (f : String) : List String := ((literalUses.find? (·.1 == f)).map (·.2)).getD []

end Paloma.ConstTie
