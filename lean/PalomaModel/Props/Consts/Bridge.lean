import PalomaModel.Props.Consts.Lookup
import PalomaModel.Model.Bridge

/-! Numbers of the bridge model (C01 / C13 / C15) as the source has them now. -/
namespace Paloma.ConstTie.Bridge
open Paloma.ConstTie Paloma.Bridge

/-! ## Property theorems -/

/-- at most 100 transfers per batch -/
theorem batchSize_as_in_source :
    int? "x/skyway/keeper.OutgoingTxBatchSize" = some "100" ∧ OutgoingTxBatchSize = 100 := by
  refine ⟨by decide +kernel, rfl⟩

/-- end-of-block housekeeping builds batches at every 50th height (`endBlock`'s `h % 50 == 0`) and catches the
    validator nonces up with the same period -/
theorem batchBuild_period_as_in_source :
    uses "x/skyway.createBatch" = ["sdkCtx.BlockHeight()%50 == 0"] ∧
    uses "x/skyway.EndBlocker" = ["sdkCtx.BlockHeight()%updateValidatorNoncesPeriod == 0"] ∧
    int? "x/skyway.updateValidatorNoncesPeriod" = some "50" := by
  refine ⟨by decide +kernel, by decide +kernel, by decide +kernel⟩

/-- a batch times out 10 minutes (600 s in the model's clock) after it was built -/
theorem batchTimeout_as_in_source :
    uses "x/skyway/keeper.Keeper.getBatchTimeoutHeight" = ["sdkCtx.BlockTime().Add(10 * time.Minute)"] := by
  decide +kernel

/-- the limit windows in blocks (the harness turns the period enum into these numbers for the model) -/
theorem limitPeriods_as_in_source :
    int? "util/blocks.DailyHeight" = some "57600" ∧ int? "util/blocks.WeeklyHeight" = some "403200" ∧
    int? "util/blocks.MonthlyHeight" = some "1728000" ∧ int? "util/blocks.YearlyHeight" = some "21024000" := by
  refine ⟨by decide +kernel, by decide +kernel, by decide +kernel, by decide +kernel⟩

end Paloma.ConstTie.Bridge
