/-
C01 — bridge escrow conservation and all-or-nothing transfer life-cycle.

Two invariants are proved for every state reachable by any sequence of operations (`send`, `cancel`,
direct `build`, governance tax/limit changes, funding, fully-voted claims, whole end-blocks), each
operation carrying an arbitrary fault *sequence* (any set of failing collaborator calls):

* `Inv`  — the structural clauses: partition of the accepted transfers, escrow = Σ pending, supply.
* `Logs` — the history logs are what they claim to be: the per-user ledger (balances), the minted
  total = Σ of the deposit claims the tally applied successfully, the tally observed every nonce
  `1 … lastObserved` exactly once, every burned transfer has an applied executed-batch claim.

The logs are then tied to the *op history* (`accepted_provenance` / `accepted_forever`,
`refunded_provenance`, `burned_provenance` — which end-block, which claim, which batch —,
`claims_from_history`, `fundLog_eq`), and the end-block composite is tied to its inputs and to the result
list it reports (`endBlock_loops_are_folds`, `tally_results_are_log_flags`,
`supply_changes_only_by_fund_deposit_burn`).
-/
import PalomaModel.Lemmas.Bridge
import PalomaModel.Gen.Atomicity

namespace Paloma.Bridge
open List

/-- the C01 invariant (structural part) -/
structure Inv (s : St) : Prop where
  /-- every accepted transfer is in exactly one place: pool, one open batch, refunded, burned -/
  life : s.accepted.Perm (s.pool ++ batched s ++ s.refunded ++ s.burned)
  fresh : ∀ t ∈ s.accepted, t.id ≤ s.lastTx
  nodup : (s.accepted.map (·.id)).Nodup
  /-- escrow = Σ (amount + tax) over pending transfers, per token -/
  escrow : ∀ tok, s.escrow tok = owedTok tok (s.pool ++ batched s)
  btok : ∀ b ∈ s.batches, ∀ t ∈ b.txs, t.token = b.token
  bkeys : (s.batches.map bkey).Nodup
  bfresh : ∀ b ∈ s.batches, b.nonce ≤ s.lastBatch
  /-- supply = funded + attested deposits − burned (amount + tax) -/
  supply : ∀ tok, s.supply tok + owedTok tok s.burned = s.funded tok + s.minted tok

/-- amounts of the log entries `(who, tok, amt)` for one token -/
def sumTok (tok : Nat) (l : List (Nat × Nat × Nat)) : Nat :=
  ((l.filter (fun e => e.2.1 == tok)).map (·.2.2)).sum

/-- amounts of the log entries `(who, tok, amt)` for one holder and one token -/
def sumFor (u tok : Nat) (l : List (Nat × Nat × Nat)) : Nat :=
  ((l.filter (fun e => e.1 == u && e.2.1 == tok)).map (·.2.2)).sum

/-- amount + tax of the transfers of one sender in one token -/
def owedBy (u tok : Nat) (l : List Tx) : Nat :=
  ((l.filter (fun t => t.sender == u && t.token == tok)).map Tx.owed).sum

/-- the amount an observation minted for `tok`: the deposited amount if it is a deposit claim for
    `tok` (a registered token) whose handler succeeded, else nothing -/
def mintedBy (tok : Nat) (e : Nat × Claim × Res) : Nat :=
  match e.2.1, e.2.2 with
  | .deposit t amt _ true, .ok => if t = tok then amt else 0
  | _, _ => 0

/-- Σ of the deposit claims for `tok` the tally applied successfully -/
def depositsOk (tok : Nat) (l : List (Nat × Claim × Res)) : Nat := (l.map (mintedBy tok)).sum

/-- `n, n-1, …, 1` -/
def countdown : Nat → List Nat
  | 0 => []
  | n + 1 => (n + 1) :: countdown n

/-- the history logs are what they claim to be -/
structure Logs (s : St) : Prop where
  /-- coins that came from outside = Σ of the `fund` log -/
  funded : ∀ tok, s.funded tok = sumTok tok s.fundLog
  /-- minted coins were all credited to somebody -/
  minted : ∀ tok, s.minted tok = sumTok tok s.creditLog
  /-- … and they are exactly the deposit claims the tally applied successfully -/
  credit : ∀ tok, s.minted tok = depositsOk tok s.applied
  /-- the tally observed the nonces `lastObserved, …, 1`, each exactly once -/
  nonces : s.applied.map (·.1) = countdown s.lastObserved
  /-- … and what it observed at a nonce is the claim stored under that nonce -/
  fromClaims : ∀ e ∈ s.applied, (e.1, e.2.1) ∈ s.claims
  claimKeys : (s.claims.map (·.1)).Nodup
  /-- a transfer is only ever burned by a successfully applied executed-batch claim for its token -/
  burnedProv : ∀ t ∈ s.burned, ∃ n nonce eh, (n, Claim.executed t.token nonce eh, Res.ok) ∈ s.applied
  /-- every credit of minted coins went to the receiver named in a successfully applied deposit claim of
      that token and amount, or to the community pool -/
  creditProv : ∀ e ∈ s.creditLog, ∃ n r, (n, Claim.deposit e.2.1 e.2.2 r true, Res.ok) ∈ s.applied ∧
    (e.1 = communityPool ∨ r = some e.1)
  /-- per-user ledger: what a user holds = what he received (funding, deposits) − what his accepted
      transfers cost + what was refunded -/
  ledger : ∀ u tok, s.bal u tok + owedBy u tok s.accepted =
    sumFor u tok s.fundLog + sumFor u tok s.creditLog + owedBy u tok s.refunded

/-! ## helper lemmas (not property theorems) -/
section Lemmas

theorem inv_init : Inv St.init := by
  constructor <;> simp [St.init, batched, owedTok]

theorem pending_ids_nodup {s : St} (hi : Inv s) : ((s.pool ++ batched s).map (·.id)).Nodup := by
  have h1 : ((s.pool ++ batched s ++ s.refunded ++ s.burned).map (·.id)).Nodup :=
    (hi.life.map _).nodup_iff.mp hi.nodup
  rw [List.append_assoc, List.append_assoc, ← List.append_assoc, List.map_append] at h1
  exact (List.nodup_append.mp h1).1

theorem pool_ids_nodup {s : St} (hi : Inv s) : (s.pool.map (·.id)).Nodup := by
  have := pending_ids_nodup hi
  rw [List.map_append] at this
  exact (List.nodup_append.mp this).1

theorem upd_same (f : Nat → Nat) (k v : Nat) : upd f k v k = v := by simp [upd]
theorem upd_other (f : Nat → Nat) (k v x : Nat) (h : x ≠ k) : upd f k v x = f x := by simp [upd, h]

theorem sendOk_inv (s : St) (u tok amt : Nat) (usage' : Option Usage) (hi : Inv s) :
    Inv (sendOk s u tok amt usage') := by
  have hlife := hi.life
  have hesc := hi.escrow
  simp only [batched] at hlife hesc
  constructor
  · simp only [sendOk, batched]
    exact Perm.cons _ hlife
  · intro t ht
    simp only [sendOk, List.mem_cons] at ht ⊢
    rcases ht with rfl | ht
    · simp [newTx]
    · have := hi.fresh t ht; omega
  · simp only [sendOk, List.map_cons]
    refine List.nodup_cons.mpr ⟨?_, hi.nodup⟩
    intro hm
    rcases List.mem_map.mp hm with ⟨t, ht, hid⟩
    have := hi.fresh t ht
    simp only [newTx] at hid
    omega
  · intro tok'
    simp only [sendOk, batched]
    rw [List.cons_append, owedTok_cons]
    by_cases e : tok = tok'
    · subst e; simp [upd, hesc tok, newTx]; omega
    · have e' : tok' ≠ tok := fun x => e x.symm
      simp [upd, e, e', hesc tok', newTx]
  · exact hi.btok
  · exact hi.bkeys
  · exact hi.bfresh
  · exact hi.supply

theorem cancelOk_inv (s : St) (t : Tx) (hfind : findTx s.pool t.id = some t) (hi : Inv s) :
    Inv (cancelOk s t) := by
  have hlife := hi.life
  have hesc := hi.escrow
  simp only [batched] at hlife hesc
  have ⟨htmem, _⟩ := findTx_some hfind
  have hperm := filter_id_perm s.pool t htmem (pool_ids_nodup hi)
  constructor
  · simp only [cancelOk, batched]
    refine hlife.trans ?_
    have h1 : (s.pool ++ s.batches.flatMap (·.txs) ++ s.refunded ++ s.burned).Perm
        ((t :: s.pool.filter (fun x => x.id != t.id)) ++ s.batches.flatMap (·.txs) ++ s.refunded ++ s.burned) :=
      Perm.append_right _ (Perm.append_right _ (Perm.append_right _ hperm))
    refine h1.trans ?_
    have hm := (perm_middle (a := t) (l₁ := s.pool.filter (fun x => x.id != t.id) ++ s.batches.flatMap (·.txs))
      (l₂ := s.refunded ++ s.burned)).symm
    simpa [List.append_assoc] using hm
  · exact hi.fresh
  · exact hi.nodup
  · intro tok'
    simp only [cancelOk, batched]
    have hp : owedTok tok' (s.pool ++ s.batches.flatMap (·.txs)) =
        (if t.token = tok' then t.owed else 0) +
          owedTok tok' (s.pool.filter (fun x => x.id != t.id) ++ s.batches.flatMap (·.txs)) := by
      rw [owedTok_append, owedTok_perm tok' hperm, owedTok_cons, owedTok_append]; omega
    by_cases e : t.token = tok'
    · subst e; simp only [upd_same, if_true] at *; rw [hesc t.token, hp]; omega
    · have e' : tok' ≠ t.token := fun x => e x.symm
      simp only [e, if_false, Nat.zero_add] at hp
      rw [upd_other _ _ _ _ e', hesc tok', hp]
  · exact hi.btok
  · exact hi.bkeys
  · exact hi.bfresh
  · exact hi.supply

theorem buildOk_inv (s : St) (tok time : Nat) (hi : Inv s) : Inv (buildOk s tok time) := by
  have hlife := hi.life
  have hesc := hi.escrow
  simp only [batched] at hlife hesc
  have hsplit := build_split_perm s.pool tok
  constructor
  · simp only [buildOk, batched, List.flatMap_cons, newBatch, selectedFor]
    refine hlife.trans ?_
    refine Perm.append_right _ (Perm.append_right _ ?_)
    refine (Perm.append_right _ hsplit.symm).trans ?_
    simp only [List.append_assoc]
    refine perm_append_comm.trans ?_
    simp only [List.append_assoc]
    refine Perm.append_left _ ?_
    refine Perm.append_left _ ?_
    exact perm_append_comm
  · exact hi.fresh
  · exact hi.nodup
  · intro tok'
    simp only [buildOk, batched, List.flatMap_cons, newBatch, selectedFor]
    rw [hesc tok', owedTok_append, ← owedTok_perm tok' hsplit]
    simp only [owedTok_append]; omega
  · intro b hb t ht
    simp only [buildOk, List.mem_cons] at hb
    rcases hb with rfl | hb
    · simp only [newBatch, selectedFor] at ht ⊢
      have := (mem_sortDesc.mp (List.mem_of_mem_take ht))
      simpa using (List.mem_filter.mp this).2
    · exact hi.btok b hb t ht
  · simp only [buildOk, List.map_cons]
    refine List.nodup_cons.mpr ⟨?_, hi.bkeys⟩
    intro hm
    rcases List.mem_map.mp hm with ⟨b, hb, hk⟩
    have := hi.bfresh b hb
    simp only [bkey, newBatch, Prod.mk.injEq] at hk
    omega
  · intro b hb
    simp only [buildOk, List.mem_cons] at hb ⊢
    rcases hb with rfl | hb
    · simp [newBatch]
    · have := hi.bfresh b hb; omega
  · exact hi.supply

theorem cancelBatchOk_inv (s : St) (b : Batch) (hbm : b ∈ s.batches) (hi : Inv s) :
    Inv (cancelBatchOk s b) := by
  have hlife := hi.life
  have hesc := hi.escrow
  simp only [batched] at hlife hesc
  have hperm := batched_remove_perm s.batches b hbm hi.bkeys
  constructor
  · simp only [cancelBatchOk, batched]
    refine hlife.trans ?_
    refine Perm.append_right _ (Perm.append_right _ ?_)
    refine (Perm.append_left _ hperm).trans ?_
    simp only [← List.append_assoc]
    exact Perm.append_right _ perm_append_comm
  · exact hi.fresh
  · exact hi.nodup
  · intro tok'
    simp only [cancelBatchOk, batched]
    rw [hesc tok', owedTok_append, owedTok_perm tok' hperm]
    simp only [owedTok_append]; omega
  · intro b' hb'
    exact hi.btok b' ((removeBatch_sublist _ _ _).subset hb')
  · exact (hi.bkeys).sublist ((removeBatch_sublist _ _ _).map _)
  · intro b' hb'
    exact hi.bfresh b' ((removeBatch_sublist _ _ _).subset hb')
  · exact hi.supply

theorem execOk_inv (s : St) (b : Batch) (hbm : b ∈ s.batches)
    (hesc' : (b.txs.map Tx.owed).sum ≤ s.escrow b.token) (hsup' : (b.txs.map Tx.owed).sum ≤ s.supply b.token)
    (hi : Inv s) : Inv (execOk s b) := by
  have hlife := hi.life
  have hesc := hi.escrow
  simp only [batched] at hlife hesc
  have hperm := batched_remove_perm s.batches b hbm hi.bkeys
  have hown := owedTok_of_token b.token b.txs (hi.btok b hbm)
  constructor
  · simp only [execOk, batched]
    refine hlife.trans ?_
    have h1 : (s.pool ++ s.batches.flatMap (·.txs)).Perm
        (b.txs ++ (s.pool ++ (removeBatch s.batches b.token b.nonce).flatMap (·.txs))) := by
      refine (Perm.append_left _ hperm).trans ?_
      simp only [← List.append_assoc]
      exact Perm.append_right _ perm_append_comm
    refine (Perm.append_right _ (Perm.append_right _ h1)).trans ?_
    simp only [List.append_assoc]
    refine perm_append_comm.trans ?_
    simp only [List.append_assoc]
    refine Perm.append_left _ ?_
    refine Perm.append_left _ ?_
    refine Perm.append_left _ ?_
    exact perm_append_comm
  · exact hi.fresh
  · exact hi.nodup
  · intro tok'
    simp only [execOk, batched]
    have hp : owedTok tok' (s.pool ++ s.batches.flatMap (·.txs)) =
        owedTok tok' b.txs + owedTok tok' (s.pool ++ (removeBatch s.batches b.token b.nonce).flatMap (·.txs)) := by
      rw [owedTok_append, owedTok_perm tok' hperm]; simp only [owedTok_append]; omega
    by_cases e : b.token = tok'
    · subst e
      rw [upd_same, hesc b.token, hp, hown]; omega
    · have e' : tok' ≠ b.token := fun x => e x.symm
      rw [upd_other _ _ _ _ e', hesc tok', hp, owedTok_of_other tok' b.token b.txs (hi.btok b hbm) e]
      omega
  · intro b' hb'
    exact hi.btok b' ((removeBatch_sublist _ _ _).subset hb')
  · exact (hi.bkeys).sublist ((removeBatch_sublist _ _ _).map _)
  · intro b' hb'
    exact hi.bfresh b' ((removeBatch_sublist _ _ _).subset hb')
  · intro tok'
    simp only [execOk]
    rw [owedTok_append]
    by_cases e : b.token = tok'
    · subst e
      have := hi.supply b.token
      rw [upd_same, hown]; omega
    · have e' : tok' ≠ b.token := fun x => e x.symm
      rw [upd_other _ _ _ _ e', owedTok_of_other tok' b.token b.txs (hi.btok b hbm) e]
      have := hi.supply tok'; omega

theorem depositOk_inv (s : St) (who tok amt : Nat) (hi : Inv s) : Inv (depositOk s who tok amt) := by
  constructor
  · exact hi.life
  · exact hi.fresh
  · exact hi.nodup
  · exact hi.escrow
  · exact hi.btok
  · exact hi.bkeys
  · exact hi.bfresh
  · intro tok'
    simp only [depositOk, creditTo, depositMinted]
    by_cases e : tok' = tok
    · subst e; simp only [upd_same]; have := hi.supply tok'; omega
    · simp only [upd_other _ _ _ _ e]; exact hi.supply tok'

theorem estimate_flat (tok nonce est : Nat) (l : List Batch) :
    (l.map (fun x => if x.token == tok && x.nonce == nonce then { x with estimate := est } else x)).flatMap (·.txs)
      = l.flatMap (·.txs) := by
  induction l with
  | nil => rfl
  | cons x xs ih =>
    simp only [List.map_cons, List.flatMap_cons, ih]
    split <;> rfl

theorem estimate_keys (tok nonce est : Nat) (l : List Batch) :
    (l.map (fun x => if x.token == tok && x.nonce == nonce then { x with estimate := est } else x)).map bkey
      = l.map bkey := by
  induction l with
  | nil => rfl
  | cons x xs ih =>
    simp only [List.map_cons, ih]
    split <;> rfl

theorem estimateOk_inv (s : St) (tok nonce est : Nat) (hi : Inv s) : Inv (estimateOk s tok nonce est) := by
  have hlife := hi.life
  have hesc := hi.escrow
  simp only [batched] at hlife hesc
  constructor
  · simp only [estimateOk, batched, estimate_flat]; exact hlife
  · exact hi.fresh
  · exact hi.nodup
  · intro tok'; simp only [estimateOk, batched, estimate_flat]; exact hesc tok'
  · intro b hb t ht
    simp only [estimateOk, List.mem_map] at hb
    rcases hb with ⟨x, hx, rfl⟩
    split at ht <;> split <;> first | exact hi.btok x hx t ht | skip
    all_goals simp_all
  · simp only [estimateOk, estimate_keys]; exact hi.bkeys
  · intro b hb
    simp only [estimateOk, List.mem_map] at hb
    rcases hb with ⟨x, hx, rfl⟩
    have := hi.bfresh x hx
    split <;> simpa [estimateOk] using this
  · exact hi.supply

/-- the structural invariant does not mention cursor, observation log, claims, tax, limit, keys … -/
theorem inv_congr {s s' : St} (hi : Inv s)
    (h1 : s'.accepted = s.accepted) (h2 : s'.pool = s.pool) (h3 : s'.batches = s.batches)
    (h4 : s'.refunded = s.refunded) (h5 : s'.burned = s.burned) (h6 : s'.lastTx = s.lastTx)
    (h7 : s'.escrow = s.escrow) (h8 : s'.lastBatch = s.lastBatch) (h9 : s'.supply = s.supply)
    (h10 : s'.funded = s.funded) (h11 : s'.minted = s.minted) : Inv s' := by
  constructor
  · simp only [batched, h1, h2, h3, h4, h5]; exact hi.life
  · rw [h1, h6]; exact hi.fresh
  · rw [h1]; exact hi.nodup
  · simp only [batched, h7, h2, h3]; exact hi.escrow
  · rw [h3]; exact hi.btok
  · rw [h3]; exact hi.bkeys
  · rw [h3, h8]; exact hi.bfresh
  · rw [h9, h5, h10, h11]; exact hi.supply

theorem fund_inv (s : St) (u tok amt : Nat) (hi : Inv s) : Inv (fund s u tok amt) := by
  constructor
  · exact hi.life
  · exact hi.fresh
  · exact hi.nodup
  · exact hi.escrow
  · exact hi.btok
  · exact hi.bkeys
  · exact hi.bfresh
  · intro tok'
    simp only [fund]
    by_cases e : tok' = tok
    · subst e; simp only [upd_same]; have := hi.supply tok'; omega
    · simp only [upd_other _ _ _ _ e]; exact hi.supply tok'

theorem applyClaim_inv (s : St) (f : Fault) (c : Claim) (hi : Inv s) : Inv (applyClaim s f c).1 := by
  rcases applyClaim_cases s f c with ⟨_, h⟩ | ⟨_, ⟨tok, nonce, eh, b, _, hfind, _, h1, h2, h⟩ | ⟨tok, amt, r, who, _, _, h⟩⟩
  · rw [h]; exact hi
  · rw [h]; exact execOk_inv s b (findBatch_some hfind).1 h1 h2 hi
  · rw [h]; exact depositOk_inv s who tok amt hi

/-- `Inv` is preserved by every step: the lifting of Lemmas/Bridge.lean applies -/
theorem inv_stepRel : StepRel (Preserves Inv) where
  refl := fun _ h => h
  trans := fun h1 h2 h => h2 (h1 h)
  build := by
    intro s f tok time hi
    rcases buildOne_cases s f tok time with ⟨_, h⟩ | ⟨_, _, h⟩ <;> rw [h]
    · exact hi
    · exact buildOk_inv s tok time hi
  cancelBatch := by
    intro s f tok nonce hi
    rcases cancelBatch_cases s f tok nonce with ⟨_, h⟩ | ⟨_, b, hfind, h⟩ <;> rw [h]
    · exact hi
    · exact cancelBatchOk_inv s b (findBatch_some hfind).1 hi
  setEstimate := by
    intro s f tok nonce est hi
    rcases setEstimate_cases s f tok nonce est with ⟨_, h⟩ | ⟨_, b, _, _, h⟩ <;> rw [h]
    · exact hi
    · exact estimateOk_inv s tok nonce est hi
  observe := by
    intro s f n c _ _ hi
    have h0 : Inv { s with lastObserved := n } := inv_congr hi rfl rfl rfl rfl rfl rfl rfl rfl rfl rfl rfl
    have h1 := applyClaim_inv _ f c h0
    rw [observe_state]
    exact inv_congr h1 rfl rfl rfl rfl rfl rfl rfl rfl rfl rfl rfl
  send := by
    intro s f u tok amt h hi
    rcases send_cases s f u tok amt h with ⟨_, h⟩ | ⟨_, usage', _, _, _, _, _, h⟩ <;> rw [h]
    · exact hi
    · exact sendOk_inv s u tok amt usage' hi
  cancel := by
    intro s f u id hi
    rcases cancel_cases s f u id with ⟨_, h⟩ | ⟨_, t, hfind, _, h⟩ <;> rw [h]
    · exact hi
    · have := (findTx_some hfind).2
      subst this
      exact cancelOk_inv s t hfind hi
  fund := fun s u tok amt hi => fund_inv s u tok amt hi
  setTax := by
    intro s tok c hi
    unfold setTax
    split
    · exact inv_congr hi rfl rfl rfl rfl rfl rfl rfl rfl rfl rfl rfl
    · split
      · exact hi
      · exact inv_congr hi rfl rfl rfl rfl rfl rfl rfl rfl rfl rfl rfl
  setLimit := fun s tok c hi => inv_congr hi rfl rfl rfl rfl rfl rfl rfl rfl rfl rfl rfl
  addClaim := by
    intro s n c hi
    unfold addClaim
    split
    · exact hi
    · exact inv_congr hi rfl rfl rfl rfl rfl rfl rfl rfl rfl rfl rfl

/-! ### the log invariant -/

theorem sumTok_cons (tok : Nat) (e : Nat × Nat × Nat) (l : List (Nat × Nat × Nat)) :
    sumTok tok (e :: l) = (if e.2.1 = tok then e.2.2 else 0) + sumTok tok l := by
  unfold sumTok
  by_cases h : e.2.1 = tok <;> simp [List.filter_cons, h]

theorem sumFor_cons (u tok : Nat) (e : Nat × Nat × Nat) (l : List (Nat × Nat × Nat)) :
    sumFor u tok (e :: l) = (if e.1 = u ∧ e.2.1 = tok then e.2.2 else 0) + sumFor u tok l := by
  unfold sumFor
  by_cases h : e.1 = u ∧ e.2.1 = tok
  · simp [List.filter_cons, h.1, h.2]
  · have : (e.1 == u && e.2.1 == tok) = false := by
      simp only [Bool.and_eq_false_iff, beq_eq_false_iff_ne, ne_eq]
      by_cases h1 : e.1 = u
      · right; exact fun h2 => h ⟨h1, h2⟩
      · left; exact h1
    simp [List.filter_cons, this, h]

theorem owedBy_cons (u tok : Nat) (t : Tx) (l : List Tx) :
    owedBy u tok (t :: l) = (if t.sender = u ∧ t.token = tok then t.owed else 0) + owedBy u tok l := by
  unfold owedBy
  by_cases h : t.sender = u ∧ t.token = tok
  · simp [List.filter_cons, h.1, h.2]
  · have : (t.sender == u && t.token == tok) = false := by
      simp only [Bool.and_eq_false_iff, beq_eq_false_iff_ne, ne_eq]
      by_cases h1 : t.sender = u
      · right; exact fun h2 => h ⟨h1, h2⟩
      · left; exact h1
    simp [List.filter_cons, this, h]

theorem owedBy_append (u tok : Nat) (l₁ l₂ : List Tx) :
    owedBy u tok (l₁ ++ l₂) = owedBy u tok l₁ + owedBy u tok l₂ := by
  unfold owedBy; simp [List.filter_append, List.map_append, List.sum_append]

theorem owedBy_perm (u tok : Nat) {l₁ l₂ : List Tx} (h : l₁.Perm l₂) : owedBy u tok l₁ = owedBy u tok l₂ := by
  unfold owedBy
  exact ((h.filter _).map _).sum_nat

theorem depositsOk_cons (tok : Nat) (e : Nat × Claim × Res) (l : List (Nat × Claim × Res)) :
    depositsOk tok (e :: l) = mintedBy tok e + depositsOk tok l := by
  simp [depositsOk]

theorem logs_init : Logs St.init := by
  constructor <;> simp [St.init, sumTok, sumFor, owedBy, depositsOk, countdown]

/-- the log invariant only mentions these fields -/
theorem logs_congr {s s' : St} (hl : Logs s)
    (h1 : s'.funded = s.funded) (h2 : s'.fundLog = s.fundLog) (h3 : s'.minted = s.minted)
    (h4 : s'.creditLog = s.creditLog) (h5 : s'.applied = s.applied) (h6 : s'.lastObserved = s.lastObserved)
    (h7 : s'.claims = s.claims) (h8 : s'.burned = s.burned) (h9 : s'.bal = s.bal)
    (h10 : s'.accepted = s.accepted) (h11 : s'.refunded = s.refunded) : Logs s' := by
  constructor
  · rw [h1, h2]; exact hl.funded
  · rw [h3, h4]; exact hl.minted
  · rw [h3, h5]; exact hl.credit
  · rw [h5, h6]; exact hl.nonces
  · rw [h5, h7]; exact hl.fromClaims
  · rw [h7]; exact hl.claimKeys
  · rw [h8, h5]; exact hl.burnedProv
  · rw [h4, h5]; exact hl.creditProv
  · rw [h9, h10, h2, h4, h11]; exact hl.ledger

theorem upd2_same (f : Nat → Nat → Nat) (u k v : Nat) : upd2 f u k v u k = v := by simp [upd2]
theorem upd2_other (f : Nat → Nat → Nat) (u k v a b : Nat) (h : ¬ (a = u ∧ b = k)) : upd2 f u k v a b = f a b := by
  simp [upd2, h]

theorem sendOk_logs (s : St) (u tok amt : Nat) (usage' : Option Usage)
    (hbal : amt + taxOf (s.tax tok) u amt ≤ s.bal u tok) (hl : Logs s) : Logs (sendOk s u tok amt usage') := by
  constructor
  · exact hl.funded
  · exact hl.minted
  · exact hl.credit
  · exact hl.nonces
  · exact hl.fromClaims
  · exact hl.claimKeys
  · exact hl.burnedProv
  · exact hl.creditProv
  · intro u' tok'
    have h0 := hl.ledger u' tok'
    simp only [sendOk]
    rw [owedBy_cons]
    by_cases e : u' = u ∧ tok' = tok
    · obtain ⟨rfl, rfl⟩ := e
      have h1 : (newTx s u' tok' amt).sender = u' ∧ (newTx s u' tok' amt).token = tok' := ⟨rfl, rfl⟩
      have h2 : (newTx s u' tok' amt).owed = amt + taxOf (s.tax tok') u' amt := rfl
      rw [upd2_same, if_pos h1, h2]; omega
    · have h1 : ¬ ((newTx s u tok amt).sender = u' ∧ (newTx s u tok amt).token = tok') := by
        intro h; exact e ⟨h.1.symm, h.2.symm⟩
      rw [upd2_other _ _ _ _ _ _ e, if_neg h1]; omega

theorem cancelOk_logs (s : St) (t : Tx) (hl : Logs s) : Logs (cancelOk s t) := by
  constructor
  · exact hl.funded
  · exact hl.minted
  · exact hl.credit
  · exact hl.nonces
  · exact hl.fromClaims
  · exact hl.claimKeys
  · exact hl.burnedProv
  · exact hl.creditProv
  · intro u' tok'
    have h0 := hl.ledger u' tok'
    simp only [cancelOk]
    rw [owedBy_cons]
    by_cases e : u' = t.sender ∧ tok' = t.token
    · obtain ⟨rfl, rfl⟩ := e
      rw [upd2_same, if_pos ⟨rfl, rfl⟩]; omega
    · have h1 : ¬ (t.sender = u' ∧ t.token = tok') := by
        intro h; exact e ⟨h.1.symm, h.2.symm⟩
      rw [upd2_other _ _ _ _ _ _ e, if_neg h1]; omega

theorem fund_logs (s : St) (u tok amt : Nat) (hl : Logs s) : Logs (fund s u tok amt) := by
  constructor
  · intro tok'
    simp only [fund]
    rw [sumTok_cons]
    by_cases e : tok' = tok
    · subst e; rw [upd_same, hl.funded tok']; simp; omega
    · have e' : ¬ tok = tok' := fun h => e h.symm
      rw [upd_other _ _ _ _ e, hl.funded tok']; simp [e']
  · exact hl.minted
  · exact hl.credit
  · exact hl.nonces
  · exact hl.fromClaims
  · exact hl.claimKeys
  · exact hl.burnedProv
  · exact hl.creditProv
  · intro u' tok'
    have h0 := hl.ledger u' tok'
    simp only [fund]
    rw [sumFor_cons]
    by_cases e : u' = u ∧ tok' = tok
    · obtain ⟨rfl, rfl⟩ := e
      rw [upd2_same]; simp; omega
    · have h1 : ¬ (u = u' ∧ tok = tok') := by
        intro h; exact e ⟨h.1.symm, h.2.symm⟩
      rw [upd2_other _ _ _ _ _ _ e]; simp only [h1, if_false]; omega

theorem countdown_succ (n : Nat) : countdown (n + 1) = (n + 1) :: countdown n := rfl

/-- one observation of the tally keeps the log invariant (needs the structural invariant for the
    token of a burned transfer) -/
theorem observe_logs (s : St) (f : Fault) (n : Nat) (c : Claim) (hn : n = s.lastObserved + 1)
    (hc : (n, c) ∈ s.claims) (hi : Inv s) (hl : Logs s) : Logs (observe s f n c).1 := by
  rw [observe_state, observe_res]
  rcases applyClaim_cases { s with lastObserved := n } f c with
    ⟨hr, h⟩ | ⟨hr, ⟨tok, nonce, eh, b, hcl, hfind, _, _, _, h⟩ | ⟨tok, amt, r, who, hcl, hwho, h⟩⟩
  · -- the handler failed: only cursor and log move
    rw [h, hr]
    constructor
    · exact hl.funded
    · exact hl.minted
    · intro tok'; simp only; rw [depositsOk_cons, hl.credit tok']; simp [mintedBy]
    · simp only [List.map_cons]; rw [hl.nonces, hn, countdown_succ]
    · intro e he
      simp only [List.mem_cons] at he
      rcases he with rfl | he
      · exact hc
      · exact hl.fromClaims e he
    · exact hl.claimKeys
    · intro t ht
      obtain ⟨m, nonce, eh, hm⟩ := hl.burnedProv t ht
      exact ⟨m, nonce, eh, List.mem_cons_of_mem _ hm⟩
    · intro e he
      obtain ⟨m, r, hm, hw⟩ := hl.creditProv e he
      exact ⟨m, r, List.mem_cons_of_mem _ hm, hw⟩
    · exact hl.ledger
  · -- an executed-batch claim burned the batch `b`
    rw [h, hr]
    have ⟨hbm, hbt, _⟩ := findBatch_some hfind
    constructor
    · exact hl.funded
    · exact hl.minted
    · intro tok'; simp only [execOk]; rw [depositsOk_cons, hl.credit tok']; simp [mintedBy, hcl]
    · simp only [execOk, List.map_cons]; rw [hl.nonces, hn, countdown_succ]
    · intro e he
      simp only [execOk, List.mem_cons] at he
      rcases he with rfl | he
      · exact hc
      · exact hl.fromClaims e he
    · exact hl.claimKeys
    · intro t ht
      simp only [execOk, List.mem_append] at ht
      rcases ht with ht | ht
      · have : t.token = tok := by rw [hi.btok b hbm t ht]; exact hbt
        refine ⟨n, nonce, eh, ?_⟩
        simp only [execOk, this, hcl]
        exact List.mem_cons_self
      · obtain ⟨m, nonce', eh', hm⟩ := hl.burnedProv t ht
        exact ⟨m, nonce', eh', List.mem_cons_of_mem _ hm⟩
    · intro e he
      obtain ⟨m, r, hm, hw⟩ := hl.creditProv e he
      exact ⟨m, r, List.mem_cons_of_mem _ hm, hw⟩
    · exact hl.ledger
  · -- a deposit claim minted `amt` and credited `who`
    rw [h, hr]
    constructor
    · exact hl.funded
    · intro tok'
      simp only [depositOk, creditTo, depositMinted]
      rw [sumTok_cons]
      by_cases e : tok' = tok
      · subst e; rw [upd_same, hl.minted tok']; simp; omega
      · have e' : ¬ tok = tok' := fun h => e h.symm
        rw [upd_other _ _ _ _ e, hl.minted tok']; simp [e']
    · intro tok'
      simp only [depositOk, creditTo, depositMinted]
      rw [depositsOk_cons]
      by_cases e : tok' = tok
      · subst e; rw [upd_same, hl.credit tok']; simp [mintedBy, hcl]; omega
      · have e' : ¬ tok = tok' := fun h => e h.symm
        rw [upd_other _ _ _ _ e, hl.credit tok']; simp [mintedBy, hcl, e']
    · simp only [depositOk, creditTo, depositMinted, List.map_cons]; rw [hl.nonces, hn, countdown_succ]
    · intro e he
      simp only [depositOk, creditTo, depositMinted, List.mem_cons] at he
      rcases he with rfl | he
      · exact hc
      · exact hl.fromClaims e he
    · exact hl.claimKeys
    · intro t ht
      obtain ⟨m, nonce, eh, hm⟩ := hl.burnedProv t ht
      exact ⟨m, nonce, eh, List.mem_cons_of_mem _ hm⟩
    · intro e he
      simp only [depositOk, creditTo, depositMinted, List.mem_cons] at he
      rcases he with rfl | he
      · refine ⟨n, r, ?_, ?_⟩
        · simp only [depositOk, creditTo, depositMinted, hcl]; exact List.mem_cons_self
        · rcases hwho with h | h
          · exact Or.inl h
          · exact Or.inr h
      · obtain ⟨m, r', hm, hw⟩ := hl.creditProv e he
        exact ⟨m, r', List.mem_cons_of_mem _ hm, hw⟩
    · intro u' tok'
      have h0 := hl.ledger u' tok'
      simp only [depositOk, creditTo, depositMinted]
      rw [sumFor_cons]
      by_cases e : u' = who ∧ tok' = tok
      · obtain ⟨rfl, rfl⟩ := e
        rw [upd2_same]; simp; omega
      · have h1 : ¬ (who = u' ∧ tok = tok') := by
          intro h; exact e ⟨h.1.symm, h.2.symm⟩
        rw [upd2_other _ _ _ _ _ _ e]; simp only [h1, if_false]; omega

/-- both invariants together are preserved by every step -/
theorem both_stepRel : StepRel (Preserves (fun s => Inv s ∧ Logs s)) where
  refl := fun _ h => h
  trans := fun h1 h2 h => h2 (h1 h)
  build := by
    intro s f tok time ⟨hi, hl⟩
    refine ⟨inv_stepRel.build s f tok time hi, ?_⟩
    rcases buildOne_cases s f tok time with ⟨_, h⟩ | ⟨_, _, h⟩ <;> rw [h]
    · exact hl
    · exact logs_congr hl rfl rfl rfl rfl rfl rfl rfl rfl rfl rfl rfl
  cancelBatch := by
    intro s f tok nonce ⟨hi, hl⟩
    refine ⟨inv_stepRel.cancelBatch s f tok nonce hi, ?_⟩
    rcases cancelBatch_cases s f tok nonce with ⟨_, h⟩ | ⟨_, b, _, h⟩ <;> rw [h]
    · exact hl
    · exact logs_congr hl rfl rfl rfl rfl rfl rfl rfl rfl rfl rfl rfl
  setEstimate := by
    intro s f tok nonce est ⟨hi, hl⟩
    refine ⟨inv_stepRel.setEstimate s f tok nonce est hi, ?_⟩
    rcases setEstimate_cases s f tok nonce est with ⟨_, h⟩ | ⟨_, b, _, _, h⟩ <;> rw [h]
    · exact hl
    · exact logs_congr hl rfl rfl rfl rfl rfl rfl rfl rfl rfl rfl rfl
  observe := by
    intro s f n c hn hc ⟨hi, hl⟩
    exact ⟨inv_stepRel.observe s f n c hn hc hi, observe_logs s f n c hn hc hi hl⟩
  send := by
    intro s f u tok amt h ⟨hi, hl⟩
    refine ⟨inv_stepRel.send s f u tok amt h hi, ?_⟩
    rcases send_cases s f u tok amt h with ⟨_, h⟩ | ⟨_, usage', _, _, _, _, hbal, h⟩ <;> rw [h]
    · exact hl
    · exact sendOk_logs s u tok amt usage' hbal hl
  cancel := by
    intro s f u id ⟨hi, hl⟩
    refine ⟨inv_stepRel.cancel s f u id hi, ?_⟩
    rcases cancel_cases s f u id with ⟨_, h⟩ | ⟨_, t, _, _, h⟩ <;> rw [h]
    · exact hl
    · exact cancelOk_logs s t hl
  fund := fun s u tok amt ⟨hi, hl⟩ => ⟨fund_inv s u tok amt hi, fund_logs s u tok amt hl⟩
  setTax := by
    intro s tok c ⟨hi, hl⟩
    refine ⟨inv_stepRel.setTax s tok c hi, ?_⟩
    unfold setTax
    split
    · exact logs_congr hl rfl rfl rfl rfl rfl rfl rfl rfl rfl rfl rfl
    · split
      · exact hl
      · exact logs_congr hl rfl rfl rfl rfl rfl rfl rfl rfl rfl rfl rfl
  setLimit := fun s tok c ⟨hi, hl⟩ =>
    ⟨inv_stepRel.setLimit s tok c hi, logs_congr hl rfl rfl rfl rfl rfl rfl rfl rfl rfl rfl rfl⟩
  addClaim := by
    intro s n c ⟨hi, hl⟩
    refine ⟨inv_stepRel.addClaim s n c hi, ?_⟩
    unfold addClaim
    split
    · exact hl
    · rename_i hany
      constructor
      · exact hl.funded
      · exact hl.minted
      · exact hl.credit
      · exact hl.nonces
      · intro e he
        exact List.mem_append_left _ (hl.fromClaims e he)
      · simp only [List.map_append, List.map_cons, List.map_nil]
        refine List.nodup_append.mpr ⟨hl.claimKeys, by simp, ?_⟩
        intro a ha b hb
        simp only [List.mem_singleton] at hb
        subst hb
        intro hab
        subst hab
        apply hany
        rcases List.mem_map.mp ha with ⟨x, hx, rfl⟩
        exact List.any_eq_true.mpr ⟨x, hx, by simp⟩
      · exact hl.burnedProv
      · exact hl.creditProv
      · exact hl.ledger

/-! ### which op writes which log -/

theorem frame_accepted : InnerRel (fun s s' => s'.accepted = s.accepted) :=
  InnerRel.ofFrame (·.accepted) (fun _ _ _ => rfl) (fun _ _ => rfl) (fun _ _ _ _ => rfl) (fun _ _ => rfl)
    (fun _ _ _ _ => rfl) (fun _ _ => rfl) (fun _ _ => rfl)

theorem frame_refunded : InnerRel (fun s s' => s'.refunded = s.refunded) :=
  InnerRel.ofFrame (·.refunded) (fun _ _ _ => rfl) (fun _ _ => rfl) (fun _ _ _ _ => rfl) (fun _ _ => rfl)
    (fun _ _ _ _ => rfl) (fun _ _ => rfl) (fun _ _ => rfl)

theorem frame_fundLog : InnerRel (fun s s' => s'.fundLog = s.fundLog) :=
  InnerRel.ofFrame (·.fundLog) (fun _ _ _ => rfl) (fun _ _ => rfl) (fun _ _ _ _ => rfl) (fun _ _ => rfl)
    (fun _ _ _ _ => rfl) (fun _ _ => rfl) (fun _ _ => rfl)

theorem frame_claims : InnerRel (fun s s' => s'.claims = s.claims) :=
  InnerRel.ofFrame (·.claims) (fun _ _ _ => rfl) (fun _ _ => rfl) (fun _ _ _ _ => rfl) (fun _ _ => rfl)
    (fun _ _ _ _ => rfl) (fun _ _ => rfl) (fun _ _ => rfl)

theorem frame_tax : InnerRel (fun s s' => s'.tax = s.tax) :=
  InnerRel.ofFrame (·.tax) (fun _ _ _ => rfl) (fun _ _ => rfl) (fun _ _ _ _ => rfl) (fun _ _ => rfl)
    (fun _ _ _ _ => rfl) (fun _ _ => rfl) (fun _ _ => rfl)

theorem setTax_fields (s : St) (tok : Nat) (c : Option TaxCfg) :
    (setTax s tok c).accepted = s.accepted ∧ (setTax s tok c).refunded = s.refunded ∧
    (setTax s tok c).fundLog = s.fundLog ∧ (setTax s tok c).claims = s.claims ∧
    (setTax s tok c).burned = s.burned ∧ (setTax s tok c).usage = s.usage ∧ (setTax s tok c).limit = s.limit ∧
    (setTax s tok c).jailed = s.jailed ∧ (setTax s tok c).keys = s.keys ∧ (setTax s tok c).archive = s.archive ∧
    (setTax s tok c).batches = s.batches := by
  unfold setTax
  split
  · exact ⟨rfl, rfl, rfl, rfl, rfl, rfl, rfl, rfl, rfl, rfl, rfl⟩
  · split <;> exact ⟨rfl, rfl, rfl, rfl, rfl, rfl, rfl, rfl, rfl, rfl, rfl⟩

theorem addClaim_fields (s : St) (n : Nat) (c : Claim) :
    (addClaim s n c).accepted = s.accepted ∧ (addClaim s n c).refunded = s.refunded ∧
    (addClaim s n c).fundLog = s.fundLog ∧ (addClaim s n c).burned = s.burned ∧
    (addClaim s n c).usage = s.usage ∧ (addClaim s n c).limit = s.limit ∧
    (addClaim s n c).jailed = s.jailed ∧ (addClaim s n c).keys = s.keys ∧ (addClaim s n c).archive = s.archive ∧
    (addClaim s n c).batches = s.batches ∧ (addClaim s n c).tax = s.tax := by
  unfold addClaim
  split <;> exact ⟨rfl, rfl, rfl, rfl, rfl, rfl, rfl, rfl, rfl, rfl, rfl⟩

/-- `accepted` is written by an accepted send only, which prepends the transfer it records -/
theorem apply_accepted (s : St) (op : Op) :
    (apply s op).accepted = s.accepted ∨
    ∃ f u tok amt h, op = .send f u tok amt h ∧ (send s f u tok amt h).2.2 = .ok ∧
      (apply s op).accepted = newTx s u tok amt :: s.accepted := by
  cases op with
  | send f u tok amt h =>
    rcases send_cases s f u tok amt h with ⟨_, h1⟩ | ⟨hr, usage', _, _, _, _, _, h1⟩
    · left; simp only [apply, h1]
    · right; exact ⟨f, u, tok, amt, h, rfl, hr, by simp only [apply, h1]; rfl⟩
  | cancel f u id =>
    left
    rcases cancel_cases s f u id with ⟨_, h1⟩ | ⟨_, t, _, _, h1⟩ <;> simp only [apply, h1]; rfl
  | build f tok time => exact Or.inl (frame_accepted.build s f tok time)
  | fund u tok amt => exact Or.inl rfl
  | setTax tok c => exact Or.inl (setTax_fields s tok c).1
  | setLimit tok c => exact Or.inl rfl
  | claim n c => exact Or.inl (addClaim_fields s n c).1
  | endBlock f h now toks ests => exact Or.inl (frame_accepted.endBlock s f h now toks ests)

/-- `refunded` is written by a successful cancel only: the sender's own pooled transfer is prepended
    and exactly its amount plus its recorded tax is added to that sender's balance -/
theorem apply_refunded (s : St) (op : Op) :
    (apply s op).refunded = s.refunded ∨
    ∃ f t, op = .cancel f t.sender t.id ∧ (cancel s f t.sender t.id).2.2 = .ok ∧ t ∈ s.pool ∧
      apply s op = cancelOk s t := by
  cases op with
  | send f u tok amt h =>
    left
    rcases send_cases s f u tok amt h with ⟨_, h1⟩ | ⟨_, usage', _, _, _, _, _, h1⟩ <;> simp only [apply, h1]; rfl
  | cancel f u id =>
    rcases cancel_cases s f u id with ⟨_, h1⟩ | ⟨hr, t, hfind, hs, h1⟩
    · left; simp only [apply, h1]
    · right
      have ⟨hm, hid⟩ := findTx_some hfind
      subst hs; subst hid
      exact ⟨f, t, rfl, hr, hm, h1⟩
  | build f tok time => exact Or.inl (frame_refunded.build s f tok time)
  | fund u tok amt => exact Or.inl rfl
  | setTax tok c => exact Or.inl (setTax_fields s tok c).2.1
  | setLimit tok c => exact Or.inl rfl
  | claim n c => exact Or.inl (addClaim_fields s n c).2.1
  | endBlock f h now toks ests => exact Or.inl (frame_refunded.endBlock s f h now toks ests)

/-- `claims` is written by a claim op only -/
theorem apply_claims (s : St) (op : Op) :
    (apply s op).claims = s.claims ∨ ∃ n c, op = .claim n c ∧ (apply s op).claims = s.claims ++ [(n, c)] := by
  cases op with
  | send f u tok amt h =>
    left
    rcases send_cases s f u tok amt h with ⟨_, h1⟩ | ⟨_, usage', _, _, _, _, _, h1⟩ <;> simp only [apply, h1]; rfl
  | cancel f u id =>
    left
    rcases cancel_cases s f u id with ⟨_, h1⟩ | ⟨_, t, _, _, h1⟩ <;> simp only [apply, h1]; rfl
  | build f tok time => exact Or.inl (frame_claims.build s f tok time)
  | fund u tok amt => exact Or.inl rfl
  | setTax tok c => exact Or.inl (setTax_fields s tok c).2.2.2.1
  | setLimit tok c => exact Or.inl rfl
  | claim n c =>
    simp only [apply, addClaim]
    split
    · exact Or.inl rfl
    · exact Or.inr ⟨n, c, rfl, rfl⟩
  | endBlock f h now toks ests => exact Or.inl (frame_claims.endBlock s f h now toks ests)

/-- `burned` is written by an end-block only (the tally applying an executed-batch claim) -/
theorem apply_burned (s : St) (op : Op) :
    (apply s op).burned = s.burned ∨ ∃ f h now toks ests, op = .endBlock f h now toks ests := by
  cases op with
  | send f u tok amt h =>
    left
    rcases send_cases s f u tok amt h with ⟨_, h1⟩ | ⟨_, usage', _, _, _, _, _, h1⟩ <;> simp only [apply, h1]; rfl
  | cancel f u id =>
    left
    rcases cancel_cases s f u id with ⟨_, h1⟩ | ⟨_, t, _, _, h1⟩ <;> simp only [apply, h1]; rfl
  | build f tok time =>
    left
    rcases buildOne_cases s f tok time with ⟨_, h1⟩ | ⟨_, _, h1⟩ <;> simp only [apply, h1]; rfl
  | fund u tok amt => exact Or.inl rfl
  | setTax tok c => exact Or.inl (setTax_fields s tok c).2.2.2.2.1
  | setLimit tok c => exact Or.inl rfl
  | claim n c => exact Or.inl (addClaim_fields s n c).2.2.2.1
  | endBlock f h now toks ests => exact Or.inr ⟨f, h, now, toks, ests, rfl⟩

/-- the `fund` ops of a history, newest first -/
def fundsOf : List Op → List (Nat × Nat × Nat)
  | [] => []
  | .fund u tok amt :: rest => fundsOf rest ++ [(u, tok, amt)]
  | _ :: rest => fundsOf rest

theorem apply_fundLog (s : St) (op : Op) : (apply s op).fundLog = fundsOf [op] ++ s.fundLog := by
  cases op with
  | send f u tok amt h =>
    rcases send_cases s f u tok amt h with ⟨_, h1⟩ | ⟨_, usage', _, _, _, _, _, h1⟩ <;> simp only [apply, h1] <;> rfl
  | cancel f u id =>
    rcases cancel_cases s f u id with ⟨_, h1⟩ | ⟨_, t, _, _, h1⟩ <;> simp only [apply, h1] <;> rfl
  | build f tok time => exact frame_fundLog.build s f tok time
  | fund u tok amt => rfl
  | setTax tok c => exact (setTax_fields s tok c).2.2.1
  | setLimit tok c => rfl
  | claim n c => exact (addClaim_fields s n c).2.2.1
  | endBlock f h now toks ests => exact frame_fundLog.endBlock s f h now toks ests

theorem fundsOf_cons (op : Op) (rest : List Op) : fundsOf (op :: rest) = fundsOf rest ++ fundsOf [op] := by
  cases op <;> simp [fundsOf]

theorem foldl_fundLog (ops : List Op) : ∀ s, (ops.foldl apply s).fundLog = fundsOf ops ++ s.fundLog := by
  induction ops with
  | nil => intro s; rfl
  | cons op rest ih =>
    intro s
    rw [List.foldl_cons, ih, apply_fundLog, fundsOf_cons op rest, List.append_assoc]

/-- with no failing collaborator call a known-token deposit is always applied -/
theorem tick_points (f : Fault) (t : Target) : (f.tick t).1.points = f.points := rfl

theorem tick_ok_of_no_points (f : Fault) (t : Target) (hf : f.points = []) : (f.tick t).2 = false := by
  simp [Fault.tick, hf]

theorem mem_countdown {x n : Nat} : x ∈ countdown n ↔ 1 ≤ x ∧ x ≤ n := by
  induction n with
  | zero => simp [countdown]; omega
  | succ k ih => simp only [countdown, List.mem_cons, ih]; omega

theorem countdown_nodup (n : Nat) : (countdown n).Nodup := by
  induction n with
  | zero => simp [countdown]
  | succ k ih =>
    simp only [countdown]
    refine List.nodup_cons.mpr ⟨?_, ih⟩
    intro h
    have := (mem_countdown.mp h).2
    omega

theorem foldl_claims_from (ops : List Op) (x : Nat × Claim) :
    ∀ s, x ∈ (ops.foldl apply s).claims → x ∈ s.claims ∨ Op.claim x.1 x.2 ∈ ops := by
  intro s hx
  rcases first_appearance apply (·.claims) x ops s hx with h | ⟨pre, op, rest, he, hn, hm⟩
  · exact Or.inl h
  · right
    rcases apply_claims (pre.foldl apply s) op with h1 | ⟨n, c, hop, h1⟩
    · rw [h1] at hm; exact absurd hm hn
    · rw [h1, List.mem_append, List.mem_singleton] at hm
      rcases hm with hm | hm
      · exact absurd hm hn
      · subst hm; rw [he, hop]; simp

/-! ### failing sub-operations inside the end-block -/

/-- everything but the tally's cursor and observation log is equal -/
def CoreEq (s s' : St) : Prop := s' = { s with lastObserved := s'.lastObserved, applied := s'.applied }

theorem CoreEq.refl (s : St) : CoreEq s s := rfl
theorem CoreEq.trans {a b c : St} (h1 : CoreEq a b) (h2 : CoreEq b c) : CoreEq a c := by
  unfold CoreEq at *
  rw [h2, h1]

theorem CoreEq.of_eq {s s' : St} (h : s' = s) : CoreEq s s' := by subst h; rfl

theorem observe_rejected (s : St) (f : Fault) (n : Nat) (c : Claim) (hr : (observe s f n c).2.2 ≠ .ok) :
    (observe s f n c).1 = { s with lastObserved := n, applied := (n, c, .rejected) :: s.applied } := by
  rw [observe_state]
  rw [observe_res] at hr ⊢
  rcases applyClaim_cases { s with lastObserved := n } f c with ⟨h1, h2⟩ | ⟨h1, _⟩
  · rw [h2, h1]
  · exact absurd h1 hr

theorem createBatches_no_ok (time : Nat) (toks : List Nat) : ∀ (s : St) (f : Fault),
    (∀ r ∈ (createBatches s f time toks).2.2, r ≠ .ok) → (createBatches s f time toks).1 = s := by
  induction toks with
  | nil => intro s f _; rfl
  | cons tok rest ih =>
    intro s f
    unfold createBatches
    simp only
    rcases buildOne_cases s f tok time with ⟨_, h⟩ | ⟨hok, _, _⟩
    · split
      · intro _; exact h
      · intro hall
        have := ih (buildOne s f tok time).1 (buildOne s f tok time).2.1
          (fun r hr => hall r (List.mem_cons_of_mem _ hr))
        rw [this, h]
    · split
      · rename_i hrej; rw [hok] at hrej; cases hrej
      · intro hall
        exact absurd hok (hall _ List.mem_cons_self)

theorem timeouts_no_ok (now : Nat) (bs : List Batch) : ∀ (s : St) (f : Fault),
    (∀ r ∈ (timeouts s f now bs).2.2, r ≠ .ok) → (timeouts s f now bs).1 = s := by
  induction bs with
  | nil => intro s f _; rfl
  | cons b rest ih =>
    intro s f
    unfold timeouts
    split
    · simp only
      rcases cancelBatch_cases s f b.token b.nonce with ⟨_, h⟩ | ⟨hok, _⟩
      · split
        · intro _; exact h
        · intro hall
          have := ih (cancelBatch s f b.token b.nonce).1 (cancelBatch s f b.token b.nonce).2.1
            (fun r hr => hall r (List.mem_cons_of_mem _ hr))
          rw [this, h]
      · split
        · rename_i hrej; rw [hok] at hrej; cases hrej
        · intro hall
          exact absurd hok (hall _ List.mem_cons_self)
    · exact ih s f

theorem applyEstimates_no_ok (ests : List (Nat × Nat × Nat)) : ∀ (s : St) (f : Fault),
    (∀ r ∈ (applyEstimates s f ests).2.2, r ≠ .ok) → (applyEstimates s f ests).1 = s := by
  induction ests with
  | nil => intro s f _; rfl
  | cons e rest ih =>
    intro s f
    obtain ⟨tok, nonce, est⟩ := e
    unfold applyEstimates
    simp only
    intro hall
    rcases setEstimate_cases s f tok nonce est with ⟨_, h⟩ | ⟨hok, _⟩
    · have := ih (setEstimate s f tok nonce est).1 (setEstimate s f tok nonce est).2.1
        (fun r hr => hall r (List.mem_cons_of_mem _ hr))
      rw [this, h]
    · exact absurd hok (hall _ List.mem_cons_self)

theorem tally_no_ok (fuel : Nat) : ∀ (s : St) (f : Fault),
    (∀ r ∈ (tally s f fuel).2.2, r ≠ .ok) → CoreEq s (tally s f fuel).1 := by
  induction fuel with
  | zero => intro s f _; exact CoreEq.refl s
  | succ k ih =>
    intro s f
    unfold tally
    split
    · intro _; exact CoreEq.refl s
    · rename_i n c _
      simp only
      split
      · intro hall
        have hr := hall _ List.mem_cons_self
        rw [observe_rejected s f n c hr]
        rfl
      · intro hall
        have hr := hall _ List.mem_cons_self
        have h1 : CoreEq s (observe s f n c).1 := by rw [observe_rejected s f n c hr]; rfl
        exact h1.trans (ih _ _ (fun r hr => hall r (List.mem_cons_of_mem _ hr)))

/-- one whole successful keeper-level sub-operation of an end-block, or the bare observation of a claim
    whose handler failed (cursor and log move, nothing else) -/
inductive Whole : St → St → Prop where
  | build (s : St) (tok time : Nat) : (selectedFor s tok).isEmpty = false → Whole s (buildOk s tok time)
  | cancelBatch (s : St) (tok nonce : Nat) (b : Batch) : findBatch s.batches tok nonce = some b →
      Whole s (cancelBatchOk s b)
  | estimate (s : St) (tok nonce est : Nat) (b : Batch) : findBatch s.batches tok nonce = some b → b.estimate = 0 →
      Whole s (estimateOk s tok nonce est)
  | executed (s : St) (n tok nonce eh : Nat) (b : Batch) : (n, Claim.executed tok nonce eh) ∈ s.claims →
      n = s.lastObserved + 1 → findBatch s.batches tok nonce = some b → eh < b.timeout →
      Whole s { execOk { s with lastObserved := n } b with
                  applied := (n, Claim.executed tok nonce eh, Res.ok) :: s.applied }
  | deposited (s : St) (n tok amt : Nat) (r : Option Nat) (who : Nat) : (n, Claim.deposit tok amt r true) ∈ s.claims →
      n = s.lastObserved + 1 → (who = communityPool ∨ r = some who) →
      Whole s { depositOk { s with lastObserved := n } who tok amt with
                  applied := (n, Claim.deposit tok amt r true, Res.ok) :: s.applied }
  | observedOnly (s : St) (n : Nat) (c : Claim) : (n, c) ∈ s.claims → n = s.lastObserved + 1 →
      Whole s { s with lastObserved := n, applied := (n, c, Res.rejected) :: s.applied }

/-- finite sequences of whole sub-operations -/
inductive WholeSteps : St → St → Prop where
  | refl (s : St) : WholeSteps s s
  | tail {a b c : St} : WholeSteps a b → Whole b c → WholeSteps a c

theorem WholeSteps.single {a b : St} (h : Whole a b) : WholeSteps a b := .tail (.refl a) h

theorem WholeSteps.trans {a b c : St} (h1 : WholeSteps a b) (h2 : WholeSteps b c) : WholeSteps a c := by
  induction h2 with
  | refl => exact h1
  | tail _ hw ih => exact .tail ih hw

theorem whole_innerRel : InnerRel WholeSteps where
  refl := WholeSteps.refl
  trans := WholeSteps.trans
  build := by
    intro s f tok time
    rcases buildOne_cases s f tok time with ⟨_, h⟩ | ⟨_, hne, h⟩ <;> rw [h]
    · exact .refl s
    · exact .single (.build s tok time hne)
  cancelBatch := by
    intro s f tok nonce
    rcases cancelBatch_cases s f tok nonce with ⟨_, h⟩ | ⟨_, b, hfind, h⟩ <;> rw [h]
    · exact .refl s
    · exact .single (.cancelBatch s tok nonce b hfind)
  setEstimate := by
    intro s f tok nonce est
    rcases setEstimate_cases s f tok nonce est with ⟨_, h⟩ | ⟨_, b, hfind, he, h⟩ <;> rw [h]
    · exact .refl s
    · exact .single (.estimate s tok nonce est b hfind he)
  observe := by
    intro s f n c hn hc
    rw [observe_state, observe_res]
    rcases applyClaim_cases { s with lastObserved := n } f c with
      ⟨hr, h⟩ | ⟨hr, ⟨tok, nonce, eh, b, hcl, hfind, hto, _, _, h⟩ | ⟨tok, amt, r, who, hcl, hwho, h⟩⟩
    · rw [h, hr]; exact .single (.observedOnly s n c hc hn)
    · rw [h, hr]; subst hcl; exact .single (.executed s n tok nonce eh b hc hn hfind hto)
    · rw [h, hr]; subst hcl; exact .single (.deposited s n tok amt r who hc hn hwho)

/-! ### fault-free histories: every known-token deposit claim is applied -/

theorem deposit_ok_of_no_points (s : St) (f : Fault) (tok amt : Nat) (r : Option Nat) (hf : f.points = []) :
    (deposit s f tok amt r true).2.2 = .ok := by
  have t1 : ∀ (g : Fault) (t : Target), g.points = [] → (g.tick t).2 = false := fun g t hg => tick_ok_of_no_points g t hg
  unfold deposit depositToPool
  simp only [Bool.not_true, Bool.false_eq_true, if_false, t1 f tMint hf]
  cases r with
  | none => simp [t1 (f.tick tMint).1 tPool hf]
  | some who => simp [t1 (f.tick tMint).1 tSend hf]

theorem step_points (s : St) (f : Fault) :
    (∀ tok time, (buildOne s f tok time).2.1.points = f.points) ∧
    (∀ tok nonce, (cancelBatch s f tok nonce).2.1.points = f.points) ∧
    (∀ tok nonce est, (setEstimate s f tok nonce est).2.1.points = f.points) ∧
    (∀ tok nonce eh, (execBatch s f tok nonce eh).2.1.points = f.points) ∧
    (∀ tok amt r k, (deposit s f tok amt r k).2.1.points = f.points) := by
  refine ⟨?_, ?_, ?_, ?_, ?_⟩
  · intro tok time; unfold buildOne; split; · rfl
    split; · rfl
    split; · rfl
    split <;> rfl
  · intro tok nonce; unfold cancelBatch; split; · rfl
    split <;> rfl
  · intro tok nonce est; unfold setEstimate; split; · rfl
    split; · rfl
    split <;> rfl
  · intro tok nonce eh; unfold execBatch; split; · rfl
    split; · rfl
    split; · rfl
    split <;> rfl
  · intro tok amt r k; unfold deposit depositToPool; split; · rfl
    split; · rfl
    split
    · split <;> rfl
    · split
      · split <;> rfl
      · rfl

/-- every observed deposit claim for a known token was applied successfully -/
def DepositsApplied (s : St) : Prop :=
  ∀ e ∈ s.applied, ∀ tok amt r, e.2.1 = Claim.deposit tok amt r true → e.2.2 = Res.ok

theorem frame_applied_inner (s : St) (f : Fault) :
    (∀ tok time, (buildOne s f tok time).1.applied = s.applied) ∧
    (∀ tok nonce, (cancelBatch s f tok nonce).1.applied = s.applied) ∧
    (∀ tok nonce est, (setEstimate s f tok nonce est).1.applied = s.applied) := by
  refine ⟨?_, ?_, ?_⟩
  · intro tok time
    rcases buildOne_cases s f tok time with ⟨_, h⟩ | ⟨_, _, h⟩ <;> rw [h]; rfl
  · intro tok nonce
    rcases cancelBatch_cases s f tok nonce with ⟨_, h⟩ | ⟨_, b, _, h⟩ <;> rw [h]; rfl
  · intro tok nonce est
    rcases setEstimate_cases s f tok nonce est with ⟨_, h⟩ | ⟨_, b, _, _, h⟩ <;> rw [h]; rfl

theorem applyClaim_applied (s : St) (f : Fault) (c : Claim) : (applyClaim s f c).1.applied = s.applied := by
  rcases applyClaim_cases s f c with ⟨_, h⟩ | ⟨_, ⟨_, _, _, b, _, _, _, _, _, h⟩ | ⟨_, _, _, _, _, _, h⟩⟩ <;> rw [h] <;> rfl

theorem nofault_innerRelF : InnerRelF (fun p q => p.2.points = [] → DepositsApplied p.1 →
    (q.2.points = [] ∧ DepositsApplied q.1)) where
  refl := fun _ h1 h2 => ⟨h1, h2⟩
  trans := fun h1 h2 ha hb => h2 (h1 ha hb).1 (h1 ha hb).2
  build := by
    intro s f tok time hf hd
    refine ⟨by simp only; rw [(step_points s f).1 tok time]; exact hf, ?_⟩
    unfold DepositsApplied; simp only; rw [(frame_applied_inner s f).1 tok time]; exact hd
  cancelBatch := by
    intro s f tok nonce hf hd
    refine ⟨by simp only; rw [(step_points s f).2.1 tok nonce]; exact hf, ?_⟩
    unfold DepositsApplied; simp only; rw [(frame_applied_inner s f).2.1 tok nonce]; exact hd
  setEstimate := by
    intro s f tok nonce est hf hd
    refine ⟨by simp only; rw [(step_points s f).2.2.1 tok nonce est]; exact hf, ?_⟩
    unfold DepositsApplied; simp only; rw [(frame_applied_inner s f).2.2 tok nonce est]; exact hd
  observe := by
    intro s f n c _ _ hf hd
    simp only at hf hd ⊢
    constructor
    · show (applyClaim { s with lastObserved := n } f c).2.1.points = []
      cases c with
      | executed tok nonce eh => exact ((step_points _ f).2.2.2.1 tok nonce eh).trans hf
      | deposit tok amt r k => exact ((step_points _ f).2.2.2.2 tok amt r k).trans hf
    · intro e he tok amt r hcl
      rw [observe_state] at he
      simp only [List.mem_cons] at he
      rcases he with rfl | he
      · simp only at hcl ⊢
        subst hcl
        rw [observe_res]
        exact deposit_ok_of_no_points _ f tok amt r hf
      · rw [applyClaim_applied] at he
        exact hd e he tok amt r hcl
  tick := fun s f t hf hd => ⟨hf, hd⟩

/-- the fault sequence an op carries -/
def Op.points : Op → List (Target × Nat)
  | .send f .. => f.points
  | .cancel f .. => f.points
  | .build f .. => f.points
  | .endBlock f .. => f.points
  | _ => []

theorem apply_depositsApplied (s : St) (op : Op) (hf : op.points = []) (hd : DepositsApplied s) :
    DepositsApplied (apply s op) := by
  cases op with
  | send f u tok amt h =>
    have : (apply s (.send f u tok amt h)).applied = s.applied := by
      rcases send_cases s f u tok amt h with ⟨_, h1⟩ | ⟨_, usage', _, _, _, _, _, h1⟩ <;> simp only [apply, h1]; rfl
    unfold DepositsApplied; rw [this]; exact hd
  | cancel f u id =>
    have : (apply s (.cancel f u id)).applied = s.applied := by
      rcases cancel_cases s f u id with ⟨_, h1⟩ | ⟨_, t, _, _, h1⟩ <;> simp only [apply, h1]; rfl
    unfold DepositsApplied; rw [this]; exact hd
  | build f tok time =>
    unfold DepositsApplied; simp only [apply]; rw [(frame_applied_inner s f).1 tok time]; exact hd
  | fund u tok amt => exact hd
  | setTax tok c =>
    have : (setTax s tok c).applied = s.applied := by
      unfold setTax; split; · rfl
      split <;> rfl
    unfold DepositsApplied; simp only [apply]; rw [this]; exact hd
  | setLimit tok c => exact hd
  | claim n c =>
    have : (addClaim s n c).applied = s.applied := by unfold addClaim; split <;> rfl
    unfold DepositsApplied; simp only [apply]; rw [this]; exact hd
  | endBlock f h now toks ests =>
    exact (nofault_innerRelF.endBlock s f h now toks ests hf hd).2

theorem foldl_depositsApplied (ops : List Op) (hf : ∀ op ∈ ops, op.points = []) :
    ∀ s, DepositsApplied s → DepositsApplied (ops.foldl apply s) := by
  induction ops with
  | nil => intro s hd; exact hd
  | cons op rest ih =>
    intro s hd
    exact ih (fun o ho => hf o (List.mem_cons_of_mem _ ho)) _
      (apply_depositsApplied s op (hf op List.mem_cons_self) hd)

/-- the deposited amount of a claim for `tok` with a registered token, whatever the handler result -/
def depositAmt (tok : Nat) : Claim → Nat
  | .deposit t amt _ true => if t = tok then amt else 0
  | _ => 0

theorem mintedBy_of_applied (tok : Nat) (e : Nat × Claim × Res)
    (h : ∀ t amt r, e.2.1 = Claim.deposit t amt r true → e.2.2 = Res.ok) : mintedBy tok e = depositAmt tok e.2.1 := by
  obtain ⟨n, c, r⟩ := e
  cases c with
  | executed t nonce eh => simp [mintedBy, depositAmt]
  | deposit t amt rc k =>
    cases k with
    | true =>
      have := h t amt rc rfl
      simp only at this
      subst this
      simp [mintedBy, depositAmt]
    | false => cases r <;> simp [mintedBy, depositAmt]

theorem find_claim {l : List (Nat × Claim)} (hnd : (l.map (·.1)).Nodup) {x : Nat × Claim} (hx : x ∈ l) :
    l.find? (fun y => y.1 == x.1) = some x := by
  induction l with
  | nil => cases hx
  | cons y ys ih =>
    have hc := List.nodup_cons.mp (by simpa only [List.map_cons] using hnd)
    rcases List.mem_cons.mp hx with rfl | hm
    · simp
    · have hne : y.1 ≠ x.1 := fun e => hc.1 (List.mem_map.mpr ⟨x, hm, e.symm⟩)
      have : (y.1 == x.1) = false := by simpa using hne
      simp only [List.find?_cons, this]
      exact ih hc.2 hm

theorem applied_lookup (claims : List (Nat × Claim)) (hnd : (claims.map (·.1)).Nodup) :
    ∀ (l : List (Nat × Claim × Res)), (∀ e ∈ l, (e.1, e.2.1) ∈ claims) →
      l.map (fun e => (e.1, e.2.1)) = (l.map (·.1)).filterMap (fun n => claims.find? (fun y => y.1 == n)) := by
  intro l
  induction l with
  | nil => intro _; rfl
  | cons e es ih =>
    intro h
    have h1 := find_claim hnd (h e List.mem_cons_self)
    simp only at h1
    simp only [List.map_cons, List.filterMap_cons, h1]
    rw [ih (fun x hx => h x (List.mem_cons_of_mem _ hx))]

/-! ### provenance of burned transfers: which claim, which batch, which end-block -/

/-- `t` sits in the open batch of its token with nonce `nonce` -/
def InBatch (s : St) (t : Tx) (nonce : Nat) : Prop :=
  ∃ b ∈ s.batches, b.token = t.token ∧ b.nonce = nonce ∧ t ∈ b.txs

/-- what a sequence of keeper-level sub-operations can do to cursor, batch counter, observation log,
    open batches and the burned log -/
structure BurnRel (s s' : St) : Prop where
  claims : s'.claims = s.claims
  cursor : s.lastObserved ≤ s'.lastObserved
  counter : s.lastBatch ≤ s'.lastBatch
  appliedMono : ∀ e ∈ s.applied, e ∈ s'.applied
  batches : ∀ b' ∈ s'.batches, (∃ b ∈ s.batches, b.token = b'.token ∧ b.nonce = b'.nonce ∧ b.txs = b'.txs) ∨
      (s.lastBatch < b'.nonce ∧ b'.nonce ≤ s'.lastBatch)
  burned : ∀ t ∈ s'.burned, t ∈ s.burned ∨ ∃ n nonce eh,
      (n, Claim.executed t.token nonce eh) ∈ s.claims ∧ s.lastObserved < n ∧ n ≤ s'.lastObserved ∧
      (n, Claim.executed t.token nonce eh, Res.ok) ∈ s'.applied ∧
      (InBatch s t nonce ∨ (s.lastBatch < nonce ∧ nonce ≤ s'.lastBatch))

theorem BurnRel.rfl' (s : St) : BurnRel s s :=
  ⟨rfl, Nat.le_refl _, Nat.le_refl _, fun _ h => h, fun b hb => Or.inl ⟨b, hb, rfl, rfl, rfl⟩, fun _ h => Or.inl h⟩

theorem BurnRel.trans' {a b c : St} (h1 : BurnRel a b) (h2 : BurnRel b c) : BurnRel a c := by
  refine ⟨h2.claims.trans h1.claims, Nat.le_trans h1.cursor h2.cursor, Nat.le_trans h1.counter h2.counter,
    fun e he => h2.appliedMono e (h1.appliedMono e he), ?_, ?_⟩
  · intro b'' hb''
    rcases h2.batches b'' hb'' with ⟨b', hb', e1, e2, e3⟩ | ⟨l1, l2⟩
    · rcases h1.batches b' hb' with ⟨b0, hb0, d1, d2, d3⟩ | ⟨l1, l2⟩
      · exact Or.inl ⟨b0, hb0, d1.trans e1, d2.trans e2, d3.trans e3⟩
      · have := h2.counter
        exact Or.inr ⟨by omega, by omega⟩
    · have := h1.counter
      exact Or.inr ⟨by omega, l2⟩
  · intro t ht
    rcases h2.burned t ht with hb | ⟨n, nonce, eh, hc, l1, l2, hap, hbt⟩
    · rcases h1.burned t hb with ha | ⟨n, nonce, eh, hc, l1, l2, hap, hbt⟩
      · exact Or.inl ha
      · refine Or.inr ⟨n, nonce, eh, hc, l1, Nat.le_trans l2 h2.cursor, h2.appliedMono _ hap, ?_⟩
        rcases hbt with hbt | ⟨m1, m2⟩
        · exact Or.inl hbt
        · exact Or.inr ⟨m1, Nat.le_trans m2 h2.counter⟩
    · refine Or.inr ⟨n, nonce, eh, by rw [← h1.claims]; exact hc, Nat.lt_of_le_of_lt h1.cursor l1, l2, hap, ?_⟩
      rcases hbt with ⟨b', hb', e1, e2, e3⟩ | ⟨m1, m2⟩
      · rcases h1.batches b' hb' with ⟨b0, hb0, d1, d2, d3⟩ | ⟨k1, k2⟩
        · exact Or.inl ⟨b0, hb0, d1.trans e1, d2.trans e2, by rw [d3]; exact e3⟩
        · exact Or.inr ⟨by omega, by have := h2.counter; omega⟩
      · exact Or.inr ⟨Nat.lt_of_le_of_lt h1.counter m1, m2⟩

/-- a sub-operation that leaves claims, cursor, observation log and burned log alone and only
    renames / removes open batches or adds one with a fresh nonce -/
theorem BurnRel.of_batches {s s' : St} (h1 : s'.claims = s.claims) (h2 : s'.lastObserved = s.lastObserved)
    (h3 : s.lastBatch ≤ s'.lastBatch) (h4 : s'.applied = s.applied) (h5 : s'.burned = s.burned)
    (h6 : ∀ b' ∈ s'.batches, (∃ b ∈ s.batches, b.token = b'.token ∧ b.nonce = b'.nonce ∧ b.txs = b'.txs) ∨
      (s.lastBatch < b'.nonce ∧ b'.nonce ≤ s'.lastBatch)) : BurnRel s s' :=
  ⟨h1, by omega, h3, fun e he => by rw [h4]; exact he, h6, fun t ht => Or.inl (by rw [← h5]; exact ht)⟩

/-- the lifted relation: the structural invariant is carried along (it gives the token of a burned
    transfer) -/
def BurnStep (s s' : St) : Prop := Inv s → Inv s' ∧ BurnRel s s'

theorem burn_innerRel : InnerRel BurnStep where
  refl := fun s hi => ⟨hi, BurnRel.rfl' s⟩
  trans := fun h1 h2 hi => ⟨(h2 (h1 hi).1).1, (h1 hi).2.trans' (h2 (h1 hi).1).2⟩
  build := by
    intro s f tok time hi
    refine ⟨inv_stepRel.build s f tok time hi, ?_⟩
    rcases buildOne_cases s f tok time with ⟨_, h⟩ | ⟨_, _, h⟩ <;> rw [h]
    · exact BurnRel.rfl' s
    · refine BurnRel.of_batches rfl rfl (by simp [buildOk]) rfl rfl ?_
      intro b' hb'
      simp only [buildOk, List.mem_cons] at hb'
      rcases hb' with rfl | hb'
      · exact Or.inr ⟨by simp [newBatch], by simp [newBatch, buildOk]⟩
      · exact Or.inl ⟨b', hb', rfl, rfl, rfl⟩
  cancelBatch := by
    intro s f tok nonce hi
    refine ⟨inv_stepRel.cancelBatch s f tok nonce hi, ?_⟩
    rcases cancelBatch_cases s f tok nonce with ⟨_, h⟩ | ⟨_, b, _, h⟩ <;> rw [h]
    · exact BurnRel.rfl' s
    · refine BurnRel.of_batches rfl rfl (Nat.le_refl _) rfl rfl ?_
      intro b' hb'
      exact Or.inl ⟨b', (removeBatch_sublist _ _ _).subset hb', rfl, rfl, rfl⟩
  setEstimate := by
    intro s f tok nonce est hi
    refine ⟨inv_stepRel.setEstimate s f tok nonce est hi, ?_⟩
    rcases setEstimate_cases s f tok nonce est with ⟨_, h⟩ | ⟨_, b, _, _, h⟩ <;> rw [h]
    · exact BurnRel.rfl' s
    · refine BurnRel.of_batches rfl rfl (Nat.le_refl _) rfl rfl ?_
      intro b' hb'
      simp only [estimateOk, List.mem_map] at hb'
      obtain ⟨x, hx, rfl⟩ := hb'
      refine Or.inl ⟨x, hx, ?_, ?_, ?_⟩ <;> split <;> rfl
  observe := by
    intro s f n c hn hc hi
    refine ⟨inv_stepRel.observe s f n c hn hc hi, ?_⟩
    rw [observe_state, observe_res]
    rcases applyClaim_cases { s with lastObserved := n } f c with
      ⟨hr, h⟩ | ⟨hr, ⟨tok, nonce, eh, b, hcl, hfind, _, _, _, h⟩ | ⟨tok, amt, r, who, hcl, hwho, h⟩⟩
    · rw [h, hr]
      exact ⟨rfl, by simp only; omega, Nat.le_refl _, fun e he => List.mem_cons_of_mem _ he,
        fun b hb => Or.inl ⟨b, hb, rfl, rfl, rfl⟩, fun t ht => Or.inl ht⟩
    · rw [h, hr]
      have ⟨hbm, hbt, hbn⟩ := findBatch_some hfind
      refine ⟨rfl, by simp only [execOk]; omega, Nat.le_refl _, fun e he => List.mem_cons_of_mem _ he, ?_, ?_⟩
      · intro b' hb'
        exact Or.inl ⟨b', (removeBatch_sublist _ _ _).subset hb', rfl, rfl, rfl⟩
      · intro t ht
        simp only [execOk, List.mem_append] at ht
        rcases ht with ht | ht
        · have htok : t.token = tok := by rw [hi.btok b hbm t ht]; exact hbt
          refine Or.inr ⟨n, nonce, eh, by rw [htok, ← hcl]; exact hc, by omega, by simp only [execOk]; omega, ?_,
            Or.inl ⟨b, hbm, by rw [htok]; exact hbt, hbn, ht⟩⟩
          simp only [execOk, htok, hcl]
          exact List.mem_cons_self
        · exact Or.inl ht
    · rw [h, hr]
      exact ⟨rfl, by simp only [depositOk, creditTo, depositMinted]; omega, Nat.le_refl _,
        fun e he => List.mem_cons_of_mem _ he, fun b hb => Or.inl ⟨b, hb, rfl, rfl, rfl⟩, fun t ht => Or.inl ht⟩


/-- the observation log only grows -/
theorem applied_mono_inner : InnerRel (fun s s' => ∀ e ∈ s.applied, e ∈ s'.applied) where
  refl := fun _ _ h => h
  trans := fun h1 h2 e he => h2 e (h1 e he)
  build := by intro s f tok time e he; rw [(frame_applied_inner s f).1 tok time]; exact he
  cancelBatch := by intro s f tok nonce e he; rw [(frame_applied_inner s f).2.1 tok nonce]; exact he
  setEstimate := by intro s f tok nonce est e he; rw [(frame_applied_inner s f).2.2 tok nonce est]; exact he
  observe := by
    intro s f n c _ _ e he
    rw [observe_state]
    simp only
    rw [applyClaim_applied]
    exact List.mem_cons_of_mem _ he

theorem apply_applied_mono (s : St) (op : Op) : ∀ e ∈ s.applied, e ∈ (apply s op).applied := by
  cases op with
  | send f u tok amt h =>
    have : (apply s (.send f u tok amt h)).applied = s.applied := by
      rcases send_cases s f u tok amt h with ⟨_, h1⟩ | ⟨_, usage', _, _, _, _, _, h1⟩ <;> simp only [apply, h1]; rfl
    rw [this]; exact fun _ h => h
  | cancel f u id =>
    have : (apply s (.cancel f u id)).applied = s.applied := by
      rcases cancel_cases s f u id with ⟨_, h1⟩ | ⟨_, t, _, _, h1⟩ <;> simp only [apply, h1]; rfl
    rw [this]; exact fun _ h => h
  | build f tok time => exact applied_mono_inner.build s f tok time
  | fund u tok amt => exact fun _ h => h
  | setTax tok c =>
    have : (setTax s tok c).applied = s.applied := by
      unfold setTax; split; · rfl
      split <;> rfl
    simp only [apply]; rw [this]; exact fun _ h => h
  | setLimit tok c => exact fun _ h => h
  | claim n c =>
    have : (addClaim s n c).applied = s.applied := by unfold addClaim; split <;> rfl
    simp only [apply]; rw [this]; exact fun _ h => h
  | endBlock f h now toks ests => exact applied_mono_inner.endBlock s f h now toks ests

theorem foldl_applied_mono (ops : List Op) : ∀ s, ∀ e ∈ s.applied, e ∈ (ops.foldl apply s).applied := by
  induction ops with
  | nil => intro s e he; exact he
  | cons op rest ih => intro s e he; exact ih _ e (apply_applied_mono s op e he)



/-! ### the loops of the end-blocker as folds over their own result lists -/

/-- phases of `endBlock` -/
def ebBuilt (s : St) (f : Fault) (h now : Nat) (toks : List Nat) : St × Fault × List Res :=
  if h % 50 == 0 then createBatches s f now toks else (s, f, [])
def ebTallied (s : St) (f : Fault) (h now : Nat) (toks : List Nat) : St × Fault × List Res :=
  tally (ebBuilt s f h now toks).1 (ebBuilt s f h now toks).2.1 (ebBuilt s f h now toks).1.claims.length
def ebEstimated (s : St) (f : Fault) (h now : Nat) (toks : List Nat) (ests : List (Nat × Nat × Nat)) : St × Fault × List Res :=
  applyEstimates (ebTallied s f h now toks).1 (ebTallied s f h now toks).2.1 ests
def ebSwept (s : St) (f : Fault) (h now : Nat) (toks : List Nat) (ests : List (Nat × Nat × Nat)) : St × Fault × List Res :=
  timeouts (ebEstimated s f h now toks ests).1 (ebEstimated s f h now toks ests).2.1 now
    (batchOrder (ebEstimated s f h now toks ests).1.batches)

def buildFold (time : Nat) (s : St) (l : List (Nat × Res)) : St :=
  l.foldl (fun st p => if p.2 = .ok then buildOk st p.1 time else st) s

def estimateFold (s : St) (l : List ((Nat × Nat × Nat) × Res)) : St :=
  l.foldl (fun st p => if p.2 = .ok then estimateOk st p.1.1 p.1.2.1 p.1.2.2 else st) s

/-- cancellation of the open batch with the key of `b` (the sweep looks the batch up again) -/
def cancelKey (st : St) (b : Batch) : St :=
  match findBatch st.batches b.token b.nonce with
  | some b' => cancelBatchOk st b'
  | none => st

def sweepFold (s : St) (l : List (Batch × Res)) : St :=
  l.foldl (fun st p => if p.2 = .ok then cancelKey st p.1 else st) s

theorem createBatches_is_fold (time : Nat) (toks : List Nat) : ∀ (s : St) (f : Fault),
    (createBatches s f time toks).1 = buildFold time s (toks.zip (createBatches s f time toks).2.2) ∧
    (createBatches s f time toks).2.2.length ≤ toks.length := by
  induction toks with
  | nil => intro s f; exact ⟨rfl, Nat.le_refl _⟩
  | cons tok rest ih =>
    intro s f
    unfold createBatches
    simp only
    have hst : (buildOne s f tok time).1 =
        (if (buildOne s f tok time).2.2 = .ok then buildOk s tok time else s) := by
      rcases buildOne_cases s f tok time with ⟨hr, h⟩ | ⟨hr, _, h⟩
      · rw [if_neg hr]; exact h
      · rw [if_pos hr]; exact h
    split
    · exact ⟨by simp only [List.zip_cons_cons, List.zip_nil_right, buildFold, List.foldl_cons, List.foldl_nil]; exact hst,
        by simp⟩
    · obtain ⟨ih1, ih2⟩ := ih (buildOne s f tok time).1 (buildOne s f tok time).2.1
      refine ⟨?_, by simp only [List.length_cons]; exact Nat.succ_le_succ ih2⟩
      simp only [List.zip_cons_cons, buildFold, List.foldl_cons]
      rw [← hst]
      exact ih1

theorem applyEstimates_is_fold (ests : List (Nat × Nat × Nat)) : ∀ (s : St) (f : Fault),
    (applyEstimates s f ests).1 = estimateFold s (ests.zip (applyEstimates s f ests).2.2) ∧
    (applyEstimates s f ests).2.2.length = ests.length := by
  induction ests with
  | nil => intro s f; exact ⟨rfl, rfl⟩
  | cons e rest ih =>
    intro s f
    obtain ⟨tok, nonce, est⟩ := e
    unfold applyEstimates
    simp only
    have hst : (setEstimate s f tok nonce est).1 =
        (if (setEstimate s f tok nonce est).2.2 = .ok then estimateOk s tok nonce est else s) := by
      rcases setEstimate_cases s f tok nonce est with ⟨hr, h⟩ | ⟨hr, _, _, _, h⟩
      · rw [if_neg (by rw [hr]; simp)]; exact h
      · rw [if_pos hr]; exact h
    obtain ⟨ih1, ih2⟩ := ih (setEstimate s f tok nonce est).1 (setEstimate s f tok nonce est).2.1
    refine ⟨?_, by simp only [List.length_cons]; exact congrArg (· + 1) ih2⟩
    simp only [List.zip_cons_cons, estimateFold, List.foldl_cons]
    rw [← hst]
    exact ih1

theorem timeouts_is_fold (now : Nat) (bs : List Batch) : ∀ (s : St) (f : Fault),
    (timeouts s f now bs).1 =
      sweepFold s ((bs.filter (fun b => decide (b.timeout < now))).zip (timeouts s f now bs).2.2) ∧
    (timeouts s f now bs).2.2.length ≤ (bs.filter (fun b => decide (b.timeout < now))).length := by
  induction bs with
  | nil => intro s f; exact ⟨rfl, Nat.le_refl _⟩
  | cons b rest ih =>
    intro s f
    unfold timeouts
    split
    · rename_i hto
      have hf : (b :: rest).filter (fun b => decide (b.timeout < now)) =
          b :: rest.filter (fun b => decide (b.timeout < now)) := by simp [hto]
      rw [hf]
      simp only
      have hst : (cancelBatch s f b.token b.nonce).1 =
          (if (cancelBatch s f b.token b.nonce).2.2 = .ok then cancelKey s b else s) := by
        rcases cancelBatch_cases s f b.token b.nonce with ⟨hr, h⟩ | ⟨hr, b', hfind, h⟩
        · rw [if_neg (by rw [hr]; simp)]; exact h
        · rw [if_pos hr, h]; simp only [cancelKey, hfind]
      split
      · exact ⟨by simp only [List.zip_cons_cons, List.zip_nil_right, sweepFold, List.foldl_cons, List.foldl_nil]; exact hst,
          by simp⟩
      · obtain ⟨ih1, ih2⟩ := ih (cancelBatch s f b.token b.nonce).1 (cancelBatch s f b.token b.nonce).2.1
        refine ⟨?_, by simp only [List.length_cons]; exact Nat.succ_le_succ ih2⟩
        simp only [List.zip_cons_cons, sweepFold, List.foldl_cons]
        rw [← hst]
        exact ih1
    · rename_i hto
      have hf : (b :: rest).filter (fun b => decide (b.timeout < now)) =
          rest.filter (fun b => decide (b.timeout < now)) := by simp [hto]
      rw [hf]
      exact ih s f

/-- one observation of the tally, with the result it reports -/
inductive ObsStep : St → Res → St → Prop where
  | executed (s : St) (n tok nonce eh : Nat) (b : Batch) : (n, Claim.executed tok nonce eh) ∈ s.claims →
      n = s.lastObserved + 1 → findBatch s.batches tok nonce = some b → eh < b.timeout →
      ObsStep s .ok { execOk { s with lastObserved := n } b with
                        applied := (n, Claim.executed tok nonce eh, Res.ok) :: s.applied }
  | deposited (s : St) (n tok amt : Nat) (r : Option Nat) (who : Nat) : (n, Claim.deposit tok amt r true) ∈ s.claims →
      n = s.lastObserved + 1 → (who = communityPool ∨ r = some who) →
      ObsStep s .ok { depositOk { s with lastObserved := n } who tok amt with
                        applied := (n, Claim.deposit tok amt r true, Res.ok) :: s.applied }
  | failed (s : St) (n : Nat) (c : Claim) : (n, c) ∈ s.claims → n = s.lastObserved + 1 →
      ObsStep s .rejected { s with lastObserved := n, applied := (n, c, Res.rejected) :: s.applied }

/-- a run of the tally: one `ObsStep` per reported result, in order -/
inductive TallyTrace : St → List Res → St → Prop where
  | nil (s : St) : TallyTrace s [] s
  | cons {s s1 s' : St} {r : Res} {rs : List Res} : ObsStep s r s1 → TallyTrace s1 rs s' → TallyTrace s (r :: rs) s'

theorem observe_obsStep (s : St) (f : Fault) (n : Nat) (c : Claim) (hn : n = s.lastObserved + 1) (hc : (n, c) ∈ s.claims) :
    ObsStep s (observe s f n c).2.2 (observe s f n c).1 := by
  rw [observe_state, observe_res]
  rcases applyClaim_cases { s with lastObserved := n } f c with
    ⟨hr, h⟩ | ⟨hr, ⟨tok, nonce, eh, b, hcl, hfind, hto, _, _, h⟩ | ⟨tok, amt, r, who, hcl, hwho, h⟩⟩
  · rw [h, hr]; exact .failed s n c hc hn
  · rw [h, hr]; subst hcl; exact .executed s n tok nonce eh b hc hn hfind hto
  · rw [h, hr]; subst hcl; exact .deposited s n tok amt r who hc hn hwho

theorem tally_trace (fuel : Nat) : ∀ (s : St) (f : Fault), TallyTrace s (tally s f fuel).2.2 (tally s f fuel).1 := by
  induction fuel with
  | zero => intro s f; exact .nil s
  | succ k ih =>
    intro s f
    unfold tally
    split
    · exact .nil s
    · rename_i n c hfind
      simp only
      have hmem := List.mem_of_find?_eq_some hfind
      have hn : n = s.lastObserved + 1 := by simpa using List.find?_some hfind
      split
      · exact .cons (observe_obsStep s f n c hn hmem) (.nil _)
      · exact .cons (observe_obsStep s f n c hn hmem) (ih _ _)

theorem obsStep_applied {s s' : St} {r : Res} (h : ObsStep s r s') :
    ∃ n c, s'.applied = (n, c, r) :: s.applied ∧ n = s.lastObserved + 1 ∧ (n, c) ∈ s.claims ∧ s'.lastObserved = n := by
  cases h with
  | executed n tok nonce eh b hc hn _ _ => exact ⟨n, _, rfl, hn, hc, rfl⟩
  | deposited n tok amt r who hc hn _ => exact ⟨n, _, rfl, hn, hc, rfl⟩
  | failed n c hc hn => exact ⟨n, c, rfl, hn, hc, rfl⟩

theorem tallyTrace_flags {s s' : St} {rs : List Res} (h : TallyTrace s rs s') :
    s'.applied.map (·.2.2) = rs.reverse ++ s.applied.map (·.2.2) ∧
    s'.applied.length = rs.length + s.applied.length ∧ s'.lastObserved = s.lastObserved + rs.length := by
  induction h with
  | nil s => simp
  | cons hstep _ ih =>
    obtain ⟨n, c, hap, hn, _, hlo⟩ := obsStep_applied hstep
    obtain ⟨ih1, ih2, ih3⟩ := ih
    rw [hap] at ih1 ih2
    refine ⟨?_, ?_, ?_⟩
    · rw [ih1]; simp
    · rw [ih2]; simp; omega
    · rw [ih3, hlo, hn]; simp; omega

/-- `accepted` only grows -/
theorem foldl_accepted_mono (ops : List Op) : ∀ s, ∀ t ∈ s.accepted, t ∈ (ops.foldl apply s).accepted := by
  induction ops with
  | nil => intro s t ht; exact ht
  | cons op rest ih =>
    intro s t ht
    apply ih
    rcases apply_accepted s op with h | ⟨_, _, _, _, _, _, _, h⟩ <;> rw [h]
    · exact ht
    · exact List.mem_cons_of_mem _ ht


theorem depositsOk_append (tok : Nat) (a b : List (Nat × Claim × Res)) :
    depositsOk tok (a ++ b) = depositsOk tok a + depositsOk tok b := by
  simp [depositsOk, List.map_append, List.sum_append]

/-- burned log and observation log only grow at the front -/
def LogsExtend (s s' : St) : Prop := ∃ nb na, s'.burned = nb ++ s.burned ∧ s'.applied = na ++ s.applied

theorem logsExtend_innerRel : InnerRel LogsExtend where
  refl := fun s => ⟨[], [], rfl, rfl⟩
  trans := by
    rintro a b c ⟨nb1, na1, h1, h2⟩ ⟨nb2, na2, h3, h4⟩
    exact ⟨nb2 ++ nb1, na2 ++ na1, by rw [h3, h1, List.append_assoc], by rw [h4, h2, List.append_assoc]⟩
  build := by
    intro s f tok time
    rcases buildOne_cases s f tok time with ⟨_, h⟩ | ⟨_, _, h⟩ <;> rw [h] <;> exact ⟨[], [], rfl, rfl⟩
  cancelBatch := by
    intro s f tok nonce
    rcases cancelBatch_cases s f tok nonce with ⟨_, h⟩ | ⟨_, b, _, h⟩ <;> rw [h] <;> exact ⟨[], [], rfl, rfl⟩
  setEstimate := by
    intro s f tok nonce est
    rcases setEstimate_cases s f tok nonce est with ⟨_, h⟩ | ⟨_, b, _, _, h⟩ <;> rw [h] <;> exact ⟨[], [], rfl, rfl⟩
  observe := by
    intro s f n c _ _
    rw [observe_state]
    rcases applyClaim_cases { s with lastObserved := n } f c with
      ⟨_, h⟩ | ⟨_, ⟨_, _, _, b, _, _, _, _, _, h⟩ | ⟨_, _, _, _, _, _, h⟩⟩ <;> rw [h]
    · exact ⟨[], [_], rfl, rfl⟩
    · exact ⟨b.txs, [_], rfl, rfl⟩
    · exact ⟨[], [_], rfl, rfl⟩

theorem frame_funded : InnerRel (fun s s' => s'.funded = s.funded) :=
  InnerRel.ofFrame (·.funded) (fun _ _ _ => rfl) (fun _ _ => rfl) (fun _ _ _ _ => rfl) (fun _ _ => rfl)
    (fun _ _ _ _ => rfl) (fun _ _ => rfl) (fun _ _ => rfl)

/-- what a whole end-block does to supply and escrow, from the two invariants at both ends -/
theorem endBlock_delta (s : St) (f : Fault) (h now : Nat) (toks : List Nat) (ests : List (Nat × Nat × Nat))
    (hi : Inv s) (hl : Logs s) :
    ∃ nb na, (endBlock s f h now toks ests).1.burned = nb ++ s.burned ∧
      (endBlock s f h now toks ests).1.applied = na ++ s.applied ∧
      ∀ tok, (endBlock s f h now toks ests).1.supply tok + owedTok tok nb = s.supply tok + depositsOk tok na ∧
             (endBlock s f h now toks ests).1.escrow tok + owedTok tok nb = s.escrow tok := by
  obtain ⟨nb, na, hb, ha⟩ := logsExtend_innerRel.endBlock s f h now toks ests
  obtain ⟨hi', hl'⟩ := both_stepRel.toInnerRel.endBlock s f h now toks ests ⟨hi, hl⟩
  refine ⟨nb, na, hb, ha, ?_⟩
  intro tok
  constructor
  · have h1 := hi'.supply tok
    have h2 := hi.supply tok
    rw [hl'.credit tok, hb, ha, owedTok_append, depositsOk_append, frame_funded.endBlock] at h1
    rw [hl.credit tok] at h2
    omega
  · have h1 := hi'.escrow tok
    have h2 := hi.escrow tok
    have p1 := owedTok_perm tok hi'.life
    have p2 := owedTok_perm tok hi.life
    rw [frame_accepted.endBlock] at p1
    rw [frame_refunded.endBlock, hb] at p1
    simp only [owedTok_append] at p1 p2 h1 h2
    omega

theorem frame_supply_escrow (s : St) (op : Op)
    (h1 : ∀ u tok amt, op ≠ .fund u tok amt) (h2 : ∀ f h now toks ests, op ≠ .endBlock f h now toks ests) :
    (apply s op).supply = s.supply := by
  cases op with
  | send f u tok amt h =>
    rcases send_cases s f u tok amt h with ⟨_, h1⟩ | ⟨_, usage', _, _, _, _, _, h1⟩ <;> simp only [apply, h1]; rfl
  | cancel f u id =>
    rcases cancel_cases s f u id with ⟨_, h1⟩ | ⟨_, t, _, _, h1⟩ <;> simp only [apply, h1]; rfl
  | build f tok time =>
    rcases buildOne_cases s f tok time with ⟨_, h1⟩ | ⟨_, _, h1⟩ <;> simp only [apply, h1]; rfl
  | fund u tok amt => exact absurd rfl (h1 u tok amt)
  | setTax tok c =>
    simp only [apply]; unfold setTax; split; · rfl
    split <;> rfl
  | setLimit tok c => rfl
  | claim n c => simp only [apply]; unfold addClaim; split <;> rfl
  | endBlock f h now toks ests => exact absurd rfl (h2 f h now toks ests)


theorem buildFold_log (time : Nat) (l : List (Nat × Res)) : ∀ s,
    (buildFold time s l).applied = s.applied ∧ (buildFold time s l).lastObserved = s.lastObserved := by
  induction l with
  | nil => intro s; exact ⟨rfl, rfl⟩
  | cons p rest ih =>
    intro s
    simp only [buildFold, List.foldl_cons]
    split
    · exact ih (buildOk s p.1 time)
    · exact ih s

theorem estimateFold_log (l : List ((Nat × Nat × Nat) × Res)) : ∀ s,
    (estimateFold s l).applied = s.applied ∧ (estimateFold s l).lastObserved = s.lastObserved := by
  induction l with
  | nil => intro s; exact ⟨rfl, rfl⟩
  | cons p rest ih =>
    intro s
    simp only [estimateFold, List.foldl_cons]
    split
    · exact ih (estimateOk s p.1.1 p.1.2.1 p.1.2.2)
    · exact ih s

theorem cancelKey_log (s : St) (b : Batch) :
    (cancelKey s b).applied = s.applied ∧ (cancelKey s b).lastObserved = s.lastObserved := by
  unfold cancelKey; split <;> exact ⟨rfl, rfl⟩

theorem sweepFold_log (l : List (Batch × Res)) : ∀ s,
    (sweepFold s l).applied = s.applied ∧ (sweepFold s l).lastObserved = s.lastObserved := by
  induction l with
  | nil => intro s; exact ⟨rfl, rfl⟩
  | cons p rest ih =>
    intro s
    simp only [sweepFold, List.foldl_cons]
    split
    · have h1 := ih (cancelKey s p.1)
      have h2 := cancelKey_log s p.1
      exact ⟨h1.1.trans h2.1, h1.2.trans h2.2⟩
    · exact ih s


end Lemmas

/-! ## Property theorems (C01) -/

/-- **reachable_inv.** The whole structural invariant holds in every reachable state, whatever fault
sequences were injected along the way. -/
theorem reachable_inv (ops : List Op) : Inv (run ops) :=
  inv_stepRel.foldl ops St.init inv_init

/-- **reachable_logs.** The log invariant holds in every reachable state: the history logs the other
theorems speak about are tied to balances, cursor, stored claims and to each other. -/
theorem reachable_logs (ops : List Op) : Logs (run ops) :=
  (both_stepRel.foldl ops St.init ⟨inv_init, logs_init⟩).2

/-- **escrow_eq_pending.** For every token the escrow balance equals the sum of amount+tax over
the transfers waiting in the pool or inside an open batch. -/
theorem escrow_eq_pending (ops : List Op) (tok : Nat) :
    (run ops).escrow tok = owedTok tok ((run ops).pool ++ batched (run ops)) :=
  (reachable_inv ops).escrow tok

/-- **lifecycle_partition.** The accepted transfers are exactly (as a multiset, ids pairwise
distinct) the union of pool, open batches, refunded and burned: each is in exactly one place.
What "accepted", "refunded" and "burned" mean is pinned down by the next three theorems. -/
theorem lifecycle_partition (ops : List Op) :
    (run ops).accepted.Perm ((run ops).pool ++ batched (run ops) ++ (run ops).refunded ++ (run ops).burned) ∧
    (((run ops).pool ++ batched (run ops) ++ (run ops).refunded ++ (run ops).burned).map (·.id)).Nodup := by
  have hi := reachable_inv ops
  exact ⟨hi.life, (hi.life.map _).nodup_iff.mp hi.nodup⟩

/-- **accepted_provenance.** `accepted` holds exactly the transfers of the sends that reported success:
every entry was recorded by a `send` op of the history that returned `ok`, with the id that send
allocated and the tax computed from the tax setting in force *at that moment* (`newTx`); and an `ok`
send prepends exactly that record (second part, for every state). -/
theorem accepted_provenance (ops : List Op) (t : Tx) (ht : t ∈ (run ops).accepted) :
    ∃ pre f h rest, ops = pre ++ .send f t.sender t.token t.amount h :: rest ∧
      (send (run pre) f t.sender t.token t.amount h).2.2 = .ok ∧
      t = newTx (run pre) t.sender t.token t.amount := by
  rcases first_appearance apply (·.accepted) t ops St.init ht with h | ⟨pre, op, rest, he, hn, hm⟩
  · simp [St.init] at h
  · rcases apply_accepted (pre.foldl apply St.init) op with h1 | ⟨f, u, tok, amt, h, hop, hok, h1⟩
    · rw [h1] at hm; exact absurd hm hn
    · rw [h1, List.mem_cons] at hm
      rcases hm with hm | hm
      · subst hm
        exact ⟨pre, f, h, rest, by rw [he, hop]; rfl, hok, rfl⟩
      · exact absurd hm hn

theorem send_ok_records (s : St) (f : Fault) (u tok amt h : Nat) (hok : (send s f u tok amt h).2.2 = .ok) :
    (send s f u tok amt h).1.accepted = newTx s u tok amt :: s.accepted ∧
    (send s f u tok amt h).1.pool = newTx s u tok amt :: s.pool := by
  rcases send_cases s f u tok amt h with ⟨hr, _⟩ | ⟨_, usage', _, _, _, _, _, h1⟩
  · rw [hr] at hok; cases hok
  · rw [h1]; exact ⟨rfl, rfl⟩

/-- **refunded_provenance** ("refunded in full to its sender"). Every transfer in `refunded` got there
by a `cancel` op of the history, issued by the transfer's own sender, that returned `ok` while the
transfer was waiting in the pool; and that very step paid exactly `amount + tax` (the tax recorded at
acceptance) to the sender's balance in the transfer's token, touched no other balance, and took the
same sum out of the escrow. -/
theorem refunded_provenance (ops : List Op) (t : Tx) (ht : t ∈ (run ops).refunded) :
    ∃ pre f rest, ops = pre ++ .cancel f t.sender t.id :: rest ∧
      (cancel (run pre) f t.sender t.id).2.2 = .ok ∧ t ∈ (run pre).pool ∧
      (run (pre ++ [.cancel f t.sender t.id])).bal =
        upd2 (run pre).bal t.sender t.token ((run pre).bal t.sender t.token + (t.amount + t.tax)) ∧
      (run (pre ++ [.cancel f t.sender t.id])).escrow =
        upd (run pre).escrow t.token ((run pre).escrow t.token - (t.amount + t.tax)) ∧
      t.amount + t.tax ≤ (run pre).escrow t.token := by
  rcases first_appearance apply (·.refunded) t ops St.init ht with h | ⟨pre, op, rest, he, hn, hm⟩
  · simp [St.init] at h
  · rcases apply_refunded (pre.foldl apply St.init) op with h1 | ⟨f, t', hop, hok, hpool, h1⟩
    · rw [h1] at hm; exact absurd hm hn
    · rw [h1] at hm
      simp only [cancelOk, List.mem_cons] at hm
      rcases hm with hm | hm
      · subst hm
        refine ⟨pre, f, rest, by rw [he, hop], hok, hpool, ?_, ?_, ?_⟩
        · rw [run_snoc, ← hop]; show (apply (run pre) op).bal = _; rw [show run pre = pre.foldl apply St.init from rfl, h1]; rfl
        · rw [run_snoc, ← hop]; show (apply (run pre) op).escrow = _; rw [show run pre = pre.foldl apply St.init from rfl, h1]; rfl
        · -- the escrow covers every pending transfer
          have hi := reachable_inv pre
          have hesc := hi.escrow t.token
          have : owedTok t.token (run pre).pool ≥ t.owed := by
            have hp := filter_id_perm (run pre).pool t hpool (pool_ids_nodup hi)
            rw [owedTok_perm t.token hp, owedTok_cons]; simp
          rw [owedTok_append] at hesc
          have h2 : t.owed = t.amount + t.tax := rfl
          omega
      · exact absurd hm hn

/-- **fundLog_eq.** The funding log is a function of the history: the `fund` ops, newest first. -/
theorem fundLog_eq (ops : List Op) : (run ops).fundLog = fundsOf ops := by
  unfold run; rw [foldl_fundLog]; simp [St.init]

/-- **user_ledger** (the balance clause). For every holder and token, in every reachable state:
what he holds, plus amount+tax of his transfers that are still pending (pool or open batch), plus
amount+tax of his transfers that were burned, equals what he received from outside (the `fund` ops of
the history) plus the deposit coins credited to him.  Refunded transfers do not appear: they were made
whole.  So no balance can be changed arbitrarily without breaking the invariant. -/
theorem user_ledger (ops : List Op) (u tok : Nat) :
    (run ops).bal u tok + owedBy u tok ((run ops).pool ++ batched (run ops)) + owedBy u tok (run ops).burned =
      sumFor u tok (fundsOf ops) + sumFor u tok (run ops).creditLog := by
  have hl := (reachable_logs ops).ledger u tok
  have hp := owedBy_perm u tok (reachable_inv ops).life
  rw [fundLog_eq] at hl
  simp only [owedBy_append] at hp ⊢
  omega

/-- **credits_from_deposit_claims.** Every credit of freshly minted coins went to the receiver named in
a deposit claim of that token and amount that the tally applied successfully — or, as fallback, to the
community pool. -/
theorem credits_from_deposit_claims (ops : List Op) (e : Nat × Nat × Nat) (he : e ∈ (run ops).creditLog) :
    ∃ n r, (n, Claim.deposit e.2.1 e.2.2 r true, Res.ok) ∈ (run ops).applied ∧ (e.1 = communityPool ∨ r = some e.1) :=
  (reachable_logs ops).creditProv e he

/-- **claims_from_history.** A stored claim was put there by a `claim` op of the history, and there is
at most one stored claim per nonce. -/
theorem claims_from_history (ops : List Op) :
    (∀ x ∈ (run ops).claims, Op.claim x.1 x.2 ∈ ops) ∧ ((run ops).claims.map (·.1)).Nodup := by
  refine ⟨?_, (reachable_logs ops).claimKeys⟩
  intro x hx
  rcases foldl_claims_from ops x St.init hx with h | h
  · simp [St.init] at h
  · exact h

/-- **applied_once_in_order.** The tally's observation log holds exactly one entry for each nonce
`1 … lastObserved` (`lastObserved` is executable state compared with the implementation), newest
first; each entry is the claim stored under that nonce, which a `claim` op of the history supplied. -/
theorem applied_once_in_order (ops : List Op) :
    (run ops).applied.map (·.1) = countdown (run ops).lastObserved ∧
    ((run ops).applied.map (·.1)).Nodup ∧
    (∀ e ∈ (run ops).applied, 1 ≤ e.1 ∧ e.1 ≤ (run ops).lastObserved ∧ (e.1, e.2.1) ∈ (run ops).claims ∧
      Op.claim e.1 e.2.1 ∈ ops) := by
  have hl := reachable_logs ops
  refine ⟨hl.nonces, by rw [hl.nonces]; exact countdown_nodup _, ?_⟩
  intro e he
  have hm : e.1 ∈ (run ops).applied.map (·.1) := List.mem_map.mpr ⟨e, he, rfl⟩
  rw [hl.nonces] at hm
  have hc := hl.fromClaims e he
  exact ⟨(mem_countdown.mp hm).1, (mem_countdown.mp hm).2, hc, (claims_from_history ops).1 _ hc⟩

/-- **minted_eq_applied** ("plus the deposited amount, once"). The coins ever minted for a token are
exactly the sum of the amounts of the deposit claims for that token that the tally applied
successfully — each observed nonce contributing once (`applied_once_in_order`) — and they were all
credited to somebody. -/
theorem minted_eq_applied (ops : List Op) (tok : Nat) :
    (run ops).minted tok = depositsOk tok (run ops).applied ∧
    (run ops).minted tok = sumTok tok (run ops).creditLog :=
  ⟨(reachable_logs ops).credit tok, (reachable_logs ops).minted tok⟩

/-- **supply_delta.** Total supply of a token = coins funded from outside (the `fund` ops of the
history) + the successfully applied deposit claims − (amount + tax) of the burned transfers. -/
theorem supply_delta (ops : List Op) (tok : Nat) :
    (run ops).supply tok + owedTok tok (run ops).burned =
      sumTok tok (fundsOf ops) + depositsOk tok (run ops).applied := by
  have h := (reachable_inv ops).supply tok
  have hl := reachable_logs ops
  rw [hl.funded tok, hl.credit tok, fundLog_eq] at h
  exact h

/-- **burned_provenance** ("burned because its batch was attested as executed").  For every transfer `t`
in `burned` after a history `ops` there is ONE end-block op of the history, `ops = pre ++ endBlock … :: rest`,
in which all of the following happened:
* `t` was not burned before it and is burned after it; right before it `t` was pending (pool or open batch);
* an executed-batch claim `executed t.token nonce eh` was stored under a nonce `n` before the end-block
  (by a `claim` op of `pre`), the tally's cursor was below `n` before and is at or above `n` after the
  end-block, nothing had been observed at `n` before, and the observation log after the end-block holds
  `(n, that claim, ok)` — it is applied *in this end-block* (and stays in the log for ever:
  `applied_once_in_order` says the log has exactly one entry per nonce);
* the batch the claim names is the batch `t` sat in: either `t` is a member of the open batch with key
  `(t.token, nonce)` in the state right before the end-block (`InBatch`), or that nonce was allocated by the
  batch counter during this very end-block (the periodic build of the same end-block put `t` into a new
  batch, which the tally then found executed).
What such a handler does is `execBatch_burns_its_batch`: it burns exactly the transfers of the batch with the
key the claim names, so a claim for another batch of the same token cannot be the witness. -/
theorem burned_provenance (ops : List Op) (t : Tx) (ht : t ∈ (run ops).burned) :
    ∃ pre f h now toks ests rest n nonce eh,
      ops = pre ++ .endBlock f h now toks ests :: rest ∧
      t ∉ (run pre).burned ∧ t ∈ (run (pre ++ [.endBlock f h now toks ests])).burned ∧
      t ∈ (run pre).pool ++ batched (run pre) ∧
      (n, Claim.executed t.token nonce eh) ∈ (run pre).claims ∧ Op.claim n (.executed t.token nonce eh) ∈ pre ∧
      (run pre).lastObserved < n ∧ n ≤ (run (pre ++ [.endBlock f h now toks ests])).lastObserved ∧
      (∀ e ∈ (run pre).applied, e.1 ≠ n) ∧
      (n, Claim.executed t.token nonce eh, Res.ok) ∈ (run (pre ++ [.endBlock f h now toks ests])).applied ∧
      (n, Claim.executed t.token nonce eh, Res.ok) ∈ (run ops).applied ∧
      (InBatch (run pre) t nonce ∨
        ((run pre).lastBatch < nonce ∧ nonce ≤ (run (pre ++ [.endBlock f h now toks ests])).lastBatch)) := by
  rcases first_appearance apply (·.burned) t ops St.init ht with h0 | ⟨pre, op, rest, he, hn, hm⟩
  · simp [St.init] at h0
  · rcases apply_burned (pre.foldl apply St.init) op with h1 | ⟨f, h, now, toks, ests, hop⟩
    · rw [h1] at hm; exact absurd hm hn
    · subst hop
      have hi : Inv (run pre) := reachable_inv pre
      have hl : Logs (run pre) := reachable_logs pre
      obtain ⟨hi', hb⟩ := burn_innerRel.endBlock (run pre) f h now toks ests hi
      have hpost : run (pre ++ [.endBlock f h now toks ests]) = (endBlock (run pre) f h now toks ests).1 := run_snoc _ _
      have hm' : t ∈ (endBlock (run pre) f h now toks ests).1.burned := hm
      rcases hb.burned t hm' with hold | ⟨n, nonce, eh, hc, l1, l2, hap, hbt⟩
      · exact absurd hold hn
      · refine ⟨pre, f, h, now, toks, ests, rest, n, nonce, eh, he, hn, by rw [hpost]; exact hm', ?_, hc,
          (claims_from_history pre).1 _ hc, l1, by rw [hpost]; exact l2, ?_, by rw [hpost]; exact hap, ?_, ?_⟩
        · -- pending right before the end-block
          have hacc : t ∈ (run pre).accepted := by
            have h1 : t ∈ (endBlock (run pre) f h now toks ests).1.accepted :=
              hi'.life.mem_iff.mpr (by simp [hm'])
            rw [frame_accepted.endBlock] at h1
            exact h1
          have hmem := hi.life.mem_iff.mp hacc
          simp only [List.mem_append] at hmem ⊢
          rcases hmem with ((h1 | h1) | h1) | h1
          · exact Or.inl h1
          · exact Or.inr h1
          · -- refunded before: then it is refunded after too, and burned after: the ids clash
            exfalso
            have hr' : t ∈ (endBlock (run pre) f h now toks ests).1.refunded := by
              rw [frame_refunded.endBlock]; exact h1
            have hnd := (hi'.life.map (·.id)).nodup_iff.mp hi'.nodup
            rw [List.map_append] at hnd
            exact (List.nodup_append.mp hnd).2.2 t.id (List.mem_map.mpr ⟨t, by simp [hr'], rfl⟩) t.id
              (List.mem_map.mpr ⟨t, hm', rfl⟩) rfl
          · exact absurd h1 hn
        · intro e he' hen
          have hm2 : e.1 ∈ (run pre).applied.map (·.1) := List.mem_map.mpr ⟨e, he', rfl⟩
          rw [hl.nonces] at hm2
          have := (mem_countdown.mp hm2).2
          omega
        · have : run ops = rest.foldl apply (run (pre ++ [.endBlock f h now toks ests])) := by
            rw [he, show pre ++ Op.endBlock f h now toks ests :: rest = (pre ++ [.endBlock f h now toks ests]) ++ rest by simp,
              run_append]
          rw [this]
          exact foldl_applied_mono rest _ _ (by rw [hpost]; exact hap)
        · rcases hbt with hbt | ⟨m1, m2⟩
          · exact Or.inl hbt
          · exact Or.inr ⟨m1, by rw [hpost]; exact m2⟩

/-- **burned_claim_in_history.** Corollary of `burned_provenance` in terms of the final state only: the
successful executed-batch observation that burned `t` is in the final observation log, at a nonce
`1 ≤ n ≤ lastObserved`, and its claim was supplied by a `claim` op of the history. -/
theorem burned_claim_in_history (ops : List Op) (t : Tx) (ht : t ∈ (run ops).burned) :
    ∃ n nonce eh, (n, Claim.executed t.token nonce eh, Res.ok) ∈ (run ops).applied ∧
        1 ≤ n ∧ n ≤ (run ops).lastObserved ∧ Op.claim n (.executed t.token nonce eh) ∈ ops := by
  obtain ⟨pre, f, h, now, toks, ests, rest, n, nonce, eh, he, _, _, _, _, _, _, _, _, _, hap, _⟩ :=
    burned_provenance ops t ht
  obtain ⟨h1, h2, _, h4⟩ := (applied_once_in_order ops).2.2 _ hap
  exact ⟨n, nonce, eh, hap, h1, h2, h4⟩

/-- **accepted_forever** (the converse of `accepted_provenance`).  A send that reports `ok` records its
transfer, and the record is never lost: after every continuation of the history the transfer is still in
`accepted`, hence (partition) in exactly one of pool / open batch / refunded / burned. -/
theorem accepted_forever (pre post : List Op) (f : Fault) (u tok amt h : Nat)
    (hok : (send (run pre) f u tok amt h).2.2 = .ok) :
    newTx (run pre) u tok amt ∈ (run (pre ++ .send f u tok amt h :: post)).accepted ∧
    newTx (run pre) u tok amt ∈ (run (pre ++ .send f u tok amt h :: post)).pool ++
      batched (run (pre ++ .send f u tok amt h :: post)) ++ (run (pre ++ .send f u tok amt h :: post)).refunded ++
      (run (pre ++ .send f u tok amt h :: post)).burned := by
  have h1 : newTx (run pre) u tok amt ∈ (run (pre ++ .send f u tok amt h :: post)).accepted := by
    rw [run_append, List.foldl_cons]
    apply foldl_accepted_mono
    show newTx (run pre) u tok amt ∈ (send (run pre) f u tok amt h).1.accepted
    rw [(send_ok_records (run pre) f u tok amt h hok).1]
    exact List.mem_cons_self
  exact ⟨h1, (reachable_inv _).life.mem_iff.mp h1⟩

/-- **endBlock_loops_are_folds** (the composite, tied to its inputs and to the results it reports).  The
end-blocker is its four loops in sequence and its result list is the concatenation of theirs; and each
loop's end state is a *fold over that loop's own result list*:
* the periodic build over `toks` zipped with its results: `buildOk` for every `ok`, nothing otherwise (the
  list is cut at the first `rejected`: `createBatches_is_fold` also bounds its length);
* the tally is a chain of `ObsStep`s, one per reported result: `ok` = the whole effect of the executed-batch
  or deposit claim stored at the next nonce, `rejected` = the bare observation (cursor and log move);
* the estimate loop over `ests` zipped with its results: `estimateOk` for every `ok`;
* the time-out sweep over the timed-out batches (store order) zipped with its results: the batch with that
  key is cancelled for every `ok`.
So no state change of an end-block is unaccounted for by an `ok` in `(endBlock …).2.2`, whatever the fault
sequence. -/
theorem endBlock_loops_are_folds (s : St) (f : Fault) (h now : Nat) (toks : List Nat) (ests : List (Nat × Nat × Nat)) :
    endBlock s f h now toks ests =
      ((ebSwept s f h now toks ests).1, (ebSwept s f h now toks ests).2.1,
        (ebBuilt s f h now toks).2.2 ++ (ebTallied s f h now toks).2.2 ++ (ebEstimated s f h now toks ests).2.2 ++
          (ebSwept s f h now toks ests).2.2) ∧
    (ebBuilt s f h now toks).1 = buildFold now s (toks.zip (ebBuilt s f h now toks).2.2) ∧
    TallyTrace (ebBuilt s f h now toks).1 (ebTallied s f h now toks).2.2 (ebTallied s f h now toks).1 ∧
    (ebEstimated s f h now toks ests).1 =
      estimateFold (ebTallied s f h now toks).1 (ests.zip (ebEstimated s f h now toks ests).2.2) ∧
    (ebSwept s f h now toks ests).1 =
      sweepFold (ebEstimated s f h now toks ests).1
        (((batchOrder (ebEstimated s f h now toks ests).1.batches).filter (fun b => decide (b.timeout < now))).zip
          (ebSwept s f h now toks ests).2.2) := by
  refine ⟨rfl, ?_, tally_trace _ _ _, (applyEstimates_is_fold ests _ _).1, (timeouts_is_fold now _ _ _).1⟩
  unfold ebBuilt
  split
  · exact (createBatches_is_fold now toks s f).1
  · simp [buildFold]

/-- **tally_results_are_log_flags.** The handler-result flags in the observation log are the results the
tally *returned* (newest first), and the cursor advanced by exactly that many nonces: the log's flags are
not a free ghost — `minted = depositsOk applied` (`minted_eq_applied`) counts exactly the deposits whose
`ok` the end-block reported. -/
theorem tally_results_are_log_flags (s : St) (f : Fault) (h now : Nat) (toks : List Nat) (ests : List (Nat × Nat × Nat)) :
    (endBlock s f h now toks ests).1.applied.map (·.2.2) =
      (ebTallied s f h now toks).2.2.reverse ++ s.applied.map (·.2.2) ∧
    (endBlock s f h now toks ests).1.lastObserved = s.lastObserved + (ebTallied s f h now toks).2.2.length := by
  obtain ⟨he, hb, ht, hes, hsw⟩ := endBlock_loops_are_folds s f h now toks ests
  have h0 : (endBlock s f h now toks ests).1 = (ebSwept s f h now toks ests).1 := by rw [he]
  obtain ⟨t1, _, t3⟩ := tallyTrace_flags ht
  have b1 := buildFold_log now (toks.zip (ebBuilt s f h now toks).2.2) s
  rw [← hb] at b1
  have e1 := estimateFold_log (ests.zip (ebEstimated s f h now toks ests).2.2) (ebTallied s f h now toks).1
  rw [← hes] at e1
  have s1 := sweepFold_log (((batchOrder (ebEstimated s f h now toks ests).1.batches).filter
    (fun b => decide (b.timeout < now))).zip (ebSwept s f h now toks ests).2.2) (ebEstimated s f h now toks ests).1
  rw [← hsw] at s1
  rw [h0, s1.1, s1.2, e1.1, e1.2, t1, t3, b1.1, b1.2]
  exact ⟨rfl, rfl⟩

/-- **supply_changes_only_by_fund_deposit_burn** (supply clause, per operation of any history).  Appending an
op to a history changes a token's supply only if the op is (a) a `fund` (coins from outside the bridge:
exactly that amount), or (b) an end-block: then the supply goes up by the deposit claims applied *in that
end-block* (`na` = the observations it appended to the log) and down by amount-plus-tax of the transfers
burned *in that end-block* (`nb` = what it prepended to `burned`), and the escrow goes down by the same
burned sum.  No other op changes supply or `burned`. -/
theorem supply_changes_only_by_fund_deposit_burn (pre : List Op) (op : Op) :
    (∀ u tok amt, op = .fund u tok amt → ∀ tok', (run (pre ++ [op])).supply tok' =
        (run pre).supply tok' + (if tok' = tok then amt else 0)) ∧
    (∀ f h now toks ests, op = .endBlock f h now toks ests →
      ∃ nb na, (run (pre ++ [op])).burned = nb ++ (run pre).burned ∧ (run (pre ++ [op])).applied = na ++ (run pre).applied ∧
        ∀ tok, (run (pre ++ [op])).supply tok + owedTok tok nb = (run pre).supply tok + depositsOk tok na ∧
               (run (pre ++ [op])).escrow tok + owedTok tok nb = (run pre).escrow tok) ∧
    ((∀ u tok amt, op ≠ .fund u tok amt) → (∀ f h now toks ests, op ≠ .endBlock f h now toks ests) →
      (run (pre ++ [op])).supply = (run pre).supply ∧ (run (pre ++ [op])).burned = (run pre).burned) := by
  refine ⟨?_, ?_, ?_⟩
  · intro u tok amt hop tok'
    subst hop
    rw [run_snoc]
    simp only [apply, fund, upd]
    split <;> simp_all
  · intro f h now toks ests hop
    subst hop
    rw [run_snoc]
    exact endBlock_delta (run pre) f h now toks ests (reachable_inv pre) (reachable_logs pre)
  · intro h1 h2
    rw [run_snoc]
    refine ⟨frame_supply_escrow (run pre) op h1 h2, ?_⟩
    rcases apply_burned (run pre) op with hb | ⟨f, h, now, toks, ests, hop⟩
    · exact hb
    · exact absurd hop (h2 f h now toks ests)

/-- **execBatch_burns_its_batch.** A successfully applied executed-batch claim for `(tok, nonce)` burns
exactly the transfers of the open batch with that key — the batch disappears, escrow and supply of the
token go down by the sum of amount plus tax of its transfers — and nothing else changes. -/
theorem execBatch_burns_its_batch (s : St) (f : Fault) (tok nonce eh : Nat)
    (hok : (execBatch s f tok nonce eh).2.2 = .ok) :
    ∃ b ∈ s.batches, b.token = tok ∧ b.nonce = nonce ∧ (execBatch s f tok nonce eh).1 = execOk s b := by
  rcases execBatch_cases s f tok nonce eh with ⟨hr, _⟩ | ⟨_, b, hfind, _, _, _, h⟩
  · rw [hr] at hok; cases hok
  · have ⟨hm, h1, h2⟩ := findBatch_some hfind
    exact ⟨b, hm, h1, h2, h⟩

/-- **failed_op_is_noop.** Any atomic bridge operation that reports failure (or, for a build, has nothing
to do) leaves the *whole* state (pool, batches, balances, escrow, supply, counters, usage, archive, logs)
exactly as it was — for every fault sequence.  An observation whose claim handler fails moves the
tally's cursor and records the observation, nothing else (`observe`; that is what the chain does: the
attestation is marked observed, the handler's cached context is dropped). -/
theorem failed_op_is_noop (s : St) (f : Fault) :
    (∀ u tok amt h, (send s f u tok amt h).2.2 ≠ .ok → (send s f u tok amt h).1 = s) ∧
    (∀ u id, (cancel s f u id).2.2 ≠ .ok → (cancel s f u id).1 = s) ∧
    (∀ tok time, (buildOne s f tok time).2.2 ≠ .ok → (buildOne s f tok time).1 = s) ∧
    (∀ tok nonce, (cancelBatch s f tok nonce).2.2 ≠ .ok → (cancelBatch s f tok nonce).1 = s) ∧
    (∀ tok nonce h, (execBatch s f tok nonce h).2.2 ≠ .ok → (execBatch s f tok nonce h).1 = s) ∧
    (∀ tok amt r k, (deposit s f tok amt r k).2.2 ≠ .ok → (deposit s f tok amt r k).1 = s) ∧
    (∀ tok nonce est, (setEstimate s f tok nonce est).2.2 ≠ .ok → (setEstimate s f tok nonce est).1 = s) ∧
    (∀ n c, (observe s f n c).2.2 ≠ .ok →
      (observe s f n c).1 = { s with lastObserved := n, applied := (n, c, .rejected) :: s.applied }) := by
  refine ⟨?_, ?_, ?_, ?_, ?_, ?_, ?_, ?_⟩
  · intro u tok amt h hr
    rcases send_cases s f u tok amt h with ⟨_, h1⟩ | ⟨h1, _⟩
    · exact h1
    · exact absurd h1 hr
  · intro u id hr
    rcases cancel_cases s f u id with ⟨_, h1⟩ | ⟨h1, _⟩
    · exact h1
    · exact absurd h1 hr
  · intro tok time hr
    rcases buildOne_cases s f tok time with ⟨_, h1⟩ | ⟨h1, _⟩
    · exact h1
    · exact absurd h1 hr
  · intro tok nonce hr
    rcases cancelBatch_cases s f tok nonce with ⟨_, h1⟩ | ⟨h1, _⟩
    · exact h1
    · exact absurd h1 hr
  · intro tok nonce h hr
    rcases execBatch_cases s f tok nonce h with ⟨_, h1⟩ | ⟨h1, _⟩
    · exact h1
    · exact absurd h1 hr
  · intro tok amt r k hr
    rcases deposit_cases s f tok amt r k with ⟨_, h1⟩ | ⟨h1, _⟩
    · exact h1
    · exact absurd h1 hr
  · intro tok nonce est hr
    rcases setEstimate_cases s f tok nonce est with ⟨_, h1⟩ | ⟨h1, _⟩
    · exact h1
    · exact absurd h1 hr
  · intro n c hr
    exact observe_rejected s f n c hr

/-- **failed_op_leaves_history_state.** History form of the atomic clause: appending to any history a
send / cancel / direct build that does not report success yields the very same state. -/
theorem failed_op_leaves_history_state (pre : List Op) (f : Fault) :
    (∀ u tok amt h, (send (run pre) f u tok amt h).2.2 ≠ .ok → run (pre ++ [.send f u tok amt h]) = run pre) ∧
    (∀ u id, (cancel (run pre) f u id).2.2 ≠ .ok → run (pre ++ [.cancel f u id]) = run pre) ∧
    (∀ tok time, (buildOne (run pre) f tok time).2.2 ≠ .ok → run (pre ++ [.build f tok time]) = run pre) := by
  refine ⟨?_, ?_, ?_⟩
  · intro u tok amt h hr
    rw [run_snoc]; exact (failed_op_is_noop (run pre) f).1 u tok amt h hr
  · intro u id hr
    rw [run_snoc]; exact (failed_op_is_noop (run pre) f).2.1 u id hr
  · intro tok time hr
    rw [run_snoc]; exact (failed_op_is_noop (run pre) f).2.2.1 tok time hr

/-- **results_are_ok_or_failure.** The operations report `ok` or `rejected`; only a build may report
`noop` (an empty selection), so "`≠ ok`" above is "reported failure or had nothing to do". -/
theorem results_are_ok_or_failure (s : St) (f : Fault) :
    (∀ u tok amt h, (send s f u tok amt h).2.2 = .ok ∨ (send s f u tok amt h).2.2 = .rejected) ∧
    (∀ u id, (cancel s f u id).2.2 = .ok ∨ (cancel s f u id).2.2 = .rejected) ∧
    (∀ tok nonce, (cancelBatch s f tok nonce).2.2 = .ok ∨ (cancelBatch s f tok nonce).2.2 = .rejected) ∧
    (∀ tok nonce est, (setEstimate s f tok nonce est).2.2 = .ok ∨ (setEstimate s f tok nonce est).2.2 = .rejected) ∧
    (∀ c, (applyClaim s f c).2.2 = .ok ∨ (applyClaim s f c).2.2 = .rejected) := by
  refine ⟨?_, ?_, ?_, ?_, ?_⟩
  · intro u tok amt h
    rcases send_cases s f u tok amt h with ⟨h1, _⟩ | ⟨h1, _⟩
    · exact Or.inr h1
    · exact Or.inl h1
  · intro u id
    rcases cancel_cases s f u id with ⟨h1, _⟩ | ⟨h1, _⟩
    · exact Or.inr h1
    · exact Or.inl h1
  · intro tok nonce
    rcases cancelBatch_cases s f tok nonce with ⟨h1, _⟩ | ⟨h1, _⟩
    · exact Or.inr h1
    · exact Or.inl h1
  · intro tok nonce est
    rcases setEstimate_cases s f tok nonce est with ⟨h1, _⟩ | ⟨h1, _⟩
    · exact Or.inr h1
    · exact Or.inl h1
  · intro c
    rcases applyClaim_cases s f c with ⟨h1, _⟩ | ⟨h1, _⟩
    · exact Or.inr h1
    · exact Or.inl h1

/-- **endBlock_only_whole_steps** (composite: failures started by end-of-block housekeeping).  Whatever
fault sequence is injected into an end-block — any number of failing collaborator calls, in the
periodic batch build, in the tally's claim handlers, in the estimate updates, in the time-out sweep —
the state it ends in is reached from the state it started in by a finite sequence of *whole, successful*
keeper-level sub-operations (`Whole`: a complete batch build, a complete batch cancellation, a complete
estimate update, a completely applied executed-batch or deposit claim) and bare observations of claims
whose handler failed.  A failing build / cancellation / estimate update / claim handler contributes
nothing at all: no half-done sub-operation is ever visible.  (`WholeSteps` is reachability; the sharper
statement — *which* whole steps, in terms of `toks`, `ests` and the result list — is
`endBlock_loops_are_folds`.) -/
theorem endBlock_only_whole_steps (s : St) (f : Fault) (h now : Nat) (toks : List Nat)
    (ests : List (Nat × Nat × Nat)) : WholeSteps s (endBlock s f h now toks ests).1 :=
  whole_innerRel.endBlock s f h now toks ests

/-- **composites_all_failed_noop.** The loops of the end-blocker, each as a whole: if none of the
sub-operations it started reported success, the state is exactly as it was (for the tally: up to the
cursor and the observation log). -/
theorem composites_all_failed_noop (s : St) (f : Fault) :
    (∀ time toks, (∀ r ∈ (createBatches s f time toks).2.2, r ≠ .ok) → (createBatches s f time toks).1 = s) ∧
    (∀ fuel, (∀ r ∈ (tally s f fuel).2.2, r ≠ .ok) → CoreEq s (tally s f fuel).1) ∧
    (∀ ests, (∀ r ∈ (applyEstimates s f ests).2.2, r ≠ .ok) → (applyEstimates s f ests).1 = s) ∧
    (∀ now bs, (∀ r ∈ (timeouts s f now bs).2.2, r ≠ .ok) → (timeouts s f now bs).1 = s) :=
  ⟨fun time toks => createBatches_no_ok time toks s f, fun fuel => tally_no_ok fuel s f,
   fun ests => applyEstimates_no_ok ests s f, fun now bs => timeouts_no_ok now bs s f⟩

/-- **endBlock_all_failed_noop.** A whole end-block in which no sub-operation reported success — every
build, claim handler, estimate update and time-out cancellation it started failed or had nothing to do,
under any fault sequence — leaves pool, batches, balances, escrow, supply, archive, usage and every log
exactly as they were; only the tally's cursor and observation log may have moved. -/
theorem endBlock_all_failed_noop (s : St) (f : Fault) (h now : Nat) (toks : List Nat)
    (ests : List (Nat × Nat × Nat)) (hall : ∀ r ∈ (endBlock s f h now toks ests).2.2, r ≠ .ok) :
    CoreEq s (endBlock s f h now toks ests).1 := by
  unfold endBlock at hall ⊢
  simp only at hall ⊢
  generalize hc : (if h % 50 == 0 then createBatches s f now toks else (s, f, [])) = r1 at hall ⊢
  have h1 : (∀ r ∈ r1.2.2, r ≠ .ok) → r1.1 = s := by
    rw [← hc]
    split
    · exact createBatches_no_ok now toks s f
    · intro _; rfl
  have e1 := h1 (fun r hr => hall r (by simp [hr]))
  have e2 := tally_no_ok r1.1.claims.length r1.1 r1.2.1 (fun r hr => hall r (by simp [hr]))
  generalize (tally r1.1 r1.2.1 r1.1.claims.length) = r2 at hall e2 ⊢
  have e3 := applyEstimates_no_ok ests r2.1 r2.2.1 (fun r hr => hall r (by simp [hr]))
  generalize (applyEstimates r2.1 r2.2.1 ests) = r3 at hall e3 ⊢
  have e4 := timeouts_no_ok now (batchOrder r3.1.batches) r3.1 r3.2.1 (fun r hr => hall r (by simp [hr]))
  rw [e4, e3]
  rw [e1] at e2
  exact e2

/-- **minted_without_faults** ("plus the deposited amount, once", in executable terms).  In a history
none of whose ops carries a failing collaborator call, every observed deposit claim for a registered
token was applied, so the coins ever minted for a token are exactly the deposited amounts of the stored
claims at the nonces `1 … lastObserved` — each nonce counted once. -/
theorem minted_without_faults (ops : List Op) (hf : ∀ op ∈ ops, op.points = []) (tok : Nat) :
    (run ops).minted tok = (((run ops).applied).map (fun e => depositAmt tok e.2.1)).sum ∧
    ((run ops).applied.map (·.1) = countdown (run ops).lastObserved ∧
     ∀ e ∈ (run ops).applied, (e.1, e.2.1) ∈ (run ops).claims) := by
  have hd : DepositsApplied (run ops) := foldl_depositsApplied ops hf St.init (by intro e he; simp [St.init] at he)
  have hl := reachable_logs ops
  refine ⟨?_, hl.nonces, hl.fromClaims⟩
  rw [hl.credit tok]
  unfold depositsOk
  congr 1
  apply List.map_congr_left
  intro e he
  exact mintedBy_of_applied tok e (hd e he)

/-- **applied_is_stored_claims.** Which claim the tally observed at which nonce is a function of the
executable state: the observation log, stripped of the handler results, is the list of the stored
claims at the nonces `lastObserved, …, 1`. -/
theorem applied_is_stored_claims (ops : List Op) :
    (run ops).applied.map (fun e => (e.1, e.2.1)) =
      (countdown (run ops).lastObserved).filterMap (fun n => (run ops).claims.find? (fun y => y.1 == n)) := by
  have hl := reachable_logs ops
  rw [applied_lookup (run ops).claims hl.claimKeys (run ops).applied hl.fromClaims, hl.nonces]

/-- **minted_without_faults_exec.** `minted_without_faults` with the observation log eliminated: in a
fault-free history the coins ever minted for `tok` are the deposited amounts of the stored claims at the
nonces `1 … lastObserved` (cursor and stored claims are compared with the implementation after every op). -/
theorem minted_without_faults_exec (ops : List Op) (hf : ∀ op ∈ ops, op.points = []) (tok : Nat) :
    (run ops).minted tok =
      (((countdown (run ops).lastObserved).filterMap (fun n => (run ops).claims.find? (fun y => y.1 == n))).map
        (fun x => depositAmt tok x.2)).sum := by
  rw [(minted_without_faults ops hf tok).1, ← applied_is_stored_claims, List.map_map]
  rfl

/-- the keeper functions the model treats as all-or-nothing -/
def mustBeAtomic : List String := [
  "x/skyway/keeper.Keeper.BuildOutgoingTXBatch", "x/skyway/keeper.Keeper.CancelOutgoingTXBatch",
  "x/skyway/keeper.Keeper.OutgoingTxBatchExecuted", "x/skyway/keeper.Keeper.UpdateBatchGasEstimate",
  "x/skyway/keeper.Keeper.processAttestation" ]

/-- **bridge_mutators_atomic.** In the current source (table regenerated by the extractor on every
run) each of these functions opens a cached context, commits it only on success, and never hands
the OUTER context to a callee once the cached one exists — which is what the model's "a rejected step
returns the state it was given" assumes of them (the correspondence run with injected faults is the
dynamic check of the same thing). Dropping the guard, committing unconditionally, or writing through
the outer context makes this `decide` fail. -/
theorem bridge_mutators_atomic :
    (mustBeAtomic.all fun f => Paloma.Gen.Atomicity.cachedFunctions.any fun c =>
      c.fn == f && c.conditionalCommit && c.outerContextUses.isEmpty) = true := by decide

/-- how a cached operation leaves its caller, as far as the commit decision is concerned -/
inductive Exit where
  | ok | error | panic
deriving DecidableEq, Repr

/-- The commit idiom of the bridge's cached operations as a function: `pre` is the state the operation was
given, `post` the content of its cached context when it is left.  An inline commit is simply not reached
by a panic; a DEFERRED commit runs while the panic unwinds, and the named error result is still `nil` then,
so without a `recover()` test in front of it the half-done `post` is what the caller (the end-blocker's own
`recover`) carries on with. -/
def commitIdiom (deferred guarded : Bool) (pre post : α) : Exit → α
  | .ok => post
  | .error => pre
  | .panic => if deferred && !guarded then post else pre

/-- **panic_is_a_failure.** With the guard — or with an inline commit — a panicking operation leaves the
state it was given, exactly like one that reports an error. -/
theorem panic_is_a_failure (deferred guarded : Bool) (h : (!deferred || guarded) = true) (pre post : α) :
    commitIdiom deferred guarded pre post .panic = pre ∧
    commitIdiom deferred guarded pre post .error = pre := by
  cases deferred <;> cases guarded <;> simp_all [commitIdiom]

/-- without the guard a deferred commit persists the half-done state (the defect repaired by /repo `bfa39307`;
    reproduced on the real keeper by the panic pass of the fault sweep) -/
theorem unguarded_deferred_commit_keeps_partial_state (pre post : α) :
    commitIdiom true false pre post .panic = post := rfl

/-- **bridge_mutators_panic_safe.** In the current source every all-or-nothing bridge function either commits
inline or tests `recover()` before its deferred commit. -/
theorem bridge_mutators_panic_safe :
    (mustBeAtomic.all fun f => Paloma.Gen.Atomicity.cachedFunctions.any fun c =>
      c.fn == f && (!c.deferredCommit || c.panicGuard)) = true := by decide

/-- **ids_fresh.** A new transfer gets an id above every id ever accepted; a new batch a nonce
above every open batch's nonce. -/
theorem ids_fresh (ops : List Op) :
    (∀ t ∈ (run ops).accepted, t.id ≤ (run ops).lastTx) ∧
    (∀ b ∈ (run ops).batches, b.nonce ≤ (run ops).lastBatch) :=
  ⟨(reachable_inv ops).fresh, (reachable_inv ops).bfresh⟩

/-! ### non-vacuity: concrete histories through `run` from the initial state -/

/-- a send, a faulted build, a cancel, a build, a deposit and an execution attested in one end-block -/
def demoOps : List Op :=
  [ .fund 1 1 1000, .setTax 1 (some { num := 1, den := 3, exempt := [] }),
    .send Fault.none 1 1 100 10, .send Fault.none 1 1 50 11,
    .build (Fault.at tPick 1) 1 1000,       -- injected relayer-selection failure
    .cancel Fault.none 1 2,
    .build Fault.none 1 1000,
    .claim 1 (.executed 1 1 5), .claim 2 (.deposit 1 70 (some 2) true), .claim 2 (.deposit 1 999 (some 2) true),
    .endBlock Fault.none 7 1001 [1] [] ]

example : (run demoOps).pool = [] ∧ (run demoOps).batches = [] ∧ (run demoOps).escrow 1 = 0 ∧
    (run demoOps).supply 1 = 1000 - 133 + 70 ∧ ((run demoOps).burned.map (·.id)) = [1] ∧
    ((run demoOps).refunded.map (·.id)) = [2] ∧ (run demoOps).bal 1 1 = 1000 - 133 ∧ (run demoOps).bal 2 1 = 70 ∧
    (run demoOps).lastObserved = 2 ∧ (run demoOps).minted 1 = 70 ∧
    (run demoOps).applied = [(2, .deposit 1 70 (some 2) true, .ok), (1, .executed 1 1 5, .ok)] ∧
    (run demoOps).creditLog = [(2, 1, 70)] ∧ fundsOf demoOps = [(1, 1, 1000)] := by decide

/-- two failing collaborator calls inside one end-block (the 1st burn and the 1st mint): both claims are
observed, neither is applied, and everything but cursor and observation log is untouched -/
def demoFaulted : List Op :=
  [ .fund 1 1 1000, .send Fault.none 1 1 100 10, .build Fault.none 1 1000,
    .claim 1 (.executed 1 1 5), .claim 2 (.deposit 1 70 (some 2) true),
    .endBlock { points := [(tBurn, 1), (tMint, 1)] } 7 1001 [1] [] ]

example : ((run demoFaulted).batches.map (·.nonce)) = [1] ∧ (run demoFaulted).escrow 1 = 100 ∧
    (run demoFaulted).supply 1 = 1000 ∧ (run demoFaulted).burned = [] ∧ (run demoFaulted).minted 1 = 0 ∧
    (run demoFaulted).lastObserved = 2 ∧
    (run demoFaulted).applied = [(2, .deposit 1 70 (some 2) true, .rejected), (1, .executed 1 1 5, .rejected)] ∧
    (endBlock (run (demoFaulted.take 5)) { points := [(tBurn, 1), (tMint, 1)] } 7 1001 [1] []).2.2 = [.rejected, .rejected] := by
  decide

/-- two batches of the same token, executed by their own claims in two different end-blocks: the claim for
batch 2 cannot stand in for the burn of the transfer of batch 1 (`burned_provenance` names the nonce) -/
def demoTwoBatches : List Op :=
  [ .fund 1 1 1000, .send Fault.none 1 1 100 10, .build Fault.none 1 1000,
    .send Fault.none 1 1 50 11, .build Fault.none 1 1000,
    .claim 1 (.executed 1 1 5), .claim 2 (.executed 1 2 6),
    .endBlock (Fault.at tBurn 2) 7 1001 [1] [],      -- the burn of batch 2 fails: only batch 1 is burned
    .endBlock Fault.none 8 1002 [1] [] ]

example : ((run (demoTwoBatches.take 8)).burned.map (·.id)) = [1] ∧
    ((run (demoTwoBatches.take 8)).batches.map (fun b => (b.nonce, b.txs.map (·.id)))) = [(2, [2])] ∧
    (run (demoTwoBatches.take 8)).applied = [(2, .executed 1 2 6, .rejected), (1, .executed 1 1 5, .ok)] ∧
    ((run (demoTwoBatches.take 7)).batches.map (fun b => (b.nonce, b.txs.map (·.id)))) = [(2, [2]), (1, [1])] ∧
    (endBlock (run (demoTwoBatches.take 7)) (Fault.at tBurn 2) 7 1001 [1] []).2.2 = [.ok, .rejected] ∧
    ((run demoTwoBatches).burned.map (·.id)) = [1] ∧ (run demoTwoBatches).lastObserved = 2 := by decide

/-! ### chain export / import of the bridge module (not an `Op`: the property quantifies over messages and blocks) -/

/-- **reimport_keeps_the_bridge.** Exporting the bridge's genesis and starting again from it keeps the pool, the open batches,
every balance, the escrow, the supply, the id counters, the tax and limit settings, the oracle cursor and the stored claims
(what C01 and C15's cost clauses speak about); it forgets the window usage records and the archive of issued checkpoints
(C15 / C13: recorded in their notes and in known finding C13-archive-not-exported). -/
theorem reimport_keeps_the_bridge (s : St) :
    (reimport s).pool = s.pool ∧ (reimport s).batches = s.batches ∧ (reimport s).bal = s.bal ∧
    (reimport s).escrow = s.escrow ∧ (reimport s).supply = s.supply ∧ (reimport s).lastTx = s.lastTx ∧
    (reimport s).lastBatch = s.lastBatch ∧ (reimport s).tax = s.tax ∧ (reimport s).limit = s.limit ∧
    (reimport s).lastObserved = s.lastObserved ∧ (reimport s).claims = s.claims ∧
    (reimport s).usage = (fun _ => none) ∧ (reimport s).archive = [] :=
  ⟨rfl, rfl, rfl, rfl, rfl, rfl, rfl, rfl, rfl, rfl, rfl, rfl, rfl⟩

/-! ### the contract registry: transfers are refunded / burned in the denom that was escrowed -/

/-- what governance is trusted with (`SetERC20ToDenomProposal` writes unconditionally): it binds a denom to a contract
that serves no denom yet, or re-states the contract's own denom; it does not hand a contract that serves one denom to
another denom.  Token admins (`MsgSetERC20ToTokenDenom`, wasm `set_erc20_to_denom`) are not trusted with anything:
their operations are unconstrained. -/
def RegOp.sane (r : Registry) : RegOp → Prop
  | .admin _ _ _ => True
  | .gov d c => r.den c = none ∨ r.den c = some d

/-- every governance binding of the history is `sane` in the state it is applied to -/
def SaneRun : Registry → List RegOp → Prop
  | _, [] => True
  | r, op :: ops => op.sane r ∧ SaneRun (r.apply op) ops

/-- the contract a denom is currently bound to resolves back to that denom -/
def Registry.Consistent (r : Registry) : Prop := ∀ d c, r.erc d = some c → r.den c = some d

theorem Registry.set_den_keeps (r : Registry) (d c c' d' : Nat) (h : r.den c' = some d')
    (hs : r.den c = none ∨ r.den c = some d) : (r.set d c).den c' = some d' := by
  unfold Registry.set updO
  simp only
  split
  · next heq =>
    subst heq
    rcases hs with hs | hs
    · rw [hs] at h; cases h
    · rw [hs] at h; exact h
  · exact h

/-- **admin_bind_keeps_reverse.** Whoever sends `MsgSetERC20ToTokenDenom` (or the wasm binding), with whatever denom
and contract, accepted or not: no reverse entry is removed or re-pointed. -/
theorem admin_bind_keeps_reverse (r : Registry) (a : Bool) (d c c' d' : Nat) (h : r.den c' = some d') :
    (r.bindAdmin a d c).1.den c' = some d' := by
  unfold Registry.bindAdmin
  split
  · exact h
  · split
    · exact h
    · next hn =>
      refine Registry.set_den_keeps r d c c' d' h (Or.inl ?_)
      cases hc : r.den c with
      | none => rfl
      | some x => simp [hc] at hn

/-- **admin_bind_refused_for_bound_contract.** A contract that has (ever had) a denom is never given to a denom
through the admin path — neither to another denom nor, again, to its own. -/
theorem admin_bind_refused_for_bound_contract (r : Registry) (a : Bool) (d c : Nat) (h : (r.den c).isSome) :
    r.bindAdmin a d c = (r, .rejected) := by
  unfold Registry.bindAdmin
  split
  · rfl
  · simp

/-- **admin_bind_refused_for_non_admin.** -/
theorem admin_bind_refused_for_non_admin (r : Registry) (d c : Nat) : r.bindAdmin false d c = (r, .rejected) := by
  simp [Registry.bindAdmin]

theorem Registry.den_stable_step (r : Registry) (op : RegOp) (hs : op.sane r) (c d : Nat) (h : r.den c = some d) :
    (r.apply op).den c = some d := by
  cases op with
  | admin a d' c' => exact admin_bind_keeps_reverse r a d' c' c d h
  | gov d' c' => exact Registry.set_den_keeps r d' c' c d h hs

/-- **reverse_entries_are_forever.** Over any history of bindings (any admin operations, governance as trusted
above), a reverse entry, once written, is never removed and never points to another denom. -/
theorem reverse_entries_are_forever (ops : List RegOp) : ∀ (r : Registry), SaneRun r ops → ∀ c d,
    r.den c = some d → (r.run ops).den c = some d := by
  induction ops with
  | nil => intro r _ c d h; exact h
  | cons op ops ih =>
    intro r hs c d h
    exact ih (r.apply op) hs.2 c d (Registry.den_stable_step r op hs.1 c d h)

theorem Registry.set_consistent (r : Registry) (d c : Nat) (hc : r.Consistent)
    (hs : r.den c = none ∨ r.den c = some d) : (r.set d c).Consistent := by
  intro d' c' h
  by_cases hd : d' = d
  · subst hd
    have : c' = c := by
      unfold Registry.set updO at h
      simp at h
      exact h.symm
    subst this
    unfold Registry.set updO
    simp
  · have h' : r.erc d' = some c' := by
      unfold Registry.set updO at h
      simpa [hd] using h
    exact Registry.set_den_keeps r d c c' d' (hc d' c' h') hs

theorem Registry.consistent_step (r : Registry) (op : RegOp) (hs : op.sane r) (hc : r.Consistent) :
    (r.apply op).Consistent := by
  cases op with
  | admin a d c =>
    show (r.bindAdmin a d c).1.Consistent
    unfold Registry.bindAdmin
    split
    · exact hc
    · split
      · exact hc
      · next hn =>
        refine Registry.set_consistent r d c hc (Or.inl ?_)
        cases h : r.den c with
        | none => rfl
        | some x => simp [h] at hn
  | gov d c => exact Registry.set_consistent r d c hc hs

theorem Registry.consistent_run (ops : List RegOp) : ∀ (r : Registry), SaneRun r ops → r.Consistent →
    (r.run ops).Consistent := by
  induction ops with
  | nil => intro r _ h; exact h
  | cons op ops ih => intro r hs h; exact ih (r.apply op) hs.2 (Registry.consistent_step r op hs.1 h)

theorem saneRun_append (a b : List RegOp) : ∀ (r : Registry), SaneRun r (a ++ b) → SaneRun r a ∧ SaneRun (r.run a) b := by
  induction a with
  | nil => intro r h; exact ⟨trivial, h⟩
  | cons op a ih => intro r h; exact ⟨⟨h.1, (ih (r.apply op) h.2).1⟩, (ih (r.apply op) h.2).2⟩

theorem Registry.run_append (r : Registry) (a b : List RegOp) : r.run (a ++ b) = (r.run a).run b := by
  unfold Registry.run; rw [List.foldl_append]

/-- **paid_in_the_escrowed_denom** (C01 "refunded in full to its sender", "burned because its batch was attested as
executed", escrow per token).  A transfer of denom `d` accepted after the history `before` is recorded under the
contract `c = erc d` of that moment; at every later moment — whatever bindings `after` the token admins and governance
make in between, in particular when `d` moves on to another contract while the transfer is pending — the refund of the
transfer and the burn of its batch resolve `c` to `d` again: they are paid in the denom that was escrowed, never in
another one, and never fail with "denom not found". -/
theorem paid_in_the_escrowed_denom (before after : List RegOp) (d c : Nat)
    (hs : SaneRun Registry.init (before ++ after))
    (hrec : (Registry.init.run before).recordedUnder d = some c) :
    (Registry.init.run (before ++ after)).paidIn c = some d := by
  have hsp := saneRun_append before after Registry.init hs
  have hcons : (Registry.init.run before).Consistent :=
    Registry.consistent_run before Registry.init hsp.1 (by intro d c h; cases h)
  rw [Registry.run_append]
  exact reverse_entries_are_forever after _ hsp.2 c d (hcons d c hrec)

/-- **contract_serves_one_denom.** Two transfers recorded under the same contract at any two moments of a history were
escrowed in the same denom: the pool key / batch key `contract` never mixes coins of two denoms. -/
theorem contract_serves_one_denom (h1 h2 h3 : List RegOp) (d d' c : Nat)
    (hs : SaneRun Registry.init (h1 ++ h2 ++ h3))
    (hrec : (Registry.init.run h1).recordedUnder d = some c)
    (hrec' : (Registry.init.run (h1 ++ h2)).recordedUnder d' = some c) : d = d' := by
  have hs12 := (saneRun_append (h1 ++ h2) h3 Registry.init hs).1
  have a := paid_in_the_escrowed_denom h1 h2 d c hs12 hrec
  have b := paid_in_the_escrowed_denom (h1 ++ h2) [] d' c (by simpa using hs12) (by simpa using hrec')
  simp only [List.append_nil] at b
  rw [a] at b
  cases b
  rfl

/-- non-vacuity: denom 1 is bound to contract 1 by its admin, moves on to contract 2, the admin of denom 2 asks for the
contract 1 that was left behind (refused), a stranger asks for a fresh contract (refused), governance binds denom 2 to
a fresh contract: contract 1 still resolves to denom 1 -/
def demoBindings : List RegOp := [.admin true 1 1, .admin true 1 2, .admin true 2 1, .admin false 2 3, .gov 2 4]

example : SaneRun Registry.init demoBindings := by
  simp [demoBindings, SaneRun, RegOp.sane, Registry.apply, Registry.bindAdmin, Registry.set,
    Registry.init, updO]

example : (Registry.init.run (demoBindings.take 1)).recordedUnder 1 = some 1 ∧
    (Registry.init.run demoBindings).recordedUnder 1 = some 2 ∧
    (Registry.init.run demoBindings).paidIn 1 = some 1 ∧ (Registry.init.run demoBindings).paidIn 2 = some 1 ∧
    (Registry.init.run demoBindings).recordedUnder 2 = some 4 ∧ (Registry.init.run demoBindings).paidIn 3 = none ∧
    ((Registry.init.run (demoBindings.take 2)).bindAdmin true 2 1).2 = .rejected := by decide

/-- what the trust in governance is needed for: a proposal that hands contract 1 (serving denom 1) to denom 2 makes a
transfer of denom 1 pending under contract 1 payable in denom 2 -/
example : ¬ SaneRun Registry.init [.admin true 1 1, .gov 2 1] ∧
    (Registry.init.run [.admin true 1 1, .gov 2 1]).paidIn 1 = some 2 := by
  constructor
  · simp [SaneRun, RegOp.sane, Registry.apply, Registry.bindAdmin, Registry.set, Registry.init, updO]
  · decide

end Paloma.Bridge
