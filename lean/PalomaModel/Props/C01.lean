/-
C01 — bridge escrow conservation and all-or-nothing transfer life-cycle.

The invariant `Inv` is proved for every state reachable by any sequence of operations
(`send`, `cancel`, direct `build`, governance tax/limit changes, funding, fully-voted claims,
whole end-blocks) with an arbitrary fault (any collaborator call class, any call index) injected
into every operation.
-/
import PalomaModel.Lemmas.Bridge
import PalomaModel.Gen.Atomicity

namespace Paloma.Bridge
open List

/-- the C01 invariant -/
structure Inv (s : St) : Prop where
  /-- every accepted transfer is in exactly one place: pool, one open batch, refunded, burned -/
  life : s.accepted.Perm (s.pool ++ batched s ++ s.refunded ++ s.burned)
  fresh : ∀ t ∈ s.accepted, t.id ≤ s.lastTx
  nodup : (s.accepted.map (·.id)).Nodup
  /-- escrow = Σ (amount + tax) over pending transfers, per token -/
  escrow : ∀ tok, s.escrow tok = owedTok tok (s.pool ++ batched s)
  btok : ∀ b ∈ s.batches, ∀ t ∈ b.txs, t.token = b.token
  bkeys : (s.batches.map bkey).Nodup
  bfresh : ∀ b ∈ s.batches, b.nonce ≤ s.lastBatch
  /-- supply = funded + attested deposits − burned (amount + tax) -/
  supply : ∀ tok, s.supply tok + owedTok tok s.burned = s.funded tok + s.minted tok

/-! ## helper lemmas (not property theorems) -/
section Lemmas

theorem inv_init : Inv St.init := by
  constructor <;> simp [St.init, batched, owedTok]

theorem pending_ids_nodup {s : St} (hi : Inv s) : ((s.pool ++ batched s).map (·.id)).Nodup := by
  have h1 : ((s.pool ++ batched s ++ s.refunded ++ s.burned).map (·.id)).Nodup :=
    (hi.life.map _).nodup_iff.mp hi.nodup
  rw [List.append_assoc, List.append_assoc, ← List.append_assoc, List.map_append] at h1
  exact (List.nodup_append.mp h1).1

theorem pool_ids_nodup {s : St} (hi : Inv s) : (s.pool.map (·.id)).Nodup := by
  have := pending_ids_nodup hi
  rw [List.map_append] at this
  exact (List.nodup_append.mp this).1

theorem upd_same (f : Nat → Nat) (k v : Nat) : upd f k v k = v := by simp [upd]
theorem upd_other (f : Nat → Nat) (k v x : Nat) (h : x ≠ k) : upd f k v x = f x := by simp [upd, h]

theorem send_inv (s : St) (f : Fault) (u tok amt h : Nat) (hi : Inv s) : Inv (send s f u tok amt h).1 := by
  have hlife := hi.life
  have hesc := hi.escrow
  simp only [batched] at hlife hesc
  unfold send
  split
  · exact hi
  · split
    · exact hi
    · simp only
      split
      · exact hi
      · split
        · exact hi
        · split
          · exact hi
          · split
            · exact hi
            · split
              · exact hi
              · -- accepted
                constructor
                · simp only [batched]
                  exact Perm.cons _ hlife
                · intro t ht
                  simp only [List.mem_cons] at ht
                  rcases ht with rfl | ht
                  · simp
                  · have := hi.fresh t ht; simp only; omega
                · simp only [List.map_cons]
                  refine List.nodup_cons.mpr ⟨?_, hi.nodup⟩
                  intro hm
                  rcases List.mem_map.mp hm with ⟨t, ht, hid⟩
                  have := hi.fresh t ht
                  omega
                · intro tok'
                  simp only [batched]
                  rw [List.cons_append, owedTok_cons]
                  by_cases e : tok = tok'
                  · subst e; simp [upd, hesc tok, Tx.owed]; omega
                  · have e' : tok' ≠ tok := fun x => e x.symm
                    simp [upd, e, e', hesc tok']
                · exact hi.btok
                · exact hi.bkeys
                · exact hi.bfresh
                · exact hi.supply

theorem cancel_inv (s : St) (f : Fault) (u id : Nat) (hi : Inv s) : Inv (cancel s f u id).1 := by
  have hlife := hi.life
  have hesc := hi.escrow
  simp only [batched] at hlife hesc
  unfold cancel
  split
  · exact hi
  · split
    · exact hi
    · rename_i t hfind
      split
      · exact hi
      · simp only
        split
        · exact hi
        · split
          · exact hi
          · have ⟨htmem, htid⟩ := findTx_some hfind
            subst htid
            have hperm := filter_id_perm s.pool t htmem (pool_ids_nodup hi)
            constructor
            · simp only [batched]
              -- accepted ~ pool ++ B ++ R ++ U ~ (t :: pool') ++ B ++ R ++ U ~ pool' ++ B ++ (t :: R) ++ U
              refine hlife.trans ?_
              have h1 : (s.pool ++ s.batches.flatMap (·.txs) ++ s.refunded ++ s.burned).Perm
                  ((t :: s.pool.filter (fun x => x.id != t.id)) ++ s.batches.flatMap (·.txs) ++ s.refunded ++ s.burned) :=
                Perm.append_right _ (Perm.append_right _ (Perm.append_right _ hperm))
              refine h1.trans ?_
              have hm := (perm_middle (a := t) (l₁ := s.pool.filter (fun x => x.id != t.id) ++ s.batches.flatMap (·.txs))
                (l₂ := s.refunded ++ s.burned)).symm
              simpa [List.append_assoc] using hm
            · exact hi.fresh
            · exact hi.nodup
            · intro tok'
              simp only [batched]
              have hp : owedTok tok' (s.pool ++ s.batches.flatMap (·.txs)) =
                  (if t.token = tok' then t.owed else 0) +
                    owedTok tok' (s.pool.filter (fun x => x.id != t.id) ++ s.batches.flatMap (·.txs)) := by
                rw [owedTok_append, owedTok_perm tok' hperm, owedTok_cons, owedTok_append]; omega
              by_cases e : t.token = tok'
              · subst e; simp only [upd_same, if_true] at *; rw [hesc t.token, hp]; omega
              · have e' : tok' ≠ t.token := fun x => e x.symm
                simp only [e, if_false, Nat.zero_add] at hp
                rw [upd_other _ _ _ _ e', hesc tok', hp]
            · exact hi.btok
            · exact hi.bkeys
            · exact hi.bfresh
            · exact hi.supply

theorem buildOne_inv (s : St) (f : Fault) (tok time : Nat) (hi : Inv s) : Inv (buildOne s f tok time).1 := by
  have hlife := hi.life
  have hesc := hi.escrow
  simp only [batched] at hlife hesc
  unfold buildOne
  simp only
  split
  · exact hi
  · split
    · exact hi
    · split
      · exact hi
      · split
        · exact hi
        · have hsplit := build_split_perm s.pool tok
          constructor
          · simp only [batched, List.flatMap_cons]
            refine hlife.trans ?_
            refine Perm.append_right _ (Perm.append_right _ ?_)
            -- pool ++ B ~ (rest ++ drop) ++ (take ++ B)
            refine (Perm.append_right _ hsplit.symm).trans ?_
            simp only [List.append_assoc]
            refine perm_append_comm.trans ?_
            simp only [List.append_assoc]
            refine Perm.append_left _ ?_
            refine Perm.append_left _ ?_
            exact perm_append_comm
          · exact hi.fresh
          · exact hi.nodup
          · intro tok'
            simp only [batched, List.flatMap_cons]
            rw [hesc tok', owedTok_append, ← owedTok_perm tok' hsplit]
            simp only [owedTok_append]; omega
          · intro b hb t ht
            simp only [List.mem_cons] at hb
            rcases hb with rfl | hb
            · simp only at ht ⊢
              have := (mem_sortDesc.mp (List.mem_of_mem_take ht))
              simpa using (List.mem_filter.mp this).2
            · exact hi.btok b hb t ht
          · simp only [List.map_cons]
            refine List.nodup_cons.mpr ⟨?_, hi.bkeys⟩
            intro hm
            rcases List.mem_map.mp hm with ⟨b, hb, hk⟩
            have := hi.bfresh b hb
            simp only [bkey, Prod.mk.injEq] at hk
            omega
          · intro b hb
            simp only [List.mem_cons] at hb
            rcases hb with rfl | hb
            · simp
            · have := hi.bfresh b hb; simp only; omega
          · exact hi.supply

theorem cancelBatch_inv (s : St) (f : Fault) (tok nonce : Nat) (hi : Inv s) :
    Inv (cancelBatch s f tok nonce).1 := by
  have hlife := hi.life
  have hesc := hi.escrow
  simp only [batched] at hlife hesc
  unfold cancelBatch
  split
  · exact hi
  · rename_i b hfind
    simp only
    split
    · exact hi
    · have ⟨hbm, hbt, hbn⟩ := findBatch_some hfind
      subst hbt; subst hbn
      have hperm := batched_remove_perm s.batches b hbm hi.bkeys
      constructor
      · simp only [batched]
        refine hlife.trans ?_
        refine Perm.append_right _ (Perm.append_right _ ?_)
        refine (Perm.append_left _ hperm).trans ?_
        simp only [← List.append_assoc]
        exact Perm.append_right _ perm_append_comm
      · exact hi.fresh
      · exact hi.nodup
      · intro tok'
        simp only [batched]
        rw [hesc tok', owedTok_append, owedTok_perm tok' hperm]
        simp only [owedTok_append]; omega
      · intro b' hb'
        exact hi.btok b' ((removeBatch_sublist _ _ _).subset hb')
      · exact (hi.bkeys).sublist ((removeBatch_sublist _ _ _).map _)
      · intro b' hb'
        exact hi.bfresh b' ((removeBatch_sublist _ _ _).subset hb')
      · exact hi.supply

theorem execBatch_inv (s : St) (f : Fault) (tok nonce h : Nat) (hi : Inv s) :
    Inv (execBatch s f tok nonce h).1 := by
  have hlife := hi.life
  have hesc := hi.escrow
  simp only [batched] at hlife hesc
  unfold execBatch
  split
  · exact hi
  · rename_i b hfind
    split
    · exact hi
    · simp only
      split
      · exact hi
      · split
        · exact hi
        · rename_i hguard
          have ⟨hbm, hbt, hbn⟩ := findBatch_some hfind
          subst hbt; subst hbn
          have hperm := batched_remove_perm s.batches b hbm hi.bkeys
          have hown := owedTok_of_token b.token b.txs (hi.btok b hbm)
          simp only [Bool.or_eq_true, decide_eq_true_eq, not_or, Nat.not_lt] at hguard
          constructor
          · simp only [batched]
            refine hlife.trans ?_
            -- pool ++ B ++ R ++ U  ~  pool ++ B' ++ R ++ (txs ++ U)
            have h1 : (s.pool ++ s.batches.flatMap (·.txs)).Perm
                (b.txs ++ (s.pool ++ (removeBatch s.batches b.token b.nonce).flatMap (·.txs))) := by
              refine (Perm.append_left _ hperm).trans ?_
              simp only [← List.append_assoc]
              exact Perm.append_right _ perm_append_comm
            refine (Perm.append_right _ (Perm.append_right _ h1)).trans ?_
            simp only [List.append_assoc]
            refine perm_append_comm.trans ?_
            simp only [List.append_assoc]
            refine Perm.append_left _ ?_
            refine Perm.append_left _ ?_
            refine Perm.append_left _ ?_
            exact perm_append_comm
          · exact hi.fresh
          · exact hi.nodup
          · intro tok'
            simp only [batched]
            have hp : owedTok tok' (s.pool ++ s.batches.flatMap (·.txs)) =
                owedTok tok' b.txs + owedTok tok' (s.pool ++ (removeBatch s.batches b.token b.nonce).flatMap (·.txs)) := by
              rw [owedTok_append, owedTok_perm tok' hperm]; simp only [owedTok_append]; omega
            by_cases e : b.token = tok'
            · subst e
              rw [upd_same, hesc b.token, hp, hown]; omega
            · have e' : tok' ≠ b.token := fun x => e x.symm
              rw [upd_other _ _ _ _ e', hesc tok', hp, owedTok_of_other tok' b.token b.txs (hi.btok b hbm) e]
              omega
          · intro b' hb'
            exact hi.btok b' ((removeBatch_sublist _ _ _).subset hb')
          · exact (hi.bkeys).sublist ((removeBatch_sublist _ _ _).map _)
          · intro b' hb'
            exact hi.bfresh b' ((removeBatch_sublist _ _ _).subset hb')
          · intro tok'
            simp only
            rw [owedTok_append]
            by_cases e : b.token = tok'
            · subst e
              have := hi.supply b.token
              rw [upd_same, hown]; omega
            · have e' : tok' ≠ b.token := fun x => e x.symm
              rw [upd_other _ _ _ _ e', owedTok_of_other tok' b.token b.txs (hi.btok b hbm) e]
              have := hi.supply tok'; omega

theorem creditMinted_inv (s : St) (who tok amt : Nat) (hi : Inv s) :
    Inv (creditTo (depositMinted s tok amt) who tok amt) := by
  constructor
  · exact hi.life
  · exact hi.fresh
  · exact hi.nodup
  · exact hi.escrow
  · exact hi.btok
  · exact hi.bkeys
  · exact hi.bfresh
  · intro tok'
    simp only [creditTo, depositMinted]
    by_cases e : tok' = tok
    · subst e; simp only [upd_same]; have := hi.supply tok'; omega
    · simp only [upd_other _ _ _ _ e]; exact hi.supply tok'

theorem depositToPool_inv (s : St) (f : Fault) (tok amt : Nat) (hi : Inv s) :
    Inv (depositToPool s f tok amt).1 := by
  unfold depositToPool
  split
  · exact hi
  · exact creditMinted_inv s _ tok amt hi

theorem deposit_inv (s : St) (f : Fault) (tok amt : Nat) (r : Option Nat) (k : Bool) (hi : Inv s) :
    Inv (deposit s f tok amt r k).1 := by
  unfold deposit
  split
  · exact hi
  · split
    · exact hi
    · split
      · exact depositToPool_inv s _ tok amt hi
      · split
        · exact depositToPool_inv s _ tok amt hi
        · exact creditMinted_inv s _ tok amt hi

theorem setEstimate_inv (s : St) (f : Fault) (tok nonce est : Nat) (hi : Inv s) :
    Inv (setEstimate s f tok nonce est).1 := by
  have hlife := hi.life
  have hesc := hi.escrow
  simp only [batched] at hlife hesc
  unfold setEstimate
  split
  · exact hi
  · split
    · exact hi
    · simp only
      split
      · exact hi
      · have hflat : ∀ l : List Batch,
            (l.map (fun x => if x.token == tok && x.nonce == nonce then { x with estimate := est } else x)).flatMap (·.txs)
              = l.flatMap (·.txs) := by
          intro l
          induction l with
          | nil => rfl
          | cons x xs ih =>
            simp only [List.map_cons, List.flatMap_cons, ih]
            split <;> rfl
        have hkeys : ∀ l : List Batch,
            (l.map (fun x => if x.token == tok && x.nonce == nonce then { x with estimate := est } else x)).map bkey
              = l.map bkey := by
          intro l
          induction l with
          | nil => rfl
          | cons x xs ih =>
            simp only [List.map_cons, ih]
            split <;> rfl
        constructor
        · simp only [batched, hflat]; exact hlife
        · exact hi.fresh
        · exact hi.nodup
        · intro tok'; simp only [batched, hflat]; exact hesc tok'
        · intro b hb t ht
          simp only [List.mem_map] at hb
          rcases hb with ⟨x, hx, rfl⟩
          split at ht <;> split <;> first | exact hi.btok x hx t ht | skip
          all_goals simp_all
        · simp only [hkeys]; exact hi.bkeys
        · intro b hb
          simp only [List.mem_map] at hb
          rcases hb with ⟨x, hx, rfl⟩
          have := hi.bfresh x hx
          split <;> simpa using this
        · exact hi.supply

theorem fund_inv (s : St) (u tok amt : Nat) (hi : Inv s) : Inv (fund s u tok amt) := by
  constructor
  · exact hi.life
  · exact hi.fresh
  · exact hi.nodup
  · exact hi.escrow
  · exact hi.btok
  · exact hi.bkeys
  · exact hi.bfresh
  · intro tok'
    simp only [fund]
    by_cases e : tok' = tok
    · subst e; simp only [upd_same]; have := hi.supply tok'; omega
    · simp only [upd_other _ _ _ _ e]; exact hi.supply tok'

theorem createBatches_inv (time : Nat) (toks : List Nat) :
    ∀ (s : St) (f : Fault), Inv s → Inv (createBatches s f time toks).1 := by
  induction toks with
  | nil => intro s f hi; exact hi
  | cons tok rest ih =>
    intro s f hi
    unfold createBatches
    simp only
    have h1 := buildOne_inv s f tok time hi
    split
    · exact h1
    · exact ih _ _ h1

theorem applyClaim_inv (s : St) (f : Fault) (c : Claim) (hi : Inv s) : Inv (applyClaim s f c).1 := by
  cases c with
  | executed tok nonce h => exact execBatch_inv s f tok nonce h hi
  | deposit tok amt r k => exact deposit_inv s f tok amt r k hi

theorem withObserved_inv (s : St) (n : Nat) (hi : Inv s) : Inv { s with lastObserved := n } := by
  constructor
  · exact hi.life
  · exact hi.fresh
  · exact hi.nodup
  · exact hi.escrow
  · exact hi.btok
  · exact hi.bkeys
  · exact hi.bfresh
  · exact hi.supply

theorem tally_inv (fuel : Nat) : ∀ (s : St) (f : Fault), Inv s → Inv (tally s f fuel).1 := by
  induction fuel with
  | zero => intro s f hi; exact hi
  | succ n ih =>
    intro s f hi
    unfold tally
    split
    · exact hi
    · simp only
      rename_i n c _
      have h1 := applyClaim_inv { s with lastObserved := n } f c (withObserved_inv s n hi)
      split
      · exact h1
      · exact ih _ _ h1

theorem applyEstimates_inv (ests : List (Nat × Nat × Nat)) :
    ∀ (s : St) (f : Fault), Inv s → Inv (applyEstimates s f ests).1 := by
  induction ests with
  | nil => intro s f hi; exact hi
  | cons e rest ih =>
    intro s f hi
    obtain ⟨tok, nonce, est⟩ := e
    unfold applyEstimates
    simp only
    exact ih _ _ (setEstimate_inv s f tok nonce est hi)

theorem timeouts_inv (now : Nat) (bs : List Batch) :
    ∀ (s : St) (f : Fault), Inv s → Inv (timeouts s f now bs).1 := by
  induction bs with
  | nil => intro s f hi; exact hi
  | cons b rest ih =>
    intro s f hi
    unfold timeouts
    split
    · simp only
      have h1 := cancelBatch_inv s f b.token b.nonce hi
      split
      · exact h1
      · exact ih _ _ h1
    · exact ih _ _ hi

theorem endBlock_inv (s : St) (f : Fault) (h now : Nat) (toks : List Nat) (ests : List (Nat × Nat × Nat))
    (hi : Inv s) : Inv (endBlock s f h now toks ests).1 := by
  unfold endBlock
  simp only
  generalize hc : (if h % 50 == 0 then createBatches s f now toks else (s, f, [])) = r1
  have h1 : Inv r1.1 := by
    rw [← hc]
    split
    · exact createBatches_inv now toks s f hi
    · exact hi
  exact timeouts_inv _ _ _ _ (applyEstimates_inv _ _ _ (tally_inv _ _ _ h1))

theorem config_inv (s : St) (tax : Nat → Option TaxCfg) (limit : Nat → Option LimitCfg)
    (claims : List (Nat × Claim)) (hi : Inv s) :
    Inv { s with tax := tax, limit := limit, claims := claims } := by
  constructor
  · exact hi.life
  · exact hi.fresh
  · exact hi.nodup
  · exact hi.escrow
  · exact hi.btok
  · exact hi.bkeys
  · exact hi.bfresh
  · exact hi.supply

end Lemmas

/-- every operation the chain can perform on the bridge, each with its own injected fault -/
inductive Op where
  | send (f : Fault) (u tok amt h : Nat)
  | cancel (f : Fault) (u id : Nat)
  | build (f : Fault) (tok time : Nat)
  | fund (u tok amt : Nat)
  | setTax (tok : Nat) (c : Option TaxCfg)
  | setLimit (tok : Nat) (c : Option LimitCfg)
  | claim (n : Nat) (c : Claim)
  | endBlock (f : Fault) (h now : Nat) (toks : List Nat) (ests : List (Nat × Nat × Nat))

def apply (s : St) : Op → St
  | .send f u tok amt h => (send s f u tok amt h).1
  | .cancel f u id => (cancel s f u id).1
  | .build f tok time => (buildOne s f tok time).1
  | .fund u tok amt => fund s u tok amt
  | .setTax tok c => { s with tax := updO s.tax tok c }
  | .setLimit tok c => { s with limit := updO s.limit tok c }
  | .claim n c => addClaim s n c
  | .endBlock f h now toks ests => (endBlock s f h now toks ests).1

def run (ops : List Op) : St := ops.foldl apply St.init

/-! ## Property theorems (C01) -/

/-- **reachable_inv.** The whole invariant holds in every reachable state, whatever faults
were injected along the way. -/
theorem reachable_inv (ops : List Op) : Inv (run ops) := by
  unfold run
  suffices h : ∀ s, Inv s → Inv (ops.foldl apply s) from h _ inv_init
  induction ops with
  | nil => intro s hi; exact hi
  | cons op rest ih =>
    intro s hi
    apply ih
    cases op with
    | send f u tok amt h => exact send_inv s f u tok amt h hi
    | cancel f u id => exact cancel_inv s f u id hi
    | build f tok time => exact buildOne_inv s f tok time hi
    | fund u tok amt => exact fund_inv s u tok amt hi
    | setTax tok c => exact config_inv s _ s.limit s.claims hi
    | setLimit tok c => exact config_inv s s.tax _ s.claims hi
    | claim n c =>
      simp only [apply, addClaim]
      split
      · exact hi
      · exact config_inv s s.tax s.limit _ hi
    | endBlock f h now toks ests => exact endBlock_inv s f h now toks ests hi

/-- **escrow_eq_pending.** For every token the escrow balance equals the sum of amount+tax over
the transfers waiting in the pool or inside an open batch. -/
theorem escrow_eq_pending (ops : List Op) (tok : Nat) :
    (run ops).escrow tok = owedTok tok ((run ops).pool ++ batched (run ops)) :=
  (reachable_inv ops).escrow tok

/-- **lifecycle_partition.** The accepted transfers are exactly (as a multiset, ids pairwise
distinct) the union of pool, open batches, refunded and burned: each is in exactly one place. -/
theorem lifecycle_partition (ops : List Op) :
    (run ops).accepted.Perm ((run ops).pool ++ batched (run ops) ++ (run ops).refunded ++ (run ops).burned) ∧
    (((run ops).pool ++ batched (run ops) ++ (run ops).refunded ++ (run ops).burned).map (·.id)).Nodup := by
  have hi := reachable_inv ops
  exact ⟨hi.life, (hi.life.map _).nodup_iff.mp hi.nodup⟩

/-- **supply_delta.** Total supply of a token = coins funded from outside + attested deposits
− (amount + tax) of burned transfers. -/
theorem supply_delta (ops : List Op) (tok : Nat) :
    (run ops).supply tok + owedTok tok (run ops).burned = (run ops).funded tok + (run ops).minted tok :=
  (reachable_inv ops).supply tok

/-- **failed_op_is_noop.** Any bridge operation that reports failure leaves the whole state
(pool, batches, balances, escrow, supply, counters, usage) exactly as it was — for every fault. -/
theorem failed_op_is_noop (s : St) (f : Fault) :
    (∀ u tok amt h, (send s f u tok amt h).2.2 = .rejected → (send s f u tok amt h).1 = s) ∧
    (∀ u id, (cancel s f u id).2.2 = .rejected → (cancel s f u id).1 = s) ∧
    (∀ tok time, (buildOne s f tok time).2.2 = .rejected → (buildOne s f tok time).1 = s) ∧
    (∀ tok nonce, (cancelBatch s f tok nonce).2.2 = .rejected → (cancelBatch s f tok nonce).1 = s) ∧
    (∀ tok nonce h, (execBatch s f tok nonce h).2.2 = .rejected → (execBatch s f tok nonce h).1 = s) ∧
    (∀ tok amt r k, (deposit s f tok amt r k).2.2 = .rejected → (deposit s f tok amt r k).1 = s) ∧
    (∀ tok nonce est, (setEstimate s f tok nonce est).2.2 = .rejected → (setEstimate s f tok nonce est).1 = s) := by
  refine ⟨?_, ?_, ?_, ?_, ?_, ?_, ?_⟩
  · intro u tok amt h
    unfold send
    split
    · intro _; rfl
    · split
      · intro _; rfl
      · simp only
        split
        · intro _; rfl
        · split
          · intro _; rfl
          · split
            · intro _; rfl
            · split
              · intro _; rfl
              · split
                · intro _; rfl
                · intro hc; simp at hc
  · intro u id
    unfold cancel
    split
    · intro _; rfl
    · split
      · intro _; rfl
      · split
        · intro _; rfl
        · simp only
          split
          · intro _; rfl
          · split
            · intro _; rfl
            · intro hc; simp at hc
  · intro tok time
    unfold buildOne
    simp only
    split
    · intro hc; simp at hc
    · split
      · intro _; rfl
      · split
        · intro _; rfl
        · split
          · intro _; rfl
          · intro hc; simp at hc
  · intro tok nonce
    unfold cancelBatch
    split
    · intro _; rfl
    · simp only
      split
      · intro _; rfl
      · intro hc; simp at hc
  · intro tok nonce h
    unfold execBatch
    split
    · intro _; rfl
    · split
      · intro _; rfl
      · simp only
        split
        · intro _; rfl
        · split
          · intro _; rfl
          · intro hc; simp at hc
  · intro tok amt r k
    unfold deposit depositToPool
    split
    · intro _; rfl
    · split
      · intro _; rfl
      · split
        · split
          · intro _; rfl
          · intro hc; simp at hc
        · split
          · split
            · intro _; rfl
            · intro hc; simp at hc
          · intro hc; simp at hc
  · intro tok nonce est
    unfold setEstimate
    split
    · intro _; rfl
    · split
      · intro _; rfl
      · simp only
        split
        · intro _; rfl
        · intro hc; simp at hc

/-- the keeper functions the model treats as all-or-nothing -/
def mustBeAtomic : List String := [
  "x/skyway/keeper.Keeper.BuildOutgoingTXBatch", "x/skyway/keeper.Keeper.CancelOutgoingTXBatch",
  "x/skyway/keeper.Keeper.OutgoingTxBatchExecuted", "x/skyway/keeper.Keeper.UpdateBatchGasEstimate",
  "x/skyway/keeper.Keeper.processAttestation" ]

/-- **bridge_mutators_atomic.** In the current source (table regenerated by the extractor on every
run) each of these functions opens a cached context, commits it only on success, and never hands
the OUTER context to a callee once the cached one exists — which is what `failed_op_is_noop`
assumes of them. Dropping the guard, committing unconditionally, or writing through the outer
context makes this `decide` fail. -/
theorem bridge_mutators_atomic :
    (mustBeAtomic.all fun f => Paloma.Gen.Atomicity.cachedFunctions.any fun c =>
      c.fn == f && c.conditionalCommit && c.outerContextUses.isEmpty) = true := by decide

/-- **ids_fresh.** A new transfer gets an id above every id ever accepted; a new batch a nonce
above every open batch's nonce. -/
theorem ids_fresh (ops : List Op) :
    (∀ t ∈ (run ops).accepted, t.id ≤ (run ops).lastTx) ∧
    (∀ b ∈ (run ops).batches, b.nonce ≤ (run ops).lastBatch) :=
  ⟨(reachable_inv ops).fresh, (reachable_inv ops).bfresh⟩

/-! ### non-vacuity: a concrete history with a send, a faulted build, a build, an execution -/
def demoOps : List Op :=
  [ .fund 1 1 1000, .setTax 1 (some { num := 1, den := 3, exempt := [] }),
    .send Fault.none 1 1 100 10, .send Fault.none 1 1 50 11,
    .build { target := tPick, nth := 1 } 1 1000,       -- injected relayer-selection failure
    .cancel Fault.none 1 2,
    .build Fault.none 1 1000,
    .claim 1 (.executed 1 1 5),
    .endBlock Fault.none 7 1001 [1] [] ]

example : (run demoOps).pool = [] ∧ (run demoOps).batches = [] ∧ (run demoOps).escrow 1 = 0 ∧
    (run demoOps).supply 1 = 1000 - 133 ∧ ((run demoOps).burned.map (·.id)) = [1] ∧
    ((run demoOps).refunded.map (·.id)) = [2] := by decide

end Paloma.Bridge
