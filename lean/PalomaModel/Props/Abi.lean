/-
ABI argument encoding (go-ethereum `abi.Arguments.Pack`) is injective on well-typed values.

Shared machinery for
* "the bytes validators sign depend on every value handed to the remote bridge contract"
  (x/evm/types/turnstone_abi.go `keccak256`, x/skyway/types/batch.go `GetCheckpoint`:
  signed bytes = keccak256(methodID ++ Arguments.Pack(args…))), and
* "a remote transaction's call data equals the encoding of exactly that message"
  (x/evm/types/eth_txable.go `VerifyAgainstTX`: `bytes.Equal(tx.Data(), contractABI.Pack(…))`).

Route: no decoder.  The encoding of every type is *prefix free* on well-typed values:
`encode τ v ++ x = encode τ w ++ y → v = w ∧ x = y`.  For a tuple the heads of both sides are
walked first (a static member is prefix free by induction, an offset word is 32 bytes on
both sides), which leaves the two tail areas, which are walked member by member again.
Injectivity is the case `x = y = []`.
-/
import PalomaModel.Model.Abi

namespace Paloma.Abi

/-! ## helper lemmas -/
section Lemmas

/-! ### big-endian words -/

theorem beBytes_length (k n : Nat) : (beBytes k n).length = k := by
  induction k generalizing n with
  | zero => rfl
  | succ k ih => simp [beBytes, ih]

/-- big-endian value of a byte string -/
def beNat (l : List UInt8) : Nat := l.foldl (fun acc b => acc * 256 + b.toNat) 0

theorem beNat_append_singleton (l : List UInt8) (b : UInt8) :
    beNat (l ++ [b]) = beNat l * 256 + b.toNat := by
  simp [beNat, List.foldl_append]

theorem beNat_beBytes (k n : Nat) : beNat (beBytes k n) = n % 256 ^ k := by
  induction k generalizing n with
  | zero => simp [beBytes, beNat, Nat.mod_one]
  | succ k ih =>
    rw [beBytes, beNat_append_singleton, ih]
    have h1 : (UInt8.ofNat (n % 256)).toNat = n % 256 := by
      simp [UInt8.toNat_ofNat']
    rw [h1, Nat.pow_succ, Nat.mul_comm (256 ^ k) 256, Nat.mod_mul]
    omega

theorem word_length (n : Nat) : (word n).length = 32 := beBytes_length 32 n

/-- 32-byte big-endian word round trip below 2^256 -/
theorem beNat_word (n : Nat) (h : n < W256) : beNat (word n) = n := by
  unfold word
  rw [beNat_beBytes]
  apply Nat.mod_eq_of_lt
  have : (256 : Nat) ^ 32 = W256 := by unfold W256; decide
  omega

theorem word_inj {n m : Nat} (hn : n < W256) (hm : m < W256) (h : word n = word m) : n = m := by
  have := congrArg beNat h
  rwa [beNat_word n hn, beNat_word m hm] at this

/-! ### prefix freeness -/

/-- `a` and `b` cannot be told apart by what follows them only if they are equal -/
def PF (a b : List UInt8) : Prop := ∀ x y, a ++ x = b ++ y → a = b ∧ x = y

theorem PF_of_length_eq {a b : List UInt8} (h : a.length = b.length) : PF a b :=
  fun _ _ e => List.append_inj e h

theorem word_PF (n m : Nat) : PF (word n) (word m) :=
  PF_of_length_eq (by rw [word_length, word_length])

theorem padLen_congr {n m : Nat} (h : n = m) : padLen n = padLen m := by rw [h]

theorem padRight_length (b : List UInt8) : (padRight b).length = b.length + padLen b.length := by
  simp [padRight]

/-- `bytes`: length word + padded data is prefix free and determines the data -/
theorem encBytes_pf {b c x y : List UInt8} (hb : b.length < W256) (hc : c.length < W256)
    (h : encBytes b ++ x = encBytes c ++ y) : b = c ∧ x = y := by
  unfold encBytes at h
  rw [List.append_assoc, List.append_assoc] at h
  obtain ⟨hw, hrest⟩ := word_PF _ _ _ _ h
  have hlen : b.length = c.length := word_inj hb hc hw
  have hpl : (padRight b).length = (padRight c).length := by
    rw [padRight_length, padRight_length, hlen]
  obtain ⟨hp, hxy⟩ := List.append_inj hrest hpl
  unfold padRight at hp
  exact ⟨(List.append_inj hp hlen).1, hxy⟩

/-! ### head / tail layout -/

/-- member lists of the same shape whose encodings are pairwise prefix free -/
def Compat : List Member → List Member → Prop
  | [], [] => True
  | (d, e) :: ms, (d', e') :: ms' => d = d' ∧ PF e e' ∧ Compat ms ms'
  | _, _ => False

/-- Walk the heads, then the tails.  Whatever the starting offsets are, equal
    `heads ++ X` force `X = Y`, and then equal `tails ++ x` force equal members. -/
theorem heads_tails_inj (ms : List Member) : ∀ (ms' : List Member), Compat ms ms' →
    ∀ (off off' : Nat) (X Y : List UInt8), heads ms off ++ X = heads ms' off' ++ Y →
      X = Y ∧ ∀ x y, tails ms ++ x = tails ms' ++ y → ms = ms' ∧ x = y := by
  induction ms with
  | nil =>
    intro ms' hc off off' X Y h
    cases ms' with
    | cons _ _ => simp [Compat] at hc
    | nil =>
      simp only [heads, List.nil_append] at h
      exact ⟨h, fun x y hxy => ⟨rfl, by simpa [tails] using hxy⟩⟩
  | cons m ms ih =>
    intro ms' hc off off' X Y h
    cases ms' with
    | nil => simp [Compat] at hc
    | cons m' ms' =>
      obtain ⟨d, e⟩ := m
      obtain ⟨d', e'⟩ := m'
      obtain ⟨hd, hpf, hc'⟩ := hc
      subst hd
      cases d with
      | true =>
        simp only [heads, List.append_assoc] at h
        obtain ⟨_, hrest⟩ := word_PF _ _ _ _ h
        obtain ⟨hXY, htl⟩ := ih ms' hc' _ _ X Y hrest
        refine ⟨hXY, fun x y hxy => ?_⟩
        simp only [tails, List.append_assoc] at hxy
        obtain ⟨he, hrest'⟩ := hpf _ _ hxy
        obtain ⟨hms, hxy'⟩ := htl x y hrest'
        exact ⟨by rw [he, hms], hxy'⟩
      | false =>
        simp only [heads, List.append_assoc] at h
        obtain ⟨he, hrest⟩ := hpf _ _ h
        obtain ⟨hXY, htl⟩ := ih ms' hc' _ _ X Y hrest
        refine ⟨hXY, fun x y hxy => ?_⟩
        simp only [tails] at hxy
        obtain ⟨hms, hxy'⟩ := htl x y hxy
        exact ⟨by rw [he, hms], hxy'⟩

theorem layout_pf {ms ms' : List Member} (hc : Compat ms ms') (off off' : Nat)
    {x y : List UInt8} (h : layout off ms ++ x = layout off' ms' ++ y) : ms = ms' ∧ x = y := by
  unfold layout at h
  rw [List.append_assoc, List.append_assoc] at h
  obtain ⟨h2, htl⟩ := heads_tails_inj ms ms' hc off off' _ _ h
  exact htl x y h2

/-! ### induction over types -/

/-- the statement proved by induction on the type -/
def PrefixFree (τ : Ty) : Prop :=
  ∀ v w x y, hasType τ v = true → hasType τ w = true →
    encode τ v ++ x = encode τ w ++ y → v = w ∧ x = y

theorem PrefixFree.pf {τ : Ty} (h : PrefixFree τ) {v w : V}
    (hv : hasType τ v = true) (hw : hasType τ w = true) : PF (encode τ v) (encode τ w) := by
  intro x y e
  obtain ⟨hvw, hxy⟩ := h v w x y hv hw e
  exact ⟨by rw [hvw], hxy⟩

theorem PrefixFree.inj {τ : Ty} (h : PrefixFree τ) {v w : V}
    (hv : hasType τ v = true) (hw : hasType τ w = true) (e : encode τ v = encode τ w) : v = w :=
  (h v w [] [] hv hw (by rw [e])).1

theorem wordTy_pf {τ : Ty} (bound : Nat) (hb : bound ≤ W256)
    (henc : ∀ n, encode τ (.word n) = word n)
    (hty : ∀ v, hasType τ v = true → ∃ n, v = .word n ∧ n < bound) : PrefixFree τ := by
  intro v w x y hv hw h
  obtain ⟨n, rfl, hn⟩ := hty v hv
  obtain ⟨m, rfl, hm⟩ := hty w hw
  rw [henc, henc] at h
  obtain ⟨hw', hxy⟩ := word_PF _ _ _ _ h
  have := word_inj (Nat.lt_of_lt_of_le hn hb) (Nat.lt_of_lt_of_le hm hb) hw'
  exact ⟨by rw [this], hxy⟩

/-- tuple members: same shape, pairwise prefix free, and jointly injective -/
theorem members_compat : ∀ (ts : List Ty), (∀ t ∈ ts, PrefixFree t) →
    ∀ vs ws, hasTypes ts vs = true → hasTypes ts ws = true →
      Compat (members ts vs) (members ts ws) ∧ (members ts vs = members ts ws → vs = ws)
  | [], _, [], [], _, _ => ⟨trivial, fun _ => rfl⟩
  | [], _, _ :: _, _, hv, _ => by simp [hasTypes] at hv
  | [], _, [], _ :: _, _, hw => by simp [hasTypes] at hw
  | _ :: _, _, [], _, hv, _ => by simp [hasTypes] at hv
  | _ :: _, _, _ :: _, [], _, hw => by simp [hasTypes] at hw
  | t :: ts, ih, v :: vs, w :: ws, hv, hw => by
    simp only [hasTypes, Bool.and_eq_true] at hv hw
    have pt := ih t (by simp)
    obtain ⟨hc, hinj⟩ := members_compat ts (fun t' ht' => ih t' (by simp [ht'])) vs ws hv.2 hw.2
    refine ⟨⟨rfl, pt.pf hv.1 hw.1, hc⟩, fun e => ?_⟩
    simp only [members, List.cons.injEq, Prod.mk.injEq, true_and] at e
    rw [pt.inj hv.1 hw.1 e.1, hinj e.2]

/-- array elements: same length, pairwise prefix free, and jointly injective -/
theorem elems_compat (t : Ty) (pt : PrefixFree t) : ∀ (vs ws : List V),
    vs.length = ws.length → vs.all (hasType t) = true → ws.all (hasType t) = true →
      Compat (vs.map fun v => (isDynamic t, encode t v)) (ws.map fun v => (isDynamic t, encode t v)) ∧
      ((vs.map fun v => (isDynamic t, encode t v)) = (ws.map fun v => (isDynamic t, encode t v)) →
        vs = ws)
  | [], [], _, _, _ => ⟨trivial, fun _ => rfl⟩
  | [], _ :: _, hl, _, _ => by simp at hl
  | _ :: _, [], hl, _, _ => by simp at hl
  | v :: vs, w :: ws, hl, hv, hw => by
    simp only [List.all_cons, Bool.and_eq_true] at hv hw
    obtain ⟨hc, hinj⟩ := elems_compat t pt vs ws (by simpa using hl) hv.2 hw.2
    refine ⟨⟨rfl, pt.pf hv.1 hw.1, hc⟩, fun e => ?_⟩
    simp only [List.map_cons, List.cons.injEq, Prod.mk.injEq, true_and] at e
    rw [pt.inj hv.1 hw.1 e.1, hinj e.2]

theorem bytes_prefixFree : PrefixFree .bytes := by
  intro v w x y hv hw h
  cases v <;> simp [hasType] at hv
  cases w <;> simp [hasType] at hw
  simp only [encode] at h
  obtain ⟨hb, hxy⟩ := encBytes_pf hv hw h
  exact ⟨by rw [hb], hxy⟩

theorem array_prefixFree (t : Ty) (pt : PrefixFree t) : PrefixFree (.array t) := by
  intro v w x y hv hw h
  cases v <;> simp [hasType] at hv
  cases w <;> simp [hasType] at hw
  rename_i vs ws
  simp only [encode, List.append_assoc] at h
  obtain ⟨hlenw, hrest⟩ := word_PF _ _ _ _ h
  have hlen : vs.length = ws.length := word_inj hv.1 hw.1 hlenw
  obtain ⟨hc, hinj⟩ := elems_compat t pt vs ws hlen
    (by simpa [List.all_eq_true] using hv.2) (by simpa [List.all_eq_true] using hw.2)
  obtain ⟨hms, hxy⟩ := layout_pf hc _ _ hrest
  exact ⟨by rw [hinj hms], hxy⟩

theorem tuple_prefixFree (ts : List Ty) (ih : ∀ t ∈ ts, PrefixFree t) : PrefixFree (.tuple ts) := by
  intro v w x y hv hw h
  cases v <;> simp [hasType] at hv
  cases w <;> simp [hasType] at hw
  rename_i vs ws
  simp only [encode] at h
  obtain ⟨hc, hinj⟩ := members_compat ts ih vs ws hv hw
  obtain ⟨hms, hxy⟩ := layout_pf hc _ _ h
  exact ⟨by rw [hinj hms], hxy⟩

theorem prefixFree_all (τ : Ty) : PrefixFree τ := by
  refine Ty.rec (motive_1 := PrefixFree) (motive_2 := fun ts => ∀ t ∈ ts, PrefixFree t)
    ?_ ?_ ?_ ?_ ?_ ?_ ?_ ?_ τ
  · exact wordTy_pf W256 (Nat.le_refl _) (fun _ => by simp [encode])
      (fun v hv => by cases v <;> simp [hasType] at hv; exact ⟨_, rfl, hv⟩)
  · exact wordTy_pf W160 (by unfold W160 W256; decide) (fun _ => by simp [encode])
      (fun v hv => by cases v <;> simp [hasType] at hv; exact ⟨_, rfl, hv⟩)
  · exact wordTy_pf W256 (Nat.le_refl _) (fun _ => by simp [encode])
      (fun v hv => by cases v <;> simp [hasType] at hv; exact ⟨_, rfl, hv⟩)
  · exact bytes_prefixFree
  · exact array_prefixFree
  · exact tuple_prefixFree
  · intro t ht; cases ht
  · intro t ts pt pts t' ht'
    rcases List.mem_cons.mp ht' with rfl | h
    · exact pt
    · exact pts t' h

/-! ### sizes: the head area of a tuple is `headsSize` long, so offsets point at the tails -/

/-- length of the head area of a member list -/
def headLen : List Member → Nat
  | [] => 0
  | (true, _) :: ms => 32 + headLen ms
  | (false, e) :: ms => e.length + headLen ms

theorem heads_length (ms : List Member) : ∀ off, (heads ms off).length = headLen ms := by
  induction ms with
  | nil => intro; rfl
  | cons m ms ih =>
    obtain ⟨d, e⟩ := m
    cases d <;> intro off <;> simp [heads, headLen, ih, word_length]

theorem heads_append (a b : List Member) : ∀ off,
    heads (a ++ b) off = heads a off ++ heads b (off + (tails a).length) := by
  induction a with
  | nil => intro; simp [heads, tails]
  | cons m a ih =>
    obtain ⟨d, e⟩ := m
    cases d <;> intro off <;> simp [heads, tails, ih, Nat.add_assoc]

theorem tails_append (a b : List Member) : tails (a ++ b) = tails a ++ tails b := by
  induction a with
  | nil => rfl
  | cons m a ih =>
    obtain ⟨d, e⟩ := m
    cases d <;> simp [tails, ih]

/-- In `layout off0 (pre ++ (dynamic e) :: post)` with `off0` the length of the head area,
    the head slot of the dynamic member (at position `headLen pre`) holds the word `o`, and
    the encoding from byte `o` on is exactly that member's encoding followed by the later tails. -/
theorem layout_offset (pre post : List Member) (e : List UInt8) (off0 : Nat)
    (hoff : off0 = headLen (pre ++ (true, e) :: post)) :
    ∃ o, ((layout off0 (pre ++ (true, e) :: post)).drop (headLen pre)).take 32 = word o ∧
         (layout off0 (pre ++ (true, e) :: post)).drop o = e ++ tails post := by
  refine ⟨off0 + (tails pre).length, ?_, ?_⟩
  · unfold layout
    rw [heads_append, List.append_assoc, List.drop_left' (heads_length pre off0)]
    simp only [heads, List.append_assoc]
    exact List.take_left' (word_length _)
  · unfold layout
    rw [tails_append, ← List.append_assoc]
    have : (heads (pre ++ (true, e) :: post) off0 ++ tails pre).length = off0 + (tails pre).length := by
      rw [List.length_append, heads_length, ← hoff]
    rw [List.drop_left' this]
    simp [tails]

theorem headSize_dynamic (t : Ty) (h : isDynamic t = true) : headSize t = 32 := by
  cases t <;> simp_all [isDynamic, headSize]

theorem static_all (τ : Ty) :
    ∀ v, isDynamic τ = false → hasType τ v = true → (encode τ v).length = headSize τ := by
  refine Ty.rec
    (motive_1 := fun τ => ∀ v, isDynamic τ = false → hasType τ v = true →
      (encode τ v).length = headSize τ)
    (motive_2 := fun ts => ∀ vs, anyDynamic ts = false → hasTypes ts vs = true →
      headLen (members ts vs) = headsSize ts ∧ tails (members ts vs) = [])
    ?_ ?_ ?_ ?_ ?_ ?_ ?_ ?_ τ
  · intro v _ hv; cases v <;> simp [hasType] at hv; simp [encode, headSize, word_length]
  · intro v _ hv; cases v <;> simp [hasType] at hv; simp [encode, headSize, word_length]
  · intro v _ hv; cases v <;> simp [hasType] at hv; simp [encode, headSize, word_length]
  · intro v hd; simp [isDynamic] at hd
  · intro t _ v hd; simp [isDynamic] at hd
  · intro ts ih v hd hv
    cases v <;> simp [hasType] at hv
    simp only [isDynamic] at hd
    obtain ⟨h1, h2⟩ := ih _ hd hv
    simp [encode, layout, heads_length, h1, h2, headSize, hd]
  · intro vs _ hv
    cases vs <;> simp [hasTypes] at hv
    simp [members, headLen, headsSize, tails]
  · intro t ts iht ihts vs hd hv
    cases vs with
    | nil => simp [hasTypes] at hv
    | cons v vs =>
      simp only [hasTypes, Bool.and_eq_true] at hv
      simp only [anyDynamic, Bool.or_eq_false_iff] at hd
      obtain ⟨h1, h2⟩ := ihts vs hd.2 hv.2
      have := iht v hd.1 hv.1
      simp [members, hd.1, headLen, tails, headsSize, h1, h2, this]

theorem members_headLen : ∀ (ts : List Ty) (vs : List V), hasTypes ts vs = true →
    headLen (members ts vs) = headsSize ts
  | [], [], _ => rfl
  | [], _ :: _, h => by simp [hasTypes] at h
  | _ :: _, [], h => by simp [hasTypes] at h
  | t :: ts, v :: vs, h => by
    simp only [hasTypes, Bool.and_eq_true] at h
    have ih := members_headLen ts vs h.2
    cases hd : isDynamic t
    · simp [members, hd, headLen, headsSize, ih, static_all t v hd h.1]
    · simp [members, hd, headLen, headsSize, ih, headSize_dynamic t hd]

theorem members_append : ∀ (ts ts' : List Ty) (vs vs' : List V), ts.length = vs.length →
    members (ts ++ ts') (vs ++ vs') = members ts vs ++ members ts' vs'
  | [], _, [], _, _ => rfl
  | [], _, _ :: _, _, h => by simp at h
  | _ :: _, _, [], _, h => by simp at h
  | t :: ts, ts', v :: vs, vs', h => by
    simp [members, members_append ts ts' vs vs' (by simpa using h)]

theorem hasTypes_append_left : ∀ (ts ts' : List Ty) (vs vs' : List V), ts.length = vs.length →
    hasTypes (ts ++ ts') (vs ++ vs') = true → hasTypes ts vs = true
  | [], _, [], _, _, _ => rfl
  | [], _, _ :: _, _, h, _ => by simp at h
  | _ :: _, _, [], _, h, _ => by simp at h
  | t :: ts, ts', v :: vs, vs', h, ht => by
    simp only [List.cons_append, hasTypes, Bool.and_eq_true] at ht ⊢
    exact ⟨ht.1, hasTypes_append_left ts ts' vs vs' (by simpa using h) ht.2⟩

theorem members_replicate (t : Ty) : ∀ (vs : List V),
    members (List.replicate vs.length t) vs = vs.map fun v => (isDynamic t, encode t v)
  | [] => rfl
  | v :: vs => by simp [List.replicate_succ, members, members_replicate t vs]

theorem headsSize_replicate (t : Ty) (n : Nat) : headsSize (List.replicate n t) = headSize t * n := by
  induction n with
  | zero => rfl
  | succ n ih => simp [List.replicate_succ, headsSize, ih, Nat.mul_succ, Nat.add_comm]

end Lemmas

/-! ## Property theorems (ABI) -/

/-- **encode_prefix_free.** For every type (arbitrary nesting of arrays and tuples) the
encodings of two well-typed values followed by anything agree only if the values agree
and what follows agrees: the encoding is self-delimiting. -/
theorem encode_prefix_free (τ : Ty) (v w : V) (x y : List UInt8)
    (hv : hasType τ v = true) (hw : hasType τ w = true)
    (h : encode τ v ++ x = encode τ w ++ y) : v = w ∧ x = y :=
  prefixFree_all τ v w x y hv hw h

/-- **encode_injective.** Two well-typed values of the same type with the same encoding
are the same value. -/
theorem encode_injective (τ : Ty) (v w : V)
    (hv : hasType τ v = true) (hw : hasType τ w = true)
    (h : encode τ v = encode τ w) : v = w :=
  (prefixFree_all τ).inj hv hw h

/-- **encodeArgs_injective.** `Arguments.Pack` is injective on well-typed argument lists:
the packed bytes determine every argument. -/
theorem encodeArgs_injective (ts : List Ty) (vs ws : List V)
    (hv : hasTypeArgs ts vs = true) (hw : hasTypeArgs ts ws = true)
    (h : encodeArgs ts vs = encodeArgs ts ws) : vs = ws := by
  have := encode_injective (.tuple ts) (.seq vs) (.seq ws) hv hw h
  injection this

/-- **calldata_injective.** Call data / signed pre-image `selector ++ Pack(args)` with the
same selector and the same argument types determines every argument. -/
theorem calldata_injective (sel : List UInt8) (ts : List Ty) (vs ws : List V)
    (hv : hasTypeArgs ts vs = true) (hw : hasTypeArgs ts ws = true)
    (h : sel ++ encodeArgs ts vs = sel ++ encodeArgs ts ws) : vs = ws :=
  encodeArgs_injective ts vs ws hv hw (List.append_cancel_left h)

/-- **encodeArgs_sensitive.** Changing any argument changes the packed bytes (and hence,
up to keccak collisions, the digest validators sign). -/
theorem encodeArgs_sensitive (sel : List UInt8) (ts : List Ty) (vs ws : List V)
    (hv : hasTypeArgs ts vs = true) (hw : hasTypeArgs ts ws = true) (hne : vs ≠ ws) :
    sel ++ encodeArgs ts vs ≠ sel ++ encodeArgs ts ws :=
  fun h => hne (calldata_injective sel ts vs ws hv hw h)

/-- **static_length.** A well-typed value of a static type encodes to exactly `headSize`
bytes (`getTypeSize`): the size of a head slot depends on the type only. -/
theorem static_length (τ : Ty) (v : V) (hd : isDynamic τ = false) (hv : hasType τ v = true) :
    (encode τ v).length = headSize τ := static_all τ v hd hv

/-- **tuple_head_length.** The head area of a well-typed argument list is `headsSize` bytes
long, which is the value the first offset starts from (`Σ getTypeSize`). -/
theorem tuple_head_length (ts : List Ty) (vs : List V) (off : Nat)
    (hty : hasTypeArgs ts vs = true) :
    (heads (members ts vs) off).length = headsSize ts := by
  rw [heads_length]
  exact members_headLen ts vs (by simpa [hasTypeArgs, hasType] using hty)

/-- **tuple_offset_points_to_member.** For a dynamic member at index `|tpre|` of a
well-typed argument list, the head slot at byte `headsSize tpre` holds an offset word `o`,
and the encoding from byte `o` on starts with the encoding of exactly that member:
offset of member i = size of all heads + sizes of the earlier tails, counted from the start
of the tuple encoding. -/
theorem tuple_offset_points_to_member (tpre tpost : List Ty) (t : Ty) (vpre vpost : List V) (v : V)
    (hlen : tpre.length = vpre.length) (hd : isDynamic t = true)
    (hty : hasTypeArgs (tpre ++ t :: tpost) (vpre ++ v :: vpost) = true) :
    ∃ o rest,
      ((encodeArgs (tpre ++ t :: tpost) (vpre ++ v :: vpost)).drop (headsSize tpre)).take 32 = word o ∧
      (encodeArgs (tpre ++ t :: tpost) (vpre ++ v :: vpost)).drop o = encode t v ++ rest := by
  unfold hasTypeArgs at hty
  simp only [hasType] at hty
  unfold encodeArgs
  simp only [encode]
  rw [members_append _ _ _ _ hlen]
  simp only [members, hd]
  have hoff := members_headLen _ _ hty
  rw [members_append _ _ _ _ hlen] at hoff
  simp only [members, hd] at hoff
  obtain ⟨o, h1, h2⟩ := layout_offset (members tpre vpre) (members tpost vpost) (encode t v) _ hoff.symm
  rw [members_headLen _ _ (hasTypes_append_left _ _ _ _ hlen hty)] at h1
  exact ⟨o, _, h1, h2⟩

/-- **array_is_length_then_tuple.** A slice encodes as its length word followed by the
encoding of the tuple of its elements (go-ethereum's `getTypeSize(elem) * len` starting
offset is the head size of that tuple). -/
theorem array_is_length_then_tuple (t : Ty) (vs : List V) :
    encode (.array t) (.seq vs) =
      word vs.length ++ encode (.tuple (List.replicate vs.length t)) (.seq vs) := by
  simp only [encode, members_replicate, headsSize_replicate]

/-- **word_bound_needed.** The range condition in `hasType` is necessary: `packNum` reduces
modulo 2^256, so without it two different numbers have the same word. -/
theorem word_bound_needed : encode .uint256 (.word 0) = encode .uint256 (.word W256) := by decide

/-! ### non-vacuity

Encodings are compared as numbers (`beNat`, plus the length for the leading zeros) with
hex literals.  The first two are the worked examples of the Solidity ABI specification
(`sam("dave", true, [1,2,3])`, `g([[1,2],[3]], ["one","two","three"])`, with `bool` read as
`uint256` and `string` as `bytes`); the others are argument lists of the repository with
the bytes produced by go-ethereum `Arguments.Pack` (golden cases of harness/abi_test.go). -/

set_option maxRecDepth 100000

example : hasTypeArgs [.bytes, .uint256, .array .uint256]
    [.bytes [0x64, 0x61, 0x76, 0x65], .word 1, .seq [.word 1, .word 2, .word 3]] = true := by decide
example :
    (encodeArgs [.bytes, .uint256, .array .uint256]
      [.bytes [0x64, 0x61, 0x76, 0x65], .word 1, .seq [.word 1, .word 2, .word 3]]).length = 288 ∧
    beNat (encodeArgs [.bytes, .uint256, .array .uint256]
      [.bytes [0x64, 0x61, 0x76, 0x65], .word 1, .seq [.word 1, .word 2, .word 3]]) =
      0x0000000000000000000000000000000000000000000000000000000000000060000000000000000000000000000000000000000000000000000000000000000100000000000000000000000000000000000000000000000000000000000000a0000000000000000000000000000000000000000000000000000000000000000464617665000000000000000000000000000000000000000000000000000000000000000000000000000000000000000000000000000000000000000000000003000000000000000000000000000000000000000000000000000000000000000100000000000000000000000000000000000000000000000000000000000000020000000000000000000000000000000000000000000000000000000000000003 := by decide

def ex_nested_ty : List Ty := [.array (.array .uint256), .array .bytes]
def ex_nested_val : List V :=
  [.seq [.seq [.word 1, .word 2], .seq [.word 3]],
   .seq [.bytes [0x6f, 0x6e, 0x65], .bytes [0x74, 0x77, 0x6f], .bytes [0x74, 0x68, 0x72, 0x65, 0x65]]]
example : hasTypeArgs ex_nested_ty ex_nested_val = true := by decide
example : (encodeArgs ex_nested_ty ex_nested_val).length = 640 ∧
    beNat (encodeArgs ex_nested_ty ex_nested_val) =
      0x000000000000000000000000000000000000000000000000000000000000004000000000000000000000000000000000000000000000000000000000000001400000000000000000000000000000000000000000000000000000000000000002000000000000000000000000000000000000000000000000000000000000004000000000000000000000000000000000000000000000000000000000000000a0000000000000000000000000000000000000000000000000000000000000000200000000000000000000000000000000000000000000000000000000000000010000000000000000000000000000000000000000000000000000000000000002000000000000000000000000000000000000000000000000000000000000000100000000000000000000000000000000000000000000000000000000000000030000000000000000000000000000000000000000000000000000000000000003000000000000000000000000000000000000000000000000000000000000006000000000000000000000000000000000000000000000000000000000000000a000000000000000000000000000000000000000000000000000000000000000e000000000000000000000000000000000000000000000000000000000000000036f6e650000000000000000000000000000000000000000000000000000000000000000000000000000000000000000000000000000000000000000000000000374776f000000000000000000000000000000000000000000000000000000000000000000000000000000000000000000000000000000000000000000000000057468726565000000000000000000000000000000000000000000000000000000 := by decide

/-- x/evm/types/turnstone_abi.go `Message_SubmitLogicCall.keccak256`: `((a,y),(u,u,u,h),u,h,u,a)` -/
def ex_logic_call_ty : List Ty :=
  [.tuple [.address, .bytes], .tuple [.uint256, .uint256, .uint256, .bytes32], .uint256, .bytes32, .uint256, .address]
def ex_logic_call_val : List V :=
  [.seq [.word 170, .bytes [0xde, 0xad, 0xbe, 0xef]], .seq [.word 1, .word 2, .word 3, .word 4], .word 9, .word 7, .word 100, .word 187]
example : hasTypeArgs ex_logic_call_ty ex_logic_call_val = true := by decide
example : (encodeArgs ex_logic_call_ty ex_logic_call_val).length = 416 ∧
    beNat (encodeArgs ex_logic_call_ty ex_logic_call_val) =
      0x0000000000000000000000000000000000000000000000000000000000000120000000000000000000000000000000000000000000000000000000000000000100000000000000000000000000000000000000000000000000000000000000020000000000000000000000000000000000000000000000000000000000000003000000000000000000000000000000000000000000000000000000000000000400000000000000000000000000000000000000000000000000000000000000090000000000000000000000000000000000000000000000000000000000000007000000000000000000000000000000000000000000000000000000000000006400000000000000000000000000000000000000000000000000000000000000bb00000000000000000000000000000000000000000000000000000000000000aa00000000000000000000000000000000000000000000000000000000000000400000000000000000000000000000000000000000000000000000000000000004deadbeef00000000000000000000000000000000000000000000000000000000 := by decide

/-- x/evm/types/turnstone_abi.go `Message_CompassHandover.keccak256`: `([(a,y)],u,a,u)` -/
def ex_compass_update_batch_ty : List Ty :=
  [.array (.tuple [.address, .bytes]), .uint256, .address, .uint256]
def ex_compass_update_batch_val : List V :=
  [.seq [.seq [.word 161, .bytes [0x01]], .seq [.word 162, .bytes []]], .word 5, .word 187, .word 300000]
example : hasTypeArgs ex_compass_update_batch_ty ex_compass_update_batch_val = true := by decide
example : (encodeArgs ex_compass_update_batch_ty ex_compass_update_batch_val).length = 448 ∧
    beNat (encodeArgs ex_compass_update_batch_ty ex_compass_update_batch_val) =
      0x0000000000000000000000000000000000000000000000000000000000000080000000000000000000000000000000000000000000000000000000000000000500000000000000000000000000000000000000000000000000000000000000bb00000000000000000000000000000000000000000000000000000000000493e00000000000000000000000000000000000000000000000000000000000000002000000000000000000000000000000000000000000000000000000000000004000000000000000000000000000000000000000000000000000000000000000c000000000000000000000000000000000000000000000000000000000000000a100000000000000000000000000000000000000000000000000000000000000400000000000000000000000000000000000000000000000000000000000000001010000000000000000000000000000000000000000000000000000000000000000000000000000000000000000000000000000000000000000000000000000a200000000000000000000000000000000000000000000000000000000000000400000000000000000000000000000000000000000000000000000000000000000 := by decide

/-- x/skyway/types/batch.go `GetCheckpoint`: `(a,([a],[u]),u,h,u,a,u)` -/
def ex_batch_call_ty : List Ty :=
  [.address, .tuple [.array .address, .array .uint256], .uint256, .bytes32, .uint256, .address, .uint256]
def ex_batch_call_val : List V :=
  [.word 204, .seq [.seq [.word 161, .word 162], .seq [.word 5, .word 6]], .word 1, .word 7, .word 2, .word 187, .word 3]
example : hasTypeArgs ex_batch_call_ty ex_batch_call_val = true := by decide
example : (encodeArgs ex_batch_call_ty ex_batch_call_val).length = 480 ∧
    beNat (encodeArgs ex_batch_call_ty ex_batch_call_val) =
      0x00000000000000000000000000000000000000000000000000000000000000cc00000000000000000000000000000000000000000000000000000000000000e000000000000000000000000000000000000000000000000000000000000000010000000000000000000000000000000000000000000000000000000000000007000000000000000000000000000000000000000000000000000000000000000200000000000000000000000000000000000000000000000000000000000000bb0000000000000000000000000000000000000000000000000000000000000003000000000000000000000000000000000000000000000000000000000000004000000000000000000000000000000000000000000000000000000000000000a0000000000000000000000000000000000000000000000000000000000000000200000000000000000000000000000000000000000000000000000000000000a100000000000000000000000000000000000000000000000000000000000000a2000000000000000000000000000000000000000000000000000000000000000200000000000000000000000000000000000000000000000000000000000000050000000000000000000000000000000000000000000000000000000000000006 := by decide

/-- x/evm/types/eth_txable.go `SubmitLogicCall.VerifyAgainstTX` (consensus, args, fees, id, deadline, relayer): `((([a],[u],u),[(u,u,u)]),(a,y),(u,u,u,h),u,u,a)` -/
def ex_submit_logic_call_ty : List Ty :=
  [.tuple [.tuple [.array .address, .array .uint256, .uint256], .array (.tuple [.uint256, .uint256, .uint256])], .tuple [.address, .bytes], .tuple [.uint256, .uint256, .uint256, .bytes32], .uint256, .uint256, .address]
def ex_submit_logic_call_val : List V :=
  [.seq [.seq [.seq [.word 161, .word 162], .seq [.word 10, .word 20], .word 7], .seq [.seq [.word 27, .word 1, .word 2], .seq [.word 28, .word 3, .word 4]]], .seq [.word 170, .bytes [0xde, 0xad, 0xbe, 0xef]], .seq [.word 1, .word 2, .word 3, .word 4], .word 5, .word 6, .word 187]
example : hasTypeArgs ex_submit_logic_call_ty ex_submit_logic_call_val = true := by decide
example : (encodeArgs ex_submit_logic_call_ty ex_submit_logic_call_val).length = 992 ∧
    beNat (encodeArgs ex_submit_logic_call_ty ex_submit_logic_call_val) =
      0x0000000000000000000000000000000000000000000000000000000000000120000000000000000000000000000000000000000000000000000000000000036000000000000000000000000000000000000000000000000000000000000000010000000000000000000000000000000000000000000000000000000000000002000000000000000000000000000000000000000000000000000000000000000300000000000000000000000000000000000000000000000000000000000000040000000000000000000000000000000000000000000000000000000000000005000000000000000000000000000000000000000000000000000000000000000600000000000000000000000000000000000000000000000000000000000000bb00000000000000000000000000000000000000000000000000000000000000400000000000000000000000000000000000000000000000000000000000000160000000000000000000000000000000000000000000000000000000000000006000000000000000000000000000000000000000000000000000000000000000c00000000000000000000000000000000000000000000000000000000000000007000000000000000000000000000000000000000000000000000000000000000200000000000000000000000000000000000000000000000000000000000000a100000000000000000000000000000000000000000000000000000000000000a20000000000000000000000000000000000000000000000000000000000000002000000000000000000000000000000000000000000000000000000000000000a00000000000000000000000000000000000000000000000000000000000000140000000000000000000000000000000000000000000000000000000000000002000000000000000000000000000000000000000000000000000000000000001b00000000000000000000000000000000000000000000000000000000000000010000000000000000000000000000000000000000000000000000000000000002000000000000000000000000000000000000000000000000000000000000001c0000000000000000000000000000000000000000000000000000000000000003000000000000000000000000000000000000000000000000000000000000000400000000000000000000000000000000000000000000000000000000000000aa00000000000000000000000000000000000000000000000000000000000000400000000000000000000000000000000000000000000000000000000000000004deadbeef00000000000000000000000000000000000000000000000000000000 := by decide

/-- typing rejects out-of-range words and addresses, and shape mismatches -/
example : hasType .uint256 (.word W256) = false ∧ hasType .address (.word W160) = false ∧
    hasType .address (.word (W160 - 1)) = true ∧ hasType .bytes32 (.word (W256 - 1)) = true ∧
    hasType (.tuple [.uint256]) (.seq []) = false ∧ hasType (.array .uint256) (.seq []) = true ∧
    hasType .bytes (.word 0) = false := by decide

/-- `bytes` of length 31 / 32 / 33 occupy 64 / 64 / 96 bytes -/
example : (encode .bytes (.bytes (List.replicate 31 1))).length = 64 ∧
    (encode .bytes (.bytes (List.replicate 32 1))).length = 64 ∧
    (encode .bytes (.bytes (List.replicate 33 1))).length = 96 ∧
    (encode .bytes (.bytes [])).length = 32 := by decide

/-- trailing zero bytes are told apart by the length word only -/
example : encode .bytes (.bytes [1]) ≠ encode .bytes (.bytes [1, 0]) := by decide

end Paloma.Abi
