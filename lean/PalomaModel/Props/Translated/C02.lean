import PalomaModel.Props.Translated.Lemmas
import PalomaModel.Model.Oracle

set_option linter.unusedSimpArgs false

namespace Paloma.TranslatedTie
open Paloma.Gen
open Paloma

section Lemmas

/-- the decision the hit branch of the loop takes -/
def hit (lastNonce claimNonce : UInt64) (heightRefused eventFails : Bool) : Except Translated.AttOutcome Bool :=
  if claimNonce != lastNonce + 1 then .error (.error 3)
  else if heightRefused then .error (.error 2)
  else if eventFails then .error (.error 4)
  else .ok true

theorem loop_spec (ao : Bool) (tp : Int) (vs0 : List Nat) (power : Nat → Nat) (ln cn : UInt64) (hr ef : Bool) (req : Nat)
    (votes : List Nat) (acc : Nat) (l : UInt64) :
    (Translated.tryAttestation_loop1 ao tp vs0 (fun v => (power v : Int)) ln cn hr ef (req : Int) (acc : Int) l 0 false votes).map (·.2.2.2)
      = if Oracle.reaches power req votes acc then hit ln cn hr ef else .ok false := by
  induction votes generalizing acc l with
  | nil => simp [Translated.tryAttestation_loop1, Oracle.reaches, Except.map]
  | cons v vs ih =>
    simp only [Translated.tryAttestation_loop1, Oracle.reaches, Id.run]
    by_cases hgt : acc + power v > req
    · have hgt' : ((acc : Int) + (power v : Int) > (req : Int)) := by omega
      simp only [hgt, hgt', hit]
      by_cases h1 : (cn != ln + 1) = true
      · simp [h1, Except.map]
      · by_cases h2 : hr = true
        · simp [h1, h2, Except.map]
        · by_cases h3 : ef = true
          · simp [h1, h2, h3, Except.map]
          · simp [h1, h2, h3, Except.map]
    · have hgt' : ¬ ((acc : Int) + (power v : Int) > (req : Int)) := by omega
      simp only [hgt, hgt']
      have := ih (acc + power v) l
      rw [Int.natCast_add] at this
      simpa using this

end Lemmas

/-! ## Property theorems -/

theorem translated_TryAttestation : translated "x/skyway/keeper.Keeper.TryAttestation" = true := by decide

/-- reading of the translated outcome in the model's terms -/
def toTryRes : Translated.AttOutcome → Oracle.TryRes
  | .error 4 => .eventFailed
  | .error _ => .abort
  | .pending => .nothing
  | .observed => .observedOk

/-- C02 `TryAttestation`: the decision flow of the Go function as it stands — already observed ⇒ error; running sum of
    the voters' powers in vote order, strictly greater than `66 * total / 100` ⇒ the claim must be the next nonce, the
    remote height is recorded FIRST (a refusal leaves everything untouched), then the cursor moves, the attestation is
    marked observed and handed to the handler, and only then the event is emitted; otherwise pending — is the model's
    `tryAtt`, for every attestation, vote list, power table, total, cursor and fault.  (Store look-ups are assumed not to
    fail — their `return err` branches are translated but unreachable with `err = 0`; the state change itself, `observe`,
    is tied by the correspondence runs.) -/
theorem tryAttestation_eq (s : Oracle.St) (a : Oracle.Att) (power : Nat → Nat) (total : Nat) (ef : Oracle.EventFault)
    (hn : a.nonce < 2 ^ 64) (hl : s.lastObserved + 1 < 2 ^ 64) :
    toTryRes (Translated.tryAttestation a.observed (total : Int) a.votes (fun v => (power v : Int))
        (UInt64.ofNat s.lastObserved) (UInt64.ofNat a.nonce) (decide (s.lastEth > a.eth)) (ef a.nonce a.hash))
      = (Oracle.tryAtt s a power total ef).2 := by
  have hreq : Int.tdiv ((66 : Int) * (total : Int)) 100 = ((Oracle.requiredPower total : Nat) : Int) := by
    unfold Oracle.requiredPower Oracle.votesPowerThreshold Oracle.powerDivisor
    rw [Int.tdiv_eq_ediv_of_nonneg (by omega)]
    push_cast
    rfl
  have hne : (UInt64.ofNat a.nonce != UInt64.ofNat s.lastObserved + 1) = decide (a.nonce ≠ s.lastObserved + 1) := by
    have h1 : (UInt64.ofNat s.lastObserved + 1).toNat = s.lastObserved + 1 := by
      rw [UInt64.toNat_add]
      simp [UInt64.toNat_ofNat']
      omega
    have h2 : (UInt64.ofNat a.nonce).toNat = a.nonce := by
      simp [UInt64.toNat_ofNat', Nat.mod_eq_of_lt hn]
    by_cases h : a.nonce = s.lastObserved + 1
    · have : UInt64.ofNat a.nonce = UInt64.ofNat s.lastObserved + 1 := UInt64.toNat_inj.mp (by rw [h1, h2, h])
      simp [h, this]
    · have : UInt64.ofNat a.nonce ≠ UInt64.ofNat s.lastObserved + 1 := by
        intro he
        apply h
        rw [← h2, he, h1]
      simp [h, this]
  unfold Translated.tryAttestation Oracle.tryAtt
  by_cases hobs : a.observed = true
  · simp [hobs, Id.run, toTryRes]
  · have hobs' : a.observed = false := by simpa using hobs
    simp only [hobs', Id.run, hreq]
    have hs := loop_spec false (total : Int) a.votes power (UInt64.ofNat s.lastObserved) (UInt64.ofNat a.nonce)
      (decide (s.lastEth > a.eth)) (ef a.nonce a.hash) (Oracle.requiredPower total) a.votes 0 0
    simp only [Int.natCast_zero] at hs
    cases hloop : Translated.tryAttestation_loop1 false (total : Int) a.votes (fun v => (power v : Int)) (UInt64.ofNat s.lastObserved)
        (UInt64.ofNat a.nonce) (decide (s.lastEth > a.eth)) (ef a.nonce a.hash) ((Oracle.requiredPower total : Nat) : Int) 0 0 0 false a.votes with
    | error e =>
      rw [hloop] at hs
      by_cases hr : Oracle.reaches power (Oracle.requiredPower total) a.votes 0 = true
      · simp only [hr, ↓reduceIte, hit, hne, Except.map] at hs
        by_cases c1 : a.nonce ≠ s.lastObserved + 1
        · simp [c1] at hs
          subst hs
          simp [hr, c1, toTryRes]
        · by_cases c2 : s.lastEth > a.eth
          · simp [c1, c2] at hs
            subst hs
            simp [hr, c1, c2, toTryRes]
          · by_cases c3 : ef a.nonce a.hash = true
            · simp [c1, c2, c3] at hs
              subst hs
              simp [hr, c1, c2, c3, toTryRes]
            · simp [c1, c2, c3] at hs
      · simp [hr, Except.map] at hs
    | ok t =>
      rw [hloop] at hs
      obtain ⟨t1, t2, t3, t4⟩ := t
      by_cases hr : Oracle.reaches power (Oracle.requiredPower total) a.votes 0 = true
      · simp only [hr, ↓reduceIte, hit, hne, Except.map] at hs
        by_cases c1 : a.nonce ≠ s.lastObserved + 1
        · simp [c1] at hs
        · by_cases c2 : s.lastEth > a.eth
          · simp [c1, c2] at hs
          · by_cases c3 : ef a.nonce a.hash = true
            · simp [c1, c2, c3] at hs
            · simp [c1, c2, c3] at hs
              subst hs
              simp [hr, c1, c2, c3, toTryRes]
      · simp [hr, Except.map] at hs
        subst hs
        simp [hr, toTryRes]

theorem translated_Attest : translated "x/skyway/keeper.Keeper.Attest" = true := by decide

/-- C02 `Attest`: for a bonded validator whose claim message passed the stateless checks, the Go function accepts the
    vote exactly when the model's `vote` does (the claim is the validator's NEXT nonce and its remote height equals the
    stored claim's), and the vote list it stores is the model's `addVote` — the validator is appended unless it is
    already there, however often and in whatever order claims, nonce resets and catch-ups happen -/
theorem attest_eq (s : Oracle.St) (v n h eth : Nat) (applicable : Bool) (amount compass : Nat)
    (hn : n < 2 ^ 64) (hv : Oracle.lastNonceOf s v + 1 < 2 ^ 64) (he : eth < 2 ^ 64)
    (hs : ∀ a ∈ s.atts, a.eth < 2 ^ 64) :
    Translated.attest true v (UInt64.ofNat (Oracle.lastNonceOf s v)) (UInt64.ofNat n) (UInt64.ofNat eth)
        (Oracle.findAtt s.atts n h).isSome (((Oracle.findAtt s.atts n h).map (·.votes)).getD [])
        (UInt64.ofNat (((Oracle.findAtt s.atts n h).map (·.eth)).getD 0))
      = if (Oracle.vote s v n h eth applicable amount compass).2 = .ok
        then .voted (Oracle.addVote (Oracle.attFor s n h eth applicable amount compass).votes v)
        else if n ≠ Oracle.lastNonceOf s v + 1 then .rejected 2 else .rejected 5 := by
  have hne : (UInt64.ofNat n != UInt64.ofNat (Oracle.lastNonceOf s v) + 1) = decide (n ≠ Oracle.lastNonceOf s v + 1) := by
    have h1 : (UInt64.ofNat (Oracle.lastNonceOf s v) + 1).toNat = Oracle.lastNonceOf s v + 1 := by
      rw [UInt64.toNat_add]; simp [UInt64.toNat_ofNat']; omega
    have h2 : (UInt64.ofNat n).toNat = n := by simp [UInt64.toNat_ofNat', Nat.mod_eq_of_lt hn]
    by_cases hh : n = Oracle.lastNonceOf s v + 1
    · have : UInt64.ofNat n = UInt64.ofNat (Oracle.lastNonceOf s v) + 1 := UInt64.toNat_inj.mp (by rw [h1, h2, hh])
      simp [hh, this]
    · have : UInt64.ofNat n ≠ UInt64.ofNat (Oracle.lastNonceOf s v) + 1 := by
        intro hx; apply hh; rw [← h2, hx, h1]
      simp [hh, this]
  unfold Translated.attest Oracle.vote
  simp only [Id.run, hne]
  by_cases c1 : n ≠ Oracle.lastNonceOf s v + 1
  · simp [c1]
  · simp only [c1, decide_false, Bool.false_eq_true, ↓reduceIte, ne_eq, not_false_eq_true]
    cases hf : Oracle.findAtt s.atts n h with
    | none =>
      simp [Oracle.attFor, hf, Oracle.addVote, id_pure]
    | some a =>
      have ha : a.eth < 2 ^ 64 := hs a (by
        unfold Oracle.findAtt at hf
        exact List.mem_of_find?_eq_some hf)
      have heq : (UInt64.ofNat a.eth == UInt64.ofNat eth) = decide (a.eth = eth) := by
        by_cases hh : a.eth = eth
        · simp [hh]
        · have : UInt64.ofNat a.eth ≠ UInt64.ofNat eth := by
            intro hx
            apply hh
            have := congrArg UInt64.toNat hx
            simpa [UInt64.toNat_ofNat', Nat.mod_eq_of_lt ha, Nat.mod_eq_of_lt he] using this
          simp [hh, this]
      simp only [Oracle.attFor, hf, Option.isSome_some, Option.map_some, Option.getD_some, Bool.not_true,
        Bool.false_eq_true, ↓reduceIte, heq]
      by_cases c2 : a.eth = eth
      · by_cases c3 : v ∈ a.votes
        · simp [c2, c3, Oracle.addVote, id_pure]
        · simp [c2, c3, Oracle.addVote, id_pure]
      · simp [c2, id_pure]

/-! ### non-vacuity -/
example : Translated.attest true 7 4 5 100 true [3, 7] 100 = .voted [3, 7] := by decide           -- a second vote is not appended
example : Translated.attest true 8 4 5 100 true [3, 7] 100 = .voted [3, 7, 8] := by decide
example : Translated.attest true 8 4 6 100 true [3, 7] 100 = .rejected 2 := by decide              -- not the validator's next nonce
example : Translated.attest true 8 4 5 101 true [3, 7] 100 = .rejected 5 := by decide              -- another remote height
example : Translated.tryAttestation false 100 [1, 2] (fun v => if v = 1 then 30 else 37) 4 5 false false = .observed := by decide
example : Translated.tryAttestation false 100 [1, 2] (fun v => if v = 1 then 30 else 36) 4 5 false false = .pending := by decide
example : Translated.tryAttestation false 100 [1, 2] (fun v => if v = 1 then 30 else 37) 4 6 false false = .error 3 := by decide
example : Translated.tryAttestation false 100 [1, 2] (fun v => if v = 1 then 30 else 37) 4 5 true false = .error 2 := by decide

end Paloma.TranslatedTie
