import PalomaModel.Props.Translated.Lemmas
import PalomaModel.Model.Oracle

set_option linter.unusedSimpArgs false

namespace Paloma.TranslatedTie
open Paloma.Gen
open Paloma

section Lemmas

/-- the decision the hit branch of the loop takes -/
def hit (lastNonce claimNonce : UInt64) (heightRefused eventFails : Bool) : Except Translated.AttOutcome Bool :=
  if claimNonce != lastNonce + 1 then .error (.error 3)
  else if heightRefused then .error (.error 2)
  else if eventFails then .error (.error 4)
  else .ok true

theorem loop_spec (ao : Bool) (tp : Int) (vs0 : List Nat) (power : Nat → Nat) (ln cn : UInt64) (hr ef : Bool) (req : Nat)
    (votes : List Nat) (acc : Nat) (l : UInt64) :
    (Translated.tryAttestation_loop1 ao tp vs0 (fun v => (power v : Int)) ln cn hr ef (req : Int) (acc : Int) l 0 false votes).map (·.2.2.2)
      = if Oracle.reaches power req votes acc then hit ln cn hr ef else .ok false := by
  induction votes generalizing acc l with
  | nil => simp [Translated.tryAttestation_loop1, Oracle.reaches, Except.map]
  | cons v vs ih =>
    simp only [Translated.tryAttestation_loop1, Oracle.reaches, Id.run]
    by_cases hgt : acc + power v > req
    · have hgt' : ((acc : Int) + (power v : Int) > (req : Int)) := by omega
      simp only [hgt, hgt', hit]
      by_cases h1 : (cn != ln + 1) = true
      · simp [h1, Except.map]
      · by_cases h2 : hr = true
        · simp [h1, h2, Except.map]
        · by_cases h3 : ef = true
          · simp [h1, h2, h3, Except.map]
          · simp [h1, h2, h3, Except.map]
    · have hgt' : ¬ ((acc : Int) + (power v : Int) > (req : Int)) := by omega
      simp only [hgt, hgt']
      have := ih (acc + power v) l
      rw [Int.natCast_add] at this
      simpa using this

end Lemmas

/-! ## Property theorems -/

theorem translated_TryAttestation : translated "x/skyway/keeper.Keeper.TryAttestation" = true := by decide

/-- reading of the translated outcome in the model's terms -/
def toTryRes : Translated.AttOutcome → Oracle.TryRes
  | .error 4 => .eventFailed
  | .error _ => .abort
  | .pending => .nothing
  | .observed => .observedOk

/-- C02 `TryAttestation`: the decision flow of the Go function as it stands — already observed ⇒ error; running sum of
    the voters' powers in vote order, strictly greater than `66 * total / 100` ⇒ the claim must be the next nonce, the
    remote height is recorded FIRST (a refusal leaves everything untouched), then the cursor moves, the attestation is
    marked observed and handed to the handler, and only then the event is emitted; otherwise pending — is the model's
    `tryAtt`, for every attestation, vote list, power table, total, cursor and fault.  (Store look-ups are assumed not to
    fail — their `return err` branches are translated but unreachable with `err = 0`; the state change itself, `observe`,
    is tied by the correspondence runs.) -/
theorem tryAttestation_eq (s : Oracle.St) (a : Oracle.Att) (power : Nat → Nat) (total : Nat) (ef : Oracle.EventFault)
    (hn : a.nonce < 2 ^ 64) (hl : s.lastObserved + 1 < 2 ^ 64) :
    toTryRes (Translated.tryAttestation a.observed (total : Int) a.votes (fun v => (power v : Int))
        (UInt64.ofNat s.lastObserved) (UInt64.ofNat a.nonce) (decide (s.lastEth > a.eth)) (ef a.nonce a.hash))
      = (Oracle.tryAtt s a power total ef).2 := by
  have hreq : Int.tdiv ((66 : Int) * (total : Int)) 100 = ((Oracle.requiredPower total : Nat) : Int) := by
    unfold Oracle.requiredPower Oracle.votesPowerThreshold Oracle.powerDivisor
    rw [Int.tdiv_eq_ediv_of_nonneg (by omega)]
    push_cast
    rfl
  have hne : (UInt64.ofNat a.nonce != UInt64.ofNat s.lastObserved + 1) = decide (a.nonce ≠ s.lastObserved + 1) := by
    have h1 : (UInt64.ofNat s.lastObserved + 1).toNat = s.lastObserved + 1 := by
      rw [UInt64.toNat_add]
      simp [UInt64.toNat_ofNat']
      omega
    have h2 : (UInt64.ofNat a.nonce).toNat = a.nonce := by
      simp [UInt64.toNat_ofNat', Nat.mod_eq_of_lt hn]
    by_cases h : a.nonce = s.lastObserved + 1
    · have : UInt64.ofNat a.nonce = UInt64.ofNat s.lastObserved + 1 := UInt64.toNat_inj.mp (by rw [h1, h2, h])
      simp [h, this]
    · have : UInt64.ofNat a.nonce ≠ UInt64.ofNat s.lastObserved + 1 := by
        intro he
        apply h
        rw [← h2, he, h1]
      simp [h, this]
  unfold Translated.tryAttestation Oracle.tryAtt
  by_cases hobs : a.observed = true
  · simp [hobs, Id.run, toTryRes]
  · have hobs' : a.observed = false := by simpa using hobs
    simp only [hobs', Id.run, hreq]
    have hs := loop_spec false (total : Int) a.votes power (UInt64.ofNat s.lastObserved) (UInt64.ofNat a.nonce)
      (decide (s.lastEth > a.eth)) (ef a.nonce a.hash) (Oracle.requiredPower total) a.votes 0 0
    simp only [Int.natCast_zero] at hs
    cases hloop : Translated.tryAttestation_loop1 false (total : Int) a.votes (fun v => (power v : Int)) (UInt64.ofNat s.lastObserved)
        (UInt64.ofNat a.nonce) (decide (s.lastEth > a.eth)) (ef a.nonce a.hash) ((Oracle.requiredPower total : Nat) : Int) 0 0 0 false a.votes with
    | error e =>
      rw [hloop] at hs
      by_cases hr : Oracle.reaches power (Oracle.requiredPower total) a.votes 0 = true
      · simp only [hr, ↓reduceIte, hit, hne, Except.map] at hs
        by_cases c1 : a.nonce ≠ s.lastObserved + 1
        · simp [c1] at hs
          subst hs
          simp [hr, c1, toTryRes]
        · by_cases c2 : s.lastEth > a.eth
          · simp [c1, c2] at hs
            subst hs
            simp [hr, c1, c2, toTryRes]
          · by_cases c3 : ef a.nonce a.hash = true
            · simp [c1, c2, c3] at hs
              subst hs
              simp [hr, c1, c2, c3, toTryRes]
            · simp [c1, c2, c3] at hs
      · simp [hr, Except.map] at hs
    | ok t =>
      rw [hloop] at hs
      obtain ⟨t1, t2, t3, t4⟩ := t
      by_cases hr : Oracle.reaches power (Oracle.requiredPower total) a.votes 0 = true
      · simp only [hr, ↓reduceIte, hit, hne, Except.map] at hs
        by_cases c1 : a.nonce ≠ s.lastObserved + 1
        · simp [c1] at hs
        · by_cases c2 : s.lastEth > a.eth
          · simp [c1, c2] at hs
          · by_cases c3 : ef a.nonce a.hash = true
            · simp [c1, c2, c3] at hs
            · simp [c1, c2, c3] at hs
              subst hs
              simp [hr, c1, c2, c3, toTryRes]
      · simp [hr, Except.map] at hs
        subst hs
        simp [hr, toTryRes]

/-! ### non-vacuity -/
example : Translated.tryAttestation false 100 [1, 2] (fun v => if v = 1 then 30 else 37) 4 5 false false = .observed := by decide
example : Translated.tryAttestation false 100 [1, 2] (fun v => if v = 1 then 30 else 36) 4 5 false false = .pending := by decide
example : Translated.tryAttestation false 100 [1, 2] (fun v => if v = 1 then 30 else 37) 4 6 false false = .error 3 := by decide
example : Translated.tryAttestation false 100 [1, 2] (fun v => if v = 1 then 30 else 37) 4 5 true false = .error 2 := by decide

end Paloma.TranslatedTie
