/-
C16: the four privileged token factory handlers (`msgServer.Mint`, `Burn`, `ChangeAdmin`, `SetDenomMetadata`) and the
keeper functions `mintTo` / `burnFrom`, as translated from /repo's current source, decide as the model's `hMint`, `hBurn`,
`hChAdmin`, `hSetMeta` do — and carry a privileged action out only for the denomination's current admin, whatever the
bank, the address parser and the store return.
-/
import PalomaModel.Props.Translated.Lemmas
import PalomaModel.Model.TokenFactory

set_option linter.unusedSimpArgs false

namespace Paloma.TranslatedTie
open Paloma.Gen Paloma.TokenFactory

/-! ## Property theorems -/

theorem translated_tf_Mint : translated "x/tokenfactory/keeper.msgServer.Mint" = true := by decide
theorem translated_tf_Burn : translated "x/tokenfactory/keeper.msgServer.Burn" = true := by decide
theorem translated_tf_ChangeAdmin : translated "x/tokenfactory/keeper.msgServer.ChangeAdmin" = true := by decide
theorem translated_tf_SetDenomMetadata : translated "x/tokenfactory/keeper.msgServer.SetDenomMetadata" = true := by decide
theorem translated_tf_mintTo : translated "x/tokenfactory/keeper.Keeper.mintTo" = true := by decide
theorem translated_tf_burnFrom : translated "x/tokenfactory/keeper.Keeper.burnFrom" = true := by decide

/-- reading of a handler outcome in the model's terms -/
def toRes : Translated.TfOutcome → Res
  | .done => .ok
  | .rejected 3 => .rej .unauth
  | .rejected 4 => .rej .invDenom
  | .rejected 5 => .rej .funds
  | .rejected 8 => .rej .blocked
  | .rejected 10 => .rej .noDenom
  | .rejected _ => .rej .other

/-- C16, on the translated handlers, whatever the bank, the address parser and the store return: a privileged action is
    carried out only for the denomination's current admin -/
theorem mint_done_only_for_admin (e a : Bool) (c : Nat) (adm : Option Nat) (k : Nat)
    (h : Translated.tfMint e a c adm k = .done) : adm = some c := by
  simp only [Translated.tfMint, Id.run] at h
  by_cases h1 : e = true <;> by_cases h2 : a = true <;> by_cases h3 : some c = adm <;> simp_all

theorem burn_done_only_for_admin (a : Bool) (c : Nat) (adm : Option Nat) (k : Nat)
    (h : Translated.tfBurn a c adm k = .done) : adm = some c := by
  simp only [Translated.tfBurn, Id.run] at h
  by_cases h2 : a = true <;> by_cases h3 : some c = adm <;> simp_all

theorem changeAdmin_done_only_for_admin (a : Bool) (c : Nat) (adm : Option Nat) (k : Nat)
    (h : Translated.tfChangeAdmin a c adm k = .done) : adm = some c := by
  simp only [Translated.tfChangeAdmin, Id.run] at h
  by_cases h2 : a = true <;> by_cases h3 : some c = adm <;> simp_all

theorem setDenomMetadata_done_only_for_admin (m a : Bool) (c : Nat) (adm : Option Nat)
    (h : Translated.tfSetDenomMetadata m a c adm = .done) : adm = some c := by
  simp only [Translated.tfSetDenomMetadata, Id.run] at h
  by_cases h1 : m = true <;> by_cases h2 : a = true <;> by_cases h3 : some c = adm <;> simp_all

/-- C16 `msgServer.Mint` + `mintTo`: the translated decision is the model's `hMint` (no supply overflow: that is a panic
    of the bank, which a return code cannot express) -/
theorem tfMint_eq (st : St) (c : Addr) (d : Denom) (n : Nat) (hov : st.supply d + n < maxInt) :
    toRes (Translated.tfMint (st.dmeta d).isSome false c (st.admin d)
        (Translated.tfMintTo (deconstruct d).isNone 0 false (if blocked c then 8 else 0))) = (hMint st c d n).2 := by
  have hov' : ¬ st.supply d + n ≥ maxInt := by omega
  simp only [Translated.tfMint, Translated.tfMintTo, Id.run, hMint]
  cases hm : st.dmeta d <;> simp [toRes]
  by_cases ha : st.admin d = some c
  · simp [ha]
    cases hd : deconstruct d <;> simp [toRes, hov']
    cases blocked c <;> simp [toRes]
  · have : ¬ some c = st.admin d := fun h => ha h.symm
    simp [ha, this, toRes]

/-- C16 `msgServer.Burn` + `burnFrom` -/
theorem tfBurn_eq (st : St) (c : Addr) (d : Denom) (n : Nat) (hs : n ≤ st.supply d) :
    toRes (Translated.tfBurn false c (st.admin d)
        (Translated.tfBurnFrom (deconstruct d).isNone false (if st.bal c d < n then 5 else 0) 0)) = (hBurn st c d n).2 := by
  have hs' : ¬ st.supply d < n := by omega
  simp only [Translated.tfBurn, Translated.tfBurnFrom, Id.run, hBurn]
  by_cases ha : st.admin d = some c
  · simp [ha]
    cases hd : deconstruct d <;> simp [toRes]
    by_cases hb : st.bal c d < n
    · have : ¬ n ≤ st.bal c d := by omega
      simp [hb, this, toRes]
    · have : n ≤ st.bal c d := by omega
      simp [hb, hs', this, toRes]
  · have : ¬ some c = st.admin d := fun h => ha h.symm
    simp [ha, this, toRes]

/-- C16 `msgServer.ChangeAdmin` (+ `setAdmin`, which fails exactly on an address that does not parse) -/
theorem tfChangeAdmin_eq (st : St) (c : Addr) (d : Denom) (new : AddrArg) :
    toRes (Translated.tfChangeAdmin false c (st.admin d) (match new with | .bad => 9 | _ => 0)) = (hChAdmin st c d new).2 := by
  simp only [Translated.tfChangeAdmin, Id.run, hChAdmin]
  by_cases ha : st.admin d = some c
  · cases new <;> simp [ha, toRes]
  · have : ¬ some c = st.admin d := fun h => ha h.symm
    simp [ha, this, toRes]

/-- C16 `msgServer.SetDenomMetadata` -/
theorem tfSetDenomMetadata_eq (st : St) (c : Addr) (d : Denom) (mdOk : Bool) (tag : Nat) :
    toRes (Translated.tfSetDenomMetadata (!(mdOk && validDenom d)) false c (st.admin d)) = (hSetMeta st c d mdOk tag).2 := by
  simp only [Translated.tfSetDenomMetadata, Id.run, hSetMeta]
  by_cases hv : (mdOk && validDenom d) = true
  · by_cases ha : st.admin d = some c
    · simp [hv, ha, toRes]
    · have : ¬ some c = st.admin d := fun h => ha h.symm
      simp [hv, ha, this, toRes]
  · simp [hv, toRes]

/-- non-vacuity: the admin mints, a stranger does not, a missing denomination is refused first -/
example : Translated.tfMint true false 7 (some 7) 0 = .done := by decide
example : Translated.tfMint true false 8 (some 7) 0 = .rejected 3 := by decide
example : Translated.tfMint false false 7 (some 7) 0 = .rejected 10 := by decide
example : Translated.tfBurn false 7 none 0 = .rejected 3 := by decide

end Paloma.TranslatedTie
