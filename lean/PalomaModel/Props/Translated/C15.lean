import PalomaModel.Props.Translated.Lemmas
import PalomaModel.Model.Bridge

set_option linter.unusedSimpArgs false

namespace Paloma.TranslatedTie
open Paloma.Gen
open Paloma

/-! ## Property theorems -/

theorem translated_bridgeTaxAmount : translated "x/skyway/keeper.Keeper.bridgeTaxAmount" = true := by decide

theorem translated_UpdateBridgeTransferUsageWithLimit : translated "x/skyway/keeper.Keeper.UpdateBridgeTransferUsageWithLimit" = true := by decide

theorem translated_BlockLimit : translated "x/skyway/types.BridgeTransferLimit.BlockLimit" = true := by decide

/-- C15 `BlockLimit`: the window lengths per period (the harness hands the model these numbers) -/
theorem blockLimit_eq (p : Int) :
    Translated.blockLimit p =
      if p = 1 then 57600 else if p = 2 then 403200 else if p = 3 then 1728000 else if p = 4 then 21024000 else 0 := by
  simp only [Translated.blockLimit, Id.run]
  by_cases h1 : p = 1 <;> by_cases h2 : p = 2 <;> by_cases h3 : p = 3 <;> by_cases h4 : p = 4 <;> simp_all [id_pure]

/-- C15 `bridgeTaxAmount`: with a stored setting (or none) and no store failure, the Go function returns the model's
    `taxOf` — `floor(amount * num / den)`, 0 for a zero rate, an exempt sender or no setting (numerator / denominator are
    the `big.Rat` parts of the configured rate string; parsing is validated by correspondence) -/
theorem bridgeTaxAmount_eq (cfg : Option Bridge.TaxCfg) (sender amt : Nat) :
    Translated.bridgeTaxAmount cfg.isSome false ((cfg.map (·.num)).getD 0) ((cfg.map (·.den)).getD 0)
        ((cfg.map (·.exempt)).getD []) sender amt = some ((Bridge.taxOf cfg sender amt : Nat) : Int) := by
  cases cfg with
  | none => simp [Translated.bridgeTaxAmount, Bridge.taxOf, Id.run]
  | some c =>
    simp only [Translated.bridgeTaxAmount, Bridge.taxOf, Id.run, Option.isSome_some, Option.map_some, Option.getD_some]
    by_cases hn : c.num = 0
    · simp [hn]
    · have hn' : ((c.num : Int) == 0) = false := by simp; omega
      have hn'' : (c.num == 0) = false := by simp [hn]
      simp only [Bool.not_true, Bool.false_eq_true, ↓reduceIte, hn', hn'']
      cases hf : c.exempt.find? (fun a => sender == a) with
      | some a =>
        have : c.exempt.contains sender = true := by
          rw [← find_some_iff_contains, hf]; rfl
        have hm : sender ∈ c.exempt := by simpa using this
        simp [hm]
      | none =>
        have : c.exempt.contains sender = false := by
          rw [← find_some_iff_contains, hf]; rfl
        have hm : ¬ sender ∈ c.exempt := by simpa using this
        have hnn : (0 : Int) ≤ (amt : Int) * (c.num : Int) := Int.mul_nonneg (Int.natCast_nonneg _) (Int.natCast_nonneg _)
        simp only [this, Bool.false_eq_true, ↓reduceIte, id_pure, Int.tdiv_eq_ediv_of_nonneg hnn]
        congr 1

/-- reading of a translated outcome in the model's terms -/
def toModel (o : Translated.UsageOutcome) (u : Option Bridge.Usage) : Option (Option Bridge.Usage) :=
  match o with
  | .unchanged => some u
  | .error => none
  | .rejected => none
  | .saved t s => some (some { start := s.toNat, total := t.toNat })

/-- C15 `UpdateBridgeTransferUsageWithLimit`: the Go function's decision (nothing to do / refuse / persist this usage
    record) is the model's `limitStep` for every limit setting, stored usage, sender, amount and height — window
    roll-over `h - start ≥ period`, running total, comparison with the limit BEFORE persisting -/
theorem updateUsage_eq (lim : Option Bridge.LimitCfg) (usage : Option Bridge.Usage) (sender amt h : Nat) :
    toModel (Translated.updateUsage lim.isSome false false ((lim.map (·.exempt)).getD []) sender
        ((lim.map (·.period)).getD 0) ((lim.map (·.limit)).getD 0) usage.isNone
        ((usage.map (·.start)).getD 0) ((usage.map (·.total)).getD 0) h amt) usage
      = Bridge.limitStep lim usage sender amt h := by
  cases lim with
  | none => simp [Translated.updateUsage, Bridge.limitStep, Id.run, toModel]
  | some l =>
    simp only [Translated.updateUsage, Bridge.limitStep, Id.run, Option.isSome_some, Option.map_some, Option.getD_some]
    cases hf : l.exempt.find? (fun a => sender == a) with
    | some a =>
      have : l.exempt.contains sender = true := by rw [← find_some_iff_contains, hf]; rfl
      have hm : sender ∈ l.exempt := by simpa using this
      simp [hm, toModel]
    | none =>
      have hc : l.exempt.contains sender = false := by rw [← find_some_iff_contains, hf]; rfl
      have hm : ¬ sender ∈ l.exempt := by simpa using hc
      by_cases hp : l.period = 0
      · simp [hc, hp, toModel]
      · have hp' : ((l.period : Int) == 0) = false := by simp; omega
        have hp'' : (l.period == 0) = false := by simp [hp]
        cases usage with
        | none =>
          simp only [hc, hp', hp'', Bool.not_true, Bool.false_eq_true, ↓reduceIte, id_pure, Option.isNone_none, Bool.true_or]
          by_cases hl : amt > l.limit
          · have : (amt : Int) > (l.limit : Int) := by omega
            simp [hl, this, toModel]
          · have : ¬ (amt : Int) > (l.limit : Int) := by omega
            simp [hl, this, toModel]
        | some u =>
          simp only [hc, hp', hp'', Bool.not_true, Bool.false_eq_true, ↓reduceIte, id_pure, Option.isNone_some, Bool.false_or,
            Option.map_some, Option.getD_some]
          by_cases hw : h - u.start ≥ l.period
          · have hw' : (h : Int) - (u.start : Int) ≥ (l.period : Int) := by omega
            by_cases hl : amt > l.limit
            · have : (amt : Int) > (l.limit : Int) := by omega
              simp [hw, hw', hl, this, toModel]
            · have : ¬ (amt : Int) > (l.limit : Int) := by omega
              simp [hw, hw', hl, this, toModel]
          · have hw' : ¬ (h : Int) - (u.start : Int) ≥ (l.period : Int) := by omega
            by_cases hl : u.total + amt > l.limit
            · have : (u.total : Int) + (amt : Int) > (l.limit : Int) := by omega
              simp [hw, hw', hl, this, toModel]
            · have : ¬ (u.total : Int) + (amt : Int) > (l.limit : Int) := by omega
              simp [hw, hw', hl, this, toModel]
              omega

end Paloma.TranslatedTie
