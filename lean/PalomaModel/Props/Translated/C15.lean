import PalomaModel.Props.Translated.Lemmas

set_option linter.unusedSimpArgs false

namespace Paloma.TranslatedTie
open Paloma.Gen

/-! ## Property theorems -/

theorem translated_BlockLimit : translated "x/skyway/types.BridgeTransferLimit.BlockLimit" = true := by decide

/-- C15 `BlockLimit`: the window lengths per period (the harness hands the model these numbers) -/
theorem blockLimit_eq (p : Int) :
    Translated.blockLimit p =
      if p = 1 then 57600 else if p = 2 then 403200 else if p = 3 then 1728000 else if p = 4 then 21024000 else 0 := by
  simp only [Translated.blockLimit, Id.run]
  by_cases h1 : p = 1 <;> by_cases h2 : p = 2 <;> by_cases h3 : p = 3 <;> by_cases h4 : p = 4 <;> simp_all [id_pure]

end Paloma.TranslatedTie
