/-
C06 / C04: `consensus.Queue.AddSignature`, `AddGasEstimate`, `SetElectedGasEstimate`, as translated from /repo's current
source, decide as the queue model does: duplicates (key first, then validator) are refused before the signature is verified,
only a signature that verifies against the message's current bytes is stored, one estimate per validator, an elected estimate
is never replaced.
-/
import PalomaModel.Props.Translated.Lemmas
import PalomaModel.Model.Queue

set_option linter.unusedSimpArgs false
set_option linter.unusedVariables false

namespace Paloma.TranslatedTie
open Paloma.Gen Paloma.Gen.Translated Paloma.Queue

/-! ## Property theorems -/

theorem translated_AddSignature : translated "x/consensus/keeper/consensus.Queue.AddSignature" = true := by decide
theorem translated_AddGasEstimate : translated "x/consensus/keeper/consensus.Queue.AddGasEstimate" = true := by decide
theorem translated_SetElectedGasEstimate : translated "x/consensus/keeper/consensus.Queue.SetElectedGasEstimate" = true := by decide

/-- the stored signatures as the loop of `AddSignature` reads them: (key, validator) -/
def sigPairs (l : List Sig) : List (Nat × Nat) := l.map fun s => (s.key, s.val)

/-- C06: the duplicate loop of `AddSignature` is the model's `dupCheck` — per stored signature the key is compared first,
    then the validator -/
theorem addSignature_loop_eq (mf : Bool) (ex : List (Nat × Nat)) (bf vf sf : Bool) (sigs : List Sig) (key val : Nat) :
    addSignature_loop1 mf ex key val bf vf sf (sigPairs sigs)
      = match dupCheck sigs key val with
        | some .dupKey => .error .dupKey
        | some _ => .error .dupVal
        | none => .ok () := by
  induction sigs with
  | nil => simp [sigPairs, addSignature_loop1, dupCheck]
  | cons s rest ih =>
    simp only [sigPairs, List.map_cons, addSignature_loop1, dupCheck, Id.run]
    by_cases hk : s.key = key
    · simp [hk]
    · by_cases hv : s.val = val
      · subst hv
        simp [hk]
      · have hv' : ¬ val = s.val := fun e => hv e.symm
        simp only [sigPairs] at ih
        simp [hk, hv, hv', ih]

theorem dupCheck_some (sigs : List Sig) (key val : Nat) (r : SignRes) (hd : dupCheck sigs key val = some r) :
    r = .dupKey ∨ r = .dupVal := by
  induction sigs with
  | nil => simp [dupCheck] at hd
  | cons x xs ih =>
    simp only [dupCheck] at hd
    by_cases h1 : (x.key == key) = true
    · simp [h1] at hd; exact Or.inl hd.symm
    · by_cases h2 : (x.val == val) = true
      · simp [h1, h2] at hd; exact Or.inr hd.symm
      · simp [h1, h2] at hd; exact ih hd

/-- reading of the translated outcome as the model's `SignRes` -/
def toSignRes : QueueOutcome → SignRes
  | .saved => .ok
  | .dupKey => .dupKey
  | .dupVal => .dupVal
  | .badSig => .badSig
  | _ => .notFound

/-- C06 `Queue.AddSignature` (message present, bytes available, store working): the verdict is the model's `signWith` after
    the key look-up — duplicates refused before the signature is even verified, an invalid signature never stored -/
theorem addSignature_eq (vf : Wire → Nat → Nat → SignBytes → SignBytes → Bool) (s : State) (id val addr by_ : Nat)
    (for_ : SignBytes) (w : Wire) (key : Nat) (it : Item)
    (hk : signingKey s.regs val addr = some key) (hi : getItem s.queue id = some it) :
    toSignRes (addSignature true (sigPairs it.sigs) key val false (vf w key by_ for_ (bytesOf it)) false)
      = (signWith vf s id val addr by_ for_ w).2 := by
  simp only [addSignature, Id.run, signWith, hk, hi, addSignature_loop_eq]
  cases hd : dupCheck it.sigs key val with
  | none =>
    cases hv : vf w key by_ for_ (bytesOf it) <;> simp [hv, toSignRes]
  | some r =>
    have : r = .dupKey ∨ r = .dupVal := dupCheck_some _ _ _ _ hd
    rcases this with rfl | rfl <;> simp [toSignRes]

/-- C06, whatever the collaborators return: a signature is stored only if it verified against the message's current signing
    bytes and neither its key nor its validator is on the message already -/
theorem addSignature_saved_requires (mf : Bool) (sigs : List Sig) (key val : Nat) (bf vf sf : Bool)
    (h : addSignature mf (sigPairs sigs) key val bf vf sf = .saved) :
    mf = true ∧ dupCheck sigs key val = none ∧ bf = false ∧ vf = true ∧ sf = false := by
  simp only [addSignature, Id.run, addSignature_loop_eq] at h
  cases mf <;> try simp at h
  cases hd : dupCheck sigs key val with
  | some r => cases r <;> simp [hd] at h
  | none =>
    simp [hd] at h
    cases bf <;> cases vf <;> cases sf <;> simp_all

/-- C04 `Queue.AddGasEstimate`: one estimate per validator, only for messages that take estimates -/
theorem addGasEstimate_eq (s : State) (id val value : Nat) (it : Item) (hi : getItem s.queue id = some it) (hv : value ≠ 0) :
    (addGasEstimate true it.reqEst (it.estimates.map (·.1)) val false = .saved) ↔ (addEstimate s id val value).2 = true := by
  have hv' : (value == 0) = false := by simp [hv]
  simp only [addGasEstimate, Id.run, addEstimate, hi, hv']
  cases hr : it.reqEst
  · simp
  · cases hf : (it.estimates.map (·.1)).find? (fun v => val == v) with
    | none =>
      have : it.estimates.any (fun e => e.1 == val) = false := by
        rw [List.any_eq_false]
        intro e he
        have := List.find?_eq_none.mp hf e.1 (List.mem_map_of_mem he)
        simp at this ⊢
        exact fun h => this h.symm
      simp [this]
    | some v =>
      have hm := List.find?_some hf
      have hmem := List.mem_of_find?_eq_some hf
      obtain ⟨e, he, rfl⟩ := List.mem_map.mp hmem
      have : it.estimates.any (fun e => e.1 == val) = true := by
        rw [List.any_eq_true]
        exact ⟨e, he, by simp at hm ⊢; exact hm.symm⟩
      simp [this]

/-- C04 `Queue.SetElectedGasEstimate`, whatever the store returns: an elected estimate is never replaced -/
theorem setElectedGasEstimate_once (mf rq : Bool) (el : UInt64) (sf : Bool)
    (h : setElectedGasEstimate mf rq el sf = .saved) : mf = true ∧ rq = true ∧ el = 0 ∧ sf = false := by
  simp only [setElectedGasEstimate, Id.run] at h
  cases mf <;> cases rq <;> cases sf <;> by_cases he : el = 0 <;> simp_all

/-- non-vacuity -/
example : addSignature true [(8, 1), (12, 2)] 16 3 false true false = .saved := by decide
example : addSignature true [(8, 1), (12, 2)] 12 3 false true false = .dupKey := by decide
example : addSignature true [(8, 1), (12, 2)] 16 2 false true false = .dupVal := by decide
example : addSignature true [(8, 1)] 16 3 false false false = .badSig := by decide
example : setElectedGasEstimate true true 21000 false = .alreadyElected := by decide

end Paloma.TranslatedTie
