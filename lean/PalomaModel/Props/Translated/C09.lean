/-
C09 (and the schedule of C12): the end blockers of x/consensus and x/valset, as translated from /repo's current source, with
every phase standing for an entry in a trace: which phases run at which heights, in which order, and that what one phase
returns never keeps a later one from running — except the one error the valset end blocker hands back.
-/
import PalomaModel.Props.Translated.Lemmas
import PalomaModel.Model.KeepAlive

set_option linter.unusedSimpArgs false
set_option linter.unusedVariables false

namespace Paloma.TranslatedTie
open Paloma.Gen Paloma.Gen.Translated

/-! ## Property theorems -/

theorem translated_consensus_EndBlock : translated "x/consensus.AppModule.EndBlock" = true := by decide
theorem translated_valset_EndBlock : translated "x/valset.AppModule.EndBlock" = true := by decide

/-- C09: the consensus end blocker always comes back with `nil`, and what one phase returns never keeps a later phase from
    running: estimates, then attestations, then — at heights divisible by 50 — the pruning of messages older than 300 blocks -/
theorem consensusEndBlock_always_returns (h : Int) (e a p : Bool) :
    consensusEndBlock h e a p
      = .returned (["estimates", "attestations"] ++ if Int.tmod h 50 == 0 then ["prune older than 300"] else []) := by
  simp only [consensusEndBlock, Id.run]
  cases e <;> cases a <;> cases p <;> by_cases hh : (Int.tmod h 50 == 0) = true <;> simp [hh]

/-- C09 / C12: the valset end blocker: a snapshot build at height 1 and at heights divisible by 50, the grace periods in every
    block, the inactivity sweep at heights above 50 divisible by 10; a failed build or sweep is logged and changes nothing
    about the other phases — the ONE error that fails the block is the grace-period update's -/
theorem valsetEndBlock_phases (h : Int) (b g s : Bool) :
    valsetEndBlock h b g s
      = (if g then EndBlockOutcome.failed else EndBlockOutcome.returned)
          ((if (Int.tmod h 50 == 0 || h == 1) then ["snapshot build"] else []) ++ ["grace periods"] ++
           (if !g && (decide (h > 50) && Int.tmod h 10 == 0) then ["inactivity sweep"] else [])) := by
  simp only [valsetEndBlock, Id.run]
  cases b <;> cases g <;> cases s <;> by_cases h1 : (Int.tmod h 50 == 0 || h == 1) = true <;>
    by_cases h2 : (decide (h > 50) && Int.tmod h 10 == 0) = true <;> simp [h1, h2]

/-- the sweep runs exactly at the heights of the keep-alive model's `isSweepHeight` -/
theorem valsetEndBlock_sweeps_at_model_heights (h : Int) (b s : Bool) :
    "inactivity sweep" ∈ (match valsetEndBlock h b false s with | .returned p => p | .failed p => p)
      ↔ KeepAlive.isSweepHeight h = true := by
  rw [valsetEndBlock_phases]
  have e : Int.tmod h 10 = h % 10 ∨ ¬ (h > 50) := by
    by_cases hp : h > 50
    · left; exact Int.tmod_eq_emod_of_nonneg (by omega)
    · right; exact hp
  unfold KeepAlive.isSweepHeight KeepAlive.sweepMinHeight KeepAlive.sweepPeriod
  by_cases hp : h > 50
  · have e' : Int.tmod h 10 = h % 10 := Int.tmod_eq_emod_of_nonneg (by omega)
    by_cases h1 : (Int.tmod h 50 == 0 || h == 1) = true <;> by_cases h2 : (h % 10 == 0) = true <;> simp [h1, h2, hp, e']
  · by_cases h1 : (Int.tmod h 50 == 0 || h == 1) = true <;> simp [h1, hp]

theorem translated_skyway_EndBlocker : translated "x/skyway.EndBlocker" = true := by decide
theorem translated_evm_EndBlock : translated "x/evm.AppModule.EndBlock" = true := by decide
/-- what the bridge's end blocker does for one active chain at height `h` -/
def skywayChainPhases (h : Int) (v : Nat) : List String :=
  [s!"tally {v}", s!"prune attestations {v}"] ++ if Int.tmod h 50 == 0 then [s!"validator nonces {v}"] else []

theorem foldl_appends {α : Type} (g : List String → α → List String) (k : α → List String)
    (hg : ∀ acc v, g acc v = acc ++ k v) (l : List α) (acc : List String) :
    l.foldl g acc = acc ++ l.flatMap k := by
  induction l generalizing acc with
  | nil => simp
  | cons v vs ih => rw [List.foldl_cons, hg, ih]; simp [List.flatMap_cons, List.append_assoc]

/-- C09 / C02: the bridge's end blocker runs every phase whatever the earlier ones returned: the batch builds, then per active
    chain the tally, the pruning of attestations and (every 50th height) the validator-nonce catch-up, then the gas estimates and
    the time-out sweep — in this order -/
theorem skywayEndBlocker_phases (h : Int) (chains : List Nat) (f : Bool) :
    skywayEndBlocker h chains f
      = .returned (["batches"] ++ chains.flatMap (skywayChainPhases h) ++ ["gas estimates", "timed-out batches"]) := by
  unfold skywayEndBlocker
  simp only [Id.run]
  rw [foldl_appends _ (skywayChainPhases h)]
  · cases f <;> simp [List.append_assoc]
  · intro acc v
    unfold skywayChainPhases
    cases f <;> by_cases hh : (Int.tmod h 50 == 0) = true <;> simp [hh]

/-- C09: the evm end blocker always comes back, and every phase runs whatever the earlier ones returned -/
theorem evmEndBlock_phases (h : Int) (f : Bool) :
    evmEndBlock h f = .returned (["compass deployments", "just-in-time valset updates"]
      ++ (if Int.tmod h 300 == 0 then ["external balances"] else [])
      ++ (if Int.tmod h 10000 == 0 then ["reference blocks", "stale user contracts"] else [])) := by
  simp only [evmEndBlock, Id.run]
  cases f <;> by_cases h1 : (Int.tmod h 300 == 0) = true <;> by_cases h2 : (Int.tmod h 10000 == 0) = true <;> simp [h1, h2]

example : skywayEndBlocker 100 [1, 2] true = .returned ["batches", "tally 1", "prune attestations 1", "validator nonces 1", "tally 2",
    "prune attestations 2", "validator nonces 2", "gas estimates", "timed-out batches"] := by decide
example : evmEndBlock 300 true = .returned ["compass deployments", "just-in-time valset updates", "external balances"] := by decide

theorem translated_skyway_module_EndBlock : translated "x/skyway.AppModule.EndBlock" = true := by decide
theorem translated_paloma_EndBlock : translated "x/paloma.AppModule.EndBlock" = true := by decide
theorem translated_metrix_EndBlock : translated "x/metrix.AppModule.EndBlock" = true := by decide

/-- C09: the bridge module's `EndBlock` — the translation is accepted only while the function still contains its deferred
    `recover` (a required statement of the configuration), and it always returns `nil` -/
theorem skywayModuleEndBlock_returns :
    skywayModuleEndBlock = .returned ["bridge end blocker, under the module's own recover"] := by decide

theorem palomaEndBlock_phases (h : Int) (f : Bool) :
    palomaEndBlock h f = .returned (if Int.tmod h 303 == 0 then ["jail validators without chain accounts"] else []) := by
  simp only [palomaEndBlock, Id.run]
  cases f <;> by_cases h1 : (Int.tmod h 303 == 0) = true <;> simp [h1]

theorem metrixEndBlock_phases (h : Int) :
    metrixEndBlock h = .returned (if Int.tmod h 10 == 0 then ["purge relay metrics", "update relay metrics", "update uptime"] else []) := by
  simp only [metrixEndBlock, Id.run]
  by_cases h1 : (Int.tmod h 10 == 0) = true <;> simp [h1]

/-- non-vacuity -/
example : consensusEndBlock 100 true true true = .returned ["estimates", "attestations", "prune older than 300"] := by decide
example : consensusEndBlock 101 true false false = .returned ["estimates", "attestations"] := by decide
example : valsetEndBlock 60 true false true = .returned ["grace periods", "inactivity sweep"] := by decide
example : valsetEndBlock 100 false true false = .failed ["snapshot build", "grace periods"] := by decide

end Paloma.TranslatedTie
