/-
C01: `skyway/keeper.AddToOutgoingPool` and `RemoveFromOutgoingPoolAndRefund`, as translated from /repo's current source
with every collaborator call standing for "this effect, in this place" (`PoolEffect`): what an accepted send / cancel has
done, in which order, with which amounts — and which failures come after the first effect and therefore rely on the
caller's branched store.
-/
import PalomaModel.Props.Translated.Lemmas
import PalomaModel.Model.Bridge

set_option linter.unusedSimpArgs false
set_option linter.unusedVariables false

namespace Paloma.TranslatedTie
open Paloma.Gen Paloma.Gen.Translated Paloma.Bridge

/-! ## Property theorems -/

theorem translated_AddToOutgoingPool : translated "x/skyway/keeper.Keeper.AddToOutgoingPool" = true := by decide
theorem translated_RemoveFromOutgoingPoolAndRefund : translated "x/skyway/keeper.Keeper.RemoveFromOutgoingPoolAndRefund" = true := by decide

/-- C01 (send): whatever the collaborators return, an accepted transfer has — in this order — updated the usage record,
    locked exactly amount + tax, taken an id, and stored the transfer with that amount and that tax -/
theorem addToOutgoingPool_ok_effects (ai : Bool) (uc : Nat) (tr : Option Int) (amt : Int) (em lf idf tb cf sf cif ef : Bool)
    (done : List PoolEffect)
    (h : addToOutgoingPool ai uc tr amt em lf idf tb cf sf cif ef = .ok done) :
    ∃ tax, tr = some tax ∧ done = [.usage, .lock (amt + tax), .allocId, .store amt tax] := by
  simp only [addToOutgoingPool, Id.run] at h
  cases ai <;> try simp at h
  all_goals (by_cases hu : uc = 0 <;> try simp [hu] at h)
  all_goals (cases tr <;> try simp at h)
  all_goals (cases em <;> try simp at h)
  all_goals (cases lf <;> try simp at h)
  all_goals (cases idf <;> try simp at h)
  all_goals (cases tb <;> try simp at h)
  all_goals (cases cf <;> try simp at h)
  all_goals (cases sf <;> try simp at h)
  all_goals (cases cif <;> try simp at h)
  all_goals (cases ef <;> try simp at h)
  all_goals simp_all

/-- C01 (send): what is locked is what is stored: amount plus the recorded tax -/
theorem addToOutgoingPool_locks_what_it_stores (ai : Bool) (uc : Nat) (tr : Option Int) (amt : Int) (em lf idf tb cf sf cif ef : Bool)
    (done : List PoolEffect) (l a x : Int)
    (h : addToOutgoingPool ai uc tr amt em lf idf tb cf sf cif ef = .ok done)
    (hl : PoolEffect.lock l ∈ done) (hs : PoolEffect.store a x ∈ done) : l = a + x := by
  obtain ⟨tax, _, hd⟩ := addToOutgoingPool_ok_effects _ _ _ _ _ _ _ _ _ _ _ _ _ h
  subst hd
  simp at hl hs
  obtain ⟨rfl, rfl⟩ := hs
  exact hl

/-- C01 (send, failure atomicity): a failure never happens after the transfer was stored unless it is the chain-info
    look-up or the event (codes 9, 10); nothing is locked when the arguments, the limit, the tax or the token look-up fail -/
theorem addToOutgoingPool_failed_effects (ai : Bool) (uc : Nat) (tr : Option Int) (amt : Int) (em lf idf tb cf sf cif ef : Bool)
    (c : Nat) (done : List PoolEffect)
    (h : addToOutgoingPool ai uc tr amt em lf idf tb cf sf cif ef = .failed c done) :
    ((∃ l, PoolEffect.lock l ∈ done) → c = 5 ∨ c = 6 ∨ c = 7 ∨ c = 8 ∨ c = 9 ∨ c = 10) ∧
    ((∃ a x, PoolEffect.store a x ∈ done) → c = 9 ∨ c = 10) := by
  simp only [addToOutgoingPool, Id.run] at h
  cases ai <;> try simp at h
  all_goals (by_cases hu : uc = 0 <;> try simp [hu] at h)
  all_goals (cases tr <;> try simp at h)
  all_goals (cases em <;> try simp at h)
  all_goals (cases lf <;> try simp at h)
  all_goals (cases idf <;> try simp at h)
  all_goals (cases tb <;> try simp at h)
  all_goals (cases cf <;> try simp at h)
  all_goals (cases sf <;> try simp at h)
  all_goals (cases cif <;> try simp at h)
  all_goals (cases ef <;> try simp at h)
  all_goals (obtain ⟨rfl, rfl⟩ := h; simp)

/-- C01 (cancel): an accepted cancellation has removed the transfer and refunded exactly its amount plus its recorded tax,
    to the account that sent it -/
theorem removeFromPoolAndRefund_ok_effects (cz : Bool) (id : UInt64) (sb tf : Bool) (ts s : Nat) (a x : Int)
    (rf st dm rff cif ef : Bool) (done : List PoolEffect)
    (h : removeFromPoolAndRefund cz id sb tf ts s a x rf st dm rff cif ef = .ok done) :
    done = [.remove, .refund (a + x)] ∧ ts = s ∧ tf = true ∧ ¬ id < 1 := by
  simp only [removeFromPoolAndRefund, Id.run] at h
  cases cz <;> try simp at h
  all_goals (by_cases hi : id < 1 <;> try simp [hi] at h)
  all_goals (cases sb <;> try simp at h)
  all_goals (cases tf <;> try simp at h)
  all_goals (by_cases hs : ts = s <;> try simp [hs] at h)
  all_goals (cases rf <;> try simp at h)
  all_goals (cases st <;> try simp at h)
  all_goals (cases dm <;> try simp at h)
  all_goals (cases rff <;> try simp at h)
  all_goals (cases cif <;> try simp at h)
  all_goals (cases ef <;> try simp at h)
  all_goals simp_all

/-- C01 (cancel, failure atomicity): the transfer is only ever removed for its own sender, and a failure after the removal
    (duplicate left, denom look-up, refund transfer, chain info, event: codes 4, 5, 6, 9, 10) relies on the caller's branched store -/
theorem removeFromPoolAndRefund_failed_effects (cz : Bool) (id : UInt64) (sb tf : Bool) (ts s : Nat) (a x : Int)
    (rf st dm rff cif ef : Bool) (c : Nat) (done : List PoolEffect)
    (h : removeFromPoolAndRefund cz id sb tf ts s a x rf st dm rff cif ef = .failed c done) :
    (PoolEffect.remove ∈ done → ts = s ∧ (c = 4 ∨ c = 5 ∨ c = 6 ∨ c = 9 ∨ c = 10)) ∧
    ((∃ r, PoolEffect.refund r ∈ done) → c = 9 ∨ c = 10) := by
  simp only [removeFromPoolAndRefund, Id.run] at h
  cases cz <;> try simp at h
  all_goals (by_cases hi : id = 0 <;> try simp [hi] at h)
  all_goals (cases sb <;> try simp at h)
  all_goals (cases tf <;> try simp at h)
  all_goals (by_cases hs : ts = s <;> try simp [hs] at h)
  all_goals (cases rf <;> try simp at h)
  all_goals (cases st <;> try simp at h)
  all_goals (cases dm <;> try simp at h)
  all_goals (cases rff <;> try simp at h)
  all_goals (cases cif <;> try simp at h)
  all_goals (cases ef <;> try simp at h)
  all_goals (obtain ⟨rfl, rfl⟩ := h; simp_all)

/-! ### the model's transitions are these effects -/
/-- what one effect of the pool functions does to the model state (sender `u`, token `tok`; `usage'` is the usage record
    `UpdateBridgeTransferUsageWithLimit` computed; `t` is the pooled transfer a cancellation is about) -/
def applyEffect (u tok : Nat) (usage' : Option Usage) (t : Tx) (s : St) : PoolEffect → St
  | .usage => { s with usage := updO s.usage tok usage' }
  | .lock a => { s with bal := upd2 s.bal u tok (s.bal u tok - a.toNat), escrow := upd s.escrow tok (s.escrow tok + a.toNat) }
  | .allocId => { s with lastTx := s.lastTx + 1 }
  | .store a x =>
    { s with pool := { id := s.lastTx, sender := u, token := tok, amount := a.toNat, tax := x.toNat } :: s.pool,
             accepted := { id := s.lastTx, sender := u, token := tok, amount := a.toNat, tax := x.toNat } :: s.accepted }
  | .remove => { s with pool := s.pool.filter (fun x => x.id != t.id) }
  | .refund a => { s with bal := upd2 s.bal t.sender t.token (s.bal t.sender t.token + a.toNat),
                          escrow := upd s.escrow t.token (s.escrow t.token - a.toNat),
                          refunded := t :: s.refunded }

/-- C01: the model's accepted send is the translated effects of `AddToOutgoingPool`, applied in the translated order, with the
    tax the model computes -/
theorem sendOk_is_the_translated_effects (s : St) (u tok amt : Nat) (usage' : Option Usage) (t : Tx) :
    ([PoolEffect.usage, .lock ((amt : Int) + (taxOf (s.tax tok) u amt : Nat)), .allocId, .store amt (taxOf (s.tax tok) u amt : Nat)]).foldl
        (applyEffect u tok usage' t) s = sendOk s u tok amt usage' := by
  simp only [List.foldl_cons, List.foldl_nil, applyEffect, sendOk, newTx, Tx.owed]
  have e1 : ((amt : Int) + ((taxOf (s.tax tok) u amt : Nat) : Int)).toNat = amt + taxOf (s.tax tok) u amt := by omega
  simp [e1]

/-- C01: the model's accepted cancellation is the translated effects of `RemoveFromOutgoingPoolAndRefund` for the pooled transfer -/
theorem cancelOk_is_the_translated_effects (s : St) (t : Tx) (usage' : Option Usage) :
    ([PoolEffect.remove, .refund ((t.amount : Int) + (t.tax : Int))]).foldl (applyEffect t.sender t.token usage' t) s = cancelOk s t := by
  simp only [List.foldl_cons, List.foldl_nil, applyEffect, cancelOk, Tx.owed]
  have e1 : ((t.amount : Int) + (t.tax : Int)).toNat = t.amount + t.tax := by omega
  simp [e1]

/-- non-vacuity: a send of 100 with tax 3; the same send failing at the id counter after the lock; a cancel -/
example : addToOutgoingPool false 0 (some 3) 100 false false false false false false false false
    = .ok [.usage, .lock 103, .allocId, .store 100 3] := by decide
example : addToOutgoingPool false 0 (some 3) 100 false false true false false false false false
    = .failed 5 [.usage, .lock 103] := by decide
example : removeFromPoolAndRefund false 7 false true 4 4 100 3 false false false false false false
    = .ok [.remove, .refund 103] := by decide
example : removeFromPoolAndRefund false 7 false true 4 5 100 3 false false false false false false = .failed 7 [] := by decide

end Paloma.TranslatedTie
