/-
C03: `VerifyAuthorisedSignatureDecorator.AnteHandle`, as translated from /repo's current source — the loop over the messages in
scope with its `continue`s and early returns, the creator test, the look-up table rebuilt from `AllowancesByGranter(creator)` for
every message, the granted signers — is the model's `anteOkTx`: a transaction goes on exactly when every message with metadata
is signed by its creator or by an account that creator granted a fee allowance.
-/
import PalomaModel.Props.Translated.Lemmas
import PalomaModel.Model.Auth

set_option linter.unusedSimpArgs false
set_option linter.unusedVariables false

namespace Paloma.TranslatedTie
open Paloma.Gen Paloma.Gen.Translated Paloma.Auth

/-! ## Property theorems -/

theorem translated_AnteHandle : translated "x/paloma.VerifyAuthorisedSignatureDecorator.AnteHandle" = true := by decide

/-- the grantee look-up table the decorator builds from the creator's allowances (nil entries skipped) -/
def lookupTable (l : List (Option Nat)) : List Nat :=
  l.foldl (fun acc (v : Option Nat) => if v.isNone then acc else acc ++ [v.getD 0]) []

theorem lookupTable_aux (l : List (Option Nat)) (init : List Nat) (s : Nat) :
    (l.foldl (fun acc (v : Option Nat) => if v.isNone then acc else acc ++ [v.getD 0]) init).contains s
      = (init.contains s || l.contains (some s)) := by
  induction l generalizing init with
  | nil => simp
  | cons v vs ih =>
    simp only [List.foldl_cons]
    rw [ih]
    cases v with
    | none => simp
    | some x =>
      simp only [Option.isNone_some, Bool.false_eq_true, if_false, Option.getD_some, List.contains_append, List.contains_cons,
        List.contains_nil, Bool.or_false]
      by_cases h : s = x
      · subst h; simp
      · have h' : ¬ (some s = some x) := fun e => h (Option.some.inj e)
        have h2 : (s == x) = false := by simp [h]
        simp [h2, h']

theorem lookupTable_contains (l : List (Option Nat)) (s : Nat) : (lookupTable l).contains s = l.contains (some s) := by
  unfold lookupTable
  rw [lookupTable_aux]
  simp

/-- the signers found in the table -/
theorem granted_fold (lk : List Nat) (signers init : List Nat) :
    signers.foldl (fun acc s => if lk.contains s then acc ++ [s] else acc) init = init ++ signers.filter (fun s => lk.contains s) := by
  induction signers generalizing init with
  | nil => simp
  | cons s ss ih =>
    simp only [List.foldl_cons, List.filter_cons]
    rw [ih]
    cases h : lk.contains s <;> simp

theorem filter_length_lt_one (l : List Nat) (p : Nat → Bool) : (decide (((l.filter p).length : Int) < 1)) = !(l.any p) := by
  induction l with
  | nil => simp
  | cons x xs ih =>
    simp only [List.filter_cons, List.any_cons]
    cases hp : p x
    · simpa using ih
    · simp
      omega

/-- one round of the decorator's loop, for a message with metadata whose creator's allowances are `lst` -/
theorem anteHandle_loop_cons (sim se : Bool) (ms : List AnteMsg) (al : Nat → Option (List (Option Nat))) (err : Nat)
    (a : AnteMsg) (rest : List AnteMsg) (lst : List (Option Nat)) (hm : a.hasMeta = true) (hal : al a.creator = some lst) :
    anteHandle_loop1 sim se ms al err (a :: rest)
      = if a.signers.any (fun v => v == a.creator) then anteHandle_loop1 sim se ms al err rest
        else if a.signers.any (fun s => lst.contains (some s)) then anteHandle_loop1 sim se ms al 0 rest
        else .error (.rejected 3) := by
  have e1 : (List.foldl (fun (grantsLkUp__ : List Nat) (v : Option Nat) =>
      if v.isNone = true then (pure grantsLkUp__ : Id (List Nat)) else (pure (grantsLkUp__ ++ [v.getD 0]) : Id (List Nat))) [] lst) = lookupTable lst := rfl
  have e2 : ∀ lk : List Nat, (List.foldl (fun (grantees__ : List Nat) (signer : Nat) =>
      if lk.contains signer = true then (pure (grantees__ ++ [signer]) : Id (List Nat)) else (pure grantees__ : Id (List Nat))) [] a.signers)
        = a.signers.filter (fun s => lk.contains s) := by
    intro lk
    have := granted_fold lk a.signers []
    simp only [List.nil_append] at this
    rw [← this]
    rfl
  rw [anteHandle_loop1]
  simp only [Id.run, hm, hal, Option.isNone_some, Option.getD_some]
  by_cases hc : a.signers.any (fun v => v == a.creator) = true
  · simp [hc]
  · simp only [hc]
    rw [e1, e2, filter_length_lt_one]
    have hx : (a.signers.any fun s => (lookupTable lst).contains s) = a.signers.any (fun s => lst.contains (some s)) := by
      congr 1
      funext s
      exact lookupTable_contains lst s
    rw [hx]
    cases a.signers.any (fun s => lst.contains (some s)) <;> simp

/-- the decorator's view of a model message (every model message carries metadata) -/
def toAnte (m : Msg) : AnteMsg := { hasMeta := true, creator := m.creator, signers := m.signers }

/-- the fee grants as the keeper reports them: for every creator a list of allowances whose grantees are exactly the granted accounts -/
def Reports (allowances : Nat → Option (List (Option Nat))) (grants : Addr → Addr → Bool) : Prop :=
  ∀ c, ∃ l, allowances c = some l ∧ ∀ s, l.contains (some s) = grants c s

theorem any_beq_eq_contains (l : List Nat) (c : Nat) : (l.any fun v => v == c) = l.contains c := by
  induction l with
  | nil => rfl
  | cons x xs ih =>
    rw [List.any_cons, List.contains_cons, ih]
    congr 1
    exact Bool.beq_comm

theorem any_beq_creator (m : Msg) : (m.signers.any fun v => v == m.creator) = m.signers.contains m.creator :=
  any_beq_eq_contains _ _

/-- the whole loop: it runs through exactly when every message passes the model's `anteOk` -/
theorem anteHandle_loop_spec (sim se : Bool) (ms : List AnteMsg) (al : Nat → Option (List (Option Nat)))
    (grants : Addr → Addr → Bool) (hr : Reports al grants) (l : List Msg) :
    ∀ err, (anteOkTx l grants = true → ∃ e, anteHandle_loop1 sim se ms al err (l.map toAnte) = .ok e) ∧
      (anteOkTx l grants = false → anteHandle_loop1 sim se ms al err (l.map toAnte) = .error (.rejected 3)) := by
  induction l with
  | nil => intro err; simp [anteHandle_loop1, anteOkTx]
  | cons m rest ih =>
    intro err
    obtain ⟨lst, hal, hg⟩ := hr m.creator
    have hgr : (m.signers.any fun s => lst.contains (some s)) = m.signers.any (fun s => grants m.creator s) := by
      congr 1
      funext s
      exact hg s
    rw [List.map_cons, anteHandle_loop_cons sim se ms al err (toAnte m) _ lst rfl hal]
    simp only [toAnte, any_beq_creator, hgr]
    have hall : anteOkTx (m :: rest) grants = (anteOk m grants && anteOkTx rest grants) := by simp [anteOkTx]
    rw [hall]
    unfold anteOk
    cases h1 : m.signers.contains m.creator
    · cases h2 : m.signers.any (fun s => grants m.creator s)
      · simp
      · simpa using ih 0
    · simpa using ih err

/-- C03: the ownership decorator, as translated, hands a transaction on exactly when every message in scope is signed by its
    creator or by an account the creator granted a fee allowance — the model's `anteOkTx` -/
theorem anteHandle_eq (msgs : List Msg) (al : Nat → Option (List (Option Nat))) (grants : Addr → Addr → Bool)
    (hr : Reports al grants) :
    (anteHandle false false (msgs.map toAnte) al = .pass) ↔ anteOkTx msgs grants = true := by
  have sp := anteHandle_loop_spec false false (msgs.map toAnte) al grants hr msgs 0
  simp only [anteHandle, Id.run]
  cases h : anteOkTx msgs grants
  · have := sp.2 h
    simp [this]
  · obtain ⟨e, he⟩ := sp.1 h
    simp [he]

/-- messages that carry no Paloma metadata are not looked at, whatever else the transaction holds -/
theorem anteHandle_skips_foreign (sim se : Bool) (ms : List AnteMsg) (al : Nat → Option (List (Option Nat))) (err : Nat)
    (a : AnteMsg) (rest : List AnteMsg) (hm : a.hasMeta = false) :
    anteHandle_loop1 sim se ms al err (a :: rest) = anteHandle_loop1 sim se ms al err rest := by
  rw [anteHandle_loop1]
  simp [Id.run, hm]

/-- non-vacuity: signed by the creator; signed by a grantee of the creator; signed by a grantee of SOMEBODY ELSE (refused) -/
example : anteHandle false false [⟨true, 5, [5]⟩] (fun _ => some []) = .pass := by decide
example : anteHandle false false [⟨true, 5, [7]⟩] (fun c => if c = 5 then some [some 7] else some []) = .pass := by decide
example : anteHandle false false [⟨true, 6, [6]⟩, ⟨true, 5, [7]⟩] (fun c => if c = 6 then some [some 7] else some []) = .rejected 3 := by decide

end Paloma.TranslatedTie
