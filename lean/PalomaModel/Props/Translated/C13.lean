/-
C13: `skyway/keeper.checkBadSignatureEvidenceInternal`, as translated from /repo's current source, is the model's `evidence`:
the archive of issued checkpoints is consulted first, then the key registry; evidence over a checkpoint the chain issued
never reaches the jailing code.
-/
import PalomaModel.Props.Translated.Lemmas
import PalomaModel.Model.Bridge

set_option linter.unusedSimpArgs false
set_option linter.unusedVariables false

namespace Paloma.TranslatedTie
open Paloma.Gen Paloma.Gen.Translated Paloma.Bridge

/-! ## Property theorems -/

theorem translated_checkBadSignatureEvidenceInternal :
    translated "x/skyway/keeper.Keeper.checkBadSignatureEvidenceInternal" = true := by decide

/-- C13, whatever the collaborators return: evidence is accepted (and its signer jailed, unless jailed already) only for a
    checkpoint the chain never issued and a key that is registered to a validator; a signature over an archived checkpoint
    can never be used against its signer -/
theorem evidence_accepted_requires (ck cf ar sd rc lf fd cs ij jf sf : Bool)
    (h : checkBadSignatureEvidence ck cf ar sd rc lf fd cs ij jf sf = .jailed ∨
         checkBadSignatureEvidence ck cf ar sd rc lf fd cs ij jf sf = .alreadyJailed) :
    ar = false ∧ fd = true ∧ ck = true ∧ sd = true ∧ rc = true := by
  simp only [checkBadSignatureEvidence, Id.run] at h
  cases ck <;> cases cf <;> cases ar <;> cases sd <;> cases rc <;> cases lf <;> cases fd <;> simp at h ⊢

theorem archived_checkpoint_never_jails (ck cf sd rc lf fd cs ij jf sf : Bool) :
    checkBadSignatureEvidence ck cf true sd rc lf fd cs ij jf sf = .rejected 3 ∨
    (∃ c, c < 3 ∧ checkBadSignatureEvidence ck cf true sd rc lf fd cs ij jf sf = .rejected c) := by
  simp only [checkBadSignatureEvidence, Id.run]
  cases ck <;> cases cf <;> simp

/-- reading of the translated outcome as the model's result -/
def evRes : EvidenceOutcome → Res
  | .rejected _ => .rejected
  | _ => .ok

/-- C13 `checkBadSignatureEvidenceInternal` is the model's `evidence`: archive test first, then the key look-up, a jailed
    validator is not jailed again -/
theorem checkBadSignatureEvidence_eq (s : St) (c : Ckpt) (key : Nat) :
    evRes (checkBadSignatureEvidence true false (s.archive.contains c) true true false (lookupKey s.keys key).isSome false
        (match lookupKey s.keys key with | some v => s.jailed.contains v | none => false) false false) = (evidence s c key).2 ∧
    ((checkBadSignatureEvidence true false (s.archive.contains c) true true false (lookupKey s.keys key).isSome false
        (match lookupKey s.keys key with | some v => s.jailed.contains v | none => false) false false = .jailed) ↔
      ∃ v, lookupKey s.keys key = some v ∧ (evidence s c key).1.jailed = v :: s.jailed ∧ s.jailed.contains v = false) := by
  simp only [checkBadSignatureEvidence, Id.run, evidence]
  cases ha : s.archive.contains c
  · cases hk : lookupKey s.keys key with
    | none => simp [evRes]
    | some v =>
      cases hj : s.jailed.contains v
      · have hm : ¬ v ∈ s.jailed := by simpa using hj
        simp [evRes, hj, hm]
      · have hm : v ∈ s.jailed := by simpa using hj
        simp [evRes, hj, hm]
  · simp [evRes]

/-- non-vacuity -/
example : checkBadSignatureEvidence true false false true true false true false false false false = .jailed := by decide
example : checkBadSignatureEvidence true false true true true false true false false false false = .rejected 3 := by decide
example : checkBadSignatureEvidence true false false true true false false false false false false = .rejected 7 := by decide

end Paloma.TranslatedTie
