import PalomaModel.Props.Translated.Lemmas
import PalomaModel.Model.Libcons

set_option linter.unusedSimpArgs false

namespace Paloma.TranslatedTie
open Paloma.Gen

/-! ## Property theorems -/

theorem translated_consensus : translated "util/libcons.consensusPower.consensus" = true := by decide

/-- C04 `consensusPower.consensus` is the model's `Power.consensus` -/
theorem consensus_eq (p : Libcons.Power) :
    Translated.consensus p.sum.isNone ((p.sum.getD 0 : Nat) : Int) (p.total : Int) = p.consensus := by
  cases hs : p.sum with
  | none => simp [Translated.consensus, Libcons.Power.consensus, hs, Id.run, id_pure]
  | some s =>
    simp only [Translated.consensus, Libcons.Power.consensus, hs, Id.run, Option.isNone_some, Option.getD_some]
    simp only [Bool.false_eq_true, ↓reduceIte, id_pure, ge_iff_le]
    congr 1
    apply propext
    constructor <;> intro h <;> omega

example : Translated.consensus false 2 3 = true ∧ Translated.consensus false 1 3 = false ∧ Translated.consensus true 5 3 = false := by decide

end Paloma.TranslatedTie
