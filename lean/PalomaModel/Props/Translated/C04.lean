import PalomaModel.Props.Translated.Lemmas
import PalomaModel.Model.Libcons

set_option linter.unusedSimpArgs false

namespace Paloma.TranslatedTie
open Paloma.Gen
open Paloma

section Lemmas

theorem getD_map_ofNat (l : List Nat) (i : Nat) (h : ∀ x ∈ l, x < 2 ^ 64) :
    ((l.map UInt64.ofNat).getD i 0).toNat = l.getD i 0 := by
  induction l generalizing i with
  | nil => simp
  | cons a as ih =>
    cases i with
    | zero => simp [UInt64.toNat_ofNat', Nat.mod_eq_of_lt (h a (by simp))]
    | succ j =>
      simp only [List.map_cons, List.getD_cons_succ]
      exact ih j (fun x hx => h x (by simp [hx]))

theorem sortAsc_mem (l : List Nat) : ∀ x, x ∈ Libcons.sortAsc l ↔ x ∈ l := by
  have ins : ∀ (a : Nat) (l : List Nat) (x : Nat), x ∈ Libcons.insertSorted a l ↔ x = a ∨ x ∈ l := by
    intro a l
    induction l with
    | nil => intro x; simp [Libcons.insertSorted]
    | cons y ys ih =>
      intro x
      simp only [Libcons.insertSorted]
      split
      · simp
      · simp only [List.mem_cons, ih x]
        constructor
        · rintro (h | h | h)
          · exact Or.inr (Or.inl h)
          · exact Or.inl h
          · exact Or.inr (Or.inr h)
        · rintro (h | h | h)
          · exact Or.inr (Or.inl h)
          · exact Or.inl h
          · exact Or.inr (Or.inr h)
  induction l with
  | nil => intro x; simp [Libcons.sortAsc]
  | cons a as ih => intro x; simp [Libcons.sortAsc, ins, ih x]

theorem sortAsc_length (l : List Nat) : (Libcons.sortAsc l).length = l.length := by
  have ins : ∀ (a : Nat) (l : List Nat), (Libcons.insertSorted a l).length = l.length + 1 := by
    intro a l
    induction l with
    | nil => simp [Libcons.insertSorted]
    | cons y ys ih => simp only [Libcons.insertSorted]; split <;> simp [ih]
  induction l with
  | nil => simp [Libcons.sortAsc]
  | cons a as ih => simp [Libcons.sortAsc, ins, ih]

end Lemmas

/-! ## Property theorems -/

theorem translated_Median : translated "util/palomath.Median" = true := by decide


theorem translated_consensus : translated "util/libcons.consensusPower.consensus" = true := by decide

/-- C04 `consensusPower.consensus` is the model's `Power.consensus` -/
theorem consensus_eq (p : Libcons.Power) :
    Translated.consensus p.sum.isNone ((p.sum.getD 0 : Nat) : Int) (p.total : Int) = p.consensus := by
  cases hs : p.sum with
  | none => simp [Translated.consensus, Libcons.Power.consensus, hs, Id.run, id_pure]
  | some s =>
    simp only [Translated.consensus, Libcons.Power.consensus, hs, Id.run, Option.isNone_some, Option.getD_some]
    simp only [Bool.false_eq_true, ↓reduceIte, id_pure, ge_iff_le]
    congr 1
    apply propext
    constructor <;> intro h <;> omega

/-- C04 `palomath.Median` on `uint64` (the elected gas estimate): with `w` the sorted copy of the submitted values, the Go
    function — empty ↦ 0, odd count ↦ the middle element, even count ↦ `w[c-1] + (w[c]-w[c-1])/2` in wrapping `uint64`
    arithmetic — is the model's `median`, for every list of submitted values -/
theorem median_eq (s : List Nat) (h : ∀ x ∈ s, x < 2 ^ 64) :
    (Translated.median (s.map UInt64.ofNat) ((Libcons.sortAsc s).map UInt64.ofNat)).toNat = Libcons.median s := by
  have hw : ∀ x ∈ Libcons.sortAsc s, x < 2 ^ 64 := fun x hx => h x ((sortAsc_mem s x).mp hx)
  simp only [Translated.median, Libcons.median, Libcons.medianWith, Id.run, List.length_map, sortAsc_length]
  by_cases h0 : s.length < 1
  · have : ((s.length : Int) < 1) := by omega
    simp [h0, this]
  · have h0' : ¬ ((s.length : Int) < 1) := by omega
    have hc : Int.toNat (Int.tdiv (s.length : Int) 2) = s.length / 2 := by
      rw [Int.tdiv_eq_ediv_of_nonneg (by omega)]; omega
    have hc1 : Int.toNat (Int.tdiv (s.length : Int) 2 - 1) = s.length / 2 - 1 := by
      rw [Int.tdiv_eq_ediv_of_nonneg (by omega)]; omega
    have hm : (Int.tmod (s.length : Int) 2 == 0) = (s.length % 2 == 0) := by
      rw [Int.tmod_eq_emod_of_nonneg (by omega)]
      have e : ((s.length : Int) % 2) = ((s.length % 2 : Nat) : Int) := by omega
      rw [e]
      cases s.length % 2 with
      | zero => rfl
      | succ n =>
        have : ¬ ((n : Int) + 1 = 0) := by omega
        simp [this]
    simp only [h0, h0', decide_false, Bool.false_eq_true, ↓reduceIte, hm, hc, hc1]
    by_cases hp : (s.length % 2 == 0) = true
    · simp only [hp, ↓reduceIte, id_pure, Libcons.midpoint, Libcons.U64]
      rw [UInt64.toNat_add, UInt64.toNat_div, UInt64.toNat_sub, getD_map_ofNat _ _ hw, getD_map_ofNat _ _ hw]
      have ha : (Libcons.sortAsc s).getD (s.length / 2 - 1) 0 < 2 ^ 64 := by
        rw [← getD_map_ofNat _ _ hw]; exact UInt64.toNat_lt _
      have hb : (Libcons.sortAsc s).getD (s.length / 2) 0 < 2 ^ 64 := by
        rw [← getD_map_ofNat _ _ hw]; exact UInt64.toNat_lt _
      generalize (Libcons.sortAsc s).getD (s.length / 2 - 1) 0 = a at ha ⊢
      generalize (Libcons.sortAsc s).getD (s.length / 2) 0 = b at hb ⊢
      have h2 : UInt64.toNat 2 = 2 := rfl
      rw [h2]
      simp only [Nat.reducePow] at ha hb ⊢
      omega
    · simp only [hp, Bool.false_eq_true, ↓reduceIte, id_pure]
      exact getD_map_ofNat _ _ hw

example : Translated.consensus false 2 3 = true ∧ Translated.consensus false 1 3 = false ∧ Translated.consensus true 5 3 = false := by decide

end Paloma.TranslatedTie
