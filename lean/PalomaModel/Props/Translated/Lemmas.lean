/-
The translated cores (`Gen/Translated.lean`, regenerated from /repo's current source by `extract/translate.go` on
every run) ARE the functions of the hand-written models, for every input.

Each theorem below is `∀ inputs, Gen.Translated.f inputs = Model.f' inputs`.  The left-hand side is what the Go code
says now, statement by statement; the right-hand side is what the property theorems (Props/C04, C10, C12, C14, C15)
quantify over.  A change of a comparison, a constant, a branch, the order of two tests, an off-by-one in an index —
in /repo — changes the left-hand side and the proof no longer closes; a refactoring that keeps the function's
meaning (renaming, re-ordering independent statements, `a*3` for `3*a`) leaves these proofs intact, which a
transcription comparison would not.

Trusted here: the translator (extract/translate.go, ~400 lines; its output is printed in the evidence file), with
the abstraction it is configured with: int / int64 / time.Duration / sdkmath.Int are `Int` (no wrap-around at 2^63,
no panic at 2^256 — the values are sentence lengths, block counts and share sums far below either), `uint64` is
`UInt64` (wraps, as in Go), a getter on a message is a parameter.
-/
import PalomaModel.Gen.Translated

set_option linter.unusedSimpArgs false

namespace Paloma.TranslatedTie

/-- `pure` of the identity monad is the identity (what is left of an `Id.run do … return x` after unfolding) -/
@[simp] theorem id_pure {α : Type} (a : α) : (pure a : Id α) = a := rfl

theorem uint64_sum_toNat (l : List UInt64) (acc : UInt64) :
    (l.foldl (fun b a => b + a) acc).toNat = (acc.toNat + (l.map UInt64.toNat).sum) % 2 ^ 64 := by
  induction l generalizing acc with
  | nil => simp [Nat.mod_eq_of_lt acc.toNat_lt]
  | cons x xs ih =>
    rw [List.foldl_cons, ih, UInt64.toNat_add, List.map_cons, List.sum_cons]
    omega

theorem find_some_iff_contains (l : List Nat) (x : Nat) : (l.find? (fun a => x == a)).isSome = l.contains x := by
  induction l with
  | nil => simp
  | cons a as ih =>
    simp only [List.find?_cons, List.contains_cons]
    by_cases h : x = a
    · simp [h]
    · have : (x == a) = false := by simp [h]
      simp [this, ih]

/-- the translator's verdict for one configured function -/
def translated (key : String) : Bool := Paloma.Gen.Translated.status.any fun s => s.1 == key && s.2 == "ok"

end Paloma.TranslatedTie
