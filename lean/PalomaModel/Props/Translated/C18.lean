/-
C18: `paloma/keeper.CreateLightNodeClientLicense` and `CreateSaleLightNodeClientLicense`, as translated from /repo's current
source, decide as the model's `createLic` / `pickFunder` do: a licence only for an address with neither a licence nor an
account, coins locked before the licence is stored, the sale paid by the LAST funder that can pay, and the only failures
that leave the freshly written base account behind are the two steps after `SetAccount`.
-/
import PalomaModel.Props.Translated.Lemmas
import PalomaModel.Model.LightNode

set_option linter.unusedSimpArgs false
set_option linter.unusedVariables false

namespace Paloma.TranslatedTie
open Paloma.Gen Paloma.LightNode

/-! ## Property theorems -/

theorem translated_CreateLightNodeClientLicense : translated "x/paloma/keeper.Keeper.CreateLightNodeClientLicense" = true := by decide
theorem translated_CreateSaleLightNodeClientLicense : translated "x/paloma/keeper.Keeper.CreateSaleLightNodeClientLicense" = true := by decide

/-- C18, whatever the collaborators return: a licence is created only for an address that has neither a licence nor an
    account, with a valid amount, after the coins were locked -/
theorem createLicense_done_requires (cb fb av : Bool) (ll : Nat) (clb ha lf sf : Bool)
    (h : Translated.createLicense cb fb av ll clb ha lf sf = .done) :
    cb = false ∧ fb = false ∧ av = true ∧ ll = 1 ∧ clb = false ∧ ha = false ∧ lf = false ∧ sf = false := by
  simp only [Translated.createLicense, Id.run] at h
  cases cb <;> cases fb <;> cases av <;> cases clb <;> cases ha <;> cases lf <;> cases sf <;>
    by_cases h0 : ll = 0 <;> by_cases h1 : ll = 1 <;> simp_all

/-- C18 (failure atomicity of the sale path): the only failures that leave the new base account behind are the funding
    transfer and the licence store — both after `SetAccount`; the caller's branched store is what undoes it -/
theorem createLicense_account_left_behind_only_by (cb fb av : Bool) (ll : Nat) (clb ha lf sf : Bool) (c : Nat)
    (h : Translated.createLicense cb fb av ll clb ha lf sf = .rejected c true) : (c = 5 ∧ lf = true) ∨ (c = 6 ∧ sf = true) := by
  simp only [Translated.createLicense, Id.run] at h
  cases cb <;> cases fb <;> cases av <;> cases clb <;> cases ha <;> cases lf <;> cases sf <;>
    by_cases h0 : ll = 0 <;> by_cases h1 : ll = 1 <;> simp_all

/-- the store look-up of the licence as `CreateLightNodeClientLicense` sees it: 0 found, 1 not found -/
def licLookupOf (s : State) : Option AddrStr → Nat
  | none => 1
  | some c => if (lookupLic s.lics c).isSome then 0 else 1

/-- C18 `CreateLightNodeClientLicense` is the model's `createLic` -/
theorem createLicense_eq (s : State) (creator : Addr) (client : Option AddrStr) (amt : Int) (d : Denom) (months now : Nat) :
    (Translated.createLicense false false (!(decide (amt < 0) || (denomValid d == false))) (licLookupOf s client) client.isNone
        (match client with | some c => decide (s.acct c.addr ≠ .none) | none => false)
        (decide (amt = 0) || decide (spendable s creator d now < amt.toNat)) false = .done)
      ↔ (createLic s creator client amt d months now).isSome = true := by
  simp only [Translated.createLicense, Id.run, createLic, licLookupOf]
  cases client with
  | none =>
    by_cases ha : amt < 0 <;> cases hd : denomValid d <;> simp [ha, hd]
  | some c =>
    by_cases ha : amt < 0
    · simp [ha]
    · cases hd : denomValid d
      · simp [ha, hd]
      · cases hl : (lookupLic s.lics c).isSome
        · by_cases hacc : s.acct c.addr = .none
          · by_cases hz : amt = 0
            · simp [ha, hd, hl, hacc, hz]
            · by_cases hsp : spendable s creator d now < amt.toNat
              · simp [ha, hd, hl, hacc, hz, hsp]
              · simp [ha, hd, hl, hacc, hz, hsp]
          · simp [ha, hd, hl, hacc]
        · simp [ha, hd, hl]

/-- one round of the funder loop -/
def pickStep (l : List Bool) (r : Option Nat) (i : Nat) : Option Nat := if l.getD i false then some i else r

/-- the funder loop: the LAST index whose account holds the coin -/
def lastTrue (l : List Bool) : Option Nat := (List.range l.length).foldl (pickStep l) none



theorem foldl_last_spec (l : List Bool) (n : Nat) :
    ((List.range n).foldl (pickStep l) none = none → ∀ j, j < n → l.getD j false = false) ∧
    (∀ f, (List.range n).foldl (pickStep l) none = some f →
        f < n ∧ l.getD f false = true ∧ ∀ j, f < j → j < n → l.getD j false = false) := by
  induction n with
  | zero => simp
  | succ k ih =>
    rw [List.range_succ, List.foldl_append, List.foldl_cons, List.foldl_nil]
    by_cases hk : l.getD k false = true
    · have e : pickStep l ((List.range k).foldl (pickStep l) none) k = some k := by unfold pickStep; rw [if_pos hk]
      rw [e]
      constructor
      · intro hc; cases hc
      · intro f hf
        cases hf
        exact ⟨by omega, hk, fun j h1 h2 => by omega⟩
    · have hk' : l.getD k false = false := by simpa using hk
      have e : pickStep l ((List.range k).foldl (pickStep l) none) k = (List.range k).foldl (pickStep l) none := by
        unfold pickStep; rw [if_neg hk]
      rw [e]
      constructor
      · intro hr j hj
        by_cases hjk : j = k
        · subst hjk; exact hk'
        · exact ih.1 hr j (by omega)
      · intro f hf
        obtain ⟨a, b, c⟩ := ih.2 f hf
        refine ⟨by omega, b, fun j h1 h2 => ?_⟩
        by_cases hjk : j = k
        · subst hjk; exact hk'
        · exact c j h1 (by omega)

/-- C18 `CreateSaleLightNodeClientLicense`: a sale completes only with a fee granter and funders on record, is paid by the
    LAST funder whose balance covers the coin, after the licence was created and the fee allowance granted -/
theorem createSaleLicense_done (fg fl : Nat) (hb : List Bool) (cc : Nat → Nat) (clb : Bool) (gc f : Nat)
    (h : Translated.createSaleLicense fg fl hb cc clb gc = .done f) :
    fg = 0 ∧ fl = 0 ∧ lastTrue hb = some f ∧ hb.getD f false = true ∧ (∀ j, f < j → j < hb.length → hb.getD j false = false) ∧
      cc f = 0 ∧ clb = false ∧ gc = 0 := by
  have hps : (fun (funder__ : Option Nat) i => if hb[i]?.getD false = true then some i else funder__) = pickStep hb := by
    funext r i
    simp [pickStep]
  simp only [Translated.createSaleLicense, Id.run] at h
  by_cases h1 : fg = 0
  · by_cases h2 : fl = 0
    · by_cases h3 : hb.length = 0
      · have : hb = [] := List.eq_nil_of_length_eq_zero h3
        simp [h1, h2, this] at h
      · have h3 : ¬ hb = [] := fun e => h3 (by simp [e])
        cases hl : (List.range hb.length).foldl (pickStep hb) none with
        | none => simp [h1, h2, h3, hps, hl] at h
        | some g =>
          have sp := (foldl_last_spec hb hb.length).2 g hl
          by_cases h4 : cc g = 0
          · cases clb
            · by_cases h5 : gc = 0
              · simp [h1, h2, h3, hps, hl, h4, h5] at h
                subst h
                refine ⟨h1, h2, ?_, sp.2.1, sp.2.2, h4, rfl, h5⟩
                unfold lastTrue
                exact hl
              · simp [h1, h2, h3, hps, hl, h4, h5] at h
            · simp [h1, h2, h3, hps, hl, h4] at h
          · simp [h1, h2, h3, hps, hl, h4] at h
    · by_cases h2' : fl = 1 <;> simp [h1, h2, h2'] at h
  · by_cases h1' : fg = 1 <;> simp [h1, h1'] at h

/-- which funders can pay, in list order -/
def canPay (s : State) (amt : Int) (fs : List Addr) : List Bool := fs.map fun f => decide (amt ≤ (s.bal f bondDenom : Int))

/-- the model's `pickFunder` names the account at the last index that can pay -/
theorem pickFunder_spec (s : State) (amt : Int) (fs : List Addr) :
    (pickFunder s amt fs = none → ∀ j, j < fs.length → (canPay s amt fs).getD j false = false) ∧
    (∀ g, pickFunder s amt fs = some g → ∃ f, f < fs.length ∧ fs.getD f 0 = g ∧ (canPay s amt fs).getD f false = true ∧
        ∀ j, f < j → j < fs.length → (canPay s amt fs).getD j false = false) := by
  induction fs with
  | nil => simp [pickFunder]
  | cons a rest ih =>
    simp only [pickFunder]
    cases hr : pickFunder s amt rest with
    | some g =>
      obtain ⟨f, hf, hg, ht, hlast⟩ := ih.2 g hr
      constructor
      · intro hc; cases hc
      · intro g' hg'
        cases hg'
        refine ⟨f + 1, by simp; omega, by simpa using hg, by simpa [canPay] using ht, ?_⟩
        intro j h1 h2
        cases j with
        | zero => omega
        | succ j' =>
          have := hlast j' (by omega) (by simp at h2; omega)
          simpa [canPay] using this
    | none =>
      have hnone := ih.1 hr
      by_cases hp : amt ≤ (s.bal a bondDenom : Int)
      · simp only [hp, if_true]
        constructor
        · intro hc; cases hc
        · intro g' hg'
          cases hg'
          refine ⟨0, by simp, by simp, by simp [canPay, hp], ?_⟩
          intro j h1 h2
          cases j with
          | zero => omega
          | succ j' =>
            have := hnone j' (by simp at h2; omega)
            simpa [canPay] using this
      · simp only [hp, if_false]
        constructor
        · intro _ j hj
          cases j with
          | zero => simp [canPay, hp]
          | succ j' =>
            have := hnone j' (by simp at hj; omega)
            simpa [canPay] using this
        · intro g' hg'; cases hg'

/-- C18: the funder the translated loop picks is the model's `pickFunder` -/
theorem lastTrue_is_pickFunder (s : State) (amt : Int) (fs : List Addr) :
    (lastTrue (canPay s amt fs)).map (fun f => fs.getD f 0) = pickFunder s amt fs := by
  have hlen : (canPay s amt fs).length = fs.length := by simp [canPay]
  have sp := foldl_last_spec (canPay s amt fs) (canPay s amt fs).length
  have pf := pickFunder_spec s amt fs
  unfold lastTrue
  cases hl : (List.range (canPay s amt fs).length).foldl (pickStep (canPay s amt fs)) none with
  | none =>
    have allf := sp.1 hl
    cases hp : pickFunder s amt fs with
    | none => rfl
    | some g =>
      obtain ⟨f, hf, _, ht, _⟩ := pf.2 g hp
      have := allf f (by omega)
      rw [this] at ht; cases ht
  | some f =>
    obtain ⟨hf, ht, hlast⟩ := sp.2 f hl
    cases hp : pickFunder s amt fs with
    | none =>
      have := pf.1 hp f (by omega)
      rw [this] at ht; cases ht
    | some g =>
      obtain ⟨f', hf', hg, ht', hlast'⟩ := pf.2 g hp
      have : f = f' := by
        rcases Nat.lt_trichotomy f f' with h | h | h
        · have := hlast f' h (by omega); rw [this] at ht'; cases ht'
        · exact h
        · have := hlast' f h (by omega); rw [this] at ht; cases ht
      subst this
      simpa using hg

/-- non-vacuity -/
example : Translated.createLicense false false true 1 false false false false = .done := by decide
example : Translated.createLicense false false true 1 false false true false = .rejected 5 true := by decide
example : Translated.createLicense false false true 0 false false false false = .rejected 11 false := by decide
example : Translated.createSaleLicense 0 0 [true, false, true, false] (fun _ => 0) false 0 = .done 2 := by decide

end Paloma.TranslatedTie
