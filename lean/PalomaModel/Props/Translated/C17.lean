/-
C17: the payload rule of `scheduler/keeper.ScheduleNow` and the caller suffix of `evm/keeper.injectSenderIntoPayload` /
`zeroPadBytes`, as translated from /repo's current source, ARE the model functions the C17 theorems quantify over.
-/
import PalomaModel.Props.Translated.Lemmas
import PalomaModel.Model.Scheduler

set_option linter.unusedSimpArgs false

namespace Paloma.TranslatedTie
open Paloma.Gen Paloma.Scheduler

/-! ## Property theorems -/

theorem translated_ScheduleNow : translated "x/scheduler/keeper.Keeper.ScheduleNow" = true := by decide
theorem translated_zeroPadBytes : translated "x/evm/keeper.zeroPadBytes" = true := by decide
theorem translated_injectSenderIntoPayload : translated "x/evm/keeper.injectSenderIntoPayload" = true := by decide

theorem pad_lemma (n : Nat) (input : List UInt8) (h : input.length ≤ n) :
    (List.replicate n (0 : UInt8)).take (n - input.length) ++ input.take (n - (n - input.length))
      ++ (List.replicate n (0 : UInt8)).drop ((n - input.length) + min input.length (n - (n - input.length)))
      = List.replicate (n - input.length) 0 ++ input := by
  have k : n - (n - input.length) = input.length := by omega
  have m : min input.length input.length = input.length := by omega
  have d : n - (n - input.length + input.length) = 0 := by omega
  have t : min (n - input.length) n = n - input.length := by omega
  simp [k, m, d, t, List.take_replicate, List.drop_replicate]

theorem zeroPadBytes_eq (input : List UInt8) :
    Translated.zeroPadBytes input 32 = if input.length > 32 then none else some (leftPad32 input) := by
  simp only [Translated.zeroPadBytes, Id.run, leftPad32]
  by_cases h : input.length > 32
  · have : ((input.length : Int) > 32) := by omega
    simp [h, this, id_pure]
  · have h' : ¬ ((input.length : Int) > 32) := by omega
    have e : Int.toNat (32 - (input.length : Int)) = 32 - input.length := by omega
    simp only [h, h', decide_false, Bool.false_eq_true, if_false, e, List.length_replicate, id_pure]
    have e32 : Int.toNat 32 = 32 := rfl
    rw [e32, pad_lemma 32 input (by omega)]

theorem injectSenderIntoPayload_eq (caller payload : List UInt8) :
    Translated.injectSenderIntoPayload caller payload = inject payload caller := by
  simp only [Translated.injectSenderIntoPayload, Id.run, zeroPadBytes_eq, inject]
  by_cases h : caller.length > 32 <;> simp [h, id_pure]

/-- the request as `ScheduleNow` sees it: nil / length of `in` -/
def supNil : Supplied → Bool
  | .absent => true
  | _ => false

/-- `len(in)` is positive exactly for a supplied non-empty document -/
def supNonEmpty : Supplied → Bool
  | .bad => true
  | .bytes _ => true
  | _ => false

theorem scheduleNow_eq (j : Job) (sup : Supplied) (inLen : Int) (fails : Bool)
    (hlen : decide (inLen > 0) = supNonEmpty sup) :
    Translated.scheduleNow true j.modifiable (supNil sup) inLen fails
      = if cannotModify j sup then .rejected 2
        else if fails then .rejected 3
        else .scheduled (j.modifiable && !supNil sup) := by
  obtain ⟨_, _, _, _, _, _, modifiable, _⟩ := j
  simp only [Translated.scheduleNow, Id.run, cannotModify, hlen]
  cases modifiable <;> cases sup <;> cases fails <;> simp [supNonEmpty, supNil, id_pure]

theorem scheduleNow_no_job (m n : Bool) (l : Int) (f : Bool) :
    Translated.scheduleNow false m n l f = .rejected 1 := by
  simp [Translated.scheduleNow, Id.run, id_pure]

/-- the payload document a request that got past the payload rule runs with, given the flag `ScheduleNow` computed -/
def docOf (j : Job) (sup : Supplied) (useSupplied : Bool) : Option Bytes :=
  if useSupplied then
    match sup with
    | .bytes b => some b
    | .absent => some j.payload
    | _ => none
  else some j.payload

/-- C17: the translated payload choice is the model's `effective` -/
theorem docOf_eq_effective (j : Job) (sup : Supplied) (h : cannotModify j sup = false) :
    docOf j sup (j.modifiable && !supNil sup) = effective j sup := by
  obtain ⟨_, _, _, _, _, _, modifiable, _⟩ := j
  cases modifiable <;> cases sup <;> simp_all [docOf, effective, supNil, cannotModify]

/-- C17 (clause "the caller-supplied payload if and only if the job was created as payload-modifiable"), on the
    translated code: a request is scheduled with the supplied document only for a modifiable job -/
theorem supplied_only_if_modifiable (j : Job) (sup : Supplied) (inLen : Int) (fails : Bool)
    (hlen : decide (inLen > 0) = supNonEmpty sup)
    (h : Translated.scheduleNow true j.modifiable (supNil sup) inLen fails = .scheduled true) : j.modifiable = true := by
  rw [scheduleNow_eq j sup inLen fails hlen] at h
  by_cases c : cannotModify j sup = true
  · simp [c] at h
  · cases fails
    · simp [c] at h; exact h.1
    · simp [c] at h

/-- non-vacuity: a modifiable job run with supplied bytes, a fixed job run without -/
example : Translated.scheduleNow true true false 4 false = .scheduled true := by decide
example : Translated.scheduleNow true false true 0 false = .scheduled false := by decide
example : Translated.scheduleNow true false false 4 false = .rejected 2 := by decide
example : Translated.injectSenderIntoPayload [1, 2] [9] = some ([9] ++ List.replicate 30 0 ++ [1, 2]) := by decide

end Paloma.TranslatedTie
