import PalomaModel.Props.Translated.Lemmas
import PalomaModel.Model.Valset

set_option linter.unusedSimpArgs false

namespace Paloma.TranslatedTie
open Paloma.Gen

/-! ## Property theorems -/

theorem translated_isEnoughToReachConsensus : translated "x/evm/keeper.isEnoughToReachConsensus" = true := by decide

/-- C10 `isEnoughToReachConsensus`: the uint64 running sum against `thresholdForConsensus` is the model's `enough`
    (powers are the `uint64` entries of the valset; the model keeps them as naturals below 2^64) -/
theorem isEnoughToReachConsensus_eq (v : Valset.Valset) (h : ∀ m ∈ v.members, m.2 < 2 ^ 64) :
    Translated.isEnoughToReachConsensus (v.members.map fun m => UInt64.ofNat m.2) = Valset.enough v := by
  have hsum : ((v.members.map fun m => UInt64.ofNat m.2).map UInt64.toNat).sum = Valset.powerSum v := by
    unfold Valset.powerSum
    congr 1
    rw [List.map_map]
    apply List.map_congr_left
    intro m hm
    simp [UInt64.toNat_ofNat', Nat.mod_eq_of_lt (h m hm)]
  simp only [Translated.isEnoughToReachConsensus, Id.run, Valset.enough, Valset.thresholdForConsensus]
  rw [List.forIn_pure_yield_eq_foldl]
  simp only [bind, pure, ge_iff_le, UInt64.le_iff_toNat_le]
  rw [uint64_sum_toNat, hsum]
  simp

example : Translated.isEnoughToReachConsensus [2863311529, 1] = true ∧ Translated.isEnoughToReachConsensus [2863311529] = false := by decide

end Paloma.TranslatedTie
