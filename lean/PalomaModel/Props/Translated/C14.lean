import PalomaModel.Props.Translated.Lemmas
import PalomaModel.Model.Queue

set_option linter.unusedSimpArgs false

namespace Paloma.TranslatedTie
open Paloma.Gen

/-! ## Property theorems -/

theorem translated_HasGasEstimate : translated "x/consensus/keeper/filters.HasGasEstimate" = true := by decide

theorem translated_IsNotBlockedByValset : translated "x/consensus/keeper/filters.IsNotBlockedByValset" = true := by decide

theorem translated_IsUnprocessed : translated "x/consensus/keeper/filters.IsUnprocessed" = true := by decide

theorem translated_calculateUptime : translated "x/metrix/keeper.calculateUptime" = true := by decide

/-- C14 the relay filters `IsNotBlockedByValset && IsUnprocessed` are the model's `pass1` -/
theorem pass1_eq (pend : Option Nat) (it : Queue.Item) (hp : ∀ p, pend = some p → p < 2 ^ 64) (hi : it.id < 2 ^ 64) :
    (Translated.isNotBlockedByValset (pend.toList.map UInt64.ofNat) (UInt64.ofNat it.id) &&
      Translated.isUnprocessed it.pub it.err) = Queue.pass1 pend it := by
  cases pend with
  | none => simp [Translated.isNotBlockedByValset, Translated.isUnprocessed, Queue.pass1, Id.run, id_pure]
  | some p =>
    have hp' := hp p rfl
    simp only [Translated.isNotBlockedByValset, Translated.isUnprocessed, Queue.pass1, Id.run, Option.toList_some,
      List.map_cons, List.map_nil, List.isEmpty_cons, List.length_cons, List.length_nil, List.headD_cons]
    simp [id_pure, UInt64.le_iff_toNat_le, UInt64.toNat_ofNat', Nat.mod_eq_of_lt hp', Nat.mod_eq_of_lt hi]

/-- C14 `HasGasEstimate` is the estimate half of the model's `pass2` -/
theorem hasGasEstimate_eq (it : Queue.Item) (he : it.elected < 2 ^ 64) :
    Translated.hasGasEstimate it.reqEst (UInt64.ofNat it.elected) = (!it.reqEst || decide (it.elected > 0)) := by
  cases hr : it.reqEst <;>
    simp [Translated.hasGasEstimate, Id.run, id_pure, hr, UInt64.lt_iff_toNat_lt, UInt64.toNat_ofNat', Nat.mod_eq_of_lt he]

/-- metrix `calculateUptime` computes a ratio only for `1 ≤ window` and `0 ≤ missed ≤ window` (otherwise score 0) -/
theorem calculateUptime_guard (window missed : Int) :
    Translated.calculateUptimeGuard window missed = decide (1 ≤ window ∧ 0 ≤ missed ∧ missed ≤ window) := by
  simp only [Translated.calculateUptimeGuard, Id.run]
  by_cases a : window < 1 <;> by_cases b : missed < 0 <;> by_cases c : missed > window <;>
    simp [a, b, c, id_pure] <;> omega

example : Translated.isNotBlockedByValset [7] 8 = false ∧ Translated.isNotBlockedByValset [7] 7 = true ∧ Translated.isNotBlockedByValset [] 9 = true := by decide

end Paloma.TranslatedTie
