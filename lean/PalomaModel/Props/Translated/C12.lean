import PalomaModel.Props.Translated.Lemmas
import PalomaModel.Model.KeepAlive

set_option linter.unusedSimpArgs false

namespace Paloma.TranslatedTie
open Paloma.Gen

/-! ## Property theorems -/

theorem translated_deriveJailSentence : translated "x/valset/keeper.deriveJailSentence" = true := by decide

theorem translated_calculateJailSentenceResetThreshold : translated "x/valset/keeper.calculateJailSentenceResetThreshold" = true := by decide

/-- C12 `deriveJailSentence`: the Go search loop over `jailSentences` is the model's sentence schedule -/
theorem deriveJailSentence_eq (d : Int) : Translated.deriveJailSentence d = KeepAlive.deriveSentence d := by
  simp only [Translated.deriveJailSentence, KeepAlive.deriveSentence, KeepAlive.minute, Id.run, List.find?_cons, List.find?_nil]
  by_cases h1 : d < 60000000000
  · simp [h1]
  · by_cases h2 : d < 300000000000
    · have : d < 5 * 60000000000 := by omega
      simp [h1, h2, this]
    · by_cases h3 : d < 900000000000
      · have a : ¬ d < 5 * 60000000000 := by omega
        have b : d < 15 * 60000000000 := by omega
        simp [h1, h2, h3, a, b]
      · by_cases h4 : d < 3600000000000
        · have a : ¬ d < 5 * 60000000000 := by omega
          have b : ¬ d < 15 * 60000000000 := by omega
          have c : d < 60 * 60000000000 := by omega
          simp [h1, h2, h3, h4, a, b, c]
        · have a : ¬ d < 5 * 60000000000 := by omega
          have b : ¬ d < 15 * 60000000000 := by omega
          have c : ¬ d < 60 * 60000000000 := by omega
          by_cases h5 : d < 86400000000000 <;> simp [h1, h2, h3, h4, h5, a, b, c]

/-- C12 `calculateJailSentenceResetThreshold` -/
theorem resetThreshold_eq (d : Int) :
    Translated.calculateJailSentenceResetThreshold d = KeepAlive.resetThreshold d := by
  simp [Translated.calculateJailSentenceResetThreshold, KeepAlive.resetThreshold, KeepAlive.resetThresholdFloor,
    KeepAlive.resetThresholdDivisor, KeepAlive.minute, Id.run, id_pure]

example : Translated.deriveJailSentence 60000000000 = 300000000000 := by decide

end Paloma.TranslatedTie
