import PalomaModel.Props.Translated.Lemmas
import PalomaModel.Model.KeepAlive

set_option linter.unusedSimpArgs false

namespace Paloma.TranslatedTie
open Paloma.Gen

/-! ## Property theorems -/

theorem translated_deriveJailSentence : translated "x/valset/keeper.deriveJailSentence" = true := by decide

theorem translated_calculateJailSentenceResetThreshold : translated "x/valset/keeper.calculateJailSentenceResetThreshold" = true := by decide

/-- C12 `deriveJailSentence`: the Go search loop over `jailSentences` is the model's sentence schedule -/
theorem deriveJailSentence_eq (d : Int) : Translated.deriveJailSentence d = KeepAlive.deriveSentence d := by
  simp only [Translated.deriveJailSentence, KeepAlive.deriveSentence, KeepAlive.minute, Id.run, List.find?_cons, List.find?_nil]
  by_cases h1 : d < 60000000000
  · simp [h1]
  · by_cases h2 : d < 300000000000
    · have : d < 5 * 60000000000 := by omega
      simp [h1, h2, this]
    · by_cases h3 : d < 900000000000
      · have a : ¬ d < 5 * 60000000000 := by omega
        have b : d < 15 * 60000000000 := by omega
        simp [h1, h2, h3, a, b]
      · by_cases h4 : d < 3600000000000
        · have a : ¬ d < 5 * 60000000000 := by omega
          have b : ¬ d < 15 * 60000000000 := by omega
          have c : d < 60 * 60000000000 := by omega
          simp [h1, h2, h3, h4, a, b, c]
        · have a : ¬ d < 5 * 60000000000 := by omega
          have b : ¬ d < 15 * 60000000000 := by omega
          have c : ¬ d < 60 * 60000000000 := by omega
          by_cases h5 : d < 86400000000000 <;> simp [h1, h2, h3, h4, h5, a, b, c]

/-- C12 `calculateJailSentenceResetThreshold` -/
theorem resetThreshold_eq (d : Int) :
    Translated.calculateJailSentenceResetThreshold d = KeepAlive.resetThreshold d := by
  simp [Translated.calculateJailSentenceResetThreshold, KeepAlive.resetThreshold, KeepAlive.resetThresholdFloor,
    KeepAlive.resetThresholdDivisor, KeepAlive.minute, Id.run, id_pure]

example : Translated.deriveJailSentence 60000000000 = 300000000000 := by decide


/-! ### the inactivity sweep -/

open Paloma.Gen.Translated Paloma.KeepAlive

theorem translated_JailInactiveValidators : translated "x/valset/keeper.Keeper.JailInactiveValidators" = true := by decide
/-- the sweep hands a validator to `Jail` exactly when it is bonded or unbonding, not alive, out of its grace period and not jailed -/
def handed (v : SweepVal) : Bool := v.active && !v.alive && !v.inGrace && !v.jailed

/-- no collaborator fails for this validator (`ErrValidatorNotInKeepAlive` is not a failure: such a validator is simply not alive) -/
def clean (v : SweepVal) : Prop := v.addrErr = false ∧ (v.aliveErr = 0 ∨ v.aliveErr = 1) ∧ v.jailedErr = false

theorem sweep_loop_spec (vals : List SweepVal) (l : List SweepVal) (hc : ∀ v ∈ l, clean v) :
    ∀ (err : Nat) (coll jn : List Nat), ∃ e,
      jailInactiveValidators_loop1 vals err coll jn l = .ok (e, coll, jn ++ (l.filter handed).map (·.id)) := by
  induction l with
  | nil => intro err coll jn; exact ⟨err, by simp [jailInactiveValidators_loop1]⟩
  | cons v rest ih =>
    intro err coll jn
    obtain ⟨ha, hal, hj⟩ := hc v (by simp)
    have ih' := ih (fun x hx => hc x (by simp [hx]))
    obtain ⟨id, active, addrErr, aliveErr, alive, inGrace, jailedErr, jailed⟩ := v
    simp only at ha hal hj
    subst ha hj
    rw [jailInactiveValidators_loop1]
    rcases hal with h0 | h1
    · subst h0
      cases active <;> cases alive <;> cases inGrace <;> cases jailed <;>
        simp only [Id.run, List.filter_cons, handed] <;>
        first
          | (simpa [List.append_assoc] using ih' err coll jn)
          | (simpa [List.append_assoc] using ih' 0 coll jn)
          | (simpa [List.append_assoc] using ih' 0 coll (jn ++ [id]))
    · subst h1
      cases active <;> cases alive <;> cases inGrace <;> cases jailed <;>
        simp only [Id.run, List.filter_cons, handed] <;>
        first
          | (simpa [List.append_assoc] using ih' err coll jn)
          | (simpa [List.append_assoc] using ih' 1 coll jn)
          | (simpa [List.append_assoc] using ih' 0 coll jn)
          | (simpa [List.append_assoc] using ih' 0 coll (jn ++ [id]))

/-- C12 `JailInactiveValidators`: with no collaborator failing, the validators handed to `Jail` are, in list order, exactly the
    bonded / unbonding ones that are not alive, out of grace and not jailed -/
theorem jailInactiveValidators_eq (l : List SweepVal) (hc : ∀ v ∈ l, clean v) :
    jailInactiveValidators l = .swept ((l.filter handed).map (·.id)) := by
  obtain ⟨e, he⟩ := sweep_loop_spec l l hc 0 [] []
  simp [jailInactiveValidators, Id.run, he]

/-- what the sweep reads about validator `v` in state `s` at height `h` -/
def viewOf (s : St) (h : Int) (id : Nat) (v : Val) : SweepVal :=
  { id := id, active := (v.status == .bonded || v.status == .unbonding), addrErr := false, aliveErr := 0,
    alive := isAlive s v.addr h, inGrace := inGrace s v.addr h, jailedErr := false, jailed := isJailed s v.addr }

/-- C12: one round of the model's sweep jails the validator exactly when the translated loop hands it to `Jail` -/
theorem sweepStep_eq_handed (s : St) (h t : Int) (id : Nat) (v : Val) :
    sweepStep h t s v = if handed (viewOf s h id v) then (jail s t v.addr).1 else s := by
  unfold sweepStep handed viewOf
  cases (v.status == .bonded || v.status == .unbonding) <;> cases isAlive s v.addr h <;> cases inGrace s v.addr h <;>
    cases isJailed s v.addr <;> simp

/-- a responsive validator, one in its grace period, a jailed one and an unbonded one are never handed to `Jail` -/
theorem never_handed (v : SweepVal) (h : v.alive = true ∨ v.inGrace = true ∨ v.jailed = true ∨ v.active = false) : handed v = false := by
  unfold handed
  rcases h with h | h | h | h <;> simp [h]

/-- non-vacuity: of four unjailed validators — responsive, silent, silent but in grace, silent but unbonded — the sweep hands
    over the second only -/
example : jailInactiveValidators [⟨1, true, false, 0, true, false, false, false⟩, ⟨2, true, false, 1, false, false, false, false⟩,
    ⟨3, true, false, 0, false, true, false, false⟩, ⟨4, false, false, 0, false, false, false, false⟩] = .swept [2] := by decide

end Paloma.TranslatedTie
